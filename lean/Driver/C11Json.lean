/- JSON glue shared by the C11 / C12 drivers: specs, DNA trees, oracle draws (see harness/c11.py). -/
import PgModel.Json
import PgModel.Geno.Spec
import PgModel.Geno.Enum
import PgModel.Geno.Valid
open Pg Pg.Geno

namespace Pg.GenoJson

def keyOfJ : J → Option Key
  | .str s => some (.s s)
  | .int i => some (.i i)
  | _ => none

def litOfJ : J → Option Lit
  | .str s => some (.s s)
  | .int i => some (.i i)
  | .obj [("f", .arr [.int n, .int d])] => some (.f n d.toNat)
  | _ => none

def infoOfJ (j : J) : Option Info := do
  let name ← match j.get? "name" with
    | some (.str s) => some (some s)
    | some .null | none => some none
    | _ => none
  let loc ← match j.get? "loc" with
    | some (.arr ks) => ks.mapM keyOfJ
    | some .null | none => some []
    | _ => none
  let lits ← match j.get? "lits" with
    | some (.arr ls) => (ls.mapM litOfJ).map some
    | some .null | none => some none
    | _ => none
  pure { name := name, loc := loc, lits := lits }

def ratOfJ : J → Option (Int × Nat)
  | .arr [.int n, .int d] => some (n, d.toNat)
  | _ => none

mutual
  partial def pointOfJ (j : J) : Option Point := do
    let info ← infoOfJ j
    match j.getStr? "t" with
    | some "c" =>
      let k ← j.getNat? "k"
      let cands ← (← j.getArr? "cands").mapM spaceElemsOfJ
      let d ← j.getBool? "d"
      let s ← j.getBool? "s"
      pure (.choices k cands d s info)
    | some "f" =>
      let (ln, ld) ← (j.get? "lo").bind ratOfJ
      let (hn, hd) ← (j.get? "hi").bind ratOfJ
      pure (.float ln ld hn hd info)
    | some "u" => pure (.custom info)
    | _ => none
  partial def spaceElemsOfJ (j : J) : Option Space := do
    match j with
    | .arr ps => ps.mapM pointOfJ
    | _ => none
end

def specOfJ (j : J) : Option Spec :=
  match j.getStr? "t" with
  | some "s" => ((j.get? "elems").bind spaceElemsOfJ).map .space
  | _ => (pointOfJ j).map .point

def valOfJ : J → Option Val
  | .null => some .none
  | .int i => some (.int i)
  | .str s => some (.str s)
  | .obj [("f", .arr [.int n, .int d])] => some (.flt n d.toNat)
  | _ => none

def valToJ : Val → J
  | .none => .null
  | .int i => .int i
  | .str s => .str s
  | .flt n d => .obj [("f", .arr [.int n, .int d])]

/-- Raw tree `[value, [children]]`, built bottom-up through the constructor normalisation, like
`DNA(value, [DNA(...), ...])` in Python. -/
partial def dnaOfJ : J → Option DNA
  | .arr [v, .arr cs] => do
    let v ← valOfJ v
    let cs ← cs.mapM dnaOfJ
    pure (DNA.mk' v cs)
  | _ => none

partial def dnaToJ : DNA → J
  | .mk v cs => .arr [valToJ v, .arr (cs.map dnaToJ)]

def optDnaToJ : Option DNA → J
  | none => .null
  | some d => dnaToJ d

def drawOfJ : J → Option Draw
  | .obj [("sample", .arr xs)] => (xs.mapM J.asNat?).map .sample
  | .obj [("randint", .int v)] => some (.randint v)
  | .obj [("uniform", .arr [.int n, .int d])] => some (.uniform n d.toNat)
  | _ => none

def ordToJ : Option Ordering → J
  | none => .str "error"
  | some .lt => .int (-1)
  | some .eq => .int 0
  | some .gt => .int 1

def nextToJ : Option (Option DNA) → J
  | none => .str "error"
  | some none => .null
  | some (some d) => dnaToJ d

def bad (msg : String) : J := .obj [("bad_request", .str msg)]

end Pg.GenoJson
