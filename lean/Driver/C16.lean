/- Line-protocol driver for the C16 interleaving model (see harness/c16.py for the request shapes).

   {"op":"run","n":3,"groups":[0,0,1],"max":5|null,"cfg":null|{flag:bool,…},
    "acts":[[w,"name"],[w,"measure",r],[w,"nextAtomic",{"t":2}],…]}
   → {"accepted":bool,"at":index|null,"why":…,"state":{…}}
   `cfg: null` means the flags generated from the current source (PgGen/C16Lock.lean).
   An optional trailing object on an action is an expectation about the worker afterwards:
   {"t":k} — it holds / works on trial k;  {"fin":true} — its generator returned. -/
import PgModel.Json
import PgModel.Conc
import PgGen.C16Lock
open Pg Pg.C16

def actOfName (name : String) (arg : Option Int) : Option Act :=
  match name, arg with
  | "gocAtomic", _ => some .gocAtomic | "gocTest", _ => some .gocTest
  | "gocRegister", _ => some .gocRegister | "gocFetch", _ => some .gocFetch
  | "setupAtomic", _ => some .setupAtomic | "setupTest", _ => some .setupTest | "setupDo", _ => some .setupDo
  | "checkActive", _ => some .checkActive
  | "nextAtomicErr", _ => some .nextAtomicErr | "createAtomicErr", _ => some .createAtomicErr
  | "poll", _ => some .poll
  | "nextAtomic", _ => some .nextAtomic | "nextLatest", _ => some .nextLatest | "nextStatus", _ => some .nextStatus
  | "createAtomic", _ => some .createAtomic | "ctCheck", _ => some .ctCheck | "ctNew", _ => some .ctNew
  | "ctAppend", _ => some .ctAppend | "ctPendR", _ => some .ctPendR | "ctPendW", _ => some .ctPendW
  | "ctLatest", _ => some .ctLatest
  | "release", _ => some .release
  | "measure", some r => some (.measure r) | "amStatus", _ => some .amStatus | "amAppend", some r => some (.amAppend r)
  | "doneAtomic", _ => some .doneAtomic | "doneStatus", _ => some .doneStatus | "doneSet", _ => some .doneSet
  | "doneFinal", _ => some .doneFinal | "fbSkip", _ => some .fbSkip
  | "fbAtomic", _ => some .fbAtomic | "fbRead", _ => some .fbRead | "fbWrite", _ => some .fbWrite
  | "skipAtomic", _ => some .skipAtomic | "skipStatus", _ => some .skipStatus | "skipSet", _ => some .skipSet
  | "completeAtomic", _ => some .completeAtomic | "cpComplR", _ => some .cpComplR | "cpComplW", _ => some .cpComplW
  | "cpPendR", _ => some .cpPendR | "cpPendW", _ => some .cpPendW | "cpInf", _ => some .cpInf
  | "cpBestR", _ => some .cpBestR | "cpBestW", _ => some .cpBestW
  | "endLoop", _ => some .endLoop
  | _, _ => none

structure Expect where
  t : Option Nat := none
  fin : Bool := false          -- the generator returned (budget / end_loop / exhausted proposer)
  crash : Bool := false        -- the proposer raised a transient error: the worker left pg.sample
  snap : Option J := none      -- what poll_result(name) / the algorithm show at this point

def parseAct (j : J) : Option (Nat × Act × Expect) := do
  let xs ← j.asArr?
  match xs with
  | w :: name :: rest =>
    let w ← w.asNat?
    let name ← name.asStr?
    let arg := match rest with
      | (.int i) :: _ => some i
      | _ => none
    let ex : Expect := match rest.getLast? with
      | some (.obj kvs) =>
        let o := J.obj kvs
        { t := o.getNat? "t", fin := (o.getBool? "fin").getD false,
          crash := (o.getBool? "crash").getD false, snap := o.get? "snap" }
      | _ => {}
    let a ← actOfName name arg
    pure (w, a, ex)
  | _ => none

def cfgOfJ (j : J) : LockCfg :=
  let g (k : String) (d : Bool) := (j.getBool? k).getD d
  { getOrCreateAtomic := g "getOrCreateAtomic" cfgNow.getOrCreateAtomic
    algoSetupAtomic := g "algoSetupAtomic" cfgNow.algoSetupAtomic
    nextReuseAtomic := g "nextReuseAtomic" cfgNow.nextReuseAtomic
    createTrialAtomic := g "createTrialAtomic" cfgNow.createTrialAtomic
    completeTrialAtomic := g "completeTrialAtomic" cfgNow.completeTrialAtomic
    doneCheckAndSetAtomic := g "doneCheckAndSetAtomic" cfgNow.doneCheckAndSetAtomic
    skipCheckAndSetAtomic := g "skipCheckAndSetAtomic" cfgNow.skipCheckAndSetAtomic
    addMeasurementAtomic := g "addMeasurementAtomic" cfgNow.addMeasurementAtomic
    generatorCountersAtomic := g "generatorCountersAtomic" cfgNow.generatorCountersAtomic
    evolutionProposeAtomic := g "evolutionProposeAtomic" cfgNow.evolutionProposeAtomic
    evolutionFeedbackAtomic := g "evolutionFeedbackAtomic" cfgNow.evolutionFeedbackAtomic
    proposeBeforeBookkeeping := g "proposeBeforeBookkeeping" cfgNow.proposeBeforeBookkeeping }

def cfgToJ (c : LockCfg) : J :=
  .obj [("getOrCreateAtomic", .bool c.getOrCreateAtomic), ("algoSetupAtomic", .bool c.algoSetupAtomic),
        ("nextReuseAtomic", .bool c.nextReuseAtomic), ("createTrialAtomic", .bool c.createTrialAtomic),
        ("completeTrialAtomic", .bool c.completeTrialAtomic),
        ("doneCheckAndSetAtomic", .bool c.doneCheckAndSetAtomic),
        ("skipCheckAndSetAtomic", .bool c.skipCheckAndSetAtomic),
        ("addMeasurementAtomic", .bool c.addMeasurementAtomic),
        ("generatorCountersAtomic", .bool c.generatorCountersAtomic),
        ("evolutionProposeAtomic", .bool c.evolutionProposeAtomic),
        ("evolutionFeedbackAtomic", .bool c.evolutionFeedbackAtomic),
        ("proposeBeforeBookkeeping", .bool c.proposeBeforeBookkeeping)]

def pcTrial : PC → Option Nat
  | .hold t | .amOk t | .doneOk t | .doneFin t | .doneFb t | .doneFbW t | .doneCp t | .skipOk t
  | .cpComplW t | .cpPendR t | .cpPendW t | .cpInf t | .cpBestR t | .cpBestW t => some t
  | .ctAppend t | .ctPendR t | .ctPendW t | .ctLatest t => some t
  | _ => none

/-- Public snapshot of the registered study and the algorithm's counters:
[[ [id, completed, infeasible, final|null] … ], PENDING, COMPLETED, infeasible, best|null, proposals, feedbacks]. -/
def snapJ (s : State) : J :=
  match s.registry.bind (s.studies[·]?) with
  | none => .null
  | some st =>
    .arr [.arr (st.trials.map fun t => J.arr [.int t.id, .bool t.completed, .bool t.infeasible, J.ofOptInt t.final]),
          .int st.numPending, .int st.numCompleted, .int st.numInfeasible,
          (match st.best with | some b => J.int b | none => J.null),
          .int s.algo.numProposals, .int s.algo.numFeedbacks]

def expectOk (s : State) (w : Nat) (ex : Expect) : Bool :=
  let pc := (s.workers w).pc
  (match ex.t with
   | some t => pcTrial pc == some t
   | none => true) &&
  (if ex.fin then pc == .finished || pc == .exhausted else true) &&
  (if ex.crash then pc == .crashed else true) &&
  (match ex.snap with
   | some j => j == snapJ s
   | none => true)

def optNatJ : Option Nat → J
  | some n => .int n
  | none => .null

def trialJ (t : Trial) : J :=
  .obj [("id", .int t.id), ("group", .int t.group), ("completed", .bool t.completed),
        ("infeasible", .bool t.infeasible), ("final", J.ofOptInt t.final),
        ("nmeas", .int t.meas.length)]

def studyJ (st : Study) : J :=
  .obj [("trials", .arr (st.trials.map trialJ)), ("pending", .int st.numPending),
        ("completed", .int st.numCompleted), ("infeasible", .int st.numInfeasible),
        ("best", optNatJ st.best), ("active", .bool st.active)]

def stateJ (s : State) : J :=
  .obj [("registry", optNatJ s.registry), ("studies", .arr (s.studies.map studyJ)),
        ("proposals", .int s.algo.numProposals), ("feedbacks", .int s.algo.numFeedbacks),
        ("fedBack", J.ofNats s.algo.fedBack), ("setups", .int s.algo.setups),
        ("inv_ok", .bool (checkState s)),
        ("pcs", .arr ((List.range s.nWorkers).map fun i => J.str (reprStr (s.workers i).pc)))]

/-- Runs the log; stops at the first action that is not enabled or whose expectation fails. -/
def runLog (cfg : LockCfg) (s : State) (i : Nat) : List (Nat × Act × Expect) → State × Option (Nat × String)
  | [] => (s, none)
  | (w, a, ex) :: rest =>
    match exec cfg s w a with
    | some s' =>
      if expectOk s' w ex then runLog cfg s' (i + 1) rest
      else (s', some (i, "expectation failed after " ++ reprStr a ++ " of worker " ++ toString w ++
                          ": pc = " ++ reprStr (s'.workers w).pc))
    | none => (s, some (i, "action " ++ reprStr a ++ " of worker " ++ toString w ++
                            " is not enabled: pc = " ++ reprStr (s.workers w).pc))

def bad (msg : String) : J := .obj [("bad_request", .str msg)]

def handle (j : J) : J :=
  match j.getStr? "op" with
  | some "cfg" => .obj [("cfg", cfgToJ cfgNow), ("proposeCounterAtomic", .bool proposeCounterAtomicNow),
                        ("studyLockNestingOk", .bool studyLockNestingOkNow),
                        ("bestGuardOk", .bool bestGuardOkNow)]
  | some "run" =>
    match j.getNat? "n", (j.getArr? "groups").bind (·.mapM J.asNat?), (j.getArr? "acts") with
    | some n, some groups, some acts =>
      match acts.mapM parseAct with
      | none => bad "acts"
      | some as =>
        let maxT := j.getNat? "max"
        let space := j.getNat? "space"
        let cfg := match j.get? "cfg" with
          | some (.obj kvs) => cfgOfJ (.obj kvs)
          | _ => cfgNow
        let s0 := init n (fun i => groups.getD i 0) maxT space
        let (s, err) := runLog cfg s0 0 as
        match err with
        | none => .obj [("accepted", .bool true), ("at", .null), ("state", stateJ s)]
        | some (i, why) => .obj [("accepted", .bool false), ("at", .int i), ("why", .str why), ("state", stateJ s)]
    | _, _, _ => bad "run"
  | _ => bad "op"

def main : IO Unit := driverLoop handle
