/- Line-protocol driver for the C08 model (see harness/c08.py for the request shapes). -/
import PgModel.Json
import PgGen.C08Guards
open Pg Pg.C08

def flagsOfJ (j : J) : Flags :=
  let s := (j.getBool? "s").getD false
  { sealed := s, accW := (j.getBool? "w").getD true, inner := (j.getBool? "ci").getD s }

partial def treeOfJ : J → Option Tree
  | .null => some (.leaf .none)
  | .int i => some (.leaf (.int i))
  | .str s => some (.leaf (.str s))
  | j => do
    let kind ← j.getStr? "k"
    let items ← j.getArr? "items"
    let f := flagsOfJ j
    match kind with
    | "list" => do
      let xs ← items.mapM treeOfJ
      pure (.list f xs)
    | "dict" | "obj" => do
      let kvs ← items.mapM (fun it => match it with
        | .arr [.str k, v] => (treeOfJ v).map (fun t => (k, t))
        | _ => none)
      if kind == "dict" then pure (.dict f kvs)
      else pure (.obj f ((j.getNat? "c").getD 0) kvs)
    | _ => none

partial def treeToJ : Tree → J
  | .leaf .none => .null
  | .leaf .missing => .null
  | .leaf (.int i) => .int i
  | .leaf (.str s) => .str s
  | .dict f items => .obj [("k", .str "dict"), ("s", .bool f.sealed), ("w", .bool f.accW),
      ("items", .arr (items.map fun (k, t) => .arr [.str k, treeToJ t]))]
  | .list f items => .obj [("k", .str "list"), ("s", .bool f.sealed), ("w", .bool f.accW),
      ("items", .arr (items.map treeToJ))]
  | .obj f c attrs => .obj [("k", .str "obj"), ("s", .bool f.sealed), ("w", .bool f.accW), ("ci", .bool f.inner),
      ("c", .int c),
      ("items", .arr (attrs.map fun (k, t) => .arr [.str k, treeToJ t]))]

def keyOfJ : J → Option Key
  | .str s => some (.s s)
  | .int i => if i ≥ 0 then some (.i i.toNat) else none
  | _ => none

def pathOfJ (j : J) : Option (List Key) := j.asArr? >>= (·.mapM keyOfJ)

def scopeOfJ : J → Option (Option Bool)
  | .null => some none
  | .bool b => some (some b)
  | _ => none

def scopesOfJ (j : J) (k : String) : Option (List (Option Bool)) :=
  match j.get? k with
  | none => some []
  | some a => a.asArr? >>= (·.mapM scopeOfJ)

def atomOfJ : J → Option Atom
  | .null => some .none
  | .int i => some (.int i)
  | .str s => some (.str s)
  | _ => none

def kvsOfJ (j : J) : Option (List (String × Tree)) :=
  j.asArr? >>= (·.mapM fun it => match it with
    | .arr [.str k, v] => (treeOfJ v).map (fun t => (k, t))
    | _ => none)

def pairsOfJ (j : J) : Option (List (List Key × Tree)) :=
  j.asArr? >>= (·.mapM fun it => match it with
    | .arr [p, v] => do
      let p ← pathOfJ p
      let t ← treeOfJ v
      pure (p, t)
    | _ => none)

def opOfJ (j : J) : Option Op := do
  let name ← j.getStr? "name"
  let v := (j.get? "v").bind treeOfJ
  let vs := (j.get? "vs").bind (fun a => a.asArr? >>= (·.mapM treeOfJ))
  let i := j.getInt? "i"
  let k := j.getStr? "key"
  match name with
  | "l_setitem" => do pure (.lSetItem (← i) (← v))
  | "l_setslice" => do pure (.lSetSlice (j.getInt? "a") (j.getInt? "b") (j.getInt? "step") (← vs))
  | "l_delslice" => pure (.lDelSlice (j.getInt? "a") (j.getInt? "b") (j.getInt? "step"))
  | "l_delitem" => do pure (.lDelItem (← i))
  | "l_iadd" => do pure (.lIAdd (← vs))
  | "l_imul" => do pure (.lIMul (← i))
  | "l_append" => do pure (.lAppend (← v))
  | "l_extend" => do pure (.lExtend (← vs))
  | "l_insert" => do pure (.lInsert (← i) (← v))
  | "l_pop" => do pure (.lPop (← i))
  | "l_remove" => do pure (.lRemove (← (j.get? "atom").bind atomOfJ))
  | "l_clear" => pure .lClear
  | "l_sort" => pure .lSort
  | "l_reverse" => pure .lReverse
  | "d_setitem" => do pure (.dSetItem (← k) (← v))
  | "d_delitem" => do pure (.dDelItem (← k))
  | "d_ior" => do pure (.dIOr (← (j.get? "kvs").bind kvsOfJ))
  | "d_update" => do pure (.dUpdate (← (j.get? "kvs").bind kvsOfJ))
  | "d_setdefault" => do pure (.dSetDefault (← k) (← v))
  | "d_pop" => do pure (.dPop (← k) ((j.getBool? "has_default").getD false))
  | "d_popitem" => pure .dPopItem
  | "d_clear" => pure .dClear
  | "d_setattr" => do pure (.dSetAttr (← k) (← v))
  | "d_delattr" => do pure (.dDelAttr (← k))
  | "o_setattr" => do pure (.oSetAttr (← k) (← v))
  | "o_delattr" => do pure (.oDelAttr (← k))
  | "rebind" => do pure (.rebind (← (j.get? "pairs").bind pairsOfJ))
  | "sym_setparent" => pure .symSetParent
  | "sym_setpath" => pure .symSetPath
  | _ => none

def errName : Err → String
  | .perm => "perm" | .index => "index" | .key => "key" | .value => "value" | .type => "type" | .attr => "attr"

def resToJ : Res → J
  | .ok => .str "ok"
  | .err e => .str (errName e)

def bad (msg : String) : J := .obj [("bad_request", .str msg)]

/-- One step of a history on one tree: a call, a `seal`, a `sym_seal`, or a `set_accessor_writable`. -/
def runStep (t : Tree) (j : J) : Option (Tree × J) := do
  let recv ← (j.get? "recv").bind pathOfJ
  match j.getStr? "kind" with
  | some "call" => do
    let ss ← scopesOfJ j "sealed_scopes"
    let as ← scopesOfJ j "acc_scopes"
    let env : Env := { sealedStack := ss.reverse, accStack := as.reverse }
    let op ← (j.get? "call").bind opOfJ
    let r := stepAt genGuard env t recv op
    pure (r.1, resToJ r.2)
  | some "seal" => do
    let b ← j.getBool? "b"
    pure (mapAt (sealT genSealShortCircuit b) t recv, .str "ok")
  | some "sym_seal" => do
    let b ← j.getBool? "b"
    pure (mapAt (symSeal b) t recv, .str "ok")
  | some "set_acc" => do
    let b ← j.getBool? "b"
    pure (mapAt (setAccW b) t recv, .str "ok")
  | _ => none

/-- A step of thread `t`: entering / leaving a scope changes that thread's stacks only. -/
def scopeStep (envs : List Env) (j : J) : Option (List Env) := do
  let t ← j.getNat? "t"
  let which ← j.getStr? "which"
  let env ← envs[t]?
  let act ← match j.getStr? "kind", which with
    | some "enter", "sealed" => (j.get? "v").bind scopeOfJ |>.map ScopeAct.enterSealed
    | some "enter", "acc" => (j.get? "v").bind scopeOfJ |>.map ScopeAct.enterAcc
    | some "leave", "sealed" => some ScopeAct.leaveSealed
    | some "leave", "acc" => some ScopeAct.leaveAcc
    | _, _ => none
  pure (envs.set t (env.act act))

/-- In a threaded case the scopes of a call are those of the thread that makes it. -/
def withThreadScopes (envs : List Env) (j : J) : J :=
  match j.getNat? "t" >>= (envs[·]?) with
  | some env =>
    let enc := fun (st : List (Option Bool)) => J.arr (st.reverse.map fun v => match v with
      | some b => J.bool b
      | none => J.null)
    match j with
    | .obj kvs => .obj (kvs.filter (fun kv => kv.1 != "sealed_scopes" && kv.1 != "acc_scopes") ++
        [("sealed_scopes", enc env.sealedStack), ("acc_scopes", enc env.accStack)])
    | j => j
  | none => j

/-- The forest: the tree the caller holds and, optionally, the external value its `pg.Ref`
elements refer to (`"in": "ext"` addresses a node of that one). Nothing done to one tree reaches
the other. `envs`: the scopes of the threads (threaded cases). -/
def runSteps : List Env → Tree → Option Tree → List J → Option (List J)
  | _, _, _, [] => some []
  | envs, t, ext, s :: rest =>
    if s.getStr? "kind" == some "enter" || s.getStr? "kind" == some "leave" then do
      let envs' ← scopeStep envs s
      let more ← runSteps envs' t ext rest
      let out := [("res", J.str "ok"), ("tree", treeToJ t)] ++ (match ext with
        | some e => [("ext", treeToJ e)]
        | none => [])
      pure (.obj out :: more)
    else do
    let s := withThreadScopes envs s
    let inExt := s.getStr? "in" == some "ext"
    let (t', ext', r) ← (if inExt then do
        let e ← ext
        let (e', r) ← runStep e s
        pure (t, some e', r)
      else do
        let (t', r) ← runStep t s
        pure (t', ext, r))
    let more ← runSteps envs t' ext' rest
    let out := [("res", r), ("tree", treeToJ t')] ++ (match ext' with
      | some e => [("ext", treeToJ e)]
      | none => [])
    pure (.obj out :: more)

def guardRecToJ (r : GuardRec) : J :=
  .obj [("overridden", .bool r.overridden), ("baseMutates", .bool r.baseMutates),
        ("directSealed", .bool r.directSealed), ("directAcc", .bool r.directAcc),
        ("hasRaw", .bool r.hasRaw), ("delegates", J.ofStrs (r.delegates.map EP.name)),
        ("accScope", .bool r.accScope), ("precheck", .bool r.precheck)]

def handle (j : J) : J :=
  match j.getStr? "op" with
  | some "run" =>
    match (j.get? "tree").bind treeOfJ, j.getArr? "steps" with
    | some t, some steps =>
      let nthreads := (j.getNat? "threads").getD 0
      match runSteps (List.replicate nthreads ⟨[], []⟩) t ((j.get? "ext").bind treeOfJ) steps with
      | some outs => .obj [("steps", .arr outs)]
      | none => bad "run: step"
    | _, _ => bad "run"
  | some "tables" =>
    .obj [("guards", .obj (EP.all.map fun ep => (ep.name, guardRecToJ (genGuard ep)))),
          ("safe", .obj (EP.all.map fun ep => (ep.name, .bool (safe genGuard 4 ep)))),
          ("structure", .bool (structureMatches genGuard)),
          ("seal_short_circuit", .bool genSealShortCircuit),
          ("known_unguarded", J.ofStrs (knownUnguarded.map EP.name))]
  | _ => bad "op"

def main : IO Unit := driverLoop handle
