/- Line-protocol driver for the C06 model (see harness/c06.py for the request shapes). -/
import PgModel.Json
import PgGen.C06Order
open Pg Pg.C06

def strOfJ (s : String) : Str := s.toList.map Char.toNat
def strToJ (s : Str) : J := .str (String.ofList (s.map Char.ofNat))

def atomOfJ : J → Option Atom
  | .arr [.str "m"] => some .missing
  | .arr [.str "n"] => some .none
  | .arr [.str "b", .int i] => some (.num ⟨.bool, i, 0⟩)
  | .arr [.str "i", .int i] => some (.num ⟨.int, i, 0⟩)
  | .arr [.str "f", .int m, .int e] => if e ≥ 0 then some (.num ⟨.float, m, e.toNat⟩) else none
  | .arr [.str "s", .str s] => some (.str (strOfJ s))
  | _ => none

def atomToJ : Atom → J
  | .missing => .arr [.str "m"]
  | .none => .arr [.str "n"]
  | .num ⟨.bool, m, _⟩ => .arr [.str "b", .int m]
  | .num ⟨.int, m, _⟩ => .arr [.str "i", .int m]
  | .num ⟨.float, m, e⟩ => .arr [.str "f", .int m, .int e]
  | .str s => .arr [.str "s", strToJ s]

mutual
  partial def valOfJ : J → Option Val
    | .arr [.str "l", .int s, .arr xs] => do
      let ys ← xs.mapM valOfJ
      pure (.list (s != 0) ys)
    | .arr [.str "t", .arr xs] => do
      let ys ← xs.mapM valOfJ
      pure (.tuple ys)
    | .arr [.str "d", .int s, .arr kvs] => do
      let ys ← kvs.mapM itemOfJ
      pure (.dict (s != 0) ys)
    | .arr [.str "o", .int c, .arr kvs] => do
      let ys ← kvs.mapM itemOfJ
      if c ≥ 0 then pure (.obj c.toNat ys) else none
    | j => (atomOfJ j).map .atom
  partial def itemOfJ : J → Option (Atom × Val)
    | .arr [k, v] => do
      let a ← atomOfJ k
      let w ← valOfJ v
      pure (a, w)
    | _ => none
end

partial def termToJ : HTerm → J
  | .atom a => .arr [.str "a", atomToJ a]
  | .cls .list => .arr [.str "c", .str "list"]
  | .cls .dict => .arr [.str "c", .str "dict"]
  | .cls (.user c) => .arr [.str "c", .int c]
  | .reh t => .arr [.str "r", termToJ t]
  | .tup xs => .arr [.str "t", .arr (xs.map termToJ)]
  | .fset xs => .arr [.str "f", .arr (xs.map termToJ)]

def errToJ : Err → J
  | .typeError => .str "TypeError"
  | .recursionError => .str "RecursionError"

def resToJ : Except Err Bool → J
  | .ok b => .bool b
  | .error e => errToJ e

def bad (msg : String) : J := .obj [("bad_request", .str msg)]

def matrix (vals : List Val) (f : Val → Val → J) : J :=
  .arr (vals.map fun x => .arr (vals.map fun y => f x y))

def handle (j : J) : J :=
  match (j.getArr? "quals").bind (·.mapM J.asStr?), (j.getArr? "vals").bind (·.mapM valOfJ) with
  | some quals, some vals =>
    -- the order key of class c (fix F286): its __qualname__, NUL, the decimal id of the class
    let ids := ((j.getArr? "ids").bind (·.mapM J.asStr?)).getD []
    let dyn := ((j.getArr? "dyn").getD []).map fun d => match d with | .int i => i != 0 | .bool b => b | _ => false
    let env : Env := { rankOf := Gen.rankOf,
                       qual := fun c => strOfJ (quals.getD c "?") ++ [0] ++ strOfJ (ids.getD c ""),
                       dyn := fun c => dyn.getD c false }
    .obj [("eq", matrix vals fun x y => .bool (eq x y)),
          ("ne", matrix vals fun x y => .bool (ne x y)),
          ("lt", matrix vals fun x y => resToJ (symLt env x y)),
          ("gt", matrix vals fun x y => resToJ (symGt env x y)),
          -- the literal transcription of `base.lt` (keys sorted when the dict branch is reached)
          ("lt_direct", matrix vals fun x y => resToJ (ltDirect env x y)),
          ("hash", .arr (vals.map fun x => match hashTerm x with
                                            | .ok t => termToJ t
                                            | .error e => errToJ e))]
  | _, _ => bad "quals/vals"

def main : IO Unit := driverLoop handle
