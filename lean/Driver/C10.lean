/- Line-protocol driver for the C10 models (see harness/c10.py for the request shapes).
   Strings travel as arrays of code points; keys are JSON ints (int keys) or code-point arrays
   (str keys); values: null | int | {"s": cps} | {"d": [[key, val], …]} | {"l": [val, …]}. -/
import PgModel.Json
import PgModel.KeyPath
import PgModel.KeyPathSet
import PgModel.Hier
open Pg Pg.C10

def strOfJ (j : J) : Option (List Char) := do
  let xs ← j.asArr?
  xs.mapM (fun x => x.asNat?.map Char.ofNat)

def strToJ (s : List Char) : J := .arr (s.map (fun c => J.int (Int.ofNat c.toNat)))

def keyOfJ : J → Option Key
  | .int z => some (.i z)
  | j => (strOfJ j).map .s

def keyToJ : Key → J
  | .i z => .int z
  | .s s => strToJ s

def pathOfJ (j : J) : Option Path := do
  let xs ← j.asArr?
  xs.mapM keyOfJ

def pathToJ (p : Path) : J := .arr (p.map keyToJ)

def errJ (e : Err) : J := .obj [("err", .str e.name)]

def exceptJ {α : Type} (f : α → J) : Except Err α → J
  | .ok a => f a
  | .error e => errJ e

/-- digit-class table sent by the harness: [[codepoint, cls]], cls = -1 digit-only, d ≥ 0 decimal d;
characters not in the table get the ASCII class. -/
def dcOfJ (j : Option J) : DigitClass :=
  let tbl : List (Nat × DClass) := match j.bind J.asArr? with
    | some xs => xs.filterMap fun x =>
        match x with
        | .arr [.int cp, .int cls] =>
          some (cp.toNat, if cls < 0 then DClass.digitOnly else DClass.dec cls.toNat)
        | _ => none
    | none => []
  fun c => match tbl.find? (fun p => p.1 == c.toNat) with
    | some (_, cls) => cls
    | none => asciiClass c

def operandOfJ (j : J) : Option Operand :=
  match j with
  | .obj [("path", p)] => (pathOfJ p).map .path
  | .obj [("str", s)] => (strOfJ s).map .str
  | .obj [("int", .int z)] => some (.int z)
  | .obj [("none", _)] => some .none
  | .obj [("other", _)] => some .other
  | _ => none

partial def valOfJ : J → Option Val
  | .null => some (.leaf .none)
  | .int z => some (.leaf (.int z))
  | .obj [("s", s)] => (strOfJ s).map (fun x => .leaf (.str x))
  | .obj [("m", _)] => some (.leaf .missing)
  | .obj [("b", .bool b)] => some (.leaf (.bool b))
  | .obj [("d", .arr kvs)] => do
    let items ← kvs.mapM fun kv =>
      match kv with
      | .arr [k, v] => do
        let k' ← keyOfJ k
        let v' ← valOfJ v
        pure (k', v')
      | _ => none
    pure (.dict items)
  | .obj [("l", .arr xs)] => do
    let items ← xs.mapM valOfJ
    pure (.list items)
  | _ => none

partial def valToJ : Val → J
  | .leaf .none => .null
  | .leaf (.int z) => .int z
  | .leaf (.str s) => .obj [("s", strToJ s)]
  | .leaf .missing => .obj [("m", .bool true)]
  | .leaf (.bool b) => .obj [("b", .bool b)]
  | .dict items => .obj [("d", .arr (items.map fun kv => .arr [keyToJ kv.1, valToJ kv.2]))]
  | .list items => .obj [("l", .arr (items.map valToJ))]

def bad (msg : String) : J := .obj [("bad_request", .str msg)]

/-! ### KeyPathSet histories -/

def buildSet (paths : List Path) : Except Err Trie :=
  paths.foldlM (fun t p => (Trie.add false t (escP p)).map (·.1)) Trie.empty

def pathsJ (t : Trie) : J := .arr (t.toList.map (fun p => pathToJ (unescP p)))

/-- One operation on set `a` with `b` as the other operand. Returns (new a, result). -/
def setOp (a b : Trie) (kind : Option String) (j : J) : Option (Except Err (Trie × J)) :=
  let path := ((j.get? "p").bind pathOfJ).map escP
  match kind, path with
  | some "add", some p => some ((Trie.add false a p).map fun r => (r.1, .bool r.2))
  | some "add_ii", some p => some ((Trie.add true a p).map fun r => (r.1, .bool r.2))
  | some "remove", some p => some ((Trie.remove a p).map fun r => (r.1, .bool r.2))
  | some "contains", some p => some ((Trie.contains a p).map fun r => (a, .bool r))
  | some "has_prefix", some p => some ((Trie.hasPrefix a p).map fun r => (a, .bool r))
  | some "rebase", some p => some (.ok (Trie.rebase a p, .null))
  | some "subtree", some p => some (match Trie.subtree a p with
      | .error e => .error e
      | .ok none => .ok (a, .null)
      | .ok (some .mark) => .error .attribute       -- iterating a "set" whose trie is `True`
      | .ok (some t) => .ok (a, pathsJ t))
  | some "update", _ => some (.ok (Trie.union a b, .null))
  | some "union", _ => some (.ok (a, pathsJ (Trie.union a b)))
  | some "intersection_update", _ => some (.ok (Trie.intersection a b, .null))
  | some "intersection", _ => some (.ok (a, pathsJ (Trie.intersection a b)))
  | some "difference_update", _ => some (.ok (Trie.difference a b, .null))
  | some "difference", _ => some (.ok (a, pathsJ (Trie.difference a b)))
  | some "clear", _ => some (.ok (Trie.empty, .null))
  | some "eq", _ => some (.ok (a, .bool (Trie.beq a b)))
  | some "swap", _ => some (.ok (a, .null))     -- handled by the caller
  | _, _ => none

partial def runSetOps (a b : Trie) (ops : List J) (acc : Array J) : Option (Array J) :=
  match ops with
  | [] => some acc
  | j :: rest =>
    if j.getStr? "k" == some "swap" then
      runSetOps b a rest (acc.push (.obj [("r", .null), ("paths", pathsJ b), ("bool", .bool b.nonEmpty)]))
    else
    let k := (j.getStr? "k").getD ""
    -- `self_<op>`: the set itself is the other operand (`a.update(a)`, `a == a`, …)
    let (kind, other) := if k.startsWith "self_" then ((k.drop 5).toString, a) else (k, b)
    match setOp a other (some kind) j with
    | none => none
    | some (.error e) => some (acc.push (errJ e))
    | some (.ok (a', r)) =>
      runSetOps a' b rest (acc.push (.obj [("r", r), ("paths", pathsJ a'), ("bool", .bool a'.nonEmpty)]))

/-! ### requests -/

def handle (j : J) : J :=
  let dc := dcOfJ (j.get? "dc")
  match j.getStr? "op" with
  | some "rt" =>
    match (j.get? "keys").bind pathOfJ with
    | some ks =>
      let s := pathStr ks
      .obj [("str", strToJ s), ("parsed", exceptJ pathToJ (parse dc s)),
            ("str_plain", strToJ (pathStrPc false ks))]
    | none => bad "rt"
  | some "parse" =>
    match (j.get? "s").bind strOfJ with
    | some s => exceptJ pathToJ (parse dc s)
    | none => bad "parse"
  | some "arith" =>
    match (j.get? "p").bind pathOfJ, (j.get? "q").bind operandOfJ with
    | some p, some q =>
      .obj [("add", exceptJ pathToJ (add dc p q)),
            ("sub", exceptJ pathToJ (sub dc p q)),
            ("rel", exceptJ J.bool (isRelativeTo dc p q)),
            ("lt", exceptJ J.bool (compare .lt p q)),
            ("le", exceptJ J.bool (compare .le p q)),
            ("gt", exceptJ J.bool (compare .gt p q)),
            ("ge", exceptJ J.bool (compare .ge p q)),
            ("eq", .bool (pathEq p q)),
            ("parent", exceptJ pathToJ (parent p)),
            ("key", exceptJ keyToJ (lastKey p)),
            ("depth", .int p.length)]
    | _, _ => bad "arith"
  | some "order" =>
    match (j.getArr? "ps").bind (·.mapM pathOfJ) with
    | some ps => .obj [("lt", .arr (ps.map fun a => .arr (ps.map fun b => .bool (pathLt a b))))]
    | none => bad "order"
  | some "set" =>
    match (j.getArr? "a").bind (·.mapM pathOfJ), (j.getArr? "b").bind (·.mapM pathOfJ), j.getArr? "ops" with
    | some pa, some pb, some ops =>
      match buildSet pa, buildSet pb with
      | .ok a, .ok b =>
        match runSetOps a b ops #[] with
        | some outs => .obj [("init", pathsJ a), ("steps", .arr outs.toList)]
        | none => bad "set op"
      | _, _ => .obj [("init", errJ .assertion), ("steps", .arr [])]
    | _, _, _ => bad "set"
  | some "hier" =>
    match (j.get? "v").bind valOfJ with
    | some v =>
      let pre := Val.visitsPre v []
      let post := Val.visitsPost v []
      let flatT := Val.flatten true v
      let flatF := Val.flatten false v
      .obj [("pre", .arr (pre.map fun pv => pathToJ pv.1)),
            ("post", .arr (post.map fun pv => pathToJ pv.1)),
            ("lookup", .arr (pre.map fun pv =>
                match Val.query v pv.1 with
                | .ok r => if r == pv.2 then J.str "same" else J.str "diff"
                | .error e => J.str e.name)),
            ("lookup_str", .arr (pre.map fun pv =>
                -- the printed path, parsed again and looked up from the root
                match parse dc (pathStr pv.1) with
                | .error e => J.str e.name
                | .ok p' =>
                  match Val.query v p' with
                  | .ok r => if r == pv.2 then J.str "same" else J.str "diff"
                  | .error e => J.str e.name)),
            ("strs", .arr (pre.map fun pv => strToJ (pathStr pv.1))),
            ("leaves", valToJ (.dict (Val.queryLeaves v))),
            ("rebind", valToJ (.dict (Val.rebindInts v))),
            ("flat_t", valToJ flatT),
            ("flat_f", valToJ flatF),
            ("canon_flat_t", exceptJ valToJ (Val.canonicalize dc flatT)),
            ("canon_flat_f", exceptJ valToJ (Val.canonicalize dc flatF))]
    | none => bad "hier"
  | some "look" =>
    match (j.get? "v").bind valOfJ, (j.getArr? "probes").bind (·.mapM pathOfJ) with
    | some v, some probes =>
      let pre := Val.visitsPre v []
      .obj [("pre", .arr (pre.map fun pv => pathToJ pv.1)),
            ("visited", .arr (pre.map fun pv =>
                -- exists / get for every reported path: present, and the node itself
                match Val.existsM v pv.1, Val.getM v pv.1 with
                | .ok true, .ok (some r) => if r == pv.2 then J.str "present" else J.str "other-node"
                | .ok false, _ => J.str "absent"
                | .error e, _ => J.str e.name
                | _, _ => J.str "inconsistent")),
            ("probes", .arr (probes.map fun p =>
                match Val.existsM v p with
                | .ok b => J.bool b
                | .error e => J.str e.name))]
    | _, _ => bad "look"
  | some "query" =>
    match (j.get? "v").bind valOfJ, (j.get? "p").bind pathOfJ with
    | some v, some p => .obj [("r", exceptJ valToJ (Val.query v p))]
    | _, _ => bad "query"
  | some "canon" =>
    match (j.get? "v").bind valOfJ with
    | some v => .obj [("r", exceptJ valToJ (Val.canonicalize dc v))]
    | none => bad "canon"
  | _ => bad "op"

def main : IO Unit := driverLoop handle
