/- Line-protocol driver for the C05 models (request shapes: harness/c05.py). -/
import PgModel.Json
import PgModel.C05Codec
import PgModel.C05Store
import PgModel.C05Typed
import PgModel.C05Handles
import PgModel.C05Dna
import PgModel.C05Spec
import PgModel.C05Geno
import PgModel.C05MemSeq
import PgGen.C05Fn
import PgGen.C05Sig
open Pg Pg.C05

def ofS (s : String) : List Char := s.toList
def toS (cs : List Char) : String := String.ofList cs

def bad (msg : String) : J := .obj [("bad_request", .str msg)]

/-! Wire ↔ model values -/

def keyOfJ : J → Option Key
  | .str s => some (.s (ofS s))
  | .int i => some (.i i)
  | _ => none

def keyToJ : Key → J
  | .s k => .str (toS k)
  | .i n => .int n

partial def treeOfJ : J → Option Tree
  | .null => some (.leaf .none)
  | .bool b => some (.leaf (.bool b))
  | .int i => some (.leaf (.int i))
  | .str s => some (.leaf (.str (ofS s)))
  | .obj [("f", .str t)] => some (.leaf (.float (ofS t)))
  | .obj [("m", _)] => some (.leaf .missing)
  | .obj [("l", .arr xs)] => (xs.mapM treeOfJ).map .list
  | .obj [("t", .arr xs)] => (xs.mapM treeOfJ).map .tuple
  | .obj [("d", .arr kvs)] =>
    (kvs.mapM fun
      | J.arr [k, v] => do pure ((← keyOfJ k), (← treeOfJ v))
      | _ => none).map .dict
  | .obj [("o", .str c), ("a", .arr kvs)] =>
    (kvs.mapM fun
      | J.arr [.str k, v] => do pure (ofS k, (← treeOfJ v))
      | _ => none).map (.obj (ofS c))
  | _ => none

partial def treeToJ : Tree → J
  | .leaf .none => .null
  | .leaf (.bool b) => .bool b
  | .leaf (.int i) => .int i
  | .leaf (.float t) => .obj [("f", .str (toS t))]
  | .leaf (.str s) => .str (toS s)
  | .leaf .missing => .obj [("m", .int 1)]
  | .list xs => .obj [("l", .arr (xs.map treeToJ))]
  | .tuple xs => .obj [("t", .arr (xs.map treeToJ))]
  | .dict kvs => .obj [("d", .arr (kvs.map fun (k, v) => .arr [keyToJ k, treeToJ v]))]
  | .obj c attrs => .obj [("o", .str (toS c)), ("a", .arr (attrs.map fun (k, v) => .arr [.str (toS k), treeToJ v]))]

partial def jvOfJ : J → Option JV
  | .null => some .null
  | .bool b => some (.bool b)
  | .int i => some (.int i)
  | .str s => some (.str (ofS s))
  | .obj [("f", .str t)] => some (.float (ofS t))
  | .obj [("l", .arr xs)] => (xs.mapM jvOfJ).map .arr
  | .obj [("d", .arr kvs)] =>
    (kvs.mapM fun
      | J.arr [k, v] => do pure ((← keyOfJ k), (← jvOfJ v))
      | _ => none).map .obj
  | _ => none

partial def jvToJ : JV → J
  | .null => .null
  | .bool b => .bool b
  | .int i => .int i
  | .float t => .obj [("f", .str (toS t))]
  | .str s => .str (toS s)
  | .arr xs => .obj [("l", .arr (xs.map jvToJ))]
  | .obj kvs => .obj [("d", .arr (kvs.map fun (k, v) => .arr [keyToJ k, jvToJ v]))]

partial def jsOfJ : J → Option JS
  | .null => some .null
  | .bool b => some (.bool b)
  | .int i => some (.int i)
  | .str s => some (.str (ofS s))
  | .obj [("f", .str t)] => some (.float (ofS t))
  | .obj [("l", .arr xs)] => (xs.mapM jsOfJ).map .arr
  | .obj [("d", .arr kvs)] =>
    (kvs.mapM fun
      | J.arr [.str k, v] => do pure (ofS k, (← jsOfJ v))
      | _ => none).map .obj
  | _ => none

partial def jsToJ : JS → J
  | .null => .null
  | .bool b => .bool b
  | .int i => .int i
  | .float t => .obj [("f", .str (toS t))]
  | .str s => .str (toS s)
  | .arr xs => .obj [("l", .arr (xs.map jsToJ))]
  | .obj kvs => .obj [("d", .arr (kvs.map fun (k, v) => .arr [.str (toS k), jsToJ v]))]

def kindOfJ : J → Option Kind
  | .str "any" => some .any
  | .str "bool" => some .bool
  | .str "int" => some .int
  | .str "str" => some .str
  | .str "list" => some .list
  | .str "dict" => some .dict
  | .arr [.str "obj", .str c] => some (.obj (ofS c))
  | _ => none

def fieldOfJ (j : J) : Option Field := do
  let name ← j.getStr? "name"
  let kind ← (j.get? "kind").bind kindOfJ
  let noneable ← j.getBool? "noneable"
  let frozen ← j.getBool? "frozen"
  let default ← match j.get? "default" with
    | none => some none
    | some d => (treeOfJ d).map some
  pure { name := ofS name, kind, noneable, default, frozen }

def envOfJ (j : J) : Option ClassEnv := do
  let cs ← j.getArr? "classes"
  let classes ← cs.mapM fun
    | .arr [.str c, .arr fs] => do pure (ofS c, (← fs.mapM fieldOfJ))
    | _ => none
  pure { classes }

def errName : Err → String
  | .type => "TypeError" | .value => "ValueError" | .assertion => "AssertionError"
  | .key => "KeyError" | .other => "Exception"

def resToJ : Except Err Tree → J
  | .ok t => .obj [("ok", treeToJ t)]
  | .error e => .obj [("err", .str (errName e))]

def fsErrName : FsErr → String
  | .notFound => "FileNotFoundError" | .isDir => "IsADirectoryError"
  | .notDir => "NotADirectoryError" | .typeErr => "TypeError" | .value => "ValueError"

def modeOfJ : J → Option Mode
  | .str "w" => some .w
  | .str "a" => some .a
  | _ => none

def opOfJ (j : J) : Option Op := do
  let k ← j.getStr? "k"
  let p := ofS (← j.getStr? "p")
  match k with
  | "save" => pure (.save p (ofS (← j.getStr? "c")))
  | "load" => pure (.load p)
  | "write" => pure (.write p (ofS (← j.getStr? "c")) (← (j.get? "m").bind modeOfJ))
  | "mkdirs" => pure (.mkdirs p)
  | "seqw" =>
    let rs ← (← j.getArr? "r").mapM (·.asStr?)
    pure (.seqWrite p (← (j.get? "m").bind modeOfJ) (rs.map ofS))
  | "seqr" => pure (.seqRead p)
  | "exists" => pure (.exists_ p)
  | "listdir" => pure (.listdir p)
  | _ => none

def outToJ : Out → J
  | .unit => .null
  | .content c => .obj [("c", .str (toS c))]
  | .records rs => .obj [("r", .arr (rs.map fun r => .str (toS r)))]
  | .bool b => .bool b
  | .names ns => .obj [("n", .arr (ns.map fun r => .str (toS r)))]
  | .err e => .obj [("err", .str (fsErrName e))]

def hmodeOfJ : J → Option HMode
  | .str "r" => some .r
  | .str "w" => some .w
  | .str "a" => some .a
  | _ => none

/-- A user-level operation: handle operations name the n-th `hopen` of the history. -/
inductive UOp where
  | plain (op : HOp)
  | onHandle (u : Nat) (mk : Nat → HOp)

def uopOfJ (j : J) : Option UOp := do
  let k ← j.getStr? "k"
  match k with
  | "hread" =>
    let n : Option Nat := (j.get? "n").bind J.asNat?
    pure (.onHandle (← j.getNat? "h") (fun h => .hread h n))
  | "hreadline" => pure (.onHandle (← j.getNat? "h") (fun h => .hreadline h))
  | "hwrite" =>
    let c := ofS (← j.getStr? "c")
    pure (.onHandle (← j.getNat? "h") (fun h => .hwrite h c))
  | "hclose" => pure (.onHandle (← j.getNat? "h") (fun h => .hclose h))
  | _ =>
    let p := ofS (← j.getStr? "p")
    match k with
    | "save" => pure (.plain (.save p (ofS (← j.getStr? "c"))))
    | "load" => pure (.plain (.load p))
    | "write" => pure (.plain (.write p (ofS (← j.getStr? "c")) (← (j.get? "m").bind hmodeOfJ)))
    | "mkdirs" => pure (.plain (.mkdirs p))
    | "seqw" =>
      let rs ← (← j.getArr? "r").mapM (·.asStr?)
      pure (.plain (.seqWrite p (← (j.get? "m").bind hmodeOfJ) (rs.map ofS)))
    | "seqr" => pure (.plain (.seqRead p))
    | "exists" => pure (.plain (.exists_ p))
    | "hopen" => pure (.plain (.hopen p (← (j.get? "m").bind hmodeOfJ)))
    | _ => none

def houtToJ : HOut → J
  | .unit => .null
  | .content c => .obj [("c", .str (toS c))]
  | .records rs => .obj [("r", .arr (rs.map fun r => .str (toS r)))]
  | .bool b => .bool b
  | .handle _ => .obj [("h", .bool true)]
  | .err e => .obj [("err", .str (fsErrName e))]

/-- Runs a user-level history; `tbl` maps the n-th `hopen` to the model handle (none: it failed). -/
def runUser (cfg : HCfg) : HSt → List (Option Nat) → List UOp → List J
  | _, _, [] => []
  | s, tbl, .plain op :: rest =>
    let (s1, o) := hStep cfg s op
    let tbl1 := match op, o with
      | .hopen _ _, .handle h => tbl ++ [some h]
      | .hopen _ _, _ => tbl ++ [none]
      | _, _ => tbl
    houtToJ o :: runUser cfg s1 tbl1 rest
  | s, tbl, .onHandle u mk :: rest =>
    match tbl.getD u none with
    | none => J.obj [("err", .str "NoHandle")] :: runUser cfg s tbl rest
    | some h =>
      let (s1, o) := hStep cfg s (mk h)
      houtToJ o :: runUser cfg s1 tbl rest

/-! DNA wire: a value is null | int | "str" | {"q":[n,d]}; a nest a value | {"l":[…]} | {"t":[…]} -/

def gvalOfJ : J → Option Geno.Val
  | .null => some .none
  | .int i => some (.int i)
  | .str s => some (.str s)
  | .obj [("q", .arr [.int n, .int d])] => if d > 0 then some (.flt n d.toNat) else none
  | _ => none

partial def nestOfJ : J → Option Geno.Nest
  | .obj [("l", .arr xs)] => (xs.mapM nestOfJ).map .list
  | .obj [("t", .arr xs)] => (xs.mapM nestOfJ).map .tuple
  | j => (gvalOfJ j).map .v

def gvalToJ : Geno.Val → J
  | .none => .null
  | .int i => .int i
  | .str s => .str s
  | .flt n d => .obj [("q", .arr [.int n, .int d])]

partial def nestToJ5 : Geno.Nest → J
  | .v x => gvalToJ x
  | .list xs => .obj [("l", .arr (xs.map nestToJ5))]
  | .tuple xs => .obj [("t", .arr (xs.map nestToJ5))]

/-- The float text layer of the wire: a ratio `n/d` is the token "n/d". -/
def wireFloat : FloatText :=
  { ftok := fun n d => reprInt n ++ '/' :: natDigits d,
    fparse := fun t =>
      match splitSlash t with
      | [a, b] =>
        match parseInt a, parseInt b with
        | some n, some d => if d > 0 then some (n, d.toNat) else none
        | _, _ => none
      | _ => none }

/-! Value-spec wire (harness/c05.py `vs_wire`) -/

def optIntOfJ : J → Option (Option Int)
  | .null => some none
  | .int i => some (some i)
  | _ => none

def optStrOfJ : J → Option (Option Str)
  | .null => some none
  | .str s => some (some (ofS s))
  | _ => none

def optTreeOfJ : J → Option (Option Tree)
  | .obj [("absent", _)] => some none
  | j => (treeOfJ j).map some

def vflagsOfJ : J → Option VFlags
  | .arr [.bool n, d, .bool fz] => (optTreeOfJ d).map fun d' => ⟨n, d', fz⟩
  | _ => none

def vkeyOfJ : J → Option VKey
  | .arr [.str "c", .str t] => some (.const (ofS t))
  | .arr [.str "k", r] => (optStrOfJ r).map .strKey
  | .arr [.str "lk", .int mn, mx] => (optIntOfJ mx).map (.listKey mn)
  | .arr [.str "tk", i] => (optIntOfJ i).map .tupleKey
  | _ => none

mutual
  partial def vsOfJ : J → Option VS
    | .arr [.str "any", f] => (vflagsOfJ f).map .any
    | .arr [.str "bool", f] => (vflagsOfJ f).map .bool
    | .arr [.str "int", lo, hi, f] => do pure (.int (← optIntOfJ lo) (← optIntOfJ hi) (← vflagsOfJ f))
    | .arr [.str "float", lo, hi, f] => do pure (.float (← optStrOfJ lo) (← optStrOfJ hi) (← vflagsOfJ f))
    | .arr [.str "str", r, f] => do pure (.str (← optStrOfJ r) (← vflagsOfJ f))
    | .arr [.str "enum", .arr vs, f] => do pure (.enum (← vs.mapM treeOfJ) (← vflagsOfJ f))
    | .arr [.str "list", e, .int mn, mx, f] => do pure (.list (← vsOfJ e) mn (← optIntOfJ mx) (← vflagsOfJ f))
    | .arr [.str "tuplef", .arr es, f] => do pure (.tupleFixed (← es.mapM vsOfJ) (← vflagsOfJ f))
    | .arr [.str "tuplev", e, .int mn, mx, f] => do pure (.tupleVar (← vsOfJ e) mn (← optIntOfJ mx) (← vflagsOfJ f))
    | .arr [.str "dict", .null, .bool ex, f] => do pure (.dict none ex (← vflagsOfJ f))
    | .arr [.str "dict", sc, .bool ex, f] => do pure (.dict (some (← vschemaOfJ sc)) ex (← vflagsOfJ f))
    | .arr [.str "obj", .str c, f] => do pure (.obj (ofS c) (← vflagsOfJ f))
    | .arr [.str "type", .str c, d, .bool n, .bool fz] => do pure (.type (ofS c) (← optStrOfJ d) n fz)
    | .arr [.str "union", .arr cs, f] => do pure (.union (← cs.mapM vsOfJ) (← vflagsOfJ f))
    | .arr [.str "callable", .arr args, .null, f] => do pure (.callable (← args.mapM vsOfJ) none (← vflagsOfJ f))
    | .arr [.str "callable", .arr args, r, f] => do pure (.callable (← args.mapM vsOfJ) (some (← vsOfJ r)) (← vflagsOfJ f))
    | _ => none
  partial def vfieldOfJ : J → Option VField
    | .arr [.str "field", k, v, d, md] => do
      pure (.mk (← vkeyOfJ k) (← vsOfJ v) (← optStrOfJ d) (← optTreeOfJ md))
    | _ => none
  partial def vschemaOfJ : J → Option VSchema
    | .arr [.str "schema", .arr fs, name, .bool anc, md] => do
      pure (.mk (← fs.mapM vfieldOfJ) (← optStrOfJ name) anc (← optTreeOfJ md))
    | _ => none
end

def optIntToJ : Option Int → J
  | none => .null
  | some i => .int i
def optStrToJ : Option Str → J
  | none => .null
  | some s => .str (toS s)
def optTreeToJ : Option Tree → J
  | none => .obj [("absent", .bool true)]
  | some t => treeToJ t
def vflagsToJ (f : VFlags) : J := .arr [.bool f.noneable, optTreeToJ f.default, .bool f.frozen]
def vkeyToJ : VKey → J
  | .const t => .arr [.str "c", .str (toS t)]
  | .strKey r => .arr [.str "k", optStrToJ r]
  | .listKey mn mx => .arr [.str "lk", .int mn, optIntToJ mx]
  | .tupleKey i => .arr [.str "tk", optIntToJ i]

mutual
  partial def vsToJ : VS → J
    | .any f => .arr [.str "any", vflagsToJ f]
    | .bool f => .arr [.str "bool", vflagsToJ f]
    | .int lo hi f => .arr [.str "int", optIntToJ lo, optIntToJ hi, vflagsToJ f]
    | .float lo hi f => .arr [.str "float", optStrToJ lo, optStrToJ hi, vflagsToJ f]
    | .str r f => .arr [.str "str", optStrToJ r, vflagsToJ f]
    | .enum vs f => .arr [.str "enum", .arr (vs.map treeToJ), vflagsToJ f]
    | .list e mn mx f => .arr [.str "list", vsToJ e, .int mn, optIntToJ mx, vflagsToJ f]
    | .tupleFixed es f => .arr [.str "tuplef", .arr (es.map vsToJ), vflagsToJ f]
    | .tupleVar e mn mx f => .arr [.str "tuplev", vsToJ e, .int mn, optIntToJ mx, vflagsToJ f]
    | .dict none ex f => .arr [.str "dict", .null, .bool ex, vflagsToJ f]
    | .dict (some sc) ex f => .arr [.str "dict", vschemaToJ sc, .bool ex, vflagsToJ f]
    | .obj c f => .arr [.str "obj", .str (toS c), vflagsToJ f]
    | .type c d n fz => .arr [.str "type", .str (toS c), optStrToJ d, .bool n, .bool fz]
    | .union cs f => .arr [.str "union", .arr (cs.map vsToJ), vflagsToJ f]
    | .callable args none f => .arr [.str "callable", .arr (args.map vsToJ), .null, vflagsToJ f]
    | .callable args (some r) f => .arr [.str "callable", .arr (args.map vsToJ), vsToJ r, vflagsToJ f]
  partial def vfieldToJ : VField → J
    | .mk k v d md => .arr [.str "field", vkeyToJ k, vsToJ v, optStrToJ d, optTreeToJ md]
  partial def vschemaToJ : VSchema → J
    | .mk fs name anc md => .arr [.str "schema", .arr (fs.map vfieldToJ), optStrToJ name, .bool anc, optTreeToJ md]
end

def handle (j : J) : J :=
  match j.getStr? "op" with
  | some "codec" =>
    match (j.get? "env").bind envOfJ, (j.get? "value").bind treeOfJ, j.getBool? "ap" with
    | some env, some t, some ap =>
      let jv := toJson env t
      let js := encodeIntKeys jv
      let base : List (String × J) :=
           [("json", jvToJ jv),
            ("rt", resToJ (fromJson env ap jv)),
            ("json_str", jsToJ js),
            ("rt_str", resToJ (fromJsonStr (Text := JS) some env ap (toJsonStr id env t))),
            ("encodable", .bool (Encodable false t)),
            ("encodable_str", .bool (Encodable true t)),
            ("conforms", .bool (Conforms env t))]
      match j.getBool? "hide_frozen", j.getBool? "hide_default_values" with
      | some hf, some hd =>
        let jo := toJsonO ⟨hf, hd⟩ env t
        J.obj (base ++ [("opts", J.obj [("json", jvToJ jo), ("rt", resToJ (fromJson env ap jo))])])
      | _, _ => J.obj base
    | _, _, _ => bad "codec"
  | some "codec_many" =>
    match (j.get? "env").bind envOfJ, j.getArr? "items" with
    | some env, some items =>
      .obj [("outs", .arr (items.map fun it =>
        match (it.get? "value").bind treeOfJ, it.getBool? "hide_frozen", it.getBool? "hide_default_values" with
        | some t, some hf, some hd =>
          let jo := toJsonO ⟨hf, hd⟩ env t
          J.obj [("json", jvToJ jo), ("rt", resToJ (fromJson env true jo))]
        | _, _, _ => bad "codec_many item"))]
    | _, _ => bad "codec_many"
  | some "codec_opts" =>
    match (j.get? "env").bind envOfJ, (j.get? "value").bind treeOfJ, j.getBool? "ap",
          j.getBool? "hide_frozen", j.getBool? "hide_default_values" with
    | some env, some t, some ap, some hf, some hd =>
      let jv := toJsonO ⟨hf, hd⟩ env t
      .obj [("json", jvToJ jv), ("rt", resToJ (fromJson env ap jv))]
    | _, _, _, _, _ => bad "codec_opts"
  | some "load" =>
    match (j.get? "env").bind envOfJ, (j.get? "json").bind jvOfJ, j.getBool? "ap" with
    | some env, some jv, some ap =>
      if (j.getBool? "auto_dict").getD false then .obj [("rt", resToJ (fromJsonAuto env ap jv))]
      else .obj [("rt", resToJ (fromJson env ap jv))]
    | _, _, _ => bad "load"
  | some "load_str" =>
    match (j.get? "env").bind envOfJ, (j.get? "json").bind jsOfJ, j.getBool? "ap" with
    | some env, some js, some ap =>
      .obj [("rt", resToJ (fromJsonStr (Text := JS) some env ap js))]
    | _, _, _ => bad "load_str"
  | some "store" =>
    match j.getStr? "cfg", (j.getArr? "ops").bind (·.mapM opOfJ) with
    | some cfg, some ops =>
      let c := if cfg == "pinned" then FsCfg.pinned else FsCfg.patched
      let (_, outs) := run c [] ops
      .obj [("outs", .arr (outs.map outToJ))]
    | _, _ => bad "store"
  | some "mounts" =>
    let mopOf (o : J) : Option MOp := do pure ((← o.getNat? "mt") == 1, ← opOfJ o)
    match j.getStr? "cfg", (j.getArr? "ops").bind (·.mapM mopOf) with
    | some cfg, some ops =>
      let c := if cfg == "pinned" then FsCfg.pinned else FsCfg.patched
      .obj [("outs", .arr ((mrun c ([], []) ops).2.map fun o => outToJ o.2))]
    | _, _ => bad "mounts"
  | some "fnload" =>
    let fnOf (o : J) : Option FnJ := do
      pure ⟨← o.getNat? "code", ← (← o.getArr? "defaults").mapM (·.asInt?)⟩
    match (j.getArr? "fns").bind (·.mapM fnOf) with
    | some fns =>
      .obj [("loaded", .arr ((loadAll fnLoadMemo [] fns).2.map fun f => .arr (f.defaults.map .int)))]
    | none => bad "fnload"
  | some "memseq" =>
    let opOf (o : J) : Option SOp := do
      match ← o.getStr? "k" with
      | "add" =>
        let rs ← (← o.getArr? "r").mapM (·.asStr?)
        pure (.add (ofS (← o.getStr? "p")) (← (o.get? "m").bind modeOfJ) (rs.map ofS))
      | "read" => pure (.read (ofS (← o.getStr? "p")))
      | "mutate" => pure (.mutateResult 0 0)
      | _ => none
    match (j.getArr? "ops").bind (·.mapM opOf) with
    | some ops =>
      .obj [("outs", .arr ((sRun MemSeq.empty ops).2.map fun
        | .unit => J.null
        | .records rs => .obj [("r", .arr (rs.map fun r => .str (toS r)))]))]
    | none => bad "memseq"
  | some "fn" =>
    let name : FnOrigin → String
      | .moduleDef => "module-def" | .moduleLambda => "module-lambda" | .classBodyDef => "class-body-def"
      | .classBodyLambda => "class-body-lambda" | .nestedDef => "nested-def" | .nestedLambda => "nested-lambda"
    let m : MethodRef := ⟨"Maker".toList, "SubMaker".toList, "make".toList⟩
    .obj ((FnOrigin.all.map fun o => (name o, .bool (writtenByCode fnTests o))) ++
          [("inherited_method_keeps_class", .bool (loadMethod m (writeMethod fnMethodNamesBound m) == m))])
  | some "geno_env" =>
    let kindJ : Kind → J
      | .any => .str "any" | .bool => .str "bool" | .int => .str "int" | .str => .str "str"
      | .list => .str "list" | .dict => .str "dict" | .obj c => .arr [.str "obj", .str (toS c)]
    .obj [("classes", .arr (genoEnv.classes.map fun (c, fs) =>
      .arr [.str (toS c), .arr (fs.map fun f =>
        .obj ([("name", .str (toS f.name)), ("kind", kindJ f.kind), ("noneable", .bool f.noneable),
               ("frozen", .bool f.frozen)] ++
              (match f.default with
               | some d => [("default", treeToJ d)]
               | none => [])))]))]
  | some "vspec" =>
    let env : ClassEnv := ⟨[]⟩
    let answer (jv : JV) : J :=
      .obj [("json", jvToJ jv),
            ("rt", match decodeU jv with
              | .ok (.spec s) => .obj [("ok", vsToJ s)]
              | .ok (.schema sc) => .obj [("ok", vschemaToJ sc)]
              | .ok _ => .obj [("err", .str "TypeError")]
              | .error e => .obj [("err", .str (errName e))])]
    match (j.get? "spec").bind vsOfJ, (j.get? "schema").bind vschemaOfJ with
    | some s, _ => answer (vsToJson env s)
    | none, some sc => answer (schemaToJson env sc)
    | none, none => bad "vspec"
  | some "vspec_load" =>
    match (j.get? "json").bind jvOfJ with
    | some jv =>
      .obj [("rt", match decodeU jv with
        | .ok (.spec s) => .obj [("ok", vsToJ s)]
        | .ok _ => .obj [("err", .str "TypeError")]
        | .error e => .obj [("err", .str (errName e))])]
    | none => bad "vspec_load"
  | some "dna" =>
    match (j.get? "nest").bind nestOfJ, (j.getArr? "cloneable").bind (·.mapM (·.asStr?)) with
    | some nest, some cl =>
      let md : Option (List (Key × Tree)) := match j.get? "meta" with
        | none | some .null => some []
        | some t => match treeOfJ t with
          | some (.dict kvs) => some kvs
          | _ => none
      match md, Geno.parse nest with
      | none, _ => bad "dna meta"
      | some _, none => .obj [("parse", .str "ValueError")]
      | some md, some d =>
        let env : ClassEnv := ⟨[]⟩
        let m : MDNA := ⟨d, md, cl.map ofS, false⟩
        let jv := dnaToJson wireFloat env m
        .obj [("json", jvToJ jv),
              ("rt", match dnaFromJson wireFloat env jv with
                | .ok r => .obj [("ok", .obj [("nest", nestToJ5 (compact r.dna)),
                                               ("meta", treeToJ (.dict r.md)),
                                               ("cloneable", .arr (r.cloneable.map fun c => .str (toS c)))])]
                | .error e => .obj [("err", .str (errName e))])]
    | _, _ => bad "dna"
  | some "hstore" =>
    match j.getStr? "cfg", (j.getArr? "ops").bind (·.mapM uopOfJ) with
    | some cfg, some ops =>
      let c := if cfg == "perhandle" then HCfg.fixed
               else if cfg == "perhandle-append" then HCfg.fixedAppend else HCfg.head
      .obj [("outs", .arr (runUser c HSt.empty [] ops))]
    | _, _ => bad "hstore"
  | some "typed_dict" =>
    match (j.getArr? "fields").bind (·.mapM fieldOfJ),
          (j.getArr? "items").bind (·.mapM fun
            | J.arr [.str k, v] => do pure (ofS k, (← treeOfJ v))
            | _ => none),
          (j.getArr? "writes").bind (·.mapM fun
            | J.arr [.str k, v] => do pure (ofS k, (← treeOfJ v))
            | _ => none),
          j.getBool? "ap" with
    | some fields, some items, some writes, some ap =>
      let d : TypedDict := ⟨fields, items⟩
      let env : ClassEnv := ⟨[]⟩
      .obj [("json", jvToJ (d.toJson env)),
            ("rt", resToJ (fromJson env ap (d.toJson env))),
            ("writes", .arr (writes.map fun (k, v) =>
              match d.set k v with
              | .ok _ => J.str "ok"
              | .error e => J.str (errName e)))]
    | _, _, _, _ => bad "typed_dict"
  | some "typed_list" =>
    match (j.get? "elem").bind kindOfJ, (j.getArr? "items").bind (·.mapM treeOfJ),
          (j.getArr? "appends").bind (·.mapM treeOfJ) with
    | some elem, some items, some appends =>
      let maxSize := (j.get? "max").bind J.asNat?
      let l : TypedList := ⟨elem, maxSize, items⟩
      let env : ClassEnv := ⟨[]⟩
      .obj [("json", jvToJ (l.toJson env)),
            ("rt", resToJ (fromJson env false (l.toJson env))),
            ("writes", .arr (appends.map fun v =>
              match l.append v with
              | .ok _ => J.str "ok"
              | .error e => J.str (errName e)))]
    | _, _, _ => bad "typed_list"
  | some "sig" =>
    .obj [("rows", .arr (sigTable.map fun r =>
      .obj [("cls", .str r.cls),
            ("emitted", .arr (r.emitted.map fun (k, s) => .arr [.str k, .str s])),
            ("ctor", .arr (r.ctor.map fun (k, d) => .arr [.str k, match d with | some x => .str x | none => .null]))]))]
  | _ => bad "op"

def main : IO Unit := driverLoop handle
