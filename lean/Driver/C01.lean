/- Line-protocol driver for the C01 model (request shapes: harness/symcommon.py). -/
import Driver.SymGlue
open Pg Pg.Sym SymGlue

def handle (j : J) : J :=
  match j.getStr? "op" with
  | some "history" =>
    .obj [("steps", .arr (runHistory (cfgOf j) ((j.getArr? "ops").getD [])))]
  | _ => .obj [("bad_request", .str "op")]

def main : IO Unit := driverLoop handle
