/- Line-protocol driver for the C18 model (see harness/c18.py for the request shapes). -/
import PgModel.Json
import PgModel.Call
open Pg Pg.C18

/-- Names are interned per request: the table lists every string of the request once. -/
abbrev Tbl := List String

def Tbl.idx (t : Tbl) (s : String) : Nat := t.idxOf s
def Tbl.name (t : Tbl) (i : Nat) : String := t.getD i "?"

def collectNames (j : J) : Tbl :=
  let sigJ := j.getD "sig" .null
  let ps (k : String) : List String := ((sigJ.getArr? k).getD []).filterMap fun
    | .arr (.str n :: _) => some n
    | _ => none
  let opt (k : String) : List String := match sigJ.get? k with
    | some (.str n) => [n]
    | _ => []
  let kws (k : String) : List String := (((j.getD k .null).getArr? "kwargs").getD []).filterMap fun
    | .arr (.str n :: _) => some n
    | _ => none
  let stepNames : List String := ((j.getArr? "steps").getD []).flatMap fun st =>
    ((st.getArr? "upd").getD []).filterMap fun
      | .arr (.str n :: _) => some n
      | _ => none
  let lateNames : List String := ((j.getArr? "late").getD []).flatMap fun st =>
    (((st.getArr? "upd").getD []).filterMap fun
      | .arr (.str n :: _) => some n
      | _ => none) ++ (match st.getStr? "name" with | some n => [n] | none => [])
  (ps "pos" ++ ps "kwonly" ++ opt "varargs" ++ opt "varkw" ++ kws "c1" ++ kws "c2" ++ stepNames ++ lateNames).eraseDups

def paramOfJ (t : Tbl) : J → Option Param
  | .arr [.str n, .null] => some ⟨t.idx n, none⟩
  | .arr [.str n, .int d] => some ⟨t.idx n, some d⟩
  | _ => none

def optStrOfJ (t : Tbl) : J → Option (Option Name)
  | .null => some none
  | .str s => some (some (t.idx s))
  | _ => none

def optBoolOfJ : J → Option (Option Bool)
  | .null => some none
  | .bool b => some (some b)
  | _ => none

def sigOfJ (t : Tbl) (j : J) : Option Sig := do
  let pos ← (← j.getArr? "pos").mapM (paramOfJ t)
  let kwonly ← (← j.getArr? "kwonly").mapM (paramOfJ t)
  let va ← optStrOfJ t (← j.get? "varargs")
  let vk ← optStrOfJ t (← j.get? "varkw")
  pure ⟨pos, va, kwonly, vk⟩

def kwOfJ (t : Tbl) (j : J) : Option KW := do
  (← j.asArr?).mapM fun
    | .arr [.str k, .int v] => some (t.idx k, v)
    | _ => none

structure CallJ where
  call : Call
  override : Option Bool
  ignore : Option Bool

def callOfJ (t : Tbl) (j : J) : Option CallJ := do
  let args ← (← j.getArr? "args").mapM J.asInt?
  let kwargs ← kwOfJ t (← j.get? "kwargs")
  let o ← optBoolOfJ (j.getD "override" .null)
  let i ← optBoolOfJ (j.getD "ignore" .null)
  pure ⟨⟨args, kwargs⟩, o, i⟩

def lateOfJ (t : Tbl) (j : J) : Option LateOp :=
  match j.getStr? "op" with
  | some "rebind" => ((j.get? "upd").bind (kwOfJ t)).map LateOp.rebind
  | some "set_va" => ((j.getArr? "vals").bind (·.mapM J.asInt?)).map LateOp.setVarargs
  | some "del" => (j.getStr? "name").map (fun n => LateOp.del (t.idx n))
  | _ => none

def kwToJ (t : Tbl) (m : KW) : J := .arr (m.map fun (k, v) => .arr [.str (t.name k), .int v])

def asgToJ (t : Tbl) (a : Assignment) : J :=
  .obj [("named", kwToJ t a.named),
        ("varargs", match a.varargs with | some xs => J.ofInts xs | none => .null),
        ("varkw", match a.varkw with | some m => kwToJ t m | none => .null)]

def pyErrName : PyErr → String
  | .typeError => "TypeError"

def outcomeToJ (t : Tbl) : Except PyErr Assignment → J
  | .ok a => .obj [("ok", asgToJ t a)]
  | .error e => .obj [("err", .str (pyErrName e))]

def bindErrName : BindErr → String
  | .tooManyPositional => "too_many_positional"
  | .multipleValues => "multiple_values"
  | .unexpectedKeyword => "unexpected_keyword"
  | .missingRequired => "missing_required"
  | .posOnlyAsKeyword => "posonly_as_keyword"

/-- The spec's outcome with the fine error kind (validated against CPython's messages). -/
def specToJ (t : Tbl) (npo : Nat) (s : Sig) (c : Call) : J :=
  match pyBindPO npo s c with
  | .ok a => .obj [("ok", asgToJ t a)]
  | .error e => .obj [("err", .str "TypeError"), ("kind", .str (bindErrName e))]

def reportedToJ (t : Tbl) (r : List (Name × Reported)) : J :=
  .arr (r.map fun (k, v) => .arr [.str (t.name k), match v with
    | .missing => .str "MISSING"
    | .value x => .int x
    | .list xs => J.ofInts xs])

def callToJ (t : Tbl) (c : Call) : J := .obj [("args", J.ofInts c.args), ("kwargs", kwToJ t c.kwargs)]

def bad (msg : String) : J := .obj [("bad_request", .str msg)]

def handle (j : J) : J :=
  let t := collectNames j
  match (j.get? "sig").bind (sigOfJ t), (j.get? "c1").bind (callOfJ t) with
  | some s, some c1 =>
    if !s.wf then bad "sig not well-formed" else
    let npo := (((j.get? "sig").bind (·.getNat? "posonly")).getD 0)
    match j.getStr? "kind" with
    | some "cls" =>
      .obj [("direct", outcomeToJ t (classInit s c1.call)),
            ("sym_init_args", match objectInit s c1.call with
               | .ok o => reportedToJ t (reportArgs o.sig o.fields o.va)
               | .error _ => .null),
            ("py_c1", specToJ t npo s c1.call)]
    | some "nest" =>
      -- outer = (sig, c1, c2); inner = (sig_in, in_c1, in_c2); object ids: outer 1, inner 2; thread 0 / 1
      match (j.get? "sig_in").bind (sigOfJ t), (j.get? "in_c1").bind (callOfJ t), (j.get? "in_c2").bind (callOfJ t),
            (j.get? "c2").bind (callOfJ t) with
      | some sIn, some ic1, some ic2, some oc2 =>
        let lateOps : List LateOp := ((j.getArr? "late").getD []).filterMap (lateOfJ t)
        match functorInit s c1.call (c1.override.getD false) (c1.ignore.getD false),
              functorInit sIn ic1.call (ic1.override.getD false) (ic1.ignore.getD false) with
        | .ok Fo0, .ok Fi =>
          let Fo := lateOps.foldl Functor.late Fo0
          let shared := (j.getBool? "shared_tls").getD false
          match parseOverrides true Fo oc2.call oc2.override oc2.ignore with
          | .error e => .obj [("out_init", .str "ok"), ("in_init", .str "ok"), ("call", .obj [("err", .str (pyErrName e))])]
          | .ok c' =>
            -- members of the outer functor during the call = what the wrapped function would see
            let mine := pyCall s c'
            -- the overrides of this invocation: every positional parameter by name, plus the keywords
            let ov : KW := s.posNames.zip c'.args ++ c'.kwargs
            let attrs : Nat → KW := fun o =>
              if o == 2 then withDefaults Fi.bound sIn.pos else withDefaults Fo.bound s.pos
            let st : OvStore := OvStore.enter [] 1 0 ov
            let rd (o th : Nat) (ps : List Param) : J := .arr (ps.map fun p =>
              .arr [.str (t.name p.name),
                    match (if shared then resolveSharedTLS attrs st o th p.name else resolve attrs st o th p.name) with
                    | some v => .int v
                    | none => .str "MISSING"])
            .obj [("out_init", .str "ok"), ("in_init", .str "ok"),
                  ("call", .obj [("ok", .obj [
                     ("mine", outcomeToJ t mine),
                     ("read", rd 2 0 sIn.pos),
                     ("called", outcomeToJ t (functorCall true Fi ic2.call ic2.override ic2.ignore)),
                     ("thread_read_self", rd 1 1 s.pos),
                     ("thread_read_inner", rd 2 1 sIn.pos)])])]
        | .error e, _ => .obj [("out_init", .str (pyErrName e))]
        | .ok _, .error e => .obj [("out_init", .str "ok"), ("in_init", .str (pyErrName e))]
      | _, _, _, _ => bad "nest"
    | some "hist" =>
      -- construct, then a sequence of rebinds; per step: reported args and what __init__ sees
      let steps : List KW := ((j.getArr? "steps").getD []).filterMap (fun st => (st.get? "upd").bind (kwOfJ t))
      match objectInit s c1.call with
      | .error e => .obj [("init", .str (pyErrName e)), ("py_c1", specToJ t npo s c1.call)]
      | .ok o0 =>
        let rec go (o : SymObject) : List KW → List J
          | [] => []
          | u :: us =>
            let o' := objectRebind o u
            J.obj [("args", reportedToJ t (reportArgs o'.sig o'.fields o'.va)),
                   ("sees", outcomeToJ t (initOutcome o'))] :: go o' us
        .obj [("init", .str "ok"), ("py_c1", specToJ t npo s c1.call),
              ("args", reportedToJ t (reportArgs o0.sig o0.fields o0.va)),
              ("sees", outcomeToJ t (initOutcome o0)),
              ("steps", .arr (go o0 steps))]
    | some "functor" =>
      match (j.get? "c2").bind (callOfJ t) with
      | none => bad "c2"
      | some c2 =>
        let fix29 := (j.getBool? "fix29").getD true
        let ign := c2.ignore.getD (c1.ignore.getD false)
        let ovr := c2.override.getD (c1.override.getD false)
        let lateOps0 : List LateOp := ((j.getArr? "late").getD []).filterMap (lateOfJ t)
        let effL := effectiveLate npo s c1.call lateOps0 c2.call ign
        let common : List (String × J) :=
          [("py_c1", specToJ t npo s c1.call), ("py_c2", specToJ t npo s c2.call),
           ("effective", match effL with
              | .ok (c, _, _) => callToJ t c
              | .error _ => .null),
           ("py_eff", match effL with
              | .ok (c, _, _) => specToJ t npo s c
              | .error _ => .null),
           ("conflict", match effL with
              | .ok (_, b, _) => .bool b
              | .error _ => .null),
           ("va_conflict", match effL with
              | .ok (_, _, b) => .bool b
              | .error _ => .null),
           ("override", .bool ovr)]
        let lateOps : List LateOp := ((j.getArr? "late").getD []).filterMap (lateOfJ t)
        match functorInit s c1.call (c1.override.getD false) (c1.ignore.getD false) with
        | .error e => .obj ([("init", .str (pyErrName e))] ++ common)
        | .ok F0 =>
          let F := lateOps.foldl Functor.late F0
          .obj ([("init", .str "ok"),
                 ("sym_init_args", reportedToJ t (symInitArgs F)),
                 ("specified", J.ofStrs (F.specified.map t.name)),
                 ("default", J.ofStrs (F.defaultArgs.map t.name)),
                 ("nondefault", J.ofStrs (F.nonDefaultArgs.map t.name)),
                 ("call", outcomeToJ t (functorCall fix29 F c2.call c2.override c2.ignore)),
                 ("call0", outcomeToJ t (functorCall fix29 F Call.empty none none)),
                 ("json_init_args", reportedToJ t (symInitArgs F.jsonRoundTrip)),
                 ("json_call0", outcomeToJ t (functorCall fix29 F.jsonRoundTrip Call.empty none none)),
                 ("json_specified", J.ofStrs (F.jsonRoundTrip.specified.map t.name)),
                 ("json_default", J.ofStrs (F.jsonRoundTrip.defaultArgs.map t.name)),
                 ("json_nondefault", J.ofStrs (F.jsonRoundTrip.nonDefaultArgs.map t.name)),
                 ("clone_call", outcomeToJ t (functorCall fix29 F.clone c2.call c2.override c2.ignore))] ++ common)
    | _ => bad "kind"
  | _, _ => bad "sig/c1"

def main : IO Unit := driverLoop handle
