/- Line-protocol driver for the C19 model (see harness/c19.py for the request shapes). -/
import PgModel.Json
import PgGen.C19Tables
import PgModel.CodeTail
open Pg Pg.C19

namespace TailJ
open Pg.C19.Tail

partial def exOfJ : J → Option Ex
  | .arr [.str "lit", .int i] => some (.lit i)
  | .arr [.str "none"] => some .noneLit
  | .arr [.str "var", .str x] => some (.var x)
  | .arr [.str "add", a, b] => do pure (.add (← exOfJ a) (← exOfJ b))
  | .arr [.str "print", e] => do pure (.print (← exOfJ e))
  | _ => none

def stmtOfJ : J → Option Stmt
  | .arr [.str "assign", .arr ts, e] => do pure (.assign (← ts.mapM J.asStr?) (← exOfJ e))
  | .arr [.str "expr", e] => do pure (.expr (← exOfJ e))
  | .arr [.str "aug", .str x, e] => do pure (.aug x (← exOfJ e))
  | .arr [.str "pass"] => some .pass
  | _ => none

def valOfJ : J → Option Val
  | .null => some .none
  | .int i => some (.int i)
  | _ => none

def valToJ : Val → J
  | .none => .null
  | .int i => .int i

def envOfJ (j : J) : Option Env := do
  let xs ← j.asArr?
  xs.mapM fun
    | .arr [.str k, v] => do pure (k, ← valOfJ v)
    | _ => none

def errName : Err → String
  | .nameError => "NameError"
  | .typeError => "TypeError"

def resJ (ctx : Env) (r : Except Err (Option Res)) : J :=
  match r with
  | .error e => .obj [("outcome", .str "error"), ("error", .str (errName e))]
  | .ok none => .obj [("outcome", .str "empty")]
  | .ok (some r) =>
    .obj [("outcome", .str "ok"), ("result", valToJ r.result),
          ("vars", .arr ((erase resultKey (outputs ctx r.env)).map fun p => .arr [.str p.1, valToJ p.2])),
          ("stdout", .arr (r.out.map valToJ))]

def run (prog : List Stmt) (ctx : Env) : J := resJ ctx (evaluate prog ctx)

def runFull (explicit : Option PermSet) (slot : Slot) (prog : List Stmt) (ctx : Env) : J :=
  match evaluateFull explicit slot prog ctx with
  | .rejected l => .obj [("outcome", .str "rejected"), ("line", .int l)]
  | .ran r => resJ ctx r

end TailJ

partial def nodeOfJ : J → Option (Node Kind)
  | .arr [.str k, .int l, .arr cs] => do
    let kind ← kindOfName? k
    let children ← cs.mapM nodeOfJ
    pure (.mk kind l.toNat children)
  | _ => none

def permsOfJ (j : J) : Option PermSet := do
  let xs ← j.asArr?
  xs.mapM (fun x => x.asStr? >>= Perm.ofName?)

def optPermsOfJ : J → Option (Option PermSet)
  | .null => some none
  | j => (permsOfJ j).map some

def permsToJ (ps : PermSet) : J := .arr (Perm.all.filter (granted ps) |>.map (fun p => .str p.name))

def bad (msg : String) : J := .obj [("bad_request", .str msg)]

def handle (j : J) : J :=
  match j.getStr? "op" with
  | some "validate" =>
    match (j.get? "perms").bind permsOfJ, (j.get? "tree").bind nodeOfJ with
    | some ps, some t =>
      .obj [("ok", .bool (validate gate ps t)), ("line", J.ofOptInt ((firstViolation gate ps t).map Int.ofNat))]
    | _, _ => bad "validate"
  | some "evaluate" =>
    match (j.get? "explicit").bind optPermsOfJ, (j.getArr? "scopes").bind (·.mapM permsOfJ),
          (j.get? "tree").bind nodeOfJ with
    | some ex, some scopes, some t =>
      -- scopes entered and left again (sequentially) inside the nest, before evaluate is called
      let pre := ((j.getArr? "pre").bind (·.mapM permsOfJ)).getD []
      let slot := pre.foldl (fun s p => scopeRun s [p]) (scopeNest none scopes)
      let after := scopeRun none scopes
      let eff := effective effectiveRule ex slot
      let out := match evaluateHead gate effectiveRule ex slot t with
        | .runs => J.obj [("outcome", .str "runs")]
        | .rejected l => J.obj [("outcome", .str "rejected"), ("line", .int l)]
      .obj [("result", out),
            ("effective", match eff with | none => .null | some ps => permsToJ ps),
            ("slot_inside", match slot with | none => .null | some ps => permsToJ ps),
            ("slot_after", match after with | none => .null | some ps => permsToJ ps)]
    | _, _, _ => bad "evaluate"
  | some "split" =>
    match (j.getStr? "last").bind kindOfName? with
    | some k => .obj [("split", .bool (splitKinds.contains k))]
    | none => bad "split"
  | some "tail" =>
    match (j.getArr? "prog").bind (·.mapM TailJ.stmtOfJ), (j.get? "ctx").bind TailJ.envOfJ with
    | some prog, some ctx =>
      match (j.get? "explicit").bind optPermsOfJ, (j.getArr? "scopes").bind (·.mapM permsOfJ) with
      | some ex, some scopes => TailJ.runFull ex (scopeNest none scopes) prog ctx
      | _, _ => TailJ.run prog ctx
    | _, _ => bad "tail"
  | some "tables" =>
    .obj [("gate", .obj (allKinds.filterMap fun k =>
              if (gate k).isEmpty then none else some (kindName k, J.ofStrs ((gate k).map Perm.name)))),
          ("split", J.ofStrs (splitKinds.map kindName)),
          ("known_ungated", J.ofStrs (knownUngated.map kindName)),
          ("known_split", J.ofStrs (knownSplit.map kindName))]
  | _ => bad "op"

def main : IO Unit := driverLoop handle
