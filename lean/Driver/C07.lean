/- Line-protocol driver for the C07 model: the forest model and glue of C01 (clone is one of its
operations). -/
import Driver.SymGlue
open Pg Pg.Sym SymGlue

def handle (j : J) : J :=
  match j.getStr? "op" with
  | some "history" =>
    .obj [("steps", .arr (runHistory (cfgOf j) ((j.getArr? "ops").getD [])))]
  | _ => .obj [("bad_request", .str "op")]

def main : IO Unit := driverLoop handle
