/- Line-protocol driver for the C07 model: the forest model and glue of C01 (clone is one of its
operations). -/
import Driver.SymGlue
import PgModel.CloneVal
open Pg Pg.Sym SymGlue

namespace ValJ
open Pg.C07.Val

mutual
  /-- structure JSON → value, identities assigned in pre-order from `next`. -/
  partial def label (next : Nat) : J → Option (V × Nat)
    | .arr [.str "imm"] => some (.imm 0, next)
    | .arr [.str "opq"] => some (.opq next, next + 1)
    | .arr [.str "sym", .arr cs] => do let r ← labelAll (next + 1) cs; pure (.sym next r.1, r.2)
    | .arr [.str "tup", .arr cs] => do let r ← labelAll next cs; pure (.tup r.1, r.2)
    | .arr [.str "plist", .arr cs] => do let r ← labelAll (next + 1) cs; pure (.plist next r.1, r.2)
    | .arr [.str "pdict", .arr cs] => do let r ← labelAll (next + 1) cs; pure (.pdict next r.1, r.2)
    | _ => none
  partial def labelAll (next : Nat) : List J → Option (List V × Nat)
    | [] => some ([], next)
    | c :: cs => do
      let r ← label next c
      let rs ← labelAll r.2 cs
      pure (r.1 :: rs.1, rs.2)
end

def run (deep : Bool) (j : J) : J :=
  match label 0 j with
  | none => .obj [("bad_request", .str "clonev")]
  | some (v, next) =>
    let c := (cloneV deep next v).1
    .obj [("shared", .arr ((ids c).map fun i => .bool ((ids v).contains i))),
          ("objects", .int (ids c).length)]

end ValJ

def handle (j : J) : J :=
  match j.getStr? "op" with
  | some "history" =>
    .obj [("steps", .arr (runHistory (cfgOf j) ((j.getArr? "ops").getD [])))]
  | some "clonev" =>
    match j.getBool? "deep", j.get? "v" with
    | some deep, some v => ValJ.run deep v
    | _, _ => .obj [("bad_request", .str "clonev")]
  | _ => .obj [("bad_request", .str "op")]

def main : IO Unit := driverLoop handle
