/- Line-protocol driver for the geno model, C11 (see harness/c11.py for the request shapes). -/
import Driver.C11Json
import PgModel.Geno.Hooks
open Pg Pg.Geno Pg.GenoJson

/-- One DNA-shaped input: normalised tree, verdicts of the implementation model and of the spec. -/
def checkOne (g : Spec) (finite : Bool) (j : J) : J :=
  match dnaOfJ j with
  | none => bad "dna"
  | some d =>
    let valid := g.valid d
    .obj ([("norm", dnaToJ d), ("validate", .bool (g.validate d)), ("bind", .bool (g.bind d)),
           ("valid", .bool valid)] ++
          (if finite then [("next", match g.next d with
              | some (some d') => if g.bind d' then dnaToJ d' else .str "error"   -- `next_dna` binds its result
              | r => nextToJ r)] else []))

/-- The hook tables of a spec JSON: every custom point `{"t": "u", …, "hook": [strings]}`. -/
partial def hooksOfJ (j : J) : List (Info × List String) :=
  match j.getStr? "t" with
  | some "s" => ((j.getArr? "elems").getD []).flatMap hooksOfJ
  | some "c" => ((j.getArr? "cands").getD []).flatMap fun c => (c.asArr?.getD []).flatMap hooksOfJ
  | some "u" =>
    match infoOfJ j, (j.getArr? "hook").bind (·.mapM J.asStr?) with
    | some info, some l => [(info, l)]
    | _, _ => []
  | _ => []

def hookTable (tb : List (Info × List String)) (i : Info) : Option (List String) :=
  (tb.find? fun e => e.1.name == i.name && e.1.loc == i.loc).map (·.2)

/-- `first_dna` / `iter_dna` / `next_dna` of a spec whose custom points have list hooks. -/
def hookedPart (hj : J) : J :=
  match (hj.get? "spec").bind specOfJ with
  | none => bad "hooked spec"
  | some g =>
    let hk := listHooks (hookTable (hooksOfJ ((hj.get? "spec").getD .null)))
    let fuel := (hj.getNat? "fuel").getD 0
    .obj [("first", dnaToJ (g.firstH hk)),
          ("iter", match g.iterH hk fuel with
             | none => .str "error"
             | some (l, ended) => .obj [("dnas", .arr (l.map dnaToJ)), ("ended", .bool ended)]),
          ("nexts", .arr (((hj.getArr? "dnas").getD []).map fun dj =>
             match dnaOfJ dj with
             | none => bad "dna"
             | some d => nextToJ (g.nextH hk d)))]

def handle (j : J) : J :=
  match j.getStr? "op" with
  | some "space" =>
    match (j.get? "spec").bind specOfJ with
    | none => bad "spec"
    | some g =>
      let finite := g.finite
      let fuel := (j.getNat? "fuel").getD 0
      let size := g.size
      let base : List (String × J) :=
        [("wf", .bool g.wf), ("finite", .bool finite), ("no_multi", .bool g.noMulti),
         ("size", match size with | some n => .int n | none => .int (-1))]
      let enumPart : List (String × J) :=
        if finite && fuel > 0 then
          [("first", dnaToJ g.first),
           ("iter", match g.iter fuel with
              | none => .str "error"
              | some (l, ended) => .obj [("dnas", .arr (l.map dnaToJ)), ("ended", .bool ended)]),
           ("all", .arr (g.all.map dnaToJ))]
        else if (j.getBool? "want_first").getD false then [("first", dnaToJ g.first)]
        else []
      let sweepPart : List (String × J) :=
        if finite && fuel > 0 && g.all.length ≤ (j.getNat? "sweep_cap").getD 0 then
          match g.sweepInfo fuel with
          | some (l, ended, after) =>
            [("sweep", .obj [("props", .arr (l.map dnaToJ)), ("ended", .bool ended),
                             ("after_end", .arr (after.map fun p => match p with
                                | some d => dnaToJ d
                                | none => .str "stop"))])]
          | none => [("sweep", .str "error")]
        else []
      let checks := ((j.getArr? "dnas").getD []).map (checkOne g finite)
      let randoms := ((j.getArr? "draws").getD []).map fun dj =>
        match dj.asArr?.bind (·.mapM drawOfJ) with
        | none => bad "draws"
        | some o =>
          match g.random o with
          | none => J.null
          | some (d, rest) => .obj [("dna", dnaToJ d), ("left", .int rest.length),
                                     ("valid", .bool (g.valid d))]
      let prevRandoms := ((j.getArr? "prev_draws").getD []).map fun pj =>
        match (pj.get? "prev").bind dnaOfJ, (pj.getArr? "draws").bind (·.mapM drawOfJ) with
        | some pd, some o =>
          (match g.randomPrev (some pd) o with
           | none => J.null
           | some (d, rest) => .obj [("dna", dnaToJ d), ("left", .int rest.length)])
        | _, _ => bad "prev_draws"
      let cmps := ((j.getArr? "cmps").getD []).map fun p =>
        match p with
        | .arr [a, b] =>
          match dnaOfJ a, dnaOfJ b with
          | some x, some y => ordToJ (DNA.cmp x y)
          | _, _ => bad "cmp"
        | _ => bad "cmp"
      let hooked : List (String × J) := match j.get? "hooked" with
        | some hj => if hj matches .null then [] else [("hooked", hookedPart hj)]
        | none => []
      .obj (base ++ enumPart ++ sweepPart ++ hooked ++ [("checks", .arr checks), ("randoms", .arr randoms), ("prev_randoms", .arr prevRandoms), ("cmps", .arr cmps)])
  | _ => bad "op"

def main : IO Unit := driverLoop handle
