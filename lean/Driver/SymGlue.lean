/-
  Glue shared by the C01 and C07 drivers: JSON <-> forest, and the resolution of the
  state-relative operation descriptions of the harness (node numbers modulo the number of
  nodes, "existing key number j", "len + d" indices) against the current model state.
  The same resolution rules are implemented in harness/symcommon.py for the real objects.
-/
import PgModel.Json
import PgModel.SymWF
open Pg Pg.Sym

namespace SymGlue

def keyToJ : Key → J
  | .s n => .arr [.str "k", .int n]
  | .i i => .arr [.str "i", .int i]

def atomToJ : Atom → J
  | .none => .null
  | .missing => .str "M"
  | .int i => .int i
  | .str n => .arr [.str "s", .int n]
  | .opaque i => .arr [.str "q", .int i]
  | .tup ids => .arr [.str "t", .arr (ids.map fun (i : Nat) => J.int (Int.ofNat i))]

def kindToJ : Kind → J
  | .dict => .str "d"
  | .list => .str "l"
  | .obj c => .arr [.str "o", .int c]

partial def treeToJ : Tree → J
  | .leaf a => atomToJ a
  | .node m its =>
    .obj [("id", .int m.id), ("kind", match m.kind, m.ref with
            | .obj c, some tg => J.arr [.str "o", .int c, .int tg]
            | .list, _ => if m.typed then J.str "tl" else J.str "l"
            | k, _ => kindToJ k),
          ("parent", match m.parent with | none => .null | some p => .int p),
          ("path", .arr (m.path.map keyToJ)),
          ("flags", .arr [.bool m.sealed, .bool m.accW, .bool m.part]),
          ("items", .arr (its.map fun kv => .arr [keyToJ kv.1, treeToJ kv.2]))]

def forestToJ (f : Forest) : J := .arr (f.roots.map treeToJ)

/-! ### Resolution -/

structure Ctx where
  f : Forest
  nodes : List Tree          -- all nodes, roots in order, preorder
  target : Option Tree       -- resolved target container
  unsafeRefs : Bool          -- witness replay of F30: do not filter diverging references
  guardOwn : Bool := false   -- F79 guard (only while the tree is unpatched)

def believedRoot (f : Forest) (id : Nat) : Option Nat := (chainFrom f (f.ids.length + 1) id).getLast?

/-- does node `id` (believe to) live in the tree written to? -/
def sameRoot (cx : Ctx) (id : Nat) : Bool :=
  match cx.target.bind Tree.id? with
  | some t => (believedRoot cx.f id).isSome && believedRoot cx.f id == believedRoot cx.f t
  | none => false

def natOf (j : J) : Nat := (j.asInt?.getD 0).natAbs

def pickNode (nodes : List Tree) (n : Nat) : Option Tree :=
  if nodes.isEmpty then none else nodes[n % nodes.length]?

def pickOfKind (nodes : List Tree) (fam : String) (n : Nat) : Option Tree :=
  let cands := nodes.filter fun t => match t.meta?, fam with
    | some m, "d" => m.kind == .dict
    | some m, "l" => m.kind == .list && !m.typed
    | some m, "tl" => m.kind == .list && m.typed
    | some m, "o" => m.kind == .obj 0 || m.kind == .obj 1
    | some _, _ => true
    | none, _ => false
  pickNode cands n

/-- key spec against a container: ["k", j] / ["i", j] literal, ["e", j] existing key number j,
["abs", i] / ["len", d] / ["neg", d] integer keys relative to the length. -/
def resolveKey (cont : Option Tree) (j : J) : Key :=
  let its := (cont.map Tree.items).getD []
  let len : Int := its.length
  match j with
  | .arr [.str "k", .int n] => .s n.natAbs
  | .arr [.str "i", .int n] => .i n
  | .arr [.str "abs", .int n] => .i n
  | .arr [.str "len", .int d] => .i (len + d)
  | .arr [.str "neg", .int d] => .i (-len + d)
  | .arr [.str "e", .int n] =>
    match its[n.natAbs % (max its.length 1)]? with
    | some kv => kv.1
    | none => (match cont.bind Tree.meta? with
               | some m => if m.kind == .list then Key.i 0 else Key.s 0
               | none => Key.s 0)
  | _ => .s 0

def resolveIdx (cont : Option Tree) (j : J) : Int :=
  match resolveKey cont j with
  | .i n => n
  | .s _ => 0

def flagsOf (j : J) : Bool × Bool × Bool :=
  match j with
  | .arr [.bool a, .bool b, .bool c] => (a, b, c)
  | _ => (false, true, false)

/-- state threaded through the resolution of the values of one operation: ids already offered. -/
abbrev Used := List Nat

/-- values without offered nodes (used inside the construction of a typed list). -/
partial def plainOnly : VE → VE
  | .atom a => .atom a
  | .node .dict _ _ _ items => .node .dict false true false (items.map fun kv => (kv.1, plainOnly kv.2))
  | .node .list _ _ _ items => .node .list false true false (items.map fun kv => (kv.1, plainOnly kv.2))
  | _ => .atom .none

/-- what the glue offers to a typed list: an instance of C0 (new, with plain field values, or
existing) — anything else becomes the rejected value `1`. -/
def forTyped (f : Forest) : VE → VE
  | .node (.obj 0) s a p its => .node (.obj 0) s a p (its.map fun kv => (kv.1, plainOnly kv.2))
  | .ref id => if (f.metaOf? id).any (fun m => m.kind == .obj 0) then .ref id else .atom (.int 1)
  | _ => .atom (.int 1)

partial def resolveVE (cx : Ctx) (used : Used) : J → VE × Used
  | .null => (.atom .none, used)
  | .str "M" => (.atom .missing, used)
  | .int i => (.atom (.int i), used)
  | .arr [.str "s", .int n] => (.atom (.str n.natAbs), used)
  | .arr [.str "q"] => (.fresh, used)
  | .arr [.str "T", .int n] => (.freshTuple (n.natAbs % 4), used)
  | .arr [.str "tl", .arr vs] =>
    -- a typed list is constructed from fresh instances of C0
    let (items, used') := vs.foldl (fun (acc : List (Key × VE) × Used) v =>
      let r := resolveVE cx acc.2 v
      let e := match r.1 with
        | .node (.obj 0) s a p its => VE.node (.obj 0) s a p (its.map fun kv => (kv.1, plainOnly kv.2))
        | _ => VE.node (.obj 0) false true false []
      (acc.1 ++ [(Key.i acc.1.length, e)], r.2)) ([], used)
    (.typedList items, used')
  | .arr [.str "I"] => (.node (.obj clsInferred) false false false [], used)
  | .arr [.str "R"] => (.mkRef none, used)
  | .arr [.str "R", .int n] =>
    -- pg.Ref to an existing node: not to a node offered in this call, and not into the tree the
    -- node lives in ("Self-referential object is not supported")
    match pickNode cx.nodes n.natAbs with
    | some (.node m _) =>
      if used.contains m.id || (!cx.unsafeRefs && sameRoot cx m.id) then (.atom .none, used)
      -- `Ref(Ref(x))` refers to x
      else (.mkRef (some (match m.kind, m.ref with | .obj 2, some tg => tg | _, _ => m.id)), used)
    | _ => (.atom .none, used)
  | .arr [.str "r", .int n] =>
    match pickNode cx.nodes n.natAbs with
    | some (.node m its) =>
      let diverges := match cx.target.bind Tree.id? with
        | some t => m.parent.isNone &&
            (chainFrom cx.f (cx.f.ids.length + 1) t).any (fun c => (Tree.node m its).ids.contains c)
        | none => false
      -- an offered Ref object gets a new parent: its target must live in another tree
      let selfRef := match m.kind, m.ref with
        | .obj 2, some tg => sameRoot cx tg
        | _, _ => false
      -- (a spec-bound list is not offered by itself: an object field that receives it rewrites the
      -- offered list's allow_partial before the copy is made — F121, outside the model)
      if used.contains m.id || m.typed || ((diverges || selfRef) && !cx.unsafeRefs) then (.atom .none, used)
      -- a parentless node will be moved: its whole subtree is then out of reach for this call
      else if m.parent.isNone then (.ref m.id, (Tree.node m its).ids ++ used)
      else (.ref m.id, m.id :: used)
    | _ => (.atom .none, used)
  | .arr [.str "d", fl, .arr kvs] =>
    let (s, a, p) := flagsOf fl
    let (items, used') := kvs.foldl (fun (acc : List (Key × VE) × Used) kv =>
      match kv with
      | .arr [k, v] =>
        let key := resolveKey none k
        if acc.1.any (fun x => x.1 == key) then acc else
        let r := resolveVE cx acc.2 v
        (acc.1 ++ [(key, r.1)], r.2)
      | _ => acc) ([], used)
    (.node .dict s a p items, used')
  | .arr [.str "l", fl, .arr vs] =>
    let (s, a, p) := flagsOf fl
    let (items, used') := vs.foldl (fun (acc : List (Key × VE) × Used) v =>
      let r := resolveVE cx acc.2 v
      (acc.1 ++ [(Key.i acc.1.length, r.1)], r.2)) ([], used)
    (.node .list s a p items, used')
  | .arr [.str "o", .int c, fl, .arr kvs] =>
    let (s, a, p) := flagsOf fl
    let cls := c.natAbs % 2
    let (items, used') := kvs.foldl (fun (acc : List (Key × VE) × Used) kv =>
      match kv with
      | .arr [.int fi, v] =>
        let key := Key.s (fi.natAbs % (cls + 2))
        if acc.1.any (fun x => x.1 == key) then acc else
        let r := resolveVE cx acc.2 v
        (acc.1 ++ [(key, r.1)], r.2)
      | _ => acc) ([], used)
    (.node (.obj cls) s true p items, used')
  | _ => (.atom .none, used)

def resolveVEs (cx : Ctx) (used : Used) (js : List J) : List VE × Used :=
  js.foldl (fun (acc : List VE × Used) j => let r := resolveVE cx acc.2 j; (acc.1 ++ [r.1], r.2)) ([], used)

/-- walk a path spec from a node, resolving each key spec against the node reached so far. -/
partial def resolvePath (cur : Option Tree) : List J → List Key
  | [] => []
  | j :: rest =>
    let k := resolveKey cur j
    let next := match cur with
      | some t => t.query [k]
      | none => none
    k :: resolvePath next rest

/-- F79 guard: an existing child of list `dest` is not offered as an insertion into `dest`. -/
def dropOwn (f : Forest) (cx : Ctx) (dest : Nat) (v : VE) : VE :=
  match v with
  | .ref id => if !cx.guardOwn then v else
      if !cx.unsafeRefs && (f.metaOf? id).any (fun m => m.parent == some dest) then .atom .none else v
  | _ => v

def holdsInferred (cont : Tree) (k : Key) : Bool :=
  match getKey cont.items k with
  | some (.node m _) => m.kind == .obj clsInferred
  | _ => false

/-- what survives `pg.from_json(pg.to_json(v))`: plain values and containers with default flags. -/
partial def sanitizeVE : VE → VE
  | .atom (.int i) => .atom (.int i)
  | .atom (.str n) => .atom (.str n)
  | .typedList items => VE.node .list false true false (items.map fun kv => (kv.1, sanitizeVE kv.2))
  | .node kind _ _ _ items =>
    (match kind with
     | .obj c => if c < 2 then VE.node kind false true false (items.map fun kv => (kv.1, sanitizeVE kv.2)) else .atom .none
     | _ => VE.node kind false true false (items.map fun kv => (kv.1, sanitizeVE kv.2)))
  | _ => .atom .none

def resolveOp (f : Forest) (j : J) : Option Op :=
  let nodes := f.nodes
  let name := (j.getStr? "op").getD ""
  let tn := natOf (j.getD "t" (.int 0))
  let fam := match name with
    | "dset" | "ddel" | "dpop" | "dpopitem" | "dclear" | "dsetdefault" | "dupdate" | "dior" => "d"
    | "lset" | "ldel" | "lappend" | "linsert" | "lextend" | "liadd" | "lpop" | "lremove" | "lclear"
    | "lsort" | "lreverse" | "limul" | "lslice" | "ldelslice" => "l"
    | "oset" => "o"
    | "tlset" | "tlappend" | "tlins" | "tldel" | "tlpop" => "tl"
    | _ => "*"
  let target := if name == "new" || name == "newjson" then none else pickOfKind nodes fam tn
  let cx : Ctx := { f := f, nodes := nodes, target := target, unsafeRefs := (j.getBool? "unsafe").getD false }
  let v := fun (field : String) => (resolveVE cx [] (j.getD field .null)).1
  let vs := fun (field : String) => (resolveVEs cx [] ((j.getArr? field).getD [])).1
  if name == "new" then some (.new (v "v")) else
  if name == "newjson" then some (.new (sanitizeVE (v "v"))) else
  match target with
  | none => none
  | some tt =>
    let t := (tt.id?).getD 0
    let len : Int := tt.items.length
    match name with
    | "clone" => some (.clone t ((j.getBool? "deep").getD false))
    | "tlset" => some (.setItem t (resolveKey target (j.getD "key" .null)) (forTyped f (v "v")))
    | "tlappend" => some (.lAppend t (forTyped f (v "v")))
    | "tlins" => some (.lInsert t (resolveIdx target (j.getD "key" .null)) (forTyped f (v "v")))
    | "tldel" => some (.delItem t (resolveKey target (j.getD "key" .null)))
    | "tlpop" => some (.lPop t (resolveIdx target (j.getD "key" .null)))
    | "dset" | "lset" => some (.setItem t (resolveKey target (j.getD "key" .null)) (v "v"))
    | "oset" =>
      let cls := match tt.meta?.map (·.kind) with | some (.obj c) => c | _ => 0
      some (.setItem t (Key.s (natOf (j.getD "key" (.int 0)) % (cls + 2))) (v "v"))
    | "ddel" | "ldel" => some (.delItem t (resolveKey target (j.getD "key" .null)))
    | "lappend" => some (.lAppend t (v "v"))
    | "linsert" => some (.lInsert t (resolveIdx target (j.getD "key" .null)) (dropOwn f cx t (v "v")))
    | "lextend" | "liadd" => some (.lExtend t (vs "vs"))
    | "lpop" =>
      let idx := resolveIdx target (j.getD "key" .null)
      let k := Key.i (if idx < 0 then idx + len else idx)
      -- `pop` evaluates the value it returns; an un-inferable inferred value raises there
      if holdsInferred tt k then none else some (.lPop t idx)
    | "lremove" => some (.lRemove t (.int ((j.getInt? "a").getD 0)))
    | "lclear" => some (.lClear t)
    | "lsort" =>
      let raw := ((j.getArr? "ranks").getD []).map (fun x => x.asInt?.getD 0)
      let raw := if raw.isEmpty then [0] else raw
      let ranks := (List.range tt.items.length).map (fun i => raw[i % raw.length]?.getD 0)
      some (.lSort t ranks ((j.getBool? "rev").getD false))
    | "lreverse" => some (.lReverse t)
    | "limul" => some (.lIMul t ((j.getInt? "times").getD 0))
    | "lslice" | "ldelslice" =>
      let optIdx (field : String) : Option Int := match j.get? field with
        | some .null | none => none
        | some spec => some (resolveIdx target spec)
      let stp : Option Int := j.getInt? "step"
      if name == "ldelslice" then some (.lDelSlice t (optIdx "a") (optIdx "b") stp)
      else some (.lSetSlice t (optIdx "a") (optIdx "b") stp ((vs "vs").map (dropOwn f cx t)))
    | "seal" => some (.setSeal t ((j.getBool? "flag").getD true))
    | "dpop" =>
      let k := resolveKey target (j.getD "key" .null)
      if holdsInferred tt k then none else some (.dPop t k)
    | "dpopitem" => some (.dPopItem t)
    | "dclear" => some (.dClear t)
    | "dsetdefault" => some (.dSetDefault t (resolveKey target (j.getD "key" .null)) (v "v"))
    | "dupdate" | "dior" =>
      let kvs := (j.getArr? "kvs").getD []
      let (items, _) := kvs.foldl (fun (acc : List (Key × VE) × Used) kv =>
        match kv with
        | .arr [k, val] =>
          let key := resolveKey target k
          if acc.1.any (fun x => x.1 == key) then acc else
          let r := resolveVE cx acc.2 val
          (acc.1 ++ [(key, r.1)], r.2)
        | _ => acc) ([], [])
      some (.dUpdate t items)
    | "rebind" =>
      let isList : Bool := match tt.meta? with | some m => m.kind == .list | none => false
      let raw := (j.getArr? "pairs").getD []
      let (pairs, _) := raw.foldl (fun (acc : List (List Key × Bool × VE) × Used) pr =>
        match pr with
        | .arr [.arr pspec, .bool ins, val] =>
          let path := resolvePath target pspec
          let path := if isList then (match path.head? with
              | some (.i n) => [Key.i n]
              | _ => [Key.i 0]) else path
          -- paths of one rebind are prefix-independent (a later pair never addresses what an
          -- earlier pair has just written)
          if path.isEmpty || acc.1.any (fun x => x.1.isPrefixOf path || path.isPrefixOf x.1) then acc else
          let r := resolveVE cx acc.2 val
          let dest := match tt.query path.dropLast with
            | some (.node pm _) => some pm
            | _ => none
          -- an Insertion only means something where the written container is a list
          let ins := ins && (match dest with | some pm => pm.kind == .list | none => false)
          let r := match dest with
            | some pm => if pm.typed then (forTyped f r.1, r.2) else r
            | none => r
          let destId := match dest with | some pm => pm.id | none => t
          (acc.1 ++ [(path, ins, if ins then dropOwn f cx destId r.1 else r.1)], r.2)
        | _ => acc) ([], [])
      let skip := match j.get? "skip" with | some (.bool b) => some b | _ => none
      some (.rebind t pairs skip)
    | _ => none

def cfgOf (j : J) : Cfg :=
  match j.getStr? "cfg" with
  | some "pinned" => Cfg.pinned
  | _ =>
    { reindexOnMutate := (j.getBool? "f03").getD true,
      reindexOnReorder := (j.getBool? "f02").getD true,
      listCloneSealed := (j.getBool? "f17").getD true,
      detachOnRemove := (j.getBool? "f33").getD true,
      insertCopiesOwn := (j.getBool? "f79").getD true,
      notifyBulk := (j.getBool? "bulk").getD true,
      sliceAtTarget := (j.getBool? "f225").getD true }

def outcomeToJ : Outcome → J
  | .ok => .str "ok"
  | .err e => .str e.name
  | .diverges => .str "diverges"
  | .skip => .str "skip"

/-- run a history; one record per operation. -/
def runHistory (cfg : Cfg) (ops : List J) : List J :=
  let rec go (f : Forest) (ops : List J) (acc : List J) : List J :=
    match ops with
    | [] => acc.reverse
    | j :: rest =>
      let notifyOn := (j.getBool? "n").getD true
      match resolveOp f j with
      | none => go f rest (J.obj [("out", .str "skip"), ("dump", forestToJ f), ("wf", .bool f.wf)] :: acc)
      | some op =>
        -- a clone may run inside `with pg.allow_partial(True)`
        let cfg := match (j.get? "scope").bind (fun sc => sc.getBool? "partial") with
          | some b => if (j.getStr? "op") == some "clone" then { cfg with scopePartial := some b } else cfg
          | none => cfg
        let r := stepA cfg f notifyOn op
        let rec' := J.obj [("out", outcomeToJ r.out), ("dump", forestToJ r.forest),
                           ("wf", .bool r.forest.wf), ("aliased", .bool r.forest.aliased), ("adm", .bool (Admissible cfg f notifyOn op)),
                           ("keyed", .bool (wellKeyed op)),
                           ("rop", .str (reprStr op))]
        if r.out == .diverges then (rec' :: acc).reverse else go r.forest rest (rec' :: acc)
  go Forest.empty ops []

end SymGlue
