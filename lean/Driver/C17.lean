/- Line-protocol driver for the C17 model (see harness/c17.py for the request shapes). -/
import PgModel.Json
import PgGen.C17Registry
open Pg Pg.C17

def bad (msg : String) : J := .obj [("bad_request", .str msg)]

def atomOfJ : J → Option Atom
  | .null => some .none
  | .bool b => some (.bool b)
  | .int i => some (.int i)
  | .str s => some (.str s)
  | _ => none

def atomToJ : Atom → J
  | .none => .null
  | .bool b => .bool b
  | .int i => .int i
  | .str s => .str s

def valOfJ : J → Option Val
  | .obj [("d", .obj kvs)] => (kvs.mapM fun (p : String × J) => (atomOfJ p.2).map (fun a => (p.1, a))).map .dict
  | .obj [("o", .arr [v, .bool c, .bool oa])] => (atomOfJ v).map (fun a => .ovr a c oa)
  | .obj [("l", .arr xs)] => (xs.mapM atomOfJ).map .list
  | j => (atomOfJ j).map .atom

def insertSorted {β : Type} (p : String × β) : List (String × β) → List (String × β)
  | [] => [p]
  | q :: qs => if p.1 < q.1 then p :: q :: qs else q :: insertSorted p qs

def sortKvs {β : Type} (l : List (String × β)) : List (String × β) := l.foldr insertSorted []

def valToJ : Val → J
  | .atom a => atomToJ a
  | .dict kvs => .obj [("d", .obj ((sortKvs kvs).map fun (k, a) => (k, atomToJ a)))]
  | .ovr a c oa => .obj [("o", .arr [atomToJ a, .bool c, .bool oa])]
  | .list xs => .obj [("l", .arr (xs.map atomToJ))]

def frameOfJ : J → Option Frame
  | .obj kvs => kvs.mapM fun (p : String × J) => (valOfJ p.2).map (fun x => (p.1, x))
  | _ => none

def obsToJ : ObsVal → J
  | .atom a => atomToJ a
  | .frame f => .obj [("f", .obj ((sortKvs f).map fun (k, v) => (k, valToJ v)))]

def argOfJ (j : J) : Option Arg := do
  let a ← match j.get? "a" with | some x => atomOfJ x | none => some .none
  let kw ← match j.get? "kw" with | some x => frameOfJ x | none => some []
  let name := (j.getStr? "name").getD "global"
  let inh ← match j.get? "inh" with | some x => atomOfJ x | none => some (.bool false)
  let pt := (j.getBool? "pt").getD true
  pure { a := a, kw := kw, name := name, inh := inh, perThread := pt }

def mgrOfName (n : String) : Option Mgr := registry.find? (fun m => m.name == n)

partial def progOfJ : J → Option Prog
  | .arr [.str "skip"] => some .skip
  | .arr [.str "sync"] => some .skip        -- hand-off points exist only in the real two-thread run
  -- public actions on the manager object of the enclosing block: they read (`wrapped_probe`:
  -- the explicit-propagation wrapper observes the current overrides) or do not touch the setting
  | .arr [.str "act", .str n, .str "wrapped_probe"] => (mgrOfName n).map .probe
  | .arr [.str "act", .str _, .str _] => some .skip
  | .arr [.str "raise"] => some .raise
  | .arr [.str "fail", .str e] => some (.fail e)
  | .arr [.str "seq", p, q] => do pure (.seq (← progOfJ p) (← progOfJ q))
  | .arr [.str "try", p] => do pure (.try_ (← progOfJ p))
  | .arr [.str "probe", .str n] => (mgrOfName n).map .probe
  | .arr [.str "call", .str n, .str c, p] => do pure (.call (← mgrOfName n) c (← progOfJ p))
  | .arr [.str "scope", .str n, a, p] => do pure (.scope (← mgrOfName n) (← argOfJ a) (← progOfJ p))
  | _ => none

/-- Behavioural probes predicted from the getter value (what the flag *does*). -/
def behav (name : String) (v : ObsVal) : J :=
  let isT := v == .atom (.bool true)
  let isF := v == .atom (.bool false)
  match name with
  | "notify_on_change" => .obj [("on_change_called", .bool isT)]
  | "enable_type_check" => .obj [("bad_type_rejected", .bool isT)]
  | "as_sealed" => .obj [("unsealed_write_raises", .bool isT), ("sealed_write_raises", .bool (!isF))]
  | "allow_writable_accessors" =>
    .obj [("writable_obj_raises", .bool isF), ("nonwritable_obj_raises", .bool (!isT))]
  | "allow_partial" => .obj [("partial_rejected", .bool (!isT))]
  | "track_origin" => .obj [("clone_has_origin", .bool isT)]
  | "auto_call_functors" => .obj [("called", .bool isT)]
  | "detour" | "apply_wrappers" =>
    -- object creation follows the thread's own mapping (justified by `C17_construct_follows_mapping`)
    match v with
    | .frame f => .obj [("new", .obj (probeClasses.map fun c => (c, .str (mappingDest f c))))]
    | _ => .null
  | "dynamic_evaluate" =>
    .obj [("oneof", match v with | .atom (.str f) => .str f | _ => .str "hyper")]
  | _ => .null

def outcomeToJ : Outcome → J
  | .normal => .str "normal"
  | .exc e => .str ("exc:" ++ e)

def snapshot (t : Nat) (w : World) : J :=
  .obj (registry.map fun m => (m.name, obsToJ (getter m t w)))

def runThread (t : Nat) (p : Prog) : J :=
  let r := exec t p World.empty
  .obj [("outcome", outcomeToJ r.outcome),
        ("obs", .arr (r.obs.map fun o => .arr [.str o.mgr, obsToJ o.v, behav o.mgr o.v])),
        ("before", snapshot t World.empty),
        ("after", snapshot t r.world)]

def kindName : Kind → String
  | .valueScope => "valueScope" | .argScope => "argScope" | .outermostWins => "outermostWins"
  | .cascadeMap => "cascadeMap" | .stack .update => "stack:update" | .stack .deepMerge => "stack:deepMerge"
  | .stack .preset => "stack:preset" | .stack .detour => "stack:detour" | .enterExit => "enterExit"
  | .frameScope => "frameScope" | .dynEval => "dynEval"

def storageName : Storage → String
  | .threadLocal => "threadLocal" | .processWide => "processWide" | .perArg => "perArg"

def handle (j : J) : J :=
  match j.getStr? "op" with
  | some "run" =>
    match (j.getArr? "threads").bind (·.mapM progOfJ) with
    | some ps => .obj [("threads", .arr ((List.range ps.length).zip ps |>.map fun (t, p) => runThread t p))]
    | none => bad "run"
  | some "tables" =>
    .obj [("registry", .arr (registry.map fun m =>
      .obj [("name", .str m.name), ("kind", .str (kindName m.kind)), ("key", .str m.key),
            ("initial", atomToJ m.initial), ("default", atomToJ m.getterDefault),
            ("storage", .str (storageName m.storage))]))]
  | _ => bad "op"

def main : IO Unit := driverLoop handle
