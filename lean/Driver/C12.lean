/- Line-protocol driver for the geno views model, C12 (see harness/c12.py). -/
import Driver.C11Json
import PgModel.Geno.Views
import PgModel.Geno.DictCond
import PgModel.Geno.Lookup
open Pg Pg.Geno Pg.GenoJson

partial def nestToJ : Nest → J
  | .v x => .obj [("v", valToJ x)]
  | .list xs => .obj [("l", .arr (xs.map nestToJ))]
  | .tuple xs => .obj [("t", .arr (xs.map nestToJ))]

def litToJ : Lit → J
  | .s v => .str v
  | .i v => .int v
  | .f n d => .obj [("f", .arr [.int n, .int d])]

def dvToJ : DV → J
  | .val v => valToJ v
  | .dna d => .obj [("dna", dnaToJ d)]
  | .str s => .str s
  | .lit l => litToJ l
  | .choice i n lit => .str (choiceStr i n lit)

def deToJ : DE → J
  | .one v => dvToJ v
  | .many vs => .arr (vs.map dvToJ)

def dictToJ (d : List (String × DE)) : J := .arr (d.map fun (k, e) => .arr [.str k, deToJ e])

/-- DFS list of the beliefs: `[id, subchoice_index]` or `null`. -/
partial def beliefs : BDNA → List J
  | .mk _ b cs =>
    (match b with
     | some dp => J.arr [.str (renderId dp.id), match dp.sub with | some i => .int i | none => .null]
     | none => .null) :: (cs.map beliefs).flatten

def lvToJ : LV → J
  | .none => .null
  | .one d => .obj [("one", dnaToJ d)]
  | .many ds => .obj [("many", .arr (ds.map optDnaToJ))]

def optLvToJ : Option LV → J
  | some v => lvToJ v
  | none => .str "KeyError"

/-- The look-up tables and every `dna[...]` of one bound DNA. -/
def lookupsOf (g : Spec) (b : BDNA) : J :=
  let byId := decisionById g b
  let named := namedDecisions g b
  .obj [("by_id", .arr (byId.map fun (k, v) => .arr [.str k, lvToJ v])),
        ("named", .arr (named.map fun (k, v) => .arr [.str k, lvToJ v])),
        ("ids", .arr ((decisionIds g).map .str)),
        ("items", .arr (g.dps.map fun dp =>
          .arr ([optLvToJ (getItemDp byId dp), optLvToJ (getItemFixed byId named (renderId dp.id))] ++
            (match dp.name with
             | some nm => [optLvToJ (getItemFixed byId named nm)]
             | none => []))))]

def optsGrid : List Opts :=
  [0, 1].flatMap fun kt => [0, 1, 2, 3, 4].flatMap fun vt => [0, 1, 2].map fun mk =>
    { keyType := kt, valueType := vt, multi := mk }

def annotPart (g : Spec) (d : DNA) : List (String × J) :=
  match g.annot d with
  | none => [("beliefs", .null)]
  | some b => [("beliefs", .arr (beliefs b)), ("dict", dictToJ (toDict {} b)),
               ("dict2", dictToJ (toDict { keyType := 1, valueType := 4, multi := 2 } b))]

def viewsOf (g : Spec) (d : DNA) : J :=
  let fl := flat d
  .obj ([("norm", dnaToJ d), ("flat", .arr (fl.map valToJ)), ("nested", nestToJ (toNested d)),
         ("compact", nestToJ (toCompactDeep d)),
         ("from_numbers", optDnaToJ (g.fromNumbers fl)),
         ("parse_nested", optDnaToJ (parse (toNested d))),
         ("parse_compact", optDnaToJ (parse (toCompactDeep d))),
         ("verbose", .obj [("value", valToJ (toVerbose d).1), ("children", .arr ((toVerbose d).2.map nestToJ))]),
         ("parse_verbose", optDnaToJ (parseVerbose (toVerbose d))),
         ("valid", .bool (g.valid d))] ++
        (match g.annot d with
         | none => [("beliefs", .null)]
         | some b => [("beliefs", .arr (beliefs b)),
                      ("dicts", .arr (optsGrid.map fun o => dictToJ (toDict o b))),
                      ("from_dicts", .arr (optsGrid.map fun o =>
                        optDnaToJ (g.fromDict (o.valueType == 3) (toDict o b)))),
                      ("dict_conds", .arr (optsGrid.map fun o => .bool (dictCond o (o.valueType == 3) b))),
                      ("lookup_tables", lookupsOf g b)]))

def pathOfJ (j : J) : Option (List Nat) := j.asArr?.bind (·.mapM J.asNat?)

/-- One producer step on the raw tree. -/
def stepOp (g : Spec) (cur : DNA) (op : J) : Option DNA :=
  match op.getStr? "op" with
  | some "next" => (g.next cur).bind id
  | some "clone" | some "renumber" | some "redict" | some "rejson" => some cur
  | some "given" => (op.get? "tree").bind dnaOfJ
  | some "swap" =>
    match (op.get? "path").bind pathOfJ, op.getNat? "i", op.getNat? "j" with
    | some p, some i, some j => some (swapAt p i j cur)
    | _, _, _ => none
  | some "random" =>
    match (op.getArr? "script").bind (·.mapM drawOfJ) with
    | some o => (g.random o).map (·.1)
    | none => none
  | _ => none

def runChain (g : Spec) : DNA → List J → List J
  | _, [] => []
  | cur, op :: ops =>
    match stepOp g cur op with
    | none => [.null]
    | some d => .obj ([("norm", dnaToJ d)] ++ annotPart g d) :: runChain g d ops

def handle (j : J) : J :=
  match j.getStr? "op" with
  | some "views" =>
    match (j.get? "spec").bind specOfJ with
    | none => bad "spec"
    | some g =>
      let dnas := ((j.getArr? "dnas").getD []).map fun dj =>
        match dnaOfJ dj with
        | none => bad "dna"
        | some d => viewsOf g d
      let chains := ((j.getArr? "chains").getD []).map fun cj =>
        match (cj.get? "start").bind dnaOfJ, cj.getArr? "ops" with
        | some d, some ops => J.arr (runChain g d ops)
        | _, _ => bad "chain"
      .obj [("dnas", .arr dnas), ("chains", .arr chains)]
  | _ => bad "op"

def main : IO Unit := driverLoop handle
