/- Line-protocol driver for the value-spec model (see harness/c04.py for the request shape). -/
import PgModel.TypingJson
open Pg Pg.Typing

def bad (msg : String) : J := .obj [("bad_request", .str msg)]

def applyAll (env : Env) (s : Spec) (vals : List Val) : J :=
  .arr (vals.map fun v =>
    let r0 := apply env s false v
    let again : J := match r0 with
      | .ok v' => resToJ valToJ (apply env s false v')
      | .error _ => .null
    .arr [resToJ valToJ r0, again, resToJ valToJ (apply env s true v)])

/-- `set_default` (168-182) replayed on the spec state with the default cleared. -/
def ctorDefault (env : Env) (s : Spec) (d0 : Val) : J :=
  let s0 := s.setFlags { s.flags with default := .missing, frozen := false }
  resToJ valToJ (apply env s0 true d0)

def handle (j : J) : J :=
  match j.getStr? "op" with
  | some "pair" =>
    let env := envOfJ (j.getD "env" (.obj []))
    match (j.get? "a").bind specOfJ, (j.get? "b").bind specOfJ, (j.getArr? "values").bind (·.mapM valOfJ) with
    | some a, some b, some vals =>
      let ext := extend env a b
      let extJ : J := match ext with
        | .ok c => .obj [("spec", specToJ c), ("apply", applyAll env c vals),
                         ("base_compat", .bool (isCompatible env b c)), ("wf", .bool (wf c))]
        | .error e => .obj [("err", .str (errName e))]
      let dflt (key : String) (s : Spec) : J := match (j.get? key).bind valOfJ with
        | some d0 => ctorDefault env s d0
        | none => .null
      .obj [("apply_a", applyAll env a vals), ("apply_b", applyAll env b vals),
            ("compat_ab", .bool (isCompatible env a b)), ("compat_ba", .bool (isCompatible env b a)),
            ("extend", extJ), ("wf_a", .bool (wf a)), ("wf_b", .bool (wf b)),
            ("default_a", dflt "a_default0" a), ("default_b", dflt "b_default0" b),
            ("selfdefault_a", resToJ valToJ (apply env a true a.flags.default)),
            ("selfdefault_b", resToJ valToJ (apply env b true b.flags.default))]
    | _, _, _ => bad "pair"
  | _ => bad "op"

def main : IO Unit := driverLoop handle
