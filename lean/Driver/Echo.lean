import PgModel.Json
open Pg
def main : IO Unit := driverLoop (fun j => J.obj [("echo", j)])
