/- Line-protocol driver for the typed-container model (see harness/c03.py for the request shapes). -/
import PgModel.TypingJson
import PgModel.SymTyped
open Pg Pg.Typing Pg.C03

def bad (msg : String) : J := .obj [("bad_request", .str msg)]

def eName : E → String
  | .type => "TypeError" | .value => "ValueError" | .key => "KeyError" | .index => "IndexError"
  | .perm => "WritePermissionError"

def errJ : Option E → J
  | some x => .str (eName x)
  | none => .null

def rbOfJ : J → Option (Nat × Bool × Val)
  | .arr [.int k, .bool ins, v] => (valOfJ v).map fun v' => (k.toNat, ins, v')
  | _ => none

def listOpOfJ : J → Option ListOp
  | .arr [.str "append", v] => (valOfJ v).map .append
  | .arr [.str "insert", .int i, v] => (valOfJ v).map (.insert i)
  | .arr [.str "setitem", .int i, v] => (valOfJ v).map (.setitem i)
  | .arr [.str "setslice", .int a, .int b, .int c, .arr vs] => (vs.mapM valOfJ).map (.setslice a b c)
  | .arr [.str "delitem", .int i] => some (.delitem i)
  | .arr [.str "delslice", .int a, .int b, .int c] => some (.delslice a b c)
  | .arr [.str "pop", .int i] => some (.pop i)
  | .arr [.str "remove", v] => (valOfJ v).map .remove
  | .arr [.str "extend", .arr vs] => (vs.mapM valOfJ).map .extend
  | .arr [.str "extend_iter", .arr vs] => (vs.mapM valOfJ).map .extend
  | .arr [.str "iadd", .arr vs] => (vs.mapM valOfJ).map .extend
  | .arr [.str "iadd_iter", .arr vs] => (vs.mapM valOfJ).map .extend
  | .arr [.str "imul", .int n] => some (.imul n)
  | .arr [.str "clear"] => some .clear
  | .arr [.str "sort"] => some .sort
  | .arr [.str "reverse"] => some .reverse
  | .arr [.str "rebind", .arr kvs] => (kvs.mapM rbOfJ).map .rebind
  | _ => none

/-- A write argument: a value, or `["typed", <spec state>, <allow_partial>, <content>]`. -/
def argOfJ : J → Option Arg
  | .arr [.str "typed", sj, .bool sp, v] => do
    pure (.typed (← specOfJ sj) sp (← valOfJ v))
  | v => (valOfJ v).map .plain

def akvsOfJ (xs : List J) : Option (List (String × Arg)) :=
  xs.mapM fun (x : J) => match x with
    | J.arr [J.str k, v] => (argOfJ v).map fun v' => (k, v')
    | _ => none

def kvsOfJ (xs : List J) : Option (List (String × Val)) :=
  xs.mapM fun (x : J) => match x with
    | J.arr [J.str k, v] => (valOfJ v).map fun v' => (k, v')
    | _ => none

/-- `[op, scope]`: scope = null | bool (an enclosing `pg.allow_partial(scope)`). -/
def dictOpOfJ : J → Option DictOp
  | .arr [.str "setitem", .str k, v] => (argOfJ v).map (.setitem k)
  | .arr [.str "setattr", .str k, v] => (argOfJ v).map (.setitem k)
  | .arr [.str "delitem", .str k] => some (.delitem k)
  | .arr [.str "pop", .str k] => some (.delitem k)
  | .arr [.str "setdefault", .str k, v] => (argOfJ v).map (.setdefault k)
  | .arr [.str "update", .arr kvs] => (akvsOfJ kvs).map .update
  | .arr [.str "ior", .arr kvs] => (akvsOfJ kvs).map .update
  | .arr [.str "rebind", .arr kvs] => (akvsOfJ kvs).map .update
  | .arr [.str "clear"] => some .clear
  | .arr [.str "popitem"] => some .popitem
  | _ => none

def pkeyOfJ : J → Option PKey
  | .str k => some (.key k)
  | .int i => some (.idx i.toNat)
  | _ => none

/-- `[[key, sub-key-or-index, …], is_insertion, value]` -/
def pathEntryOfJ : J → Option (String × List PKey × Bool × Val)
  | .arr [.arr (.str k :: rest), .bool ins, v] => do
    pure (k, ← rest.mapM pkeyOfJ, ins, ← valOfJ v)
  | _ => none

def kvsToJ (kvs : List (String × Val)) : J := .arr (kvs.map fun (k, v) => .arr [.str k, valToJ v])

def runList (env : Env) : TList → List ListOp → List J
  | _, [] => []
  | l, op :: ops =>
    let (l', e) := listStep env l op
    .obj [("err", errJ e), ("items", .arr (l'.items.map valToJ)), ("conforms", .bool (conformsB env l'))]
      :: runList env l' ops

/-- An operation of a dict / object history: a `DictOp`, or a rebind with (nested) key paths. -/
abbrev AnyOp := TOp

/-- The harness's ground truth of partiality (`deep_missing`): some member, at any depth, is
`MISSING_VALUE` or a partial object — also below `Any`-typed fields, about which the schema (and so
`conformsDB`) says nothing. -/
partial def deepMissing : Val → Bool
  | .missing => true
  | .obj _ _ part => part
  | .list xs => xs.any deepMissing
  | .tuple xs => xs.any deepMissing
  | .dict kvs => kvs.any (fun kv => deepMissing kv.2)
  | _ => false

def completeB (env : Env) (d : TDict) : Bool :=
  conformsDB env false d && !(d.kvs.any fun kv => deepMissing kv.2)

def runDict (env : Env) (p0 : Bool) : TDict → List (AnyOp × Option Bool) → List J
  | _, [] => []
  | d, (op, scope) :: ops =>
    let p := scope.getD p0
    let (d', e) := tStep env p hasMissing d op
    .obj [("err", errJ e), ("items", kvsToJ d'.kvs), ("conforms", .bool (conformsDB env true d')),
          ("complete", .bool (completeB env d'))] :: runDict env p0 d' ops

def anyOpOfJ : J → Option AnyOp
  | .arr [.str "rebind_paths", .arr ws] => (ws.mapM pathEntryOfJ).map .paths
  | j => (dictOpOfJ j).map .plain

def scopedOpOfJ : J → Option (AnyOp × Option Bool)
  | .arr [op, .null] => (anyOpOfJ op).map fun o => (o, none)
  | .arr [op, .bool b] => (anyOpOfJ op).map fun o => (o, some b)
  | _ => none

def handle (j : J) : J :=
  let env := envOfJ (j.getD "env" (.obj []))
  match j.getStr? "op" with
  | some "list" =>
    match (j.get? "spec").bind specOfJ, (j.getArr? "items").bind (·.mapM valOfJ), (j.getArr? "ops").bind (·.mapM listOpOfJ) with
    | some (.list elem mn mx _), some items, some ops =>
      match construct env elem mn mx items with
      | .error e => .obj [("construct", .str (eName e)), ("steps", .arr [])]
      | .ok l => .obj [("construct", .arr (l.items.map valToJ)), ("conforms", .bool (conformsB env l)),
                       ("steps", .arr (runList env l ops))]
    | _, _, _ => bad "list"
  | some kind =>
    if kind == "dict" || kind == "object" then
      match (j.get? "spec").bind specOfJ, (j.getArr? "items").bind kvsOfJ, (j.getArr? "ops").bind (·.mapM scopedOpOfJ),
            j.getBool? "partial" with
      | some (.dict (some fields) _), some kvs, some ops, some p =>
        -- construction inside a `pg.allow_partial(x)` scope validates in mode x; the container's own
        -- mode (the constructor argument) is what the later steps run under
        let pc := (j.getBool? "construct_partial").getD p
        let c := if kind == "dict" then constructDict env pc fields kvs else constructObject env pc fields kvs
        match c with
        | .error e => .obj [("construct", .str (eName e)), ("steps", .arr [])]
        | .ok d => .obj [("construct", kvsToJ d.kvs), ("conforms", .bool (conformsDB env true d)),
                         ("complete", .bool (completeB env d)),
                         ("steps", .arr (runDict env p d ops))]
      | _, _, _, _ => bad "dict"
    else bad "op"
  | none => bad "op"

def main : IO Unit := driverLoop handle
