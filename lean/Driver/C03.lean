/- Line-protocol driver for the typed-list model (see harness/c03.py for the request shape). -/
import PgModel.TypingJson
import PgModel.SymTyped
open Pg Pg.Typing Pg.C03

def bad (msg : String) : J := .obj [("bad_request", .str msg)]

def eName : E → String
  | .type => "TypeError" | .value => "ValueError" | .key => "KeyError" | .index => "IndexError"

def opOfJ : J → Option Op
  | .arr [.str "append", v] => (valOfJ v).map .append
  | .arr [.str "insert", .int i, v] => (valOfJ v).map (.insert i.toNat)
  | .arr [.str "setitem", .int i, v] => (valOfJ v).map (.setitem i)
  | .arr [.str "delitem", .int i] => some (.delitem i)
  | .arr [.str "pop", .int i] => some (.pop i)
  | .arr [.str "remove", v] => (valOfJ v).map .remove
  | .arr [.str "extend", .arr vs] => (vs.mapM valOfJ).map .extend
  | .arr [.str "clear"] => some .clear
  | _ => none

def run (env : Env) : TList → List Op → List J
  | _, [] => []
  | l, op :: ops =>
    let (l', e) := step env l op
    .obj [("err", match e with | some x => .str (eName x) | none => .null),
          ("items", .arr (l'.items.map valToJ)),
          ("conforms", .bool (conformsB env l'))] :: run env l' ops

def handle (j : J) : J :=
  match j.getStr? "op" with
  | some "list" =>
    let env := envOfJ (j.getD "env" (.obj []))
    match (j.get? "spec").bind specOfJ, (j.getArr? "items").bind (·.mapM valOfJ), (j.getArr? "ops").bind (·.mapM opOfJ) with
    | some (.list elem mn mx _), some items, some ops =>
      match construct env elem mn mx items with
      | .error e => .obj [("construct", .str (eName e)), ("steps", .arr [])]
      | .ok l => .obj [("construct", .arr (l.items.map valToJ)), ("conforms", .bool (conformsB env l)),
                       ("steps", .arr (run env l ops))]
    | _, _, _ => bad "list"
  | _ => bad "op"

def main : IO Unit := driverLoop handle
