/- Line-protocol driver for the C13 model (see harness/c13.py for the request shapes). -/
import PgModel.Json
import PgModel.HyperSpec
open Pg Pg.C13

def numOfJ : J → Option Num
  | .arr [.int m, .int e] => some ⟨m, e.toNat⟩
  | _ => none

def numToJ (x : Num) : J := .arr [.int x.m, .int x.e]

def atomOfJ : J → Option Atom
  | .arr [.str "none"] => some .none
  | .arr [.str "int", .int i] => some (.int i)
  | .arr [.str "str", .str s] => some (.str s)
  | .arr [.str "flt", .int m, .int e] => some (.flt ⟨m, e.toNat⟩)
  | _ => none

def atomToJ : Atom → J
  | .none => .arr [.str "none"]
  | .int i => .arr [.str "int", .int i]
  | .str s => .arr [.str "str", .str s]
  | .flt x => .arr [.str "flt", .int x.m, .int x.e]

def strsOfJ (j : J) : Option (List String) := j.asArr? >>= fun xs => xs.mapM J.asStr?

partial def tmplOfJ : J → Option Tmpl
  | .arr [.str "const", a] => (atomOfJ a).map .const
  | .arr [.str "dict", ks, .arr kids] => do
    let keys ← strsOfJ ks
    let kids ← kids.mapM tmplOfJ
    pure (.node (.dict keys) kids)
  | .arr [.str "list", .arr kids] => do
    let kids ← kids.mapM tmplOfJ
    pure (.node .list kids)
  | .arr [.str "obj", .int c, ks, .arr kids] => do
    let keys ← strsOfJ ks
    let kids ← kids.mapM tmplOfJ
    pure (.node (.obj c.toNat keys) kids)
  | .arr [.str "choice", .int tag, .bool one, .int k, .arr cands, .bool d, .bool s] => do
    let cands ← cands.mapM tmplOfJ
    pure (.choice tag.toNat one k.toNat cands d s)
  | .arr [.str "floatv", .int tag, lo, hi] => do
    let lo ← numOfJ lo
    let hi ← numOfJ hi
    pure (.floatv tag.toNat lo hi)
  | .arr [.str "custom", .int tag, .int cid] => some (.custom tag.toNat cid.toNat)
  | _ => none

partial def tmplToJ : Tmpl → J
  | .const a => .arr [.str "const", atomToJ a]
  | .node (.dict keys) kids => .arr [.str "dict", J.ofStrs keys, .arr (kids.map tmplToJ)]
  | .node .list kids => .arr [.str "list", .arr (kids.map tmplToJ)]
  | .node (.obj c keys) kids => .arr [.str "obj", .int c, J.ofStrs keys, .arr (kids.map tmplToJ)]
  | .choice tag one k cands d s =>
    .arr [.str "choice", .int tag, .bool one, .int k, .arr (cands.map tmplToJ), .bool d, .bool s]
  | .floatv tag lo hi => .arr [.str "floatv", .int tag, numToJ lo, numToJ hi]
  | .custom tag cid => .arr [.str "custom", .int tag, .int cid]

partial def dnaOfJ : J → Option DNA
  | .arr [v, .arr cs] => do
    let value ← match v with
      | .null => some none
      | .arr [.str "i", .int i] => if i ≥ 0 then some (some (DVal.idx i.toNat)) else none
      | .arr [.str "f", .int m, .int e] => some (some (DVal.flt ⟨m, e.toNat⟩))
      | .arr [.str "s", .str g] => some (some (DVal.str g))
      | _ => none
    let cs ← cs.mapM dnaOfJ
    -- the harness sends what `DNA(value, children)` holds: already normalised
    pure (.mk value cs)
  | _ => none

partial def dnaToJ : DNA → J
  | .mk v cs =>
    .arr [match v with
          | none => .null
          | some (.idx i) => .arr [.str "i", .int i]
          | some (.flt x) => .arr [.str "f", .int x.m, .int x.e]
          | some (.str g) => .arr [.str "s", .str g],
          .arr (cs.map dnaToJ)]

partial def specToJ : GSpec → J
  | .space es => .arr [.str "space", .arr (es.map specToJ)]
  | .choices k cs d s => .arr [.str "choices", .int k, .arr (cs.map specToJ), .bool d, .bool s]
  | .float lo hi => .arr [.str "float", numToJ lo, numToJ hi]
  | .custom cid => .arr [.str "custom", .int cid]

/-! ### The concrete user hooks the harness instantiates (mirrors of the Python classes in
harness/c13.py `_setup_pg`; glue code, outside the proofs). -/

def genomeOf : DNA → Option String
  | .mk (some (.str g)) _ => some g
  | _ => none

def strDna (g : String) : DNA := .mk (some (.str g)) []

partial def jToTmpl : J → Option Tmpl
  | .null => some (.const .none)
  | .int i => some (.const (.int i))
  | .str s => some (.const (.str s))
  | .arr xs => (xs.mapM jToTmpl).map (.node .list)
  | .obj kvs => (kvs.mapM (fun kv => jToTmpl kv.2)).map (.node (.dict (kvs.map (·.1))))
  | .bool _ => none

partial def tmplToJson : Tmpl → Option J
  | .const .none => some .null
  | .const (.int i) => some (.int i)
  | .const (.str s) => some (.str s)
  | .node .list xs => (xs.mapM tmplToJson).map .arr
  | .node (.dict keys) xs => (xs.mapM tmplToJson).map (fun js => .obj (keys.zip js))
  | _ => none

def intSeqDec (g : String) : Option Tmpl :=
  let parts : List String := (g.splitOn ",").filter (fun p => p ≠ "")
  (parts.mapM (fun p => String.toInt? p)).map (fun is => Tmpl.node .list (is.map (fun i => Tmpl.const (.int i))))

def intSeqEnc : Tmpl → Option DNA
  | .node .list xs =>
    (xs.mapM (fun (x : Tmpl) => match x with
      | Tmpl.const (.int i) => some (toString i)
      | _ => none)).map (fun ps => strDna (",".intercalate ps))
  | _ => none

def hookDec (cid : Nat) (d : DNA) : Option Tmpl :=
  match genomeOf d with
  | none => none
  | some g =>
    match cid with
    | 0 => some (.const (.str g))                                 -- StrId
    | 1 => intSeqDec g                                            -- IntSeq
    | 2 => match J.parse g with                                   -- Evolvable: from_json_str
      | .ok j => if j.render == g then jToTmpl j else none         -- (J.parse ignores trailing text)
      | .error _ => none
    | 3 => some (.const (.str g))                                 -- BadEnc
    | 4 => if g.startsWith "x" then none else some (.const (.str g))   -- Raises
    | 5 => some (.const (.str g))                                 -- NoEncode
    | 6 => some (.choice 9000 true 1 [.const (.int 1), .const (.int 2)] true false)  -- Impure
    | _ => none

def hookEnc (cid : Nat) (v : Tmpl) : Option DNA :=
  match cid with
  | 0 => match v with | .const (.str g) => some (strDna g) | _ => none
  | 1 => intSeqEnc v
  | 2 => (tmplToJson v).map (fun j => strDna j.render)            -- to_json_str
  | 3 => match v with | .const (.str g) => some (strDna (g ++ "!")) | _ => none
  | 4 => match v with | .const (.str g) => some (strDna g) | _ => none
  | 5 => none
  | 6 => some (strDna "a")
  | _ => none

def mkCfg (sel : Nat → Bool) : Cfg := ⟨sel, hookDec, hookEnc, fun _ _ => true⟩

def resT : Except Err Tmpl → J
  | .ok v => .arr [.str "ok", tmplToJ v]
  | .error _ => .arr [.str "err"]

def resD : Except Err DNA → J
  | .ok d => .arr [.str "ok", dnaToJ d]
  | .error _ => .arr [.str "err"]

def bad (msg : String) : J := .obj [("bad_request", .str msg)]

/-- The partially decoded value used as a template for the rest (no filter). -/
def stage2 (limit : Nat) (v : Tmpl) : J :=
  let all : Cfg := mkCfg (fun _ => true)
  let spec := dnaSpec all v
  let size := sizeG spec
  let decs := match size with
    | some n => if n ≤ limit then ((enumG spec).take 4).map (fun d => resT (decode all v d)) else []
    | none => []
  .obj [("spec", specToJ spec), ("size", match size with | some n => .int n | none => .null),
        ("decs", .arr decs)]

def perDna (W : Cfg) (filtered : Bool) (limit : Nat) (t : Tmpl) (d : DNA) : J :=
  let dec := decode W t d
  .obj ((if filtered then [("stage2", match dec with
          | .ok v => stage2 limit v
          | .error _ => .null)] else []) ++ [("dna", dnaToJ d),
        ("valid", .bool (validG (fun _ _ => true) (dnaSpec W t) d)),
        ("strict", .bool (validG (fun _ _ => true) (dnaSpec W t) d)),
        ("dec", resT dec),
        ("enc", match dec with
          | .ok v => resD (encode W t v)
          | .error _ => .null)])

def perValue (W : Cfg) (t : Tmpl) (v : Tmpl) : J :=
  let enc := encode W t v
  .obj [("enc", resD enc),
        ("valid", match enc with
          | .ok d => .bool (validG (fun _ _ => true) (dnaSpec W t) d)
          | .error _ => .null),
        ("redec", match enc with
          | .ok d => resT (decode W t d)
          | .error _ => .null)]

def handle (j : J) : J :=
  match (j.get? "tmpl").bind tmplOfJ with
  | none => bad "tmpl"
  | some t =>
    let W : Cfg := mkCfg (match j.get? "where" with
      | some (.arr xs) => fun tag => xs.any (fun x => x == J.int tag)
      | _ => fun _ => true)
    let filtered : Bool := match j.get? "where" with
      | some (.arr _) => true
      | _ => false
    let limit : Nat := (j.getNat? "stage2_limit").getD 0
    let spec := dnaSpec W t
    let size := sizeG spec
    let dnas : Option (List DNA) := match j.get? "dnas" with
      | some (.str "all") =>
        (match j.get? "bad_dnas" with
         | some (.arr ds) => ds.mapM dnaOfJ
         | _ => some []).map (fun bad => enumG spec ++ bad)
      | some (.arr ds) => ds.mapM dnaOfJ
      | _ => some []
    let values : Option (List Tmpl) := match j.get? "values" with
      | some (.arr vs) => vs.mapM tmplOfJ
      | _ => some []
    let optNum : J → Option Num
      | .int i => some ⟨i, 0⟩
      | _ => none
    let slots : List J := match j.get? "slots" with
      | some (.arr xs) => xs.map fun x => match x with
        | .arr [lo, hi, tj] => (match tmplOfJ tj with
          | some st => J.bool (okB ⟨optNum lo, optNum hi⟩ st)
          | none => .null)
        | _ => .null
      | _ => []
    let trace : List (String × J) := match j.get? "trace", (j.get? "trace_dna").bind dnaOfJ with
      | some (.arr ps), some td =>
        (match ps.mapM tmplOfJ with
         | some prims =>
           let tl := Tmpl.node .list prims
           [("trace", .obj [("spec", specToJ (dnaSpec W tl)), ("dec", resT (decode W tl td))])]
         | none => [])
      | _, _ => []
    match dnas, values with
    | some ds, some vs =>
      .obj (trace ++ [("slots", .arr slots),
            ("spec", specToJ spec),
            ("size", match size with | some n => .int n | none => .null),
            ("count", .int (specT W t).length),
            ("head_distinct", .bool (headDistinct W t)),
            ("wf", .bool (wfT t)),
            ("dnas", .arr (ds.map (perDna W filtered limit t))),
            ("values", .arr (vs.map (perValue W t)))])
    | _, _ => bad "dnas/values"

def main : IO Unit := driverLoop handle
