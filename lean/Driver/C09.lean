/- Line-protocol driver for the C09 model (see harness/c09.py for the request shapes). -/
import PgModel.Json
import PgModel.Notify
import PgGen.C09Facts
open Pg Pg.C09
open Pg.C08 (Atom Key)

def keyOfJ : J → Option Key
  | .str s => some (.s s)
  | .int i => if i ≥ 0 then some (.i i.toNat) else none
  | _ => none

def keyToJ : Key → J
  | .s k => .str k
  | .i n => .int n

def pathOfJ (j : J) : Option Path := j.asArr? >>= (·.mapM keyOfJ)
def pathToJ (p : Path) : J := .arr (p.map keyToJ)

def kindOfJ (kind : String) : Option Kind :=
  match kind with
  | "dict" => some Kind.dict | "list" => some Kind.list | "obj" => some Kind.obj | _ => none

/-- A default value of a schema: an atom, or `{"k", "c", "items"}`. -/
partial def valOfJ : J → Option Val
  | .null => some (.atom .none)
  | .int i => some (.atom (.int i))
  | .str s => some (.atom (.str s))
  | j => do
    if (j.getBool? "missing").getD false then pure (.atom .missing) else
    let kd ← (j.getStr? "k") >>= kindOfJ
    let items ← j.getArr? "items"
    let kvs ← items.mapM (fun it => match it with
      | .arr [k, v] => do pure ((← keyOfJ k), (← valOfJ v))
      | _ => none)
    pure (.node kd ((j.getNat? "c").getD 0) kvs)

/-- `"sch": [[key, {"d": default}] | [key, {"req": true}], ...]`. -/
def schemaOfJ (j : J) : Option Schema :=
  j.asArr? >>= (·.mapM fun it => match it with
    | .arr [k, spec] => do
      let k ← keyOfJ k
      match spec.get? "d" with
      | some d => do pure (k, some (← valOfJ d))
      | none => pure (k, none)
    | _ => none)

partial def treeOfJ : J → Option T
  | .null => some (.leaf .none)
  | .int i => some (.leaf (.int i))
  | .str s => some (.leaf (.str s))
  | j => do
    if (j.getBool? "missing").getD false then pure (.leaf .missing) else
    let kind ← j.getStr? "k"
    let items ← j.getArr? "items"
    let kd ← kindOfJ kind
    let kvs ← items.mapM (fun it => match it with
      | .arr [k, v] => do
        let k ← keyOfJ k
        let t ← treeOfJ v
        pure (k, t)
      | _ => none)
    let sch ← match j.get? "sch" with
      | some sj => (schemaOfJ sj).map some
      | none => some none
    pure (.node { id := (j.getNat? "id").getD 0, sub := (j.getBool? "sub").getD false, cache := none,
                  cls := (j.getNat? "c").getD 0, sch := sch } kd kvs)

def atomToJ : Atom → J
  | .none => .null
  | .int i => .int i
  | .str s => .str s
  | .missing => .obj [("missing", .bool true)]

/-- Plain contents of a value (what `pg.to_json`-like canonicalisation of the harness produces). -/
partial def valueToJ : T → J
  | .leaf a => atomToJ a
  | .node _ kd items =>
    let tag := match kd with | .dict => "dict" | .list => "list" | .obj => "obj"
    .arr [.str tag, .arr (items.map fun (k, t) => .arr [keyToJ k, valueToJ t])]

def optValueToJ : Option T → J
  | none => .obj [("missing", .bool true)]
  | some t => valueToJ t

partial def valToJ : Val → J
  | .atom a => atomToJ a
  | .node kd _ items =>
    let tag := match kd with | .dict => "dict" | .list => "list" | .obj => "obj"
    .arr [.str tag, .arr (items.map fun (k, v) => .arr [keyToJ k, valToJ v])]

def leafMapToJ (m : LeafMap) : J := .arr (m.map fun (p, a) => .arr [pathToJ p, valToJ a])

def readToJ (p : Path) (nd : LeafMap) (ms : List Path) : J :=
  .arr [pathToJ p, leafMapToJ nd, .arr (ms.map pathToJ)]

def eventToJ (e : Event) : J :=
  .obj [("recv", .int e.recv),
        ("entries", .arr (e.entries.map fun (p, o, n) => .arr [pathToJ p, optValueToJ o, optValueToJ n]))]

partial def objFree : T → Bool
  | .leaf _ => true
  | .node _ kd items => kd != Kind.obj && items.all (fun (_, t) => objFree t)

def opOfJ (j : J) : Option Op := do
  let name ← j.getStr? "name"
  let key := (j.get? "key").bind keyOfJ
  let v := (j.get? "v").bind treeOfJ
  match name with
  | "setkey" => do pure (.setKey (← key) (← v))
  | "delkey" => do pure (.delKey (← key))
  | "append" => do pure (.append (← v))
  | "extend" => do
    let vs ← (j.getArr? "vs")
    pure (.extend (← vs.mapM treeOfJ))
  | "rebind" => do
    let ps ← (j.getArr? "pairs")
    let pairs ← ps.mapM (fun it => match it with
      | .arr [p, v] => do pure ((← pathOfJ p), (← treeOfJ v))
      | _ => none)
    pure (.rebind pairs)
  | "update" => do
    let ps ← (j.getArr? "kvs")
    let kvs ← ps.mapM (fun it => match it with
      | .arr [k, v] => do pure ((← keyOfJ k), (← treeOfJ v))
      | _ => none)
    pure (.update kvs)
  | "insert" => do pure (.insert (← j.getInt? "i") (← v))
  | "delidx" => do pure (.delIdx (← j.getInt? "i"))
  | "remove" => do
    let a ← match j.get? "atom" with
      | some .null => some Atom.none
      | some (.int i) => some (Atom.int i)
      | some (.str s) => some (Atom.str s)
      | _ => none
    pure (.remove a)
  | "setslice" => do
    let vs ← (j.getArr? "vs")
    pure (.setSlice (j.getInt? "a") (j.getInt? "b") (j.getInt? "step") (← vs.mapM treeOfJ))
  | "delslice" => pure (.delSlice (j.getInt? "a") (j.getInt? "b") (j.getInt? "step"))
  | "imul" => do pure (.imul (← j.getInt? "k"))
  | "clear" => pure .clear
  | "reverse" => pure .reverse
  | "sort" => pure .sort
  | "popitem" => pure .popitem
  | _ => none

def bad (msg : String) : J := .obj [("bad_request", .str msg)]

/-- `chosen` = the harness reads derived facts only where and when a `read` step says so
(`"read": [[path, nd?, miss?], ...]`). -/
def leafTyOfJ : J → Option LeafTy
  | .str "any" => some .any
  | j => match j.get? "int" with
    | some (.int m) => some (.int (some m))
    | some .null => some (.int none)
    | _ => none

/-- `"any"` | `{"int": min | null}` | `{"dict": [[key, leafTy], ...]}` | `{"obj": [class, ...]}`. -/
def fieldTyOfJ (j : J) : Option FieldTy :=
  match j.get? "dict", j.get? "obj" with
  | some (.arr fs), _ => do
    let fields ← fs.mapM (fun it => match it with
      | .arr [k, l] => do pure ((← keyOfJ k), (← leafTyOfJ l))
      | _ => none)
    pure (.dict fields)
  | _, some (.arr cs) => some (.obj (cs.filterMap fun c => match c with | .int i => some i.toNat | _ => none))
  | _, _ => (leafTyOfJ j).map .leaf

def rejToJ : Option RejErr → J
  | none => .null
  | some .key => .str "KeyError"
  | some .type => .str "TypeError"
  | some .value => .str "ValueError"

def runSteps (rules : Rules) (chosen : Bool) (react : React) (fuel : Nat) : T → List J → Option (List J)
  | _, [] => some []
  | t, s :: rest =>
    match s.get? "read" with
    | some rd => do
      let items ← rd.asArr?
      let specs ← items.mapM (fun it => match it with
        | .arr [p, .bool nd, .bool ms] => do pure ((← pathOfJ p), nd, ms)
        | _ => none)
      let (t', reads) := specs.foldl (fun (acc : T × List J) sp =>
        let r := readAt acc.1 sp.1 ⟨sp.2.1, sp.2.2⟩
        match r.2 with
        | some v => (r.1, acc.2 ++ [readToJ sp.1 v.1 v.2])
        | none => (r.1, acc.2)) (t, [])
      let more ← runSteps rules chosen react fuel t' rest
      pure (.obj [("ok", .bool true), ("events", .arr []), ("reads", .arr reads), ("value", valueToJ t')] :: more)
    | none => do
      let recv ← (s.get? "recv").bind pathOfJ
      let notify := (s.getBool? "notify").getD true
      let op ← (s.get? "call").bind opOfJ
      let out0 := stepV rules t recv notify op
      let rej := rejToJ (rejection rules t recv op)
      let out : Out := if notify && fuel > 0 then
          let r := stepR react fuel t recv op
          { tree := r.1, ok := out0.ok, events := r.2 }
        else out0
      if chosen then
        let more ← runSteps rules chosen react fuel out.tree rest
        pure (.obj [("ok", .bool out.ok), ("events", .arr (out.events.map eventToJ)),
                    ("reads", .arr []), ("value", valueToJ out.tree), ("rej", rej)] :: more)
      else
        let r := readEverything out.tree
        let more ← runSteps rules chosen react fuel r.1 rest
        pure (.obj [("ok", .bool out.ok), ("events", .arr (out.events.map eventToJ)),
                    ("reads", .arr (r.2.map fun (p, nd, ms) => readToJ p nd ms)),
                    ("value", valueToJ out.tree), ("rej", rej)] :: more)

/-- Requests with a second tree (`"ext"`) and threads: steps `{"scope": "enter"|"leave", "t": n, "v": b}`,
calls `{"t": n, "in": "ext"?, "recv", "notify", "call"}` (executed by `stepN`: the notification
switch is the one of the calling thread), and after every call all facts of the addressed tree are read. -/
def runForest : NState → List J → Option (List J)
  | _, [] => some []
  | st, s :: rest =>
    match s.getStr? "scope" with
    | some sc => do
      let t := (s.getNat? "t").getD 0
      let a ← match sc with
        | "enter" => some (NAct.enter ((s.getBool? "v").getD true))
        | "leave" => some NAct.leave
        | _ => none
      let r := stepN st (.scope t a)
      let more ← runForest r.1 rest
      pure (.obj [("ok", .bool true), ("events", .arr []), ("reads", .arr []), ("value", valueToJ st.tree)] :: more)
    | none => do
      let recv ← (s.get? "recv").bind pathOfJ
      let w := (s.getBool? "notify").getD true
      let op ← (s.get? "call").bind opOfJ
      let inExt := s.getStr? "in" == some "ext"
      let r := stepN st (.call ((s.getNat? "t").getD 0) inExt recv w op)
      let rd := readEverything r.2.tree
      let st' : NState := if inExt then { r.1 with ext := rd.1 } else { r.1 with tree := rd.1 }
      let more ← runForest st' rest
      pure (.obj [("ok", .bool r.2.ok), ("events", .arr (r.2.events.map eventToJ)),
                  ("reads", .arr (rd.2.map fun (p, nd, ms) => readToJ p nd ms)),
                  ("value", valueToJ r.2.tree)] :: more)

def handle (j : J) : J :=
  match j.getStr? "op" with
  | some "run" =>
    match (j.get? "tree").bind treeOfJ, j.getArr? "steps" with
    | some t, some steps =>
      match j.get? "ext" with
      | some ej =>
        match treeOfJ ej with
        | some e =>
          match runForest { stacks := fun _ => [], tree := (readEverything t).1, ext := (readEverything e).1 } steps with
          | some outs => .obj [("steps", .arr outs)]
          | none => bad "run: forest step"
        | none => bad "run: ext"
      | none =>
      -- unless it chooses its reads, the harness reads every derived fact once before the first step
      let chosen := j.getStr? "reads" == some "chosen"
      let t0 := if chosen then t else (readEverything t).1
      let reacts : List (Nat × Path × Op) := match j.getArr? "react" with
        | some rs => rs.filterMap (fun it => match it with
          | .arr [.int i, p, c] => do
            let p ← pathOfJ p
            let op ← opOfJ c
            pure (i.toNat, p, op)
          | _ => none)
        | none => []
      let react : React := fun id => (reacts.find? (fun r => r.1 == id)).map (·.2)
      let fuel := (j.getNat? "fuel").getD 0
      let ruleList : List (Nat × Key × FieldTy) := match j.getArr? "rules" with
        | some rs => rs.filterMap (fun it => match it with
          | .arr [.int c, k, ty] => do pure (c.toNat, (← keyOfJ k), (← fieldTyOfJ ty))
          | _ => none)
        | none => []
      let rules : Rules := fun c k =>
        match ruleList.find? (fun r => r.1 == c && r.2.1 == k) with
        | some r => r.2.2
        | none => .leaf .any
      match runSteps rules chosen react fuel t0 steps with
      | some outs => .obj [("steps", .arr outs)]
      | none => bad "run: step"
    | _, _ => bad "run"
  | _ => bad "op"

def main : IO Unit := driverLoop handle
