/- Line-protocol driver for the C15 model (request shapes: harness/c15.py `model_request`). -/
import PgModel.Json
import PgModel.Gen
import PgGen.C15Quirks
import PgModel.Nsga2
import PgModel.GenOps
import PgModel.GenSched
import PgModel.Neat
open Pg Pg.C15

structure EvoOps where
  repro : String
  children : Nat
  update : String
  keep : Nat

def rkOfJ : J → Option Pg.C14.RK
  | .str "choice" => some .choice | .str "randint" => some .randint | .str "sample" => some .sample
  | .str "choices" => some .choices | .str "shuffle" => some .shuffle
  | _ => none

/-- recorded PRNG draws (harness.c14.RecRandom log entries; index draws only) -/
def evOfJ : J → Option Pg.C14.Ev
  | .arr [.str "idx", k, .int n, .int i] => do pure (.idx (← rkOfJ k) n.toNat i.toNat)
  | .arr [.str "idxs", k, .int n, .int c, .arr is] => do
      pure (.idxs (← rkOfJ k) n.toNat c.toNat (← is.mapM J.asNat?))
  | _ => none

def bad (msg : String) : J := .obj [("bad_request", .str msg)]

/-- cfg ↦ (Algo, ops of the evolution inside, if any). -/
partial def algoOfJ (j : J) : Option (Algo × Option EvoOps) := do
  let kind ← j.getStr? "kind"
  match kind with
  | "sweeping" => pure (.sweeping, none)
  | "random" => pure (.random (← j.getNat? "seed") (← j.getBool? "seeded"), none)
  | "dedup" =>
    let (inner, ops) ← (j.get? "inner").bind algoOfJ
    pure (.deduping inner (← j.getNat? "hash") (← j.getNat? "max_dup") (← j.getNat? "max_att")
            (← j.getBool? "auto"), ops)
  | "evo" =>
    let (init, _) ← (j.get? "init").bind algoOfJ
    let initSize := j.getNat? "init_size"
    let repro ← j.getArr? "repro"
    let update ← j.getArr? "update"
    let rname ← repro[0]? >>= J.asStr?
    let c ← repro[1]? >>= J.asNat?
    let uname ← update[0]? >>= J.asStr?
    let keep := (update[1]? >>= J.asNat?).getD 0
    pure (.evolution init initSize, some ⟨rname, c, uname, keep⟩)
  | _ => none

def fitness (it : Item) : Int := it.reward.getD 0

/-- first element of maximal fitness -/
def bestOf : List Item → Option Item
  | [] => none
  | x :: xs => some (xs.foldl (fun b d => if fitness d > fitness b then d else b) x)

def reproOf (n : Nat) (ops : EvoOps) (pop : List Item) (g step : Nat) : List Nat :=
  if n = 0 then [] else
  match ops.repro with
  | "best_next" =>
    match bestOf pop with
    | none => []
    | some b => (List.range ops.children).map fun j => (b.dna + 1 + step + j) % n
  | "last_gen" =>
    match pop.getLast? with
    | none => []
    | some b => (List.range ops.children).map fun j => (b.dna + g + j * 2) % n
  | _ => []

/-- insertion by descending fitness; used with `foldr`, so an element goes *before* later ones of equal
fitness (ties keep position order) -/
def insertDesc (x : Nat × Item) : List (Nat × Item) → List (Nat × Item)
  | [] => [x]
  | y :: ys => if fitness y.2 > fitness x.2 then y :: insertDesc x ys else x :: y :: ys

def insertIdx (x : Nat × Item) : List (Nat × Item) → List (Nat × Item)
  | [] => [x]
  | y :: ys => if y.1 ≤ x.1 then y :: insertIdx x ys else x :: y :: ys

/-- `chunks_of` of the harness: the history split at floor(len * c / 100). -/
def chunksOf (h : Hist) (cuts : List Nat) : List Hist :=
  let n := h.length
  let rec go (rest : Hist) (start : Nat) : List Nat → List Hist
    | [] => [rest]
    | c :: cs =>
      let stop := max start (n * c / 100)
      rest.take (stop - start) :: go (rest.drop (stop - start)) stop cs
  go h 0 cuts

def updateOf (ops : EvoOps) (pop : List Item) (_step : Nat) : List Item :=
  match ops.update with
  | "last" => if ops.keep = 0 then pop else pop.drop (pop.length - ops.keep)    -- Python `pop[-0:]` is everything
  | "duel" =>
    if pop.length > ops.keep then
      match pop with
      | a :: b :: rest => if fitness a > fitness b then a :: rest else b :: rest
      | _ => pop
    else pop
  | "step" =>
    if pop.length > ops.keep then pop.eraseIdx (_step % pop.length) else pop
  | "top" =>
    let idx := (List.range pop.length).zip pop
    -- sort by (-fitness, position): insert from the right so that equal keys stay in position order
    let sorted := idx.foldr insertDesc []
    let kept := (sorted.take ops.keep).foldr insertIdx []
    kept.map (·.2)
  | _ => pop

def errName : Err → String
  | .stop => "StopIteration" | .value => "ValueError" | .type => "TypeError"
  | .assertion => "AssertionError" | .key => "KeyError" | .mismatch => "Mismatch"

def optNat : Option Nat → J
  | some n => .int n | none => .null
def optInt : Option Int → J
  | some n => .int n | none => .null
def optBool : Option Bool → J
  | some b => .bool b | none => .null

def itemJ (it : Item) : J :=
  .obj [("dna", .int it.dna), ("reward", optInt it.reward), ("pid", optNat it.pid), ("gid", optNat it.gid),
        ("initial", optBool it.initial), ("fbseq", optNat it.fbseq), ("key", optNat it.key)]

def insertKey (x : Nat × List (Option Int)) : Cache → Cache
  | [] => [x]
  | y :: ys => if y.1 ≤ x.1 then y :: insertKey x ys else x :: y :: ys

def obsJ : Algo → St → J
  | .deduping inner _ _ _ _, .deduping np nf si cache =>
    .obj [("np", .int np), ("nf", .int nf),
          ("cache", .arr ((cache.foldr insertKey []).map fun (k, rs) => .arr [.int k, .arr (rs.map optInt)])),
          ("feedback_driven", .bool (needsFeedback inner)),
          ("inner", obsJ inner si)]
  | .evolution _ _, .evolution np nf _ _ g pop _ =>
    .obj [("np", .int np), ("nf", .int nf), ("gen", .int g), ("pop", .arr (pop.map itemJ))]
  | _, s => .obj [("np", .int s.np), ("nf", .int s.nf)]

/-- NSGA2: the model's population component encodes (elites, unprocessed population); rewards are shown
as the objective tuple. -/
def itemNsgaJ (it : Item) : J :=
  .obj [("dna", .int it.dna), ("reward", match it.reward with
          | some r => .arr ((Nsga2.objs r).map .int) | none => .null),
        ("pid", optNat it.pid), ("gid", optNat it.gid),
        ("initial", optBool it.initial), ("fbseq", optNat it.fbseq), ("key", optNat it.key)]

def obsNsga : Algo → St → J
  | .deduping inner _ _ _ _, .deduping np nf si cache =>
    .obj [("np", .int np), ("nf", .int nf),
          ("cache", .arr ((cache.foldr insertKey []).map fun (k, rs) => .arr [.int k, .arr (rs.map fun r =>
              match r with | some r => J.arr ((Nsga2.objs r).map .int) | none => J.null)])),
          ("feedback_driven", .bool (needsFeedback inner)),
          ("inner", obsNsga inner si)]
  | .evolution _ _, .evolution np nf _ _ g enc _ =>
    let (elites, pop) := Nsga2.decode enc
    .obj [("np", .int np), ("nf", .int nf), ("gen", .int g), ("pop", .arr (pop.map itemNsgaJ)),
          ("elites", match elites with
            | none => .null
            | some es => .arr (es.map fun it => .arr [.int it.dna, match it.reward with
                | some r => .arr ((Nsga2.objs r).map .int) | none => .null]))]
  | _, s => .obj [("np", .int s.np), ("nf", .int s.nf)]

def obsNeat : Algo → St → J
  | .evolution _ _, .evolution np nf _ _ g enc _ =>
    let (species, pop) := Neat.decode enc
    let dr (it : Item) : J := .arr [.int it.dna, optInt it.reward]
    .obj [("np", .int np), ("nf", .int nf), ("gen", .int g), ("pop", .arr (pop.map itemJ)),
          ("species", match species with
            | none => .null
            | some ss => .arr (ss.map fun s => .arr [match s.rep with | some r => dr r | none => .null,
                                                   .arr (s.members.map dr)]))]
  | _, s => .obj [("np", .int s.np), ("nf", .int s.nf)]

def nextJ : Except Err Item → J
  | .error e => .str (errName e)
  | .ok it => .obj [("dna", .int it.dna), ("initial", optBool it.initial), ("gid", optNat it.gid),
                    ("pid", optNat it.pid), ("auto", optInt it.reward)]

def eventOfJ : J → Option Event
  | .arr [.str "p"] => some .propose
  | .arr [.str "f", .int i, .int r] => some (.feedback i.toNat r)
  | _ => none

def pvOfJ : J → Option Sched.PV
  | .arr [.str "const", .int c] => some (.const c)
  | .arr [.str "step"] => some .step
  | _ => none

/-- `{"op": "sched", "phases": [[len, pv], …], "live": [steps…], "rec": [steps…]}` -/
def handleSched (j : J) : J :=
  let phases := ((j.getArr? "phases").getD []).filterMap fun p => match p with
    | .arr [.int l, pv] => (pvOfJ pv).map fun v => (l.toNat, v)
    | _ => none
  let steps (k : String) := ((j.getArr? k).getD []).filterMap J.asNat?
  let out (xs : List (Option Int)) : J := .arr (xs.map optInt)
  .obj [("live", out (Sched.run stepWiseStateful phases Sched.init (steps "live"))),
        ("rec", out (Sched.run stepWiseStateful phases Sched.init (steps "rec")))]

def handle (j : J) : J :=
  if j.getStr? "op" == some "sched" then handleSched j else
  match (j.get? "algo").bind algoOfJ, (j.getArr? "events").bind (·.mapM eventOfJ),
        j.getArr? "space", j.get? "streams", j.getNat? "m" with
  | some (algo, ops), some events, some spaceJ, some streamsJ, some m =>
    let space := spaceJ.filterMap J.asNat?
    let n := space.length
    let streams : List (Nat × Array Nat) := match streamsJ with
      | .obj kvs => kvs.filterMap fun (k, v) => do
          let seed ← k.toNat?
          let xs ← v.asArr?
          pure (seed, (xs.filterMap J.asNat?).toArray)
      | _ => []
    let draw (seed pos : Nat) : Nat :=
      match streams.find? (·.1 == seed) with
      | some (_, xs) => xs.getD pos 999999
      | none => 999999
    let ops' := ops.getD ⟨"", 0, "none", 0⟩
    -- recorded reproduction (real operators): step ↦ children
    let table : List (String × List Nat) := match j.get? "table" with
      | some (.obj kvs) => kvs.filterMap fun (k, v) => do
          let xs ← v.asArr?
          pure (k, xs.filterMap J.asNat?)
      | _ => []
    let isNsga := ops'.update == "nsga2"
    -- recorded draws of the real operators, one oracle segment per `_evolve` call (keyed by step)
    let dims := ((j.getArr? "dims").getD []).filterMap J.asNat?
    let evTable : List (String × List Pg.C14.Ev) := match j.get? "events_by_step" with
      | some (.obj kvs) => kvs.filterMap fun (k, v) => do
          let xs ← v.asArr?
          pure (k, ← xs.mapM evOfJ)
      | _ => []
    -- a reproduction call is identified by its step and by the population it is applied to (a failed
    -- `propose` is retried at the same step after more feedback)
    let callKey (enc : List Item) (step : Nat) : String :=
      let p := enc.filter fun it => it.dna < 1000000          -- without the marks of the NSGA2 / NEAT encodings
      s!"{step}:{p.foldl (fun a it => a + it.fbseq.getD 0) 0}:{p.length}"
    let evAt (enc : List Item) (step : Nat) : List Pg.C14.Ev :=
      ((evTable.find? (·.1 == callKey enc step)).map (·.2)).getD []
    let repro : List Item → Nat → Nat → List Nat :=
      if ops'.repro == "table" then
        fun enc _ step => ((table.find? (·.1 == callKey enc step)).map (·.2)).getD []
      else if ops'.repro == "c14reg" then
        fun enc g step => Ops.reproOf dims (Ops.regEvoRepro dims ops'.children) (fun _ => evAt enc step) enc g step
      else if ops'.repro == "c14hill" then
        fun enc g step => Ops.reproOf dims (Ops.hillClimbRepro dims ops'.children) (fun _ => evAt enc step) enc g step
      else reproOf n ops'
    let update : List Item → Nat → List Item :=
      if isNsga then Nsga2.update nsga2Facts ops'.keep
      else if ops'.update == "neat" then Neat.update neatFacts dims
      else if ops'.update == "c14last" then Ops.updateOf dims (Ops.regEvoUpdate ops'.keep)
      else if ops'.update == "c14top" then Ops.updateOf dims Ops.hillClimbUpdate
      else updateOf ops'
    let env : Env := { space := space, draw := draw, hash := fun hid d => if hid = 0 then d + 1000000 else d % hid,
                       repro := repro, update := update, q := currentQuirks }
    let obsJ := if isNsga then obsNsga else if ops'.update == "neat" then obsNeat else obsJ
    let cuts := ((j.getArr? "cuts").getD []).filterMap J.asNat?
    let ks := (List.range (events.length + 1)).map fun k =>
      let live := runLive env algo (events.take k)
      let recJ : J × J := match recoverChunks env algo (setup algo) (chunksOf live.hist cuts) with
        | .error e => (.obj [("error", .str (errName e))], .arr [])
        | .ok s => (obsJ algo s, .arr ((proposeN env algo m s).1.map nextJ))
      .obj [("live", obsJ algo live.st), ("rec", recJ.1),
            ("live_next", .arr ((proposeN env algo m live.st).1.map nextJ)), ("rec_next", recJ.2),
            ("hist", .arr (live.hist.map fun (it, r) => .arr [.int it.dna,
              if isNsga then (match r with | some r => .arr ((Nsga2.objs r).map .int) | none => .null) else optInt r]))]
    .obj [("ks", .arr ks)]
  | _, _, _, _, _ => bad "c15 request"

def main : IO Unit := driverLoop handle
