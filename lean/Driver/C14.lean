/- Line-protocol driver for the C14 model (see harness/c14.py for the request shapes). -/
import PgModel.Json
import PgModel.Evo
import PgModel.EvoPerm
import PgModel.EvoNum
import PgModel.EvoProp
import PgModel.EvoSched
import PgModel.EvoNest
import PgModel.EvoDriver
open Pg Pg.C14

def qOfJ : J → Option Q
  | .int v => some (v : Q)                 -- a resolved integer schedule (e.g. a probability 0 / 1)
  | .arr [.int m, .int e] => some (mkRat m (2 ^ e.toNat))
  | _ => none

/-- rationals leave as `["q", num, den]` (reduced). -/
def qToJ (q : Q) : J := .arr [.str "q", .int q.num, .int q.den]

partial def specOfJ : J → Option GSpec
  | .arr [.str "space", .arr es] => do pure (.space (← es.mapM specOfJ))
  | .arr [.str "choices", .int k, .arr cs, .bool d, .bool s] => do
      pure (.choices k.toNat (← cs.mapM specOfJ) d s)
  | .arr [.str "float", lo, hi] => do pure (.float (← qOfJ lo) (← qOfJ hi))
  | _ => none

/-- flat wire form of a DNA: the values in pre-order, with the belief of each value's node. -/
abbrev Flat := List (J × Nat)

mutual
  partial def parseDna : GSpec → Flat → Option (DNA × Flat)
    | .space es, fl => do
        let (ds, rest) ← parseElems es fl
        pure (.space ds, rest)
    | .float _ _, (j, _) :: rest => do pure (.float (← qOfJ j), rest)
    | .choices k cands _ _, fl => do
        let (subs, rest) ← parseSubs cands k fl
        pure (.choices subs, rest)
    | _, _ => none
  partial def parseElems : List GSpec → Flat → Option (List DNA × Flat)
    | [], fl => some ([], fl)
    | e :: es, fl => do
        let (d, r1) ← parseDna e fl
        let (ds, r2) ← parseElems es r1
        pure (d :: ds, r2)
  partial def parseSubs : List GSpec → Nat → Flat → Option (List DNA × Flat)
    | _, 0, fl => some ([], fl)
    | cands, k + 1, (.int v, b) :: rest => do
        let c ← cands[v.toNat]?
        let (d, r1) ← parseDna c rest
        let (ds, r2) ← parseSubs cands k r1
        pure (.sub b v.toNat d :: ds, r2)
    | _, _, _ => none
end

mutual
  partial def flatten : DNA → Flat
    | .space ds => flattenAll ds
    | .choices subs => flattenAll subs
    | .sub b v d => (.int v, b) :: flatten d
    | .float q => [(qToJ q, 0)]
  partial def flattenAll : List DNA → Flat
    | [] => []
    | d :: ds => flatten d ++ flattenAll ds
end

def dnaOfJ (g : GSpec) (j : J) : Option DNA := do
  let nums ← j.getArr? "nums"
  let bs ← (j.getArr? "beliefs").bind (·.mapM J.asNat?)
  if nums.length != bs.length then none
  else
    let (d, rest) ← parseDna g (nums.zip bs)
    if rest.isEmpty then some d else none

def dnaToJ (d : DNA) : List (String × J) :=
  let fl := flatten d
  [("nums", .arr (fl.map (·.1))), ("beliefs", J.ofNats (fl.map (·.2)))]

def kindOfJ : J → Option RK
  | .str "choice" => some .choice | .str "randint" => some .randint | .str "sample" => some .sample
  | .str "choices" => some .choices | .str "shuffle" => some .shuffle | .str "random" => some .random
  | .str "uniform" => some .uniform
  | _ => none

def evOfJ (g : GSpec) : J → Option Ev
  | .arr [.str "idx", k, .int n, .int i] => do pure (.idx (← kindOfJ k) n.toNat i.toNat)
  | .arr [.str "idxs", k, .int n, .int c, .arr is] => do
      pure (.idxs (← kindOfJ k) n.toNat c.toNat (← is.mapM J.asNat?))
  | .arr [.str "real", k, q] => do pure (.real (← kindOfJ k) (← qOfJ q))
  | .arr [.str "order", .arr ds] => do pure (.order (← ds.mapM (dnaOfJ g)))
  | _ => none

partial def schedOfJ : J → Option Sched
  | .arr [.str "c", .int c] => some (.const c)
  | .arr [.str "step"] => some .step
  | .arr [.str "add", a, b] => do pure (.add (← schedOfJ a) (← schedOfJ b))
  | .arr [.str "sub", a, b] => do pure (.sub (← schedOfJ a) (← schedOfJ b))
  | .arr [.str "mul", a, b] => do pure (.mul (← schedOfJ a) (← schedOfJ b))
  | .arr [.str "floordiv", a, b] => do pure (.floordiv (← schedOfJ a) (← schedOfJ b))
  | .arr [.str "mod", a, b] => do pure (.mod (← schedOfJ a) (← schedOfJ b))
  | .arr [.str "stepwise", .arr phases] => do
      let lens ← phases.mapM (fun ph => match ph with
        | .arr [.int l, _] => some l.toNat
        | _ => none)
      let vals ← phases.mapM (fun ph => match ph with
        | .arr [_, v] => schedOfJ v
        | _ => none)
      pure (.stepwise lens vals)
  | _ => none

/-- every `["sched", S]` in a request is replaced by the value of the schedule at the step of the call. -/
partial def resolveJ (step : Nat) : J → Option J
  | .arr [.str "sched", sj] => do
      let sc ← schedOfJ sj
      let v ← sc.eval step
      pure (.int v)
  | .arr xs => do pure (.arr (← xs.mapM (resolveJ step)))
  | j => some j

def nspecOfJ : J → Option NSpec
  | .null => some .all
  | .int n => some (.count n.toNat)
  | .arr [.str "frac", .int n, .int e] => some (.frac n.toNat e.toNat)
  | _ => none

def optNat : J → Option (Option Nat)
  | .null => some none
  | .int n => some (some n.toNat)
  | _ => none

def predOfJ : J → Option (Pop → Bool)
  | .arr [.str "lenGt", .int k] => some (fun p => decide (p.length > k.toNat))
  | .arr [.str "always"] => some (fun _ => true)
  | .arr [.str "never"] => some (fun _ => false)
  | _ => none

/-- `where` filters of the harness family. -/
partial def whereOfJ : J → Option Where
  | .arr [.str "any"] => some (fun _ => true)
  | .arr [.str "kinds", .arr ks] => do
      let ks ← ks.mapM J.asNat?
      pure (fun n => ks.contains n.kind)
  | .arr [.str "valueLt", .int v] => some (fun n => decide (n.value < v.toNat))
  | .arr [.str "valueEq", .int v] => some (fun n => n.value == v.toNat)
  | .arr [.str "indexEq", .int v] => some (fun n => n.index == v.toNat)
  | .arr [.str "not", f] => do let f ← whereOfJ f; pure (fun n => !f n)
  | .arr [.str "and", f, g] => do let f ← whereOfJ f; let g ← whereOfJ g; pure (fun n => f n && g n)
  | _ => none

def primOfJ (g : GSpec) (fuel : Nat) : List J → Option Op
  | [.str "mutUniform"] => some (mutUniform fuel g)
  | [.str "mutSwap"] => some (mutSwap g)
  | [.str "mutUniform", f] => do pure (mutUniformW (← whereOfJ f) fuel g)
  | [.str "mutSwap", f] => do pure (mutSwapW (← whereOfJ f) g)
  | [.str "selRandom", n, .bool r] => do pure (selRandom (← nspecOfJ n) r)
  | [.str "selSample", n] => do pure (selSample (← nspecOfJ n))
  | [.str "selProportional", n, .arr ws] => do
      pure (selProportional (← nspecOfJ n) (cycleWeights (← ws.mapM qOfJ)))
  | [.str "selTop", n] => do pure (selTop (← nspecOfJ n))
  | [.str "selBottom", n] => do pure (selBottom (← nspecOfJ n))
  | [.str "selTopCluster", n] => do pure (selTopCluster (← nspecOfJ n))
  | [.str "selBottomCluster", n] => do pure (selBottomCluster (← nspecOfJ n))
  | [.str "selFirst", n] => do pure (selFirst (← nspecOfJ n))
  | [.str "selLast", n] => do pure (selLast (← nspecOfJ n))
  | [.str "recUniform"] => some (recPointWise false fuel g)
  | [.str "recSample"] => some (recPointWise true fuel g)
  | [.str "recKPoint", .int k] => some (recKPoint g k.toNat)
  | [.str "recOrder"] => some (recOrder g)
  | [.str "recPartiallyMapped"] => some (recPMX g)
  | [.str "recCycle"] => some (recCycle g)
  | [.str "recOrder", .int k] => some (recPerm permuteOrder k.toNat g)
  | [.str "recPartiallyMapped", .int k] => some (recPerm permutePMX k.toNat g)
  | [.str "recCycle", .int k] => some (recPerm permuteCycle k.toNat g)
  | [.str "recAverage"] => some (recNumeric none g)
  | [.str "recWeightedAverage"] => some (recNumeric (some harnessWeights) g)
  | [.str "recSegmented", .arr cuts] => do pure (recSegmented g (← cuts.mapM J.asNat?))
  | _ => none

partial def exprOfJ (g : GSpec) (fuel : Nat) : J → Option OpExpr
  | .arr (.str "prim" :: args) => do pure (.leaf (← primOfJ g fuel args))
  | .arr [.str "identity"] => some .identity
  | .arr [.str "seq", a, b] => do pure (.seq (← exprOfJ g fuel a) (← exprOfJ g fuel b))
  | .arr [.str "concat", a, b] => do pure (.concat (← exprOfJ g fuel a) (← exprOfJ g fuel b))
  | .arr [.str "union", a, b] => do pure (.union (← exprOfJ g fuel a) (← exprOfJ g fuel b))
  | .arr [.str "inter", a, b] => do pure (.inter (← exprOfJ g fuel a) (← exprOfJ g fuel b))
  | .arr [.str "diff", a, b] => do pure (.diff (← exprOfJ g fuel a) (← exprOfJ g fuel b))
  | .arr [.str "symdiff", a, b] => do pure (.symdiff (← exprOfJ g fuel a) (← exprOfJ g fuel b))
  | .arr [.str "inv", a] => do pure (.inversion (← exprOfJ g fuel a))
  | .arr [.str "slice", a, .arr [.str "index", .int i]] => do pure (.slice (← exprOfJ g fuel a) (.index i))
  | .arr [.str "slice", a, .arr [.str "range", s, e, .int st]] => do
      pure (.slice (← exprOfJ g fuel a) (.range (← optNat s) (← optNat e) st.toNat))
  | .arr [.str "repeat", a, .int k] => do pure (.repeat_ (← exprOfJ g fuel a) k.toNat)
  | .arr [.str "power", a, .int k] => do pure (.power (← exprOfJ g fuel a) k.toNat)
  | .arr [.str "choice", .arr items, lim] => do
      let ops ← items.mapM (fun it => match it with
        | .arr [e, _] => exprOfJ g fuel e
        | _ => none)
      let probs ← items.mapM (fun it => match it with
        | .arr [_, q] => qOfJ q
        | _ => none)
      pure (.choice ops probs (← optNat lim))
  | .arr [.str "cond", pr, t, f] => do
      pure (.cond (← predOfJ pr) (← exprOfJ g fuel t) (← exprOfJ g fuel f))
  | .arr [.str "until", a, .int n] => do
      if n ≤ 0 then none else pure (.untilChange (← exprOfJ g fuel a) (n.toNat - 1))
  | _ => none

def errName : Err → String
  | .desync => "desync" | .fuel => "fuel" | .unmodelled => "unmodelled" | .index => "IndexError"
  | .key => "KeyError" | .value => "ValueError" | .runtime => "RuntimeError" | .type => "TypeError"
  | .zerodiv => "Other:ZeroDivisionError"

def indOfJ (g : GSpec) (uid : Nat) (j : J) : Option Ind := do
  let d ← dnaOfJ g j
  let fit ← match j.get? "fit" with
    | some (.int f) => some (some f)
    | some .null => some none
    | none => some none
    | _ => none
  pure { uid := uid, dna := d, fit := fit }

def popOfJ (g : GSpec) : Nat → List J → Option Pop
  | _, [] => some []
  | i, j :: js => do
      let x ← indOfJ g i j
      let xs ← popOfJ g (i + 1) js
      pure (x :: xs)

/-- identities: inputs keep their index, new objects are numbered by first appearance. -/
def renumber (n0 : Nat) (out : Pop) : List J :=
  let rec go (l : Pop) (seen : List Nat) : List J :=
    match l with
    | [] => []
    | x :: xs =>
      if x.uid < n0 then J.arr [.str "in", .int x.uid] :: go xs seen
      else match seen.idxOf? x.uid with
           | some k => J.arr [.str "new", .int k] :: go xs seen
           | none => J.arr [.str "new", .int seen.length] :: go xs (seen ++ [x.uid])
  go out []

def bad (msg : String) : J := .obj [("bad_request", .str msg)]

def stageOfJ (g : GSpec) (fuel : Nat) : J → Option NStage
  | .arr [.str "flat", e] => do pure (.flat (← exprOfJ g fuel e))
  | .arr [.str "chunk", .int k] => some (.chunk k.toNat)
  | .arr [.str "forEach", e] => do pure (.forEach (← exprOfJ g fuel e))
  | .arr [.str "forEachWrap"] => some .forEachWrap
  | .arr [.str "flatten", m] => do pure (.flatten (← optNat m))
  | _ => none

def indToJ (g : GSpec) (x : Ind) (id : J) : J :=
  .obj ([("id", id)] ++ dnaToJ x.dna ++
        [("fit", match x.fit with | some f => .int f | none => .null),
         ("valid", .bool (valid g x.dna)), ("aligned", .bool (aligned x.dna))])

/-- nested output: items consume the identity labels in order. -/
partial def nestsToJ (g : GSpec) : List Nest → List J → (List J × List J)
  | [], ids => ([], ids)
  | .item x :: t, ids =>
    let (rest, ids') := nestsToJ g t (ids.drop 1)
    (indToJ g x (ids.headD .null) :: rest, ids')
  | .list ys :: t, ids =>
    let (inner, ids1) := nestsToJ g ys ids
    let (rest, ids2) := nestsToJ g t ids1
    (J.obj [("list", .arr inner)] :: rest, ids2)

def handleNested (j : J) (g : GSpec) (fuel : Nat) (pop : Pop) (oracle : List Ev) : J :=
  let step := (j.getNat? "step").getD 0
  match (j.getArr? "stages").bind (fun ss => ss.mapM (fun sj => (resolveJ step sj).bind (stageOfJ g fuel))) with
  | none => bad "stages"
  | some stages =>
    match evalStages stages (ofPop pop) { oracle := oracle, nextUid := pop.length } with
    | .error err => .obj [("err", .str (errName err))]
    | .ok (out, st) =>
      let ids := renumber pop.length (itemsAll out)
      .obj [("ok", .arr (nestsToJ g out ids).1), ("left", .int st.oracle.length)]

/-- the driver level: `{"evolve": {"rep": expr, "upd": expr | null, "n0": n}, "rewards": [ints]}` —
alternating propose / feedback rounds of `Evolution` (PgModel/EvoDriver.lean). -/
def handleEvolve (ej : J) (j : J) (g : GSpec) (fuel : Nat) (oracle : List Ev) : J :=
  let stepExpr (e : J) : Nat → OpExpr := fun step =>
    match (resolveJ step e).bind (exprOfJ g fuel) with
    | some x => x
    | none => .leaf (fun _ => fail .unmodelled)
  let rewards := ((j.getArr? "rewards").getD []).filterMap (fun r => match r with | .int i => some i | _ => none)
  match ej.get? "rep", ej.getNat? "n0" with
  | some rep, some n0 =>
    if ((resolveJ 0 rep).bind (exprOfJ g fuel)).isNone then bad "rep" else
    let upd : Option (Nat → OpExpr) := match ej.get? "upd" with
      | some .null => none
      | none => none
      | some u => some (stepExpr u)
    let cfg : EvoCfg := { g := g, fuel := fuel, reproduction := stepExpr rep, update := upd, initSize := n0 }
    match runRounds cfg rewards {} { oracle := oracle, nextUid := 0 } with
    | .error err => .obj [("err", .str (errName err))]
    | .ok ((trace, es), st) =>
      .obj [("trace", .arr (trace.map (fun (x, m) =>
               .obj (dnaToJ x.dna ++ [("pid", .int m.proposalId), ("gen", .int m.generation),
                                      ("initial", .bool m.initial), ("valid", .bool (valid g x.dna))])))),
            ("nums", .arr [.int es.numProposals, .int es.numFeedbacks, .int es.numGenerations, .int es.pop.length]),
            ("left", .int st.oracle.length)]
  | _, _ => bad "evolve"

def handle (j : J) : J :=
  match (j.get? "spec").bind specOfJ with
  | none => bad "spec"
  | some g =>
    let fuel := depth g + 2
    if let some ej := j.get? "evolve" then
      match (j.getArr? "oracle").bind (·.mapM (evOfJ g)) with
      | some oracle => handleEvolve ej j g fuel oracle
      | none => bad "oracle"
    else
    if (j.get? "stages").isSome then
      match (j.getArr? "pop").bind (popOfJ g 0), (j.getArr? "oracle").bind (·.mapM (evOfJ g)) with
      | some pop, some oracle => handleNested j g fuel pop oracle
      | _, _ => bad "pop/oracle"
    else
    match (j.getArr? "pop").bind (popOfJ g 0), (j.getArr? "oracle").bind (·.mapM (evOfJ g)),
          ((j.get? "expr").bind (resolveJ ((j.getNat? "step").getD 0))).bind (exprOfJ g fuel) with
    | some pop, some oracle, some e =>
      match eval e pop { oracle := oracle, nextUid := pop.length } with
      | .error err => .obj [("err", .str (errName err))]
      | .ok (out, st) =>
        let ids := renumber pop.length out
        .obj [("ok", .arr ((out.zip ids).map (fun (x, id) =>
                 .obj ([("id", id)] ++ dnaToJ x.dna ++
                       [("fit", match x.fit with | some f => .int f | none => .null),
                        ("valid", .bool (valid g x.dna)), ("aligned", .bool (aligned x.dna))])))),
              ("left", .int st.oracle.length)]
    | none, _, _ => bad "pop"
    | _, none, _ => bad "oracle"
    | _, _, none => bad "expr"

def main : IO Unit := driverLoop handle
