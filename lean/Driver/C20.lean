/- Line-protocol driver for the C20 model (see harness/c20.py for the request shapes).
   Every string crosses the wire as an array of code points. -/
import PgModel.Json
import PgGen.C20Sites
open Pg Pg.C20

def strOfJ : J → Option Str
  | .arr xs => xs.mapM (fun x => x.asNat?.map Char.ofNat)
  | _ => none

def strToJ (s : Str) : J := .arr (s.map (fun c => J.int (Int.ofNat c.toNat)))

def optStrOfJ : J → Option (Option Str)
  | .null => some none
  | j => (strOfJ j).map some

def strsOfJ (j : J) : Option (List Str) := j.asArr? >>= (·.mapM strOfJ)

def kvsOfJ (j : J) : Option (List (Str × Option Str)) := do
  let xs ← j.asArr?
  xs.mapM fun x => match x with
    | .arr [k, v] => do pure ((← strOfJ k), (← optStrOfJ v))
    | _ => none

def keyOfJ : J → Option Key
  | .int n => some (.i n)
  | j => (strOfJ j).map .s

def keysOfJ (j : J) : Option (List Key) := j.asArr? >>= (·.mapM keyOfJ)

def optKeysOfJ : J → Option (Option (List Key))
  | .null => some none
  | j => (keysOfJ j).map some

def leafKindOfName : String → Option LeafKind
  | "str" => some .str | "int" => some .int | "float" => some .float
  | "bool" => some .bool | "none" => some .none | _ => none

def nodeKindOfJ : J → Option NodeKind
  | .str "dict" => some .dict | .str "list" => some .list | .str "tuple" => some .tuple
  | .str "symDict" => some .symDict | .str "symList" => some .symList
  | .arr [.str "obj", n, c] => do pure (.obj (← strOfJ n) (← strOfJ c))
  | _ => none

partial def treeOfJ (j : J) : Option Tree := do
  let k ← (j.get? "k") >>= keyOfJ
  let p ← (j.get? "p") >>= strOfJ
  let tip ← (j.get? "tip") >>= strOfJ
  match j.get? "leaf" with
  | some (.arr [.str tag, n, c]) =>
    let cn ← strOfJ n
    let css ← strOfJ c
    let kind ← if tag == "num" then some (LeafKind.num cn css) else if tag == "opaque" then some (LeafKind.other cn css) else none
    let repr ← (j.get? "repr") >>= strOfJ
    let raw ← (j.get? "raw") >>= strOfJ
    pure (.leaf k p kind repr raw tip)
  | some (.str lk) =>
    let kind ← leafKindOfName lk
    let repr ← (j.get? "repr") >>= strOfJ
    let raw ← (j.get? "raw") >>= strOfJ
    pure (.leaf k p kind repr raw tip)
  | _ =>
    let kind ← (j.get? "node") >>= nodeKindOfJ
    let ch ← (j.getArr? "ch") >>= (·.mapM treeOfJ)
    pure (.node k p kind tip ch)

def optBoolOfJ : J → Option (Option Bool)
  | .null => some none
  | .bool b => some (some b)
  | _ => none

def optIntOfJ : J → Option (Option Int)
  | .null => some none
  | .int i => some (some i)
  | _ => none

partial def predOfJ (j : J) : Option Pred :=
  match j.get? "all", j.get? "paths", j.get? "depth", j.get? "not", j.get? "or" with
  | some _, _, _, _, _ => some .all
  | _, some (.arr ps), _, _, _ => (ps.mapM keysOfJ).map .paths
  | _, _, some d, _, _ => d.asNat?.map .depth
  | _, _, _, some q, _ => (predOfJ q).map .neg
  | _, _, _, _, some (.arr [a, b]) => do pure (.or (← predOfJ a) (← predOfJ b))
  | _, _, _, _, _ => none

def optPredOfJ : Option J → Option (Option Pred)
  | none => some none
  | some .null => some none
  | some j => (predOfJ j).map some

def colorOfJ : J → Option (Option (Option Str × Option Str))
  | .null => some none
  | .arr [a, b] => do pure (some ((← optStrOfJ a), (← optStrOfJ b)))
  | _ => none

def optsOfJ (j : J) : Option Opts := do
  let es ← (j.get? "enable_summary") >>= optBoolOfJ
  let esfs ← j.getBool? "enable_summary_for_str"
  let maxl ← j.getInt? "max_summary_len_for_str"
  let est ← j.getBool? "enable_summary_tooltip"
  let ekt ← j.getBool? "enable_key_tooltip"
  let ks ← match j.getStr? "key_style" with
    | some "summary" => some KeyStyle.summary
    | some "label" => some KeyStyle.label
    | _ => none
  let cl ← (j.get? "collapse_level") >>= optIntOfJ
  let unc ← (j.getArr? "uncollapse") >>= (·.mapM keysOfJ)
  let name ← match j.get? "name" with
    | some .null => some none
    | some x => (keyOfJ x).map some
    | none => none
  let inc ← (j.get? "include_keys") >>= optKeysOfJ
  let exc ← (j.get? "exclude_keys") >>= optKeysOfJ
  let kc ← (j.get? "key_color") >>= colorOfJ
  let sc ← (j.get? "summary_color") >>= colorOfJ
  let hl ← (j.getArr? "highlight") >>= (·.mapM keysOfJ)
  let ll ← (j.getArr? "lowlight") >>= (·.mapM keysOfJ)
  let title ← (j.get? "title") >>= optStrOfJ
  let css ← (j.get? "css_classes") >>= strsOfJ
  let incP ← optPredOfJ (j.get? "include_p")
  let excP ← optPredOfJ (j.get? "exclude_p")
  let ksP ← optPredOfJ (j.get? "key_style_p")
  let unP ← optPredOfJ (j.get? "uncollapse_p")
  let hideP ← optPredOfJ (j.get? "hide_p")
  pure { keyColor := kc, highlight := hl, lowlight := ll,
         includeP := incP, excludeP := excP, keyStyleP := ksP, uncollapseP := unP, hideP := hideP,
         top := { title := title, cssClasses := css, summaryColor := sc },
         enableSummary := es, enableSummaryForStr := esfs, maxSummaryLenForStr := maxl,
         enableSummaryTooltip := est, enableKeyTooltip := ekt, keyStyle := ks, collapseLevel := cl,
         uncollapse := unc, name := name, includeKeys := inc, excludeKeys := exc }

def labelOfJ (j : J) : Option LabelM := do
  let text ← (j.get? "text") >>= strOfJ
  let tooltip ← (j.get? "tooltip") >>= optStrOfJ
  let link ← (j.get? "link") >>= optStrOfJ
  let target ← (j.get? "target") >>= optStrOfJ
  let id ← (j.get? "id") >>= optStrOfJ
  let tipId ← (j.get? "tip_id") >>= optStrOfJ
  let css ← (j.get? "css") >>= strsOfJ
  let styles ← (j.get? "styles") >>= kvsOfJ
  pure { text := text, tooltip := tooltip, link := link, target := target, id := id, tipId := tipId,
         css := css, styles := styles }

def subOfJ (j : J) : Option SubM := do
  let cssName ← (j.get? "css_name") >>= strOfJ
  let width ← (j.get? "width") >>= optStrOfJ
  let id ← (j.get? "id") >>= optStrOfJ
  let css ← (j.get? "css") >>= strsOfJ
  pure { cssName := cssName, width := width, id := id, css := css }

def tabOfJ (j : J) : Option TabM := do
  let label ← (j.get? "label") >>= labelOfJ
  let content ← (j.get? "content") >>= strOfJ
  let css ← (j.get? "css") >>= strsOfJ
  let id ← (j.get? "id") >>= optStrOfJ
  pure { label := label, content := content, css := css, id := id }

mutual
  partial def nodeToJ : HNode → J
    | .text s => .obj [("t", strToJ (unescape s))]
    | .elem tag attrs cs =>
      .arr [strToJ tag,
            .arr (attrs.map fun a => .arr [strToJ a.name, match a.value with
                                                           | none => .null
                                                           | some v => strToJ (unescape v)]),
            .arr (cs.map nodeToJ)]
end

def docToJ : Option (List HNode) → J
  | none => .null
  | some ns => .arr (ns.map nodeToJ)

def bad (msg : String) : J := .obj [("bad_request", .str msg)]

def handle (j : J) : J :=
  match j.getStr? "op" with
  | some "escape" =>
    match (j.get? "s") >>= strOfJ with
    | some s =>
      let e := escapeQ escapeQuote s
      .obj [("escaped", strToJ e), ("roundtrip", .bool (unescape e == s)), ("amp_ok", .bool (ampOk e)),
            ("clean", .bool (e.all fun c => c != '<' && c != '>' && c != '"' && c != '\''))]
    | none => bad "escape"
  | some "element" =>
    match (j.get? "tag") >>= strOfJ, (j.get? "options") >>= strsOfJ, (j.get? "classes") >>= strsOfJ,
          (j.get? "styles") >>= kvsOfJ, (j.get? "props") >>= kvsOfJ, (j.get? "children") >>= strsOfJ with
    | some tag, some os, some cs, some ss, some ps, some ch =>
      let h := element tag os cs ss ps ch
      .obj [("html", strToJ h), ("doc", docToJ (parseHtml h))]
    | _, _, _, _, _, _ => bad "element"
  | some "parse" =>
    match (j.get? "s") >>= strOfJ with
    | some s => .obj [("doc", docToJ (parseHtml s))]
    | none => bad "parse"
  | some "render" =>
    match (j.get? "opts") >>= optsOfJ, (j.get? "tree") >>= treeOfJ with
    | some o, some t =>
      let h := renderTree sites o t
      .obj [("html", strToJ h), ("doc", docToJ (parseHtml h))]
    | _, _ => bad "render"
  | some "control" =>
    match j.getStr? "kind" with
    | some "label" =>
      match (j.get? "label") >>= labelOfJ with
      | some l => let h := labelCtl csites l; .obj [("html", strToJ h), ("doc", docToJ (parseHtml h))]
      | none => bad "label"
    | some "tooltip" =>
      match (j.get? "text") >>= strOfJ, (j.get? "id") >>= optStrOfJ, (j.get? "css") >>= strsOfJ,
            (j.get? "styles") >>= kvsOfJ with
      | some t, some id, some css, some st =>
        let h := tooltipCtl csites t id css st
        .obj [("html", strToJ h), ("doc", docToJ (parseHtml h))]
      | _, _, _, _ => bad "tooltip"
    | some "progress" =>
      match (j.getArr? "subs") >>= (·.mapM subOfJ), (j.get? "label") >>= labelOfJ with
      | some subs, some l =>
        let h := progressBarCtl csites subs l
        .obj [("html", strToJ h), ("doc", docToJ (parseHtml h))]
      | _, _ => bad "progress"
    | some "tab" =>
      match (j.get? "ctl_id") >>= strOfJ, (j.get? "bg_id") >>= optStrOfJ, (j.get? "cg_id") >>= optStrOfJ,
            j.getBool? "left", j.getNat? "selected", (j.get? "css") >>= strsOfJ, (j.get? "styles") >>= kvsOfJ,
            (j.getArr? "tabs") >>= (·.mapM tabOfJ) with
      | some cid, some bg, some cg, some left, some sel, some css, some st, some tabs =>
        let h := tabCtl csites cid bg cg left sel css st tabs
        .obj [("html", strToJ h), ("doc", docToJ (parseHtml h))]
      | _, _, _, _, _, _, _, _ => bad "tab"
    | _ => bad "control kind"
  | some "jsescape" =>
    match (j.get? "s") >>= strOfJ with
    | some s =>
      let e := jsEscape s
      .obj [("escaped", strToJ e),
            ("read", match jsRead (e ++ ['"']) with
                     | some (v, rest) => .obj [("value", strToJ v), ("rest", strToJ rest)]
                     | none => .null)]
    | none => bad "jsescape"
  | some "jsread" =>
    match (j.getArr? "literals") >>= (·.mapM strOfJ) with
    | some ls =>
      .obj [("reads", .arr (ls.map fun l => match jsRead l with
                     | some (v, rest) => .obj [("value", strToJ v), ("rest", strToJ rest)]
                     | none => .null))]
    | none => bad "jsread"
  | some "renders" =>
    match j.getArr? "items" with
    | some items =>
      .obj [("htmls", .arr (items.map fun it =>
        match (it.get? "opts") >>= optsOfJ, (it.get? "tree") >>= treeOfJ with
        | some o, some t => strToJ (renderTree sites o t)
        | _, _ => .null))]
    | none => bad "renders"
  | some "sites" =>
    .obj [("all_escaped", .bool sites.allEscaped),
          ("table", .arr (siteTable.map fun p => .arr [.str (reprStr p.1), .bool p.2]))]
  | _ => bad "op"

def main : IO Unit := driverLoop handle
