/- Line-protocol driver for the C02 models (see harness/c02.py for the case and value encodings).
   Request: {"kind": "list"|"dict", "init": val, "ops": [op, …]}
   Answer : {"spec": [step, …], "impl": [step, …]}, step = {"r": val|null, "e": errname|null, "s": contents}. -/
import PgModel.Json
import PgModel.Container
open Pg Pg.C02

partial def keyOfJ : J → Option Key
  | .str s => some (.s s)
  | .int i => some (.i i)
  | .bool b => some (.b b)
  | _ => none

partial def valOfJ : J → Option Val
  | .null => some .none
  | .bool b => some (.bool b)
  | .int i => some (.int i)
  | .str s => some (.str s)
  | .arr xs => (xs.mapM valOfJ).map Val.list
  | .obj [("m", _)] => some .missing
  | .obj [("f", .int i)] => some (.float i)
  | .obj [("f", .str _)] => some .negzero
  | .obj [("d", .arr kvs)] =>
    (kvs.mapM fun (p : J) => match p with
      | J.arr [k, v] => do pure ((← keyOfJ k), (← valOfJ v))
      | _ => none).map Val.dict
  | _ => none

def argOfJ : J → Option Arg
  | .obj [("ins", v)] => (valOfJ v).map Arg.ins
  | j => (valOfJ j).map Arg.plain

def keyToJ : Key → J
  | .s n => .str n
  | .i j => .int j
  | .b v => .bool v

partial def valToJ : Val → J
  | .none => .null
  | .bool b => .bool b
  | .int i => .int i
  | .str s => .str s
  | .missing => .obj [("m", .int 0)]
  | .float i => .obj [("f", .int i)]
  | .negzero => .obj [("f", .str "-0")]
  | .list xs => .arr (xs.map valToJ)
  | .dict kvs => .obj [("d", .arr (kvs.map fun (k, v) => .arr [keyToJ k, valToJ v]))]

def errName : Err → String
  | .index => "IndexError"
  | .key => "KeyError"
  | .type => "TypeError"
  | .value => "ValueError"

def optIntOfJ : J → Option (Option Int)
  | .null => some none
  | .int i => some (some i)
  | _ => none

def sliceOfJ (j : J) : Option Slice :=
  match j with
  | .arr [a, b, c] => do pure ⟨← optIntOfJ a, ← optIntOfJ b, ← optIntOfJ c⟩
  | _ => none

def valsOfJ (j : J) : Option (List Val) := do (← j.asArr?).mapM valOfJ

def lopOfJ (j : J) : Option LStep := do
  let name ← j.getStr? "op"
  let notify := !((j.getBool? "nf").getD false)
  let v := (j.get? "v").bind valOfJ
  let i := j.getInt? "i"
  let s := (j.get? "s").bind sliceOfJ
  let vs := (j.get? "vs").bind valsOfJ
  let op : LOp ← match name with
    | "get" => i.map LOp.get
    | "getslice" => s.map LOp.getSlice
    | "len" => some .len
    | "contains" => v.map LOp.contains
    | "index" => match j.getInt? "start" with
      | none => v.map LOp.index
      | some a => do pure (.indexIn (← v) a (← j.getInt? "stop"))
    | "count" => v.map LOp.count
    | "get_bad" => some .getBad
    | "set_bad" => some .setBad
    | "del_bad" => some .delBad
    | "set" => do pure (.set (← i) (← v))
    | "setslice" => do pure (.setSlice (← s) (← vs))
    | "del" => i.map LOp.del
    | "delslice" => s.map LOp.delSlice
    | "append" => v.map LOp.append
    | "insert" => do pure (.insert (← i) (← v))
    | "extend" => vs.map LOp.extend
    | "pop" => ((j.get? "i").bind optIntOfJ).map LOp.pop
    | "remove" => v.map LOp.remove
    | "clear" => some .clear
    | "sort" => do
      let key : SortKey ← match j.get? "key" with
        | none => some .none
        | some .null => some .none
        | some (.str "len") => some .len
        | some (.str "neg") => some .neg
        | some (.str "abs") => some .abs
        | some (.str "const") => some .const
        | _ => none
      pure (.sort (← j.getBool? "rev") key)
    | "reverse" => some .reverse
    | "iadd" => vs.map LOp.iadd
    | "imul" => (j.getInt? "n").map LOp.imul
    | "add" => vs.map LOp.add
    | "mul" => (j.getInt? "n").map LOp.mul
    | "rmul" => (j.getInt? "n").map LOp.mul
    | "copy" => some .copy
    | "copy_copy" => some .copy
    | "list_of" => some .copy
    | "radd" => vs.map LOp.radd
    | "rebind" => do
      let ps ← j.getArr? "pairs"
      let pairs ← ps.mapM fun (p : J) => match p with
        | J.arr [J.int k, a] => (argOfJ a).map fun x => (k, x)
        | _ => none
      pure (.rebind pairs)
    | _ => none
  pure ⟨op, notify⟩

def pairsOfJ (j : J) (field : String := "pairs") : Option (List (Key × Val)) := do
  let ps ← (j.getArr? field).orElse (fun _ => if field == "kw" then some [] else none)
  ps.mapM fun (p : J) => match p with
    | J.arr [k, v] => do pure ((← keyOfJ k), (← valOfJ v))
    | _ => none

def dopOfJ (j : J) : Option DStep := do
  let name ← j.getStr? "op"
  let notify := !((j.getBool? "nf").getD false)
  let v := (j.get? "v").bind valOfJ
  let k := (j.get? "k").bind keyOfJ
  let op : DOp ← match name with
    | "get" => k.map DOp.get
    | "getd" => do pure (.getD (← k) (← v))
    | "contains" => k.map DOp.contains
    | "len" => some .len
    | "set" => do pure (.set (← k) (← v))
    | "del" => k.map DOp.del
    | "pop" => k.map fun x => DOp.pop x none
    | "popd" => do pure (.pop (← k) (some (← v)))
    | "popitem" => some .popitem
    | "clear" => some .clear
    | "setdefault" => do pure (.setdefault (← k) (← v))
    | "setdefault1" => k.map fun x => DOp.setdefault x .none
    | "update" => do pure (.update (← pairsOfJ j) (← pairsOfJ j "kw"))
    | "update_pairs" => do pure (.update (← pairsOfJ j) (← pairsOfJ j "kw"))
    | "update_kw" => do pure (.update [] (← pairsOfJ j "kw"))
    | "ior" => do pure (.update (← pairsOfJ j) [])
    | "ior_pairs" => do pure (.update (← pairsOfJ j) [])
    | "get1" => k.map fun x => DOp.getD x .none
    | "copy" => some .copy
    | "copy_copy" => some .copy
    | "dict_of" => some .copy
    | "or" => do pure (.union (← pairsOfJ j) false)
    | "ror" => do pure (.union (← pairsOfJ j) true)
    | "rebind" => do pure (.rebind (← pairsOfJ j) (← pairsOfJ j "kw"))
    | _ => none
  pure ⟨op, notify⟩

def stepJ (res : Except Err Val) (state : J) : J :=
  match res with
  | .ok v => .obj [("r", valToJ v), ("e", .null), ("s", state)]
  | .error e => .obj [("r", .null), ("e", .str (errName e)), ("s", state)]

def runListJ (step : List Val → LStep → LOut) (xs : List Val) (ops : List LStep) : List J :=
  match ops with
  | [] => []
  | o :: rest =>
    let out := step xs o
    stepJ out.res (valToJ (.list out.st)) :: runListJ step out.st rest

def runDictJ (step : List (Key × Val) → DStep → DOut) (kvs : List (Key × Val)) (ops : List DStep) : List J :=
  match ops with
  | [] => []
  | o :: rest =>
    let out := step kvs o
    stepJ out.res (valToJ (.dict out.st)) :: runDictJ step out.st rest

def bad (msg : String) : J := .obj [("bad_request", .str msg)]

def handle (j : J) : J :=
  match j.getStr? "kind", (j.get? "init").bind valOfJ, j.getArr? "ops" with
  | some "list", some (.list init), some ops =>
    match ops.mapM lopOfJ with
    | some steps =>
      -- both sides start from the constructor applied to the plain initial value
      .obj [("spec", .arr (runListJ specL (purge init) steps)),
            ("impl", .arr (runListJ implL (PgList.construct init) steps))]
    | none => bad "list op"
  | some "dict", some (.dict init), some ops =>
    -- `Dict(mapping, **kw)`: keyword arguments of the constructor in "init_kw"
    match ops.mapM dopOfJ, (match j.get? "init_kw" with
        | none => some []
        | some (.arr kvs) => kvs.mapM fun (p : J) => match p with
          | J.arr [k, v] => do pure ((← keyOfJ k), (← valOfJ v))
          | _ => none
        | _ => none) with
    | some steps, some kw =>
      .obj [("spec", .arr (runDictJ specD (PyDict.assignAll [] (init ++ kw)) steps)),
            ("impl", .arr (runDictJ implD (PgDict.setAll [] (PgDict.mergePairs (init ++ kw))) steps))]
    | _, _ => bad "dict op"
  | _, _, _ => bad "case"

def main : IO Unit := driverLoop handle
