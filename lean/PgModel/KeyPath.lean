/-
  C10 — model of `pyglove/core/utils/value_location.py`, class `KeyPath`.

  * `parse`      the character state machine of `KeyPath.parse` (value_location.py:146-185):
                 accumulated segment (`path_str[key_start:pos]`), bracket depth, `_append_key`
                 with `preserve_empty` / `maybe_numeric`;
  * `pathStr`    `KeyPath.path_str` (424-448) with `_has_special_chars` (385-387);
  * `natDigits` / `digitsVal`   own decimal rendering / reading (stand for `str(int)` / `int(str)`);
  * arithmetic   `__add__` (272-297), `parent` (209-226), `__sub__` (228-270),
                 `is_relative_to` (407-415), `_compare` + `_KeyComparisonWrapper` (494-574).

  Python's `str.isdigit` and `int()` on single characters are a *parameter* of the model
  (`DigitClass`): the harness sends the class of every non-ASCII character it uses.
  Keys are `str` or `int` only (custom key objects / `StrKey` are outside the model).
-/
namespace Pg.C10

/-- Exception classes (the only part of an exception that is compared). -/
inductive Err where
  | value | key | type | index | assertion | attribute
  deriving DecidableEq, Repr

def Err.name : Err → String
  | .value => "ValueError" | .key => "KeyError" | .type => "TypeError"
  | .index => "IndexError" | .assertion => "AssertionError" | .attribute => "AttributeError"

inductive Key where
  | s (name : List Char)
  | i (idx : Int)
  deriving DecidableEq, Repr

abbrev Path := List Key

/-- What `str.isdigit` / `int()` make of one character: not a digit; a decimal digit with its
value (`isdigit` true, `int` succeeds); a digit that `int()` rejects (e.g. `²`). -/
inductive DClass where
  | none | dec (d : Nat) | digitOnly
  deriving DecidableEq, Repr

abbrev DigitClass := Char → DClass

def asciiClass : DigitClass := fun c =>
  if 48 ≤ c.toNat ∧ c.toNat ≤ 57 then .dec (c.toNat - 48) else .none

/-! ### Decimal rendering and reading -/

def digitChar (d : Nat) : Char := Char.ofNat (48 + d)

/-- `str(n)` for a natural number (structural recursion on a fuel argument, so that the kernel
can evaluate it; `natDigits_eq` in PgProofs gives the fuel-free equation). -/
def natDigitsAux : Nat → Nat → List Char
  | 0, _ => []
  | fuel + 1, n =>
    if n < 10 then [digitChar n] else natDigitsAux fuel (n / 10) ++ [digitChar (n % 10)]

def natDigits (n : Nat) : List Char := natDigitsAux (n + 1) n

/-- `str(z)` for an `int`. -/
def intStr (z : Int) : List Char :=
  if z < 0 then '-' :: natDigits (-z).toNat else natDigits z.toNat

/-- value of a string of decimal digits (`none` if some character is not a decimal digit). -/
def digitsValAux (dc : DigitClass) : Nat → List Char → Option Nat
  | acc, [] => some acc
  | acc, c :: cs =>
    match dc c with
    | .dec d => digitsValAux dc (acc * 10 + d) cs
    | _ => none

def digitsVal (dc : DigitClass) (s : List Char) : Option Nat := digitsValAux dc 0 s

/-- `s.lstrip('-')`. -/
def lstripDash : List Char → List Char
  | [] => []
  | c :: cs => if c = '-' then lstripDash cs else c :: cs

/-- `s.isdigit()`: non-empty and every character is a digit. -/
def isDigitStr (dc : DigitClass) (s : List Char) : Bool :=
  !s.isEmpty && s.all (fun c => dc c != .none)

/-- `int(s)` for a string with `s.lstrip('-').isdigit()`: at most one sign, decimal digits only
(`none` = ValueError, e.g. `'--5'`, `'²'`). -/
def pyInt (dc : DigitClass) : List Char → Option Int
  | [] => none
  | c :: rest =>
    if c = '-' then
      (if rest.head? = some '-' then none else (digitsVal dc rest).map (fun n => -(Int.ofNat n)))
    else (digitsVal dc (c :: rest)).map Int.ofNat

/-! ### `KeyPath.parse` -/

/-- `_append_key(key, preserve_empty, maybe_numeric)` (147-153). -/
def appendKey (dc : DigitClass) (keys : Path) (key : List Char) (preserveEmpty maybeNumeric : Bool) :
    Except Err Path :=
  if !(preserveEmpty || !key.isEmpty) then .ok keys
  else if maybeNumeric && isDigitStr dc (lstripDash key) then
    match pyInt dc key with
    | some z => .ok (keys ++ [.i z])
    | none => .error .value
  else .ok (keys ++ [.s key])

/-- Loop state: keys so far, `path_str[key_start:pos]`, `unmatched_brackets`. -/
structure PState where
  keys : Path
  cur : List Char
  depth : Nat
  deriving DecidableEq, Repr

/-- One iteration of the `while` loop (156-178). -/
def step (dc : DigitClass) (st : PState) (ch : Char) : Except Err PState :=
  if ch = ']' then
    match st.depth with
    | 0 => .error .value                                   -- unmatched close bracket
    | 1 =>
      match appendKey dc st.keys st.cur true true with
      | .ok ks => .ok ⟨ks, [], 0⟩
      | .error e => .error e
    | d + 2 => .ok ⟨st.keys, st.cur ++ [ch], d + 1⟩
  else if ch = '[' then
    if st.depth = 0 then
      match appendKey dc st.keys st.cur false false with
      | .ok ks => .ok ⟨ks, [], 1⟩
      | .error e => .error e
    else .ok ⟨st.keys, st.cur ++ [ch], st.depth + 1⟩
  else if ch = '.' ∧ st.depth = 0 then
    match appendKey dc st.keys st.cur false false with
    | .ok ks => .ok ⟨ks, [], 0⟩
    | .error e => .error e
  else .ok ⟨st.keys, st.cur ++ [ch], st.depth⟩

def run (dc : DigitClass) : PState → List Char → Except Err PState
  | st, [] => .ok st
  | st, c :: cs =>
    match step dc st c with
    | .ok st' => run dc st' cs
    | .error e => .error e

/-- After the loop (179-185). -/
def finish (dc : DigitClass) (st : PState) : Except Err Path :=
  match (if st.cur.isEmpty then .ok st.keys else appendKey dc st.keys st.cur false false) with
  | .ok ks => if st.depth ≠ 0 then .error .value else .ok ks
  | .error e => .error e

def parse (dc : DigitClass) (s : List Char) : Except Err Path :=
  match run dc ⟨[], [], 0⟩ s with
  | .ok st => finish dc st
  | .error e => .error e

/-! ### `KeyPath.path_str` -/

def isSpecial (c : Char) : Bool := c = '[' || c = ']' || c = '.'

/-- `_has_special_chars`. -/
def hasSpecial (k : List Char) : Bool := k.any isSpecial

/-- The piece of the path string contributed by one key (`first` ⇔ `i == 0`). -/
def keySeg (preserveComplex : Bool) (first : Bool) : Key → List Char
  | .s k =>
    if !(preserveComplex && hasSpecial k) then (if first then k else '.' :: k)
    else '[' :: (k ++ [']'])
  | .i z => '[' :: (intStr z ++ [']'])

def segs (pc : Bool) : Bool → Path → List Char
  | _, [] => []
  | first, k :: ks => keySeg pc first k ++ segs pc false ks

/-- `path_str(preserve_complex_keys)`; `str(path)` is `pathStr true`. -/
def pathStrPc (pc : Bool) (ks : Path) : List Char := segs pc true ks

def pathStr (ks : Path) : List Char := pathStrPc true ks

/-! ### Arithmetic -/

/-- What may stand on the right of `+`, `-`, `<`, `is_relative_to`. -/
inductive Operand where
  | path (p : Path)
  | str (s : List Char)
  | int (z : Int)
  | none
  | other            -- some other object (the harness sends a float)

/-- `KeyPath.from_value` (88-96). -/
def fromValue (dc : DigitClass) : Operand → Except Err Path
  | .path p => .ok p
  | .str s => parse dc s
  | .int z => .ok [.i z]
  | _ => .error .value

/-- `KeyPath(keys, parent)`. -/
def concat (p q : Path) : Path := p ++ q

/-- `__add__` on KeyPath-equivalent operands (any other object becomes a single key and is
outside the model). -/
def add (dc : DigitClass) (p : Path) : Operand → Except Err Path
  | .none => .ok p
  | .str s => match parse dc s with
    | .ok q => .ok (concat p q)
    | .error e => .error e
  | .int z => .ok (concat p [.i z])
  | .path q => .ok (concat p q)
  | .other => .error .type    -- not modelled; never sent

def parent (p : Path) : Except Err Path :=
  if p.isEmpty then .error .key else .ok p.dropLast

def lastKey (p : Path) : Except Err Key :=
  match p.getLast? with
  | some k => .ok k
  | none => .error .key

/-- The loop of `__sub__` (257-270) on two key lists. -/
def subKeys : Path → Path → Except Err Path
  | p, [] => .ok p
  | [], _ :: _ => .error .value
  | a :: p, b :: q => if a = b then subKeys p q else .error .value

def sub (dc : DigitClass) (p : Path) : Operand → Except Err Path
  | .none => .ok p
  | .str s => match parse dc s with
    | .ok q => subKeys p q
    | .error e => .error e
  | .int z => subKeys p [.i z]
  | .path q => subKeys p q
  | .other => .error .type

/-- The loop of `is_relative_to` on two key lists. -/
def relKeys : Path → Path → Bool
  | _, [] => true
  | [], _ :: _ => false
  | a :: p, b :: q => if a = b then relKeys p q else false

def isRelativeTo (dc : DigitClass) (p : Path) (o : Operand) : Except Err Bool :=
  match fromValue dc o with
  | .ok q => .ok (relKeys p q)
  | .error e => .error e

/-! ### Ordering -/

/-- Python `str.__lt__`: lexicographic by code point. -/
def strLt : List Char → List Char → Bool
  | [], [] => false
  | [], _ :: _ => true
  | _ :: _, [] => false
  | a :: as, b :: bs => if a.toNat < b.toNat then true else if a = b then strLt as bs else false

/-- `str(key)`. -/
def keyStr : Key → List Char
  | .s k => k
  | .i z => intStr z

/-- `_KeyComparisonWrapper.__eq__` / `__lt__` (558-578, with fix C10-F38): two ints numerically,
two strs lexicographically, an int before a str (before the fix a mixed pair was compared by the
`str()` forms, which made the order neither transitive nor total). -/
def keyEqW : Key → Key → Bool
  | .i a, .i b => a == b
  | .s a, .s b => a == b
  | _, _ => false

def keyLtW : Key → Key → Bool
  | .i a, .i b => a < b
  | .s a, .s b => strLt a b
  | .i _, .s _ => true
  | .s _, .i _ => false

/-- Python tuple `<` over the wrappers: first position where the wrappers are not `==`. -/
def pathLt : Path → Path → Bool
  | [], [] => false
  | [], _ :: _ => true
  | _ :: _, [] => false
  | a :: p, b :: q => if keyEqW a b then pathLt p q else keyLtW a b

/-- Python tuple `<=`. -/
def pathLe : Path → Path → Bool
  | [], _ => true
  | _ :: _, [] => false
  | a :: p, b :: q => if keyEqW a b then pathLe p q else (keyLtW a b || keyEqW a b)

inductive CmpOp where | lt | le | gt | ge
  deriving DecidableEq

def cmpPaths : CmpOp → Path → Path → Bool
  | .lt, p, q => pathLt p q
  | .le, p, q => pathLe p q
  | .gt, p, q => pathLt q p
  | .ge, p, q => pathLe q p

def cmpStrs : CmpOp → List Char → List Char → Bool
  | .lt, a, b => strLt a b
  | .le, a, b => strLt a b || a == b
  | .gt, a, b => strLt b a
  | .ge, a, b => strLt b a || a == b

/-- `_compare` (506-532): against a string, the *printed* path is compared. -/
def compare (op : CmpOp) (p : Path) : Operand → Except Err Bool
  | .str s => .ok (cmpStrs op (pathStr p) s)
  | .path q => .ok (cmpPaths op p q)
  | _ => .error .type

/-- `__eq__` (477-489). -/
def pathEq (p : Path) : Operand → Bool
  | .str s => pathStr p == s
  | .path q => p == q
  | _ => false

/-! ### Python `dict` as an association list in insertion order -/

namespace Assoc
variable {α : Type}

/-- `d[k]` / `k in d`. -/
def lookup : List (Key × α) → Key → Option α
  | [], _ => none
  | (k', v) :: rest, k => if k' = k then some v else lookup rest k

def hasKey (kids : List (Key × α)) (k : Key) : Bool := (lookup kids k).isSome

/-- `d[k] = v` (an existing key keeps its position, a new key is appended). -/
def set : List (Key × α) → Key → α → List (Key × α)
  | [], k, v => [(k, v)]
  | (k', v') :: rest, k, v => if k' = k then (k, v) :: rest else (k', v') :: set rest k v

/-- `del d[k]` / `d.pop(k)`. -/
def erase : List (Key × α) → Key → List (Key × α)
  | [], _ => []
  | (k', v') :: rest, k => if k' = k then rest else (k', v') :: erase rest k

end Assoc

instance {ε α : Type} [DecidableEq ε] [DecidableEq α] : DecidableEq (Except ε α) := fun a b =>
  match a, b with
  | .ok x, .ok y => if h : x = y then isTrue (by rw [h]) else isFalse (fun e => by cases e; exact h rfl)
  | .error x, .error y => if h : x = y then isTrue (by rw [h]) else isFalse (fun e => by cases e; exact h rfl)
  | .ok _, .error _ => isFalse (fun e => by cases e)
  | .error _, .ok _ => isFalse (fun e => by cases e)

end Pg.C10
