/-
  C05 — codec model: `pg.to_json` / `pg.from_json` (object form) and `pg.to_json_str` /
  `pg.from_json_str` (string form, `n_:` int-key encoding).

  Anchors (pinned tree + fixes/C05-*.patch):
    utils/json_conversion.py  to_json 393-452, from_json 455-500, resolve_typenames 503-577,
                              JSONConvertible.from_json 192-208
    symbolic/base.py          from_json 2035-2135, from_json_str 2138-2198 (_get_key,
                              _decode_int_keys), to_json 2201-2234, to_json_str 2237-2282
    symbolic/object.py        Object.from_json 546-598, __init__ 600-703, sym_jsonify 975-983
    symbolic/dict.py          Dict.from_json 159-172, sym_jsonify 826-872 (schema order, frozen
                              fields hidden, MISSING skipped)
    symbolic/list.py          List.from_json 140-153, sym_jsonify 786-795

  Strings are `List Char` (so that prefix tests are plain list functions); floats are opaque
  tokens (the codec passes them through unchanged; their text form is `json`'s business).
  No Mathlib, no `Lean` import: this file is linked into the driver.
-/
namespace Pg.C05

abbrev Str := List Char

/-- Python exception classes observable at the API. -/
inductive Err where
  | type | value | assertion | key | other
  deriving DecidableEq, Repr, Inhabited

inductive Key where
  | s (name : Str)
  | i (idx : Int)
  deriving DecidableEq, Repr, Inhabited

inductive Atom where
  | none
  | bool (b : Bool)
  | int (i : Int)
  | float (tok : Str)
  | str (s : Str)
  | missing                      -- pg.MISSING_VALUE (attribute of a partial object)
  deriving DecidableEq, Repr, Inhabited

/-- Symbolic values: leaves, `pg.List`, tuples, `pg.Dict`, objects of registered classes. -/
inductive Tree where
  | leaf (a : Atom)
  | list (xs : List Tree)
  | tuple (xs : List Tree)
  | dict (kvs : List (Key × Tree))
  | obj (cls : Str) (attrs : List (Str × Tree))
  deriving Repr, Inhabited

/-- What `pg.to_json` returns: plain Python data (dict keys may still be ints). -/
inductive JV where
  | null
  | bool (b : Bool)
  | int (i : Int)
  | float (tok : Str)
  | str (s : Str)
  | arr (xs : List JV)
  | obj (kvs : List (Key × JV))
  deriving Repr, Inhabited

/-- What `json.dumps` / `json.loads` see: string keys only. -/
inductive JS where
  | null
  | bool (b : Bool)
  | int (i : Int)
  | float (tok : Str)
  | str (s : Str)
  | arr (xs : List JS)
  | obj (kvs : List (Str × JS))
  deriving Repr, Inhabited

def typeKey : Str := "_type".toList          -- JSONConvertible.TYPE_NAME_KEY
def tupleMarker : Str := "__tuple__".toList  -- JSONConvertible.TUPLE_MARKER
def intKeyPrefix : Str := "n_:".toList       -- base.py:2176 / 2272

/-! ### Structural equality on trees (used by the frozen-field test of `apply`) -/

mutual
  def Tree.beq : Tree → Tree → Bool
    | .leaf a, .leaf b => a == b
    | .list xs, .list ys => Tree.beqL xs ys
    | .tuple xs, .tuple ys => Tree.beqL xs ys
    | .dict xs, .dict ys => Tree.beqKV xs ys
    | .obj c xs, .obj d ys => c == d && Tree.beqA xs ys
    | _, _ => false
  def Tree.beqL : List Tree → List Tree → Bool
    | [], [] => true
    | x :: xs, y :: ys => Tree.beq x y && Tree.beqL xs ys
    | _, _ => false
  def Tree.beqKV : List (Key × Tree) → List (Key × Tree) → Bool
    | [], [] => true
    | (k, x) :: xs, (l, y) :: ys => k == l && Tree.beq x y && Tree.beqKV xs ys
    | _, _ => false
  def Tree.beqA : List (Str × Tree) → List (Str × Tree) → Bool
    | [], [] => true
    | (k, x) :: xs, (l, y) :: ys => k == l && Tree.beq x y && Tree.beqA xs ys
    | _, _ => false
end

/-! ### Class environment (the type registry + the schemas of the registered classes) -/

/-- Field kinds of the modelled classes (value specs `Any Bool Int Str List Dict Object(cls)`;
anything richer is covered by the implementation-side oracle only). -/
inductive Kind where
  | any | bool | int | str | list | dict
  | obj (cls : Str)
  deriving DecidableEq, Repr, Inhabited

structure Field where
  name : Str
  kind : Kind
  noneable : Bool
  default : Option Tree          -- `field.value.has_default` / `.default`
  frozen : Bool
  deriving Inhabited

structure ClassEnv where
  classes : List (Str × List Field)
  deriving Inhabited

def ClassEnv.find (env : ClassEnv) (c : Str) : Option (List Field) :=
  match env.classes.find? (fun p => p.1 == c) with
  | some p => some p.2
  | none => none

def frozenNames (fs : List Field) : List Str := (fs.filter (·.frozen)).map (·.name)

def ClassEnv.frozenOf (env : ClassEnv) (c : Str) : List Str :=
  match env.find c with
  | some fs => frozenNames fs
  | none => []

/-! ### to_json -/

def atomJ : Atom → JV
  | .none => .null
  | .bool b => .bool b
  | .int i => .int i
  | .float t => .float t
  | .str s => .str s
  -- utils/missing.py: MissingValue.to_json (outside `Encodable`)
  | .missing => .obj [(.s typeKey, .str "pyglove.core.utils.missing.MissingValue".toList)]

def isMissing : Tree → Bool
  | .leaf .missing => true
  | _ => false

mutual
  /-- `pg.to_json(v)`: base.py:2201-2234 → `sym_jsonify` / utils.to_json. -/
  def toJson (env : ClassEnv) : Tree → JV
    | .leaf a => atomJ a
    | .list xs => .arr (toJsonL env xs)                                   -- list.py:786
    | .tuple xs => .arr (.str tupleMarker :: toJsonL env xs)              -- json_conversion.py:418
    | .dict kvs => .obj (toJsonKV env kvs)                                -- dict.py:862 (no schema)
    | .obj c attrs =>                                                     -- object.py:975
      .obj ((.s typeKey, .str c) :: toJsonA env (env.frozenOf c) attrs)
  def toJsonL (env : ClassEnv) : List Tree → List JV
    | [] => []
    | x :: xs => toJson env x :: toJsonL env xs
  def toJsonKV (env : ClassEnv) : List (Key × Tree) → List (Key × JV)
    | [] => []
    | (k, x) :: xs => (k, toJson env x) :: toJsonKV env xs
  /-- dict.py:836-860 for the attribute container: schema order, frozen fields hidden,
  MISSING values skipped. -/
  def toJsonA (env : ClassEnv) (frozen : List Str) : List (Str × Tree) → List (Key × JV)
    | [] => []
    | (k, x) :: xs =>
      if frozen.contains k || isMissing x then toJsonA env frozen xs
      else (.s k, toJson env x) :: toJsonA env frozen xs
end

/-! ### from_json -/

def jlookup (k : Key) : List (Key × JV) → Option JV
  | [] => none
  | (l, v) :: r => if l = k then some v else jlookup k r

def tlookup (k : Str) : List (Key × Tree) → Option Tree
  | [] => none
  | (l, v) :: r => if l = .s k then some v else tlookup k r

def hasIntKey : List (Key × Tree) → Bool
  | [] => false
  | (.i _, _) :: _ => true
  | (.s _, _) :: r => hasIntKey r

def fieldNames (fs : List Field) : List Str := fs.map (·.name)

/-- `isinstance` test of the value spec of a field (typing/value_specs.py `apply`:
type check; `bool` is an `int` in Python). -/
def accepts : Kind → Tree → Bool
  | .any, _ => true
  | .bool, .leaf (.bool _) => true
  | .int, .leaf (.int _) => true
  | .int, .leaf (.bool _) => true
  | .str, .leaf (.str _) => true
  | .list, .list _ => true
  | .dict, .dict _ => true
  | .obj c, .obj d _ => c == d
  | _, _ => false

/-- `ValueSpecBase.apply` for one supplied field value (value_specs.py:245-328): frozen test,
None test, type test. -/
def applyField (f : Field) (v : Tree) : Except Err Tree :=
  if f.frozen then
    match f.default with
    | some d => if Tree.beq v d then .ok d else .error .value     -- "Frozen field is not assignable"
    | none => .error .value
  else
    match v with
    | .leaf .none => if f.noneable then .ok v else .error .value  -- "Value cannot be None"
    | .leaf .missing =>
      match f.default with
      | some d => .ok d
      | none => .ok v
    | _ => if accepts f.kind v then .ok v else .error .type        -- "Expect <class …> but encountered …"

/-- The value bound to one field: the supplied one after `apply`, else the default, else MISSING. -/
def fieldValue (kwargs : List (Key × Tree)) (f : Field) : Except Err Tree :=
  match tlookup f.name kwargs with
  | some v => applyField f v
  | none => match f.default with
    | some d => .ok d
    | none => .ok (.leaf .missing)

def bindFields (kwargs : List (Key × Tree)) : List Field → Except Err (List (Str × Tree))
  | [] => .ok []
  | f :: fs =>
    match fieldValue kwargs f with
    | .error e => .error e
    | .ok v =>
      match bindFields kwargs fs with
      | .error e => .error e
      | .ok r => .ok ((f.name, v) :: r)

/-- A keyword the class schema does not know (object.py:649). -/
def unknownKey (fs : List Field) (p : Key × Tree) : Bool :=
  match p.1 with
  | .s k => !(fieldNames fs).contains k
  | .i _ => true

/-- `cls(allow_partial=…, **kwargs)`: object.py:600-703. -/
def construct (env : ClassEnv) (allowPartial : Bool) (c : Str) (kwargs : List (Key × Tree)) :
    Except Err Tree :=
  match env.find c with
  | none => .error .type                                            -- json_conversion.py:529 "Cannot load class"
  | some fs =>
    if hasIntKey kwargs then .error .type                           -- "keywords must be strings"
    else if kwargs.any (unknownKey fs) then .error .type           -- object.py:649 unexpected keyword
    else if !allowPartial && fs.any (fun f => f.default.isNone && (tlookup f.name kwargs).isNone)
      then .error .type                                             -- object.py:687 missing required
    else
      match bindFields kwargs fs with
      | .error e => .error e
      | .ok attrs => .ok (.obj c attrs)

def jisTupleMarker : JV → Bool
  | .str s => s == tupleMarker
  | _ => false

mutual
  /-- The main pass of `pg.from_json` (base.py:2093-2135 and utils.from_json 478-500). -/
  def fromJ (env : ClassEnv) (ap : Bool) : JV → Except Err Tree
    | .null => .ok (.leaf .none)
    | .bool b => .ok (.leaf (.bool b))
    | .int i => .ok (.leaf (.int i))
    | .float t => .ok (.leaf (.float t))
    | .str s => .ok (.leaf (.str s))
    | .arr [] => .ok (.list [])
    | .arr (x :: xs) =>
      if jisTupleMarker x then
        match xs with
        | [] => .error .value                                       -- base.py:2096 empty tuple rejected
        | _ => match fromJL env ap xs with
          | .error e => .error e
          | .ok ts => .ok (.tuple ts)
      else
        match fromJL env ap (x :: xs) with
        | .error e => .error e
        | .ok ts => .ok (.list ts)
    | .obj kvs =>
      match jlookup (.s typeKey) kvs with
      | none =>
        match fromJKV env ap kvs with
        | .error e => .error e
        | .ok ts => .ok (.dict ts)
      | some (.str c) =>
        -- (`_type` is popped first; decoding its string value cannot fail, so decoding
        -- everything and dropping the entry afterwards is the same computation)
        match fromJKV env ap kvs with
        | .error e => .error e
        | .ok kwargs => construct env ap c (kwargs.filter (fun p => p.1 != .s typeKey))
      | some .null => .error .assertion                             -- `assert factory_fn is not None`
      | some _ => .error .type                                      -- "'int' object is not callable"
  def fromJL (env : ClassEnv) (ap : Bool) : List JV → Except Err (List Tree)
    | [] => .ok []
    | x :: xs =>
      match fromJ env ap x with
      | .error e => .error e
      | .ok t => match fromJL env ap xs with
        | .error e => .error e
        | .ok ts => .ok (t :: ts)
  def fromJKV (env : ClassEnv) (ap : Bool) : List (Key × JV) → Except Err (List (Key × Tree))
    | [] => .ok []
    | (k, x) :: xs =>
      match fromJ env ap x with
      | .error e => .error e
      | .ok t => match fromJKV env ap xs with
        | .error e => .error e
        | .ok ts => .ok ((k, t) :: ts)
end

mutual
  /-- `resolve_typenames` (json_conversion.py:503-577): every string `_type` anywhere in the
  JSON tree must name a registered class — checked before anything is built. A dict whose
  `_type` is not a string is skipped together with its children. -/
  def resolveOk (env : ClassEnv) : JV → Bool
    | .arr xs => resolveOkL env xs
    | .obj kvs =>
      match jlookup (.s typeKey) kvs with
      | none => resolveOkKV env kvs
      | some (.str c) => (env.find c).isSome && resolveOkKV env kvs
      | some _ => true
    | _ => true
  def resolveOkL (env : ClassEnv) : List JV → Bool
    | [] => true
    | x :: xs => resolveOk env x && resolveOkL env xs
  def resolveOkKV (env : ClassEnv) : List (Key × JV) → Bool
    | [] => true
    | (_, x) :: xs => resolveOk env x && resolveOkKV env xs
end

/-- `pg.from_json(j, allow_partial=ap)`. -/
def fromJson (env : ClassEnv) (ap : Bool) (j : JV) : Except Err Tree :=
  if resolveOk env j then fromJ env ap j else .error .type

/-! ### String form: `n_:` encoding of int keys (base.py:2171-2188, 2267-2282) -/

def digitChar : Nat → Char
  | 0 => '0' | 1 => '1' | 2 => '2' | 3 => '3' | 4 => '4'
  | 5 => '5' | 6 => '6' | 7 => '7' | 8 => '8' | _ => '9'

def digitVal? (c : Char) : Option Nat :=
  if c = '0' then some 0 else if c = '1' then some 1 else if c = '2' then some 2
  else if c = '3' then some 3 else if c = '4' then some 4 else if c = '5' then some 5
  else if c = '6' then some 6 else if c = '7' then some 7 else if c = '8' then some 8
  else if c = '9' then some 9 else none

/-- `str(n)` for a natural number. -/
def natDigits (n : Nat) : Str :=
  if _h : n < 10 then [digitChar n] else natDigits (n / 10) ++ [digitChar (n % 10)]
termination_by n
decreasing_by omega

/-- `str(i)`. -/
def reprInt : Int → Str
  | .ofNat n => natDigits n
  | .negSucc n => '-' :: natDigits (n + 1)

/-- Digits with single underscores between digits (PEP 515), as `int()` accepts them.
`prevDigit`: the previous character was a digit (an underscore is allowed now). -/
def parseDigits : Str → Nat → Bool → Option Nat
  | [], acc, prevDigit => if prevDigit then some acc else none
  | c :: cs, acc, prevDigit =>
    match digitVal? c with
    | some d => parseDigits cs (acc * 10 + d) true
    | none => if c = '_' && prevDigit then
                (match cs with
                 | [] => none
                 | d :: _ => if (digitVal? d).isSome then parseDigits cs acc false else none)
              else none

def isPySpace (c : Char) : Bool :=
  c = ' ' || c = '\t' || c = '\n' || c = '\r' || c = '\x0b' || c = '\x0c'

def stripSpaces (s : Str) : Str :=
  ((s.dropWhile isPySpace).reverse.dropWhile isPySpace).reverse

/-- `int(s)` for ASCII input (non-ASCII digits / spaces are outside the model). -/
def parseInt (s : Str) : Option Int :=
  match stripSpaces s with
  | '-' :: cs => (parseDigits cs 0 false).map (fun n => - (Int.ofNat n))
  | '+' :: cs => (parseDigits cs 0 false).map Int.ofNat
  | cs => (parseDigits cs 0 false).map Int.ofNat

def encKey : Key → Str
  | .s k => k
  | .i n => intKeyPrefix ++ reprInt n

/-- `_get_key` (base.py:2171-2174). -/
def decKey (k : Str) : Except Err Key :=
  if intKeyPrefix.isPrefixOf k then
    match parseInt (k.drop 3) with
    | some n => .ok (.i n)
    | none => .error .value                                         -- int('x') → ValueError
  else .ok (.s k)

/-- Python `d[k] = v` on an insertion-ordered dict. -/
def dsetS (k : Str) (v : JS) : List (Str × JS) → List (Str × JS)
  | [] => [(k, v)]
  | (l, w) :: r => if l = k then (l, v) :: r else (l, w) :: dsetS k v r

def dsetK (k : Key) (v : JV) : List (Key × JV) → List (Key × JV)
  | [] => [(k, v)]
  | (l, w) :: r => if l = k then (l, v) :: r else (l, w) :: dsetK k v r

mutual
  /-- `_encode_int_keys` (a dict comprehension: a later equal key overwrites). -/
  def encodeIntKeys : JV → JS
    | .null => .null
    | .bool b => .bool b
    | .int i => .int i
    | .float t => .float t
    | .str s => .str s
    | .arr xs => .arr (encodeL xs)
    | .obj kvs => .obj (encodeKV kvs [])
  def encodeL : List JV → List JS
    | [] => []
    | x :: xs => encodeIntKeys x :: encodeL xs
  def encodeKV : List (Key × JV) → List (Str × JS) → List (Str × JS)
    | [], acc => acc
    | (k, x) :: xs, acc => encodeKV xs (dsetS (encKey k) (encodeIntKeys x) acc)
end

mutual
  /-- `_decode_int_keys`. -/
  def decodeIntKeys : JS → Except Err JV
    | .null => .ok .null
    | .bool b => .ok (.bool b)
    | .int i => .ok (.int i)
    | .float t => .ok (.float t)
    | .str s => .ok (.str s)
    | .arr xs =>
      match decodeL xs with
      | .error e => .error e
      | .ok ys => .ok (.arr ys)
    | .obj kvs =>
      match decodeKV kvs [] with
      | .error e => .error e
      | .ok ys => .ok (.obj ys)
  def decodeL : List JS → Except Err (List JV)
    | [] => .ok []
    | x :: xs =>
      match decodeIntKeys x with
      | .error e => .error e
      | .ok y => match decodeL xs with
        | .error e => .error e
        | .ok ys => .ok (y :: ys)
  def decodeKV : List (Str × JS) → List (Key × JV) → Except Err (List (Key × JV))
    | [], acc => .ok acc
    | (k, x) :: xs, acc =>
      match decKey k with
      | .error e => .error e
      | .ok k' =>
        match decodeIntKeys x with
        | .error e => .error e
        | .ok y => decodeKV xs (dsetK k' y acc)
end

/-- `pg.to_json_str(v)` up to `json.dumps` (the text layer is a parameter). -/
def toJsonStr {Text : Type} (dumps : JS → Text) (env : ClassEnv) (t : Tree) : Text :=
  dumps (encodeIntKeys (toJson env t))

/-- `pg.from_json_str(s, allow_partial=ap)` up to `json.loads`. -/
def fromJsonStr {Text : Type} (loads : Text → Option JS) (env : ClassEnv) (ap : Bool) (s : Text) :
    Except Err Tree :=
  match loads s with
  | none => .error .value                                           -- json.JSONDecodeError <: ValueError
  | some js =>
    match decodeIntKeys js with
    | .error e => .error e
    | .ok j => fromJson env ap j

/-! ### Which shapes are reserved by the encoding (`Encodable`) -/

def startsWithTupleMarker : List Tree → Bool
  | .leaf (.str s) :: _ => s == tupleMarker
  | _ => false

def keyReserved (strForm : Bool) : Key → Bool
  | .s k => k == typeKey || (strForm && intKeyPrefix.isPrefixOf k)
  | .i _ => false

mutual
  /-- `Encodable strForm t`: no plain shape of `t` collides with a marker of the encoding.
  `strForm = true` adds the string-form restriction on `n_:` keys. -/
  def Encodable (strForm : Bool) : Tree → Bool
    | .leaf .missing => false                    -- MISSING only as attribute of a partial object
    | .leaf _ => true
    | .list xs => !startsWithTupleMarker xs && EncodableL strForm xs
    | .tuple xs => !xs.isEmpty && EncodableL strForm xs
    | .dict kvs => EncodableKV strForm kvs
    | .obj _ attrs => EncodableA strForm attrs
  def EncodableL (strForm : Bool) : List Tree → Bool
    | [] => true
    | x :: xs => Encodable strForm x && EncodableL strForm xs
  def EncodableKV (strForm : Bool) : List (Key × Tree) → Bool
    | [] => true
    | (k, x) :: xs => !keyReserved strForm k && Encodable strForm x && EncodableKV strForm xs
  def EncodableA (strForm : Bool) : List (Str × Tree) → Bool
    | [] => true
    | (k, x) :: xs =>
      k != typeKey && !(strForm && intKeyPrefix.isPrefixOf k) &&
        (isMissing x || Encodable strForm x) && EncodableA strForm xs
end

/-! ### Well-formedness w.r.t. the class environment (`Conforms`): what C03 guarantees of every
object built by the library. -/

def attrOK (f : Field) (v : Tree) : Bool :=
  if f.frozen then
    match f.default with
    | some d => Tree.beq v d && !isMissing v
    | none => false
  else
    match v with
    | .leaf .none => f.noneable
    | .leaf .missing => f.default.isNone
    | _ => accepts f.kind v

def attrsOK : List Field → List (Str × Tree) → Bool
  | [], [] => true
  | f :: fs, (k, v) :: r => f.name == k && attrOK f v && attrsOK fs r
  | _, _ => false

def keysNodup : List (Key × Tree) → Bool
  | [] => true
  | (k, _) :: r => !(r.any (fun p => p.1 == k)) && keysNodup r

mutual
  def Conforms (env : ClassEnv) : Tree → Bool
    | .leaf _ => true
    | .list xs => ConformsL env xs
    | .tuple xs => ConformsL env xs
    | .dict kvs => keysNodup kvs && ConformsKV env kvs
    | .obj c attrs =>
      (match env.find c with
       | some fs => attrsOK fs attrs
       | none => false) && ConformsA env attrs
  def ConformsL (env : ClassEnv) : List Tree → Bool
    | [] => true
    | x :: xs => Conforms env x && ConformsL env xs
  def ConformsKV (env : ClassEnv) : List (Key × Tree) → Bool
    | [] => true
    | (_, x) :: xs => Conforms env x && ConformsKV env xs
  def ConformsA (env : ClassEnv) : List (Str × Tree) → Bool
    | [] => true
    | (_, x) :: xs => Conforms env x && ConformsA env xs
end

/-- The registry is sane: field names of a class are distinct and frozen fields carry the value
they are frozen to. -/
def fieldsNodup : List Field → Bool
  | [] => true
  | f :: fs => !(fs.any (fun g => g.name == f.name)) && fieldsNodup fs

def ClassEnv.WF (env : ClassEnv) : Bool :=
  env.classes.all (fun p => fieldsNodup p.2)

mutual
  /-- No MISSING attribute anywhere (needed when loading with `allow_partial=False`). -/
  def NoMissing : Tree → Bool
    | .leaf .missing => false
    | .leaf _ => true
    | .list xs => NoMissingL xs
    | .tuple xs => NoMissingL xs
    | .dict kvs => NoMissingKV kvs
    | .obj _ attrs => NoMissingA attrs
  def NoMissingL : List Tree → Bool
    | [] => true
    | x :: xs => NoMissing x && NoMissingL xs
  def NoMissingKV : List (Key × Tree) → Bool
    | [] => true
    | (_, x) :: xs => NoMissing x && NoMissingKV xs
  def NoMissingA : List (Str × Tree) → Bool
    | [] => true
    | (_, x) :: xs => NoMissing x && NoMissingA xs
end

end Pg.C05

namespace Pg.C05

/-! ### `to_json` options: `hide_frozen` (default True) and `hide_default_values` (default False)
(dict.py:836-860; the options travel to every descendant through `**kwargs`) -/

structure JOpts where
  hideFrozen : Bool
  hideDefault : Bool
  deriving DecidableEq, Repr, Inhabited

def JOpts.default : JOpts := ⟨true, false⟩

def findField (k : Str) : List Field → Option Field
  | [] => none
  | f :: fs => if f.name = k then some f else findField k fs

/-- Is attribute `k = x` left out of the JSON? MISSING always; a frozen field under `hide_frozen`;
a value equal to the field's default under `hide_default_values`. -/
def hiddenAttr (o : JOpts) (fs : List Field) (k : Str) (x : Tree) : Bool :=
  isMissing x ||
    match findField k fs with
    | some f =>
      (o.hideFrozen && f.frozen) ||
        (o.hideDefault && match f.default with
          | some d => Tree.beq x d
          | none => false)
    | none => false

def ClassEnv.fieldsOf (env : ClassEnv) (c : Str) : List Field := (env.find c).getD []

mutual
  def toJsonO (o : JOpts) (env : ClassEnv) : Tree → JV
    | .leaf a => atomJ a
    | .list xs => .arr (toJsonOL o env xs)
    | .tuple xs => .arr (.str tupleMarker :: toJsonOL o env xs)
    | .dict kvs => .obj (toJsonOKV o env kvs)
    | .obj c attrs => .obj ((.s typeKey, .str c) :: toJsonOA o env (env.fieldsOf c) attrs)
  def toJsonOL (o : JOpts) (env : ClassEnv) : List Tree → List JV
    | [] => []
    | x :: xs => toJsonO o env x :: toJsonOL o env xs
  def toJsonOKV (o : JOpts) (env : ClassEnv) : List (Key × Tree) → List (Key × JV)
    | [] => []
    | (k, x) :: xs => (k, toJsonO o env x) :: toJsonOKV o env xs
  def toJsonOA (o : JOpts) (env : ClassEnv) (fs : List Field) : List (Str × Tree) → List (Key × JV)
    | [] => []
    | (k, x) :: xs =>
      if hiddenAttr o fs k x then toJsonOA o env fs xs
      else (.s k, toJsonO o env x) :: toJsonOA o env fs xs
end

end Pg.C05

namespace Pg.C05

/-! ### `auto_dict=True` (json_conversion.py:545-549): a dict whose `_type` names no loadable class
stays a dict, with `_type` renamed to `type_name` -/

def typeNameKey : Str := "type_name".toList

mutual
  def autoDict (env : ClassEnv) : JV → JV
    | .arr xs => .arr (autoDictL env xs)
    | .obj kvs =>
      match jlookup (.s typeKey) kvs with
      | some (.str c) =>
        if (env.find c).isSome then .obj (autoDictKV env kvs)
        else
          -- `v['type_name'] = type_name; v.pop('_type')`, then the children are visited
          .obj (dsetK (.s typeNameKey) (.str c) ((autoDictKV env kvs).filter (fun p => p.1 != .s typeKey)))
      | some _ => .obj kvs                       -- `_type` not a string: skipped with its children
      | none => .obj (autoDictKV env kvs)
    | j => j
  def autoDictL (env : ClassEnv) : List JV → List JV
    | [] => []
    | x :: xs => autoDict env x :: autoDictL env xs
  def autoDictKV (env : ClassEnv) : List (Key × JV) → List (Key × JV)
    | [] => []
    | (k, x) :: xs => (k, autoDict env x) :: autoDictKV env xs
end

/-- `pg.from_json(j, allow_partial=ap, auto_dict=True)`. -/
def fromJsonAuto (env : ClassEnv) (ap : Bool) (j : JV) : Except Err Tree :=
  fromJ env ap (autoDict env j)

end Pg.C05

namespace Pg.C05

/-! ### Histories around serialisation -/

/-- A history: serialise the current value with some options, or continue with the value a
mutation (at any depth) has produced. -/
inductive HistOp where
  | ser (o : JOpts)
  | put (t : Tree)

/-- SPEC of a history: every serialisation is `to_json` of the value *as it is at that moment*,
whatever was serialised, queried or memoised before. -/
def histRun (env : ClassEnv) : Tree → List HistOp → List (Tree × JV)
  | _, [] => []
  | t, .ser o :: ops => (t, toJsonO o env t) :: histRun env t ops
  | _, .put t' :: ops => histRun env t' ops

end Pg.C05
