/-
  C13 — model of hyper values: object templates, decode and encode.

  Mirrors (line anchors refer to /repo/pyglove/core):
    hyper/object_template.py   `_parse_generators` 149-174 (placeholder scan, `where`),
                               `dna_spec` 191-199, `_decode` 201-277, `encode` 279-386
    hyper/categorical.py       `Choices._decode` 140-213, `Choices.encode` 215-298,
                               `OneOf._decode/encode` 423-432
    hyper/numerical.py         `Float._decode`, `Float.encode`
    geno/base.py               `DNA._parse_value_and_children` 587-600 (normalisation of
                               value-less single-child nodes)
    geno/space.py 140-157, geno/categorical.py 293-351, geno/numerical.py 137-154 (`validate`)
    geno/categorical.py 365-404 (`space_size`), geno/space.py 164-205 (sweep order)

  The geno layer is *not* imported from the C11/C12 models: this file carries its own small
  `GSpec` / `DNA` types, sufficient for templates.

  A value is a template without active placeholders (pyglove: the decoded value is a clone of the
  template value in which the placeholders have been rebound), so `decode : Tmpl → DNA → Tmpl`.
  The `where` filter is the predicate parameter `W` on placeholder tags (the harness puts the tag
  into `hints` and uses `where=lambda x: x.hints in selected`).

  No Mathlib, no `Lean` import (the driver links small).
-/
namespace Pg.C13

inductive Err where
  | value      -- ValueError
  | other
  deriving DecidableEq, Repr

/-- A finite Python number as an exact dyadic rational `m / 2^e` (`float.as_integer_ratio`). -/
structure Num where
  m : Int
  e : Nat
  deriving DecidableEq, Repr

/-- `a <= b` on exact numbers (what CPython computes for finite floats / ints). -/
def Num.le (a b : Num) : Bool := decide (a.m * ((2 ^ b.e : Nat) : Int) ≤ b.m * ((2 ^ a.e : Nat) : Int))

inductive Atom where
  | none
  | int (i : Int)
  | str (s : String)
  | flt (x : Num)
  deriving DecidableEq, Repr

/-- Python `==` on the atoms of the model (`1 == 1.0`). -/
def Atom.pyEq : Atom → Atom → Bool
  | .none, .none => true
  | .str a, .str b => a == b
  | .int a, .int b => a == b
  | .flt a, .flt b => Num.le a b && Num.le b a
  | .int a, .flt b => Num.le ⟨a, 0⟩ b && Num.le b ⟨a, 0⟩
  | .flt a, .int b => Num.le a ⟨b, 0⟩ && Num.le ⟨b, 0⟩ a
  | _, _ => false

/-- Kind of a container node and what must agree for two containers to be merged structurally:
`pg.Dict` (keys, in order), `pg.List`, `pg.Object` subclass (class, field names). -/
inductive Label where
  | dict (keys : List String)
  | list
  | obj (cls : Nat) (keys : List String)
  deriving DecidableEq, Repr

/-- Templates = hyper values = values. `choice … one = true` is `pg.oneof` (`OneOf`, `k = 1`),
`one = false` is `pg.manyof(k, …)` (`ManyOf`). `tag` identifies the placeholder for `where`. -/
inductive Tmpl where
  | const (a : Atom)
  | node (l : Label) (kids : List Tmpl)
  | choice (tag : Nat) (one : Bool) (k : Nat) (cands : List Tmpl) (distinct sorted : Bool)
  | floatv (tag : Nat) (lo hi : Num)
  | custom (tag : Nat) (cid : Nat)     -- `CustomHyper` subclass / `pg.evolve` value number `cid`
  deriving Repr

inductive DVal where
  | idx (i : Nat)
  | flt (x : Num)
  | str (s : String)                   -- user-defined genome of a custom decision point
  deriving DecidableEq, Repr

/-- Raw DNA trees. Python's `DNA(value, children)` is `DNA.norm value children`. -/
inductive DNA where
  | mk (value : Option DVal) (children : List DNA)
  deriving Repr

def DNA.value : DNA → Option DVal | .mk v _ => v
def DNA.children : DNA → List DNA | .mk _ cs => cs

/-- `DNA.__init__` for a non-compositional value (geno/base.py:587-600): a single value-less
child is replaced by its children; then a value-less node with a single child *is* that child. -/
def DNA.splice : List DNA → List DNA
  | [.mk none gcs] => gcs
  | cs => cs

def DNA.norm (v : Option DVal) (cs : List DNA) : DNA :=
  match v, DNA.splice cs with
  | none, [.mk v' cs'] => .mk v' cs'
  | v, cs1 => .mk v cs1

inductive GSpec where
  | space (elems : List GSpec)
  | choices (k : Nat) (cands : List GSpec) (distinct sorted : Bool)
  | float (lo hi : Num)
  | custom (cid : Nat)                 -- `geno.CustomDecisionPoint`
  deriving Repr

/-- Everything a template is interpreted under: the `where` filter (a predicate on placeholder
tags) and the *user hooks* of custom hyper primitives, which are parameters of the model:
`dec cid` is `custom_decode` of hook class `cid` (it receives the whole DNA; `none` = it raises),
`enc cid` is `custom_encode`, `dom cid` the genomes the hooks call their own (what `first_dna` /
`next_dna` / `random_dna` / mutation produce). Their contract is an explicit hypothesis of the
theorems (`HooksLawful` in PgModel/HyperSpec.lean); nothing is assumed about them here. -/
structure Cfg where
  sel : Nat → Bool
  dec : Nat → DNA → Option Tmpl
  enc : Nat → Tmpl → Option DNA
  dom : Nat → DNA → Bool

instance : CoeFun Cfg (fun _ => Nat → Bool) := ⟨Cfg.sel⟩

def GSpec.isConstSpace : GSpec → Bool
  | .space [] => true
  | _ => false

/-- How a template / space with `n` decision points reads its DNA (object_template.py:205-231,
geno/space.py:142-156): `n = 0` demands the empty DNA, `n = 1` hands the DNA itself to the only
decision point, otherwise child `i` goes to decision point `i`. -/
def splitDna (n : Nat) (d : DNA) : Option (List DNA) :=
  if n = 0 then
    match d with
    | .mk none [] => some []
    | _ => none
  else if n = 1 then some [d]
  else if d.children.length = n then some d.children else none

/-- The chosen indices of a multi-choice node, if all sub-DNA values are ints. -/
def idxOf : DNA → Option Nat
  | .mk (some (.idx i)) _ => some i
  | _ => none

def allIdx : List DNA → Option (List Nat)
  | [] => some []
  | d :: ds => match idxOf d, allIdx ds with
    | some i, some is => some (i :: is)
    | _, _ => none

def nodupNat : List Nat → Bool
  | [] => true
  | x :: xs => !xs.contains x && nodupNat xs

def sortedNat : List Nat → Bool
  | [] => true
  | [_] => true
  | x :: y :: rest => decide (x ≤ y) && sortedNat (y :: rest)

/-- The `distinct` / `sorted` constraint checks of `Choices._decode` / `Choices.validate`. -/
def constraintOk (distinct sorted : Bool) (is : List Nat) : Bool :=
  (!distinct || nodupNat is) && (!sorted || sortedNat is)

/-! ### `validate` of the geno layer -/

/- `validate` demands that a node whose *children* carry the decisions (a space of >= 2 decision
points, a multi-choice) has no value of its own (geno/space.py, geno/categorical.py since the fix
of finding F85; before it such a stray value was ignored). -/

/-- One (sub-)choice node `(i, children)` against the candidate validators: the index is an int in
range, and the re-rooted children `DNA(None, children)` are valid for candidate `i`. For a single
choice `validate` also checks that children are present iff the candidate has decision points. -/
def validSub (cv : List (Bool × (DNA → Bool))) (checkConst : Bool) : DNA → Bool
  | .mk (some (.idx i)) cs =>
    match cv[i]? with
    | none => false
    | some (isConst, f) =>
      (!checkConst || (if isConst then cs.isEmpty else !cs.isEmpty)) && f (DNA.norm none cs)
  | _ => false

section
/- `dom`: which genomes of custom decision point `cid` are admitted. `fun _ _ => true` is exactly
`DNASpec.validate` (a custom decision point accepts every str-valued DNA, geno/custom.py:120-125);
`W.dom` restricts custom genomes to the range of the user hooks. -/
variable (dom : Nat → DNA → Bool)

mutual
  /-- `spec.validate(dna)` does not raise. -/
  def validG : GSpec → DNA → Bool
    | .space elems, d =>
      match splitDna elems.length d with
      | none => false
      | some ds => (decide (elems.length < 2) || d.value.isNone) && validL elems ds
    | .choices k cands distinct sorted, d =>
      if k = 1 then validSub (candV cands) true d
      else
        d.value.isNone &&
        decide (d.children.length = k) &&
        (match allIdx d.children with
         | none => false
         | some is => constraintOk distinct sorted is) &&
        d.children.all (validSub (candV cands) false)
    | .float lo hi, d =>
      match d with
      | .mk (some (.flt x)) [] => Num.le lo x && Num.le x hi
      | _ => false
    | .custom cid, d =>
      match d.value with
      | some (.str _) => dom cid d
      | _ => false
  def validL : List GSpec → List DNA → Bool
    | [], [] => true
    | g :: gs, d :: ds => validG g d && validL gs ds
    | _, _ => false
  def candV : List GSpec → List (Bool × (DNA → Bool))
    | [] => []
    | c :: cs => (c.isConstSpace, fun d => validG c d) :: candV cs
end

end

/-! ### Enumeration and size of finite spaces (what `pg.iter` sweeps) -/

/-- May index `i` follow the already chosen `prior` (geno/categorical.py:432-441)? -/
def allowedIdx (distinct sorted : Bool) (prior : List Nat) (i : Nat) : Bool :=
  (!distinct || !prior.contains i) &&
  (!sorted || match prior.getLast? with
    | none => true
    | some j => decide (j ≤ i))

/-- All admissible sequences of `r` further sub-choices after `prior`, in sweep order; `subs[i]`
are the DNAs of candidate `i`'s sub-space. -/
def enumMulti (subs : List (List DNA)) (distinct sorted : Bool) : Nat → List Nat → List (List DNA)
  | 0, _ => [[]]
  | r + 1, prior =>
    (List.range subs.length).flatMap fun i =>
      if allowedIdx distinct sorted prior i then
        (subs[i]?.getD []).flatMap fun sub =>
          (enumMulti subs distinct sorted r (prior ++ [i])).map fun rest =>
            DNA.norm (some (.idx i)) [sub] :: rest
      else []

/-- Number of those sequences, from the sub-space sizes. -/
def msize (s : List Nat) (distinct sorted : Bool) : Nat → List Nat → Nat
  | 0, _ => 1
  | r + 1, prior =>
    ((List.range s.length).map fun i =>
      if allowedIdx distinct sorted prior i then
        (s[i]?.getD 0) * msize s distinct sorted r (prior ++ [i])
      else 0).sum

def cartesian : List (List DNA) → List (List DNA)
  | [] => [[]]
  | xs :: rest => xs.flatMap fun x => (cartesian rest).map fun r => x :: r

mutual
  /-- All DNAs of a finite space in the order `geno.Sweeping` proposes them (a space containing
  a float anywhere is infinite: `sizeG = none`, nothing is enumerated for the float). -/
  def enumG : GSpec → List DNA
    | .space elems => (cartesian (enumL elems)).map fun ds => DNA.norm none ds
    | .choices k cands distinct sorted =>
      (enumMulti (enumL cands) distinct sorted k []).map fun ds => DNA.norm none ds
    | .float _ _ => []
    | .custom _ => []
  def enumL : List GSpec → List (List DNA)
    | [] => []
    | g :: gs => enumG g :: enumL gs
end

def optAll : List (Option Nat) → Option (List Nat)
  | [] => some []
  | none :: _ => none
  | some x :: rest => match optAll rest with
    | none => none
    | some xs => some (x :: xs)

mutual
  /-- `spec.space_size` (`none` = infinite, the code's `-1`). -/
  def sizeG : GSpec → Option Nat
    | .space elems => (optAll (sizeL elems)).map fun ss => ss.foldr (· * ·) 1
    | .choices k cands distinct sorted => (optAll (sizeL cands)).map fun ss => msize ss distinct sorted k []
    | .float _ _ => none
    | .custom _ => none
  def sizeL : List GSpec → List (Option Nat)
    | [] => []
    | g :: gs => sizeG g :: sizeL gs
end

/-! ### Templates -/

section
variable (W : Cfg)

mutual
  /-- `_parse_generators` + `dna_spec`: the specs of the *active* top-level placeholders in
  traversal order. A filtered-out choice is a `symbolic.Object` and is descended into
  (object_template.py:164-170). -/
  def specT : Tmpl → List GSpec
    | .const _ => []
    | .node _ kids => specL kids
    | .choice tag _ k cands distinct sorted =>
      if W tag then [.choices k (candSpecs cands) distinct sorted] else specL cands
    | .floatv tag lo hi => if W tag then [.float lo hi] else []
    | .custom tag cid => if W tag then [.custom cid] else []
  def specL : List Tmpl → List GSpec
    | [] => []
    | t :: ts => specT t ++ specL ts
  def candSpecs : List Tmpl → List GSpec
    | [] => []
    | c :: cs => .space (specT c) :: candSpecs cs
end

/-- `ObjectTemplate.dna_spec()`. -/
def dnaSpec (t : Tmpl) : GSpec := .space (specT W t)

/-- One (sub-)choice node `(i, children)` decoded by candidate template `i` from the re-rooted
children `DNA(None, children)` (categorical.py:162-163, 211-212). -/
def decodeSub (fns : List (DNA → Except Err Tmpl)) : DNA → Except Err Tmpl
  | .mk (some (.idx i)) cs =>
    match fns[i]? with
    | none => .error .value
    | some f => f (DNA.norm none cs)
  | _ => .error .value

def decodeSubs (fns : List (DNA → Except Err Tmpl)) : List DNA → Except Err (List Tmpl)
  | [] => .ok []
  | s :: ss =>
    match decodeSub fns s with
    | .error e => .error e
    | .ok v =>
      match decodeSubs fns ss with
      | .error e => .error e
      | .ok vs => .ok (v :: vs)

/-- One active choice decoded from its DNA, given the decoders of its candidate templates
(`Choices._decode`, categorical.py:140-213; `OneOf._decode` takes element 0). -/
def decodeChoice (one : Bool) (k : Nat) (fns : List (DNA → Except Err Tmpl)) (distinct sorted : Bool)
    (d : DNA) : Except Err Tmpl :=
  if k = 1 then
    match decodeSub fns d with
    | .error e => .error e
    | .ok v => .ok (if one then v else .node .list [v])
  else
    if d.children.length ≠ k then .error .value else
    match allIdx d.children with
    | none => .error .value
    | some is =>
      if !constraintOk distinct sorted is then .error .value else
      match decodeSubs fns d.children with
      | .error e => .error e
      | .ok vs => .ok (if one then (vs.head?.getD (.const .none)) else .node .list vs)

mutual
  /-- Decoding traversal: consumes one DNA per active placeholder, left to right
  (object_template.py:213-244: decode every placeholder, then rebind into a deep clone). -/
  def goT : Tmpl → List DNA → Except Err (Tmpl × List DNA)
    | .const a, ds => .ok (.const a, ds)
    | .node l kids, ds =>
      match goL kids ds with
      | .error e => .error e
      | .ok (vs, rest) => .ok (.node l vs, rest)
    | .choice tag one k cands distinct sorted, ds =>
      if W tag then
        match ds with
        | [] => .error .other
        | d :: rest =>
          match decodeChoice one k (candFns cands) distinct sorted d with
          | .error e => .error e
          | .ok v => .ok (v, rest)
      else
        match goL cands ds with
        | .error e => .error e
        | .ok (vs, rest) => .ok (.choice tag one k vs distinct sorted, rest)
    | .floatv tag lo hi, ds =>
      if W tag then
        match ds with
        | [] => .error .other
        | d :: rest =>
          match d.value with
          | some (.flt x) => if Num.le lo x && Num.le x hi then .ok (.const (.flt x), rest) else .error .value
          | _ => .error .value
      else .ok (.floatv tag lo hi, ds)
    | .custom tag cid, ds =>
      -- `CustomHyper._decode` (custom.py): str-valued DNA, then the user's `custom_decode(dna)`
      if W tag then
        match ds with
        | [] => .error .other
        | d :: rest =>
          match d.value with
          | some (.str _) =>
            (match W.dec cid d with
             | some v => .ok (v, rest)
             | none => .error .value)
          | _ => .error .value
      else .ok (.custom tag cid, ds)
  def goL : List Tmpl → List DNA → Except Err (List Tmpl × List DNA)
    | [], ds => .ok ([], ds)
    | t :: ts, ds =>
      match goT t ds with
      | .error e => .error e
      | .ok (v, rest) =>
        match goL ts rest with
        | .error e => .error e
        | .ok (vs, rest') => .ok (v :: vs, rest')
  /-- `ObjectTemplate(c, where=…).decode` for every candidate `c`. -/
  def candFns : List Tmpl → List (DNA → Except Err Tmpl)
    | [] => []
    | c :: cs =>
      (fun d => match splitDna ((specT W c).length) d with
        | none => .error .value
        | some ds => match goT c ds with
          | .error e => .error e
          | .ok (v, _) => .ok v) :: candFns cs
end

/-- `ObjectTemplate._decode` (object_template.py:201-250). -/
def decode (t : Tmpl) (d : DNA) : Except Err Tmpl :=
  match splitDna ((specT W t).length) d with
  | none => .error .value
  | some ds =>
    match goT W t ds with
    | .error e => .error e
    | .ok (v, _) => .ok v

/-- First candidate whose template can encode `v` (`try_encode` loop, categorical.py:284-288). -/
def firstMatch (fns : List (Tmpl → Except Err DNA)) (v : Tmpl) (i : Nat) : Option (Nat × DNA) :=
  match fns with
  | [] => none
  | f :: rest =>
    match f v with
    | .ok d => some (i, d)
    | .error _ => firstMatch rest v (i + 1)

def encodeItems (fns : List (Tmpl → Except Err DNA)) : List Tmpl → Except Err (List DNA)
  | [] => .ok []
  | v :: vs =>
    match firstMatch fns v 0 with
    | none => .error .value
    | some (i, child) =>
      match encodeItems fns vs with
      | .error e => .error e
      | .ok ds => .ok (DNA.norm (some (.idx i)) [child] :: ds)

/-- `Choices.encode` / `OneOf.encode` (categorical.py:215-298, 427-432). -/
def encodeChoice (one : Bool) (k : Nat) (fns : List (Tmpl → Except Err DNA)) (v : Tmpl) : Except Err DNA :=
  let items : Option (List Tmpl) :=
    if one then some [v] else
      match v with
      | .node .list vs => some vs
      | _ => none
  match items with
  | none => .error .value
  | some vs =>
    if vs.length ≠ k then .error .value else
    match encodeItems fns vs with
    | .error e => .error e
    | .ok ds => .ok (DNA.norm none ds)

mutual
  /-- `_encode` under `merge_tree` (object_template.py:308-385): the list of child DNAs appended
  while template and input are merged structurally. -/
  def egoT : Tmpl → Tmpl → Except Err (List DNA)
    | .const a, v =>
      match v with
      | .const b => if Atom.pyEq a b then .ok [] else .error .value
      | _ => .error .value
    | .node l kids, v =>
      match v with
      | .node l' vs => if l = l' then egoL kids vs else .error .value
      | _ => .error .value
    | .choice tag one k cands distinct sorted, v =>
      if W tag then
        match encodeChoice one k (encFns cands) v with
        | .error e => .error e
        | .ok d => .ok [d]
      else
        match v with
        | .choice tag' one' k' vs distinct' sorted' =>
          if tag = tag' ∧ one = one' ∧ k = k' ∧ distinct = distinct' ∧ sorted = sorted'
          then egoL cands vs else .error .value
        | _ => .error .value
    | .floatv tag lo hi, v =>
      if W tag then
        match v with
        | .const (.flt x) =>
          if Num.le lo x && Num.le x hi then .ok [.mk (some (.flt x)) []] else .error .value
        | _ => .error .value
      else
        match v with
        | .floatv tag' lo' hi' => if tag = tag' ∧ lo = lo' ∧ hi = hi' then .ok [] else .error .value
        | _ => .error .value
    | .custom tag cid, v =>
      -- `CustomHyper.encode` = the user's `custom_encode(value)`
      if W tag then
        match W.enc cid v with
        | some d => .ok [d]
        | none => .error .value
      else
        match v with
        | .custom tag' cid' => if tag = tag' ∧ cid = cid' then .ok [] else .error .value
        | _ => .error .value
  def egoL : List Tmpl → List Tmpl → Except Err (List DNA)
    | [], vs => match vs with
      | [] => .ok []
      | _ :: _ => .error .value
    | t :: ts, vs => match vs with
      | [] => .error .value
      | v :: vs' =>
        match egoT t v with
        | .error e => .error e
        | .ok a =>
          match egoL ts vs' with
          | .error e => .error e
          | .ok b => .ok (a ++ b)
  /-- `ObjectTemplate(c, where=…).encode` for every candidate `c`. -/
  def encFns : List Tmpl → List (Tmpl → Except Err DNA)
    | [] => []
    | c :: cs =>
      (fun v => match egoT c v with
        | .error e => .error e
        | .ok ds => .ok (DNA.norm none ds)) :: encFns cs
end

/-- `ObjectTemplate.encode` (object_template.py:279-386). -/
def encode (t : Tmpl) (v : Tmpl) : Except Err DNA :=
  match egoT W t v with
  | .error e => .error e
  | .ok ds => .ok (DNA.norm none ds)

/-- `list(pg.iter(value, where=…))` with the default sweeping algorithm: every DNA of the space,
decoded. -/
def iter (t : Tmpl) : List (Except Err Tmpl) := (enumG (dnaSpec W t)).map (decode W t)

end

end Pg.C13
