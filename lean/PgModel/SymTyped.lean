/-
  C03 — typed `pg.List`, `pg.Dict` and `pg.Object` (pyglove/core/symbolic/list.py, dict.py,
  object.py) over the value-spec model: every write primitive formalizes the value with the
  element / field spec (`_formalized_value`: list.py 436-451, dict.py 587-611) before it is stored.

  The content of a typed container is a `Val` (nested typed containers are nested `Val`s whose
  own spec is the element / field spec: `apply` recurses into them).  The model mirrors /repo with
  fixes/C03-F08.patch and fixes/C03-F73.patch applied:
    * the size bounds are checked inside the list write primitive (growth) and in `__delitem__`
      (shrinking), so every write path consults them;
    * a rejected `Dict.clear()` restores content and value spec.

  Modelled write paths.  List: construction, append, insert, `l[i] = v`, `l[a:b:c] = vs`, `del l[i]`,
  `del l[a:b:c]`, pop, remove, extend / `+=`, `*=`, clear, sort, reverse, rebind (single / batched,
  with `Insertion` and `MISSING_VALUE`, past-the-end indices).  Dict: construction, `d[k] = v`,
  `del d[k]` / pop, setdefault, update / `|=` / rebind (batched, `MISSING_VALUE` deletes or
  restores the default), clear, popitem.  Object: `__init__`, `__setattr__`, rebind (the attribute
  container is a typed Dict with const keys).  `allow_partial` (constructor flag or scope) is the
  parameter `p` of the Dict / Object operations; typed lists are modelled with `allow_partial` off.
  Not modelled: type-check off, sealed / accessor_writable (C08), notification (C09), nested
  *paths* in rebind (a nested container is rewritten through its own typed handle), symbolic
  re-parenting (C01).
-/
import PgModel.Typing
namespace Pg.C03
open Pg.Typing

/-- Error classes of a mutator (`index`: IndexError, not a schema rejection). -/
inductive E where
  | type | value | key | index
  | perm          -- WritePermissionError (a sealed container: the content of a frozen field)
  deriving DecidableEq, Repr

def ofErr : Err → E
  | .type => .type
  | .value => .value
  | .key => .key

/-! ## Typed list -/

/-- A `pg.List` bound to `pg.typing.List(elem, min_size=mn, max_size=mx)`. -/
structure TList where
  elem : Spec
  mn : Nat
  mx : Option Nat
  items : List Val

/-- `_formalized_value`: `element.apply(value, allow_partial=False)`. -/
def formalize (env : Env) (l : TList) (v : Val) : Except E Val :=
  match apply env l.elem false v with
  | .ok v' => .ok v'
  | .error e => .error (ofErr e)

def atMax (l : TList) (extra : Nat) : Bool :=
  match l.mx with
  | some m => decide (m < l.items.length + extra)
  | none => false

/-- Python index normalisation for an int index in `[-len, len)`. -/
def normIndex (len : Nat) (i : Int) : Option Nat :=
  if i < -(len : Int) || i ≥ (len : Int) then none
  else some (if i < 0 then (i + len).toNat else i.toNat)

/-- `list.insert` position for an arbitrary int index. -/
def insertPos (len : Nat) (i : Int) : Nat :=
  if i < 0 then (if i + len < 0 then 0 else (i + len).toNat)
  else if i ≥ len then len else i.toNat

def insertAt (xs : List Val) (k : Nat) (v : Val) : List Val := xs.take k ++ [v] ++ xs.drop k

/-- `_set_item_without_permission_check(key, value)` (397-434, with the F08 repair): past-the-end
keys append (`MISSING_VALUE` is a no-op there), `Insertion` inserts, otherwise the item is
replaced; growth is refused at `max_size`; the stored value is the formalized one. -/
def listPrim (env : Env) (l : TList) (idx : Int) (ins : Bool) (v : Val) : TList × Option E :=
  let len := l.items.length
  if idx ≥ (len : Int) then
    if v.isMissing then (l, none)
    else if atMax l 1 then (l, some .value)
    else match formalize env l v with
      | .error e => (l, some e)
      | .ok w => ({ l with items := l.items ++ [w] }, none)
  else if ins then
    if atMax l 1 then (l, some .value)
    else match formalize env l v with
      | .error e => (l, some e)
      | .ok w => ({ l with items := insertAt l.items (insertPos len idx) w }, none)
  else
    match normIndex len idx with
    | none => (l, some .index)
    | some k => match formalize env l v with
      | .error e => (l, some e)
      | .ok w => ({ l with items := l.items.set k w }, none)

/-- Consecutive primitive writes at `pos, pos + step, …`; the first failure stops the batch and
keeps what was written before it. -/
def primLoop (env : Env) (l : TList) (pos step : Int) : List (Bool × Val) → TList × Option E
  | [] => (l, none)
  | (ins, v) :: rest =>
    match listPrim env l pos ins v with
    | (l', none) => primLoop env l' (pos + step) step rest
    | (l', some e) => (l', some e)

/-- Primitive writes at explicit positions (rebind). -/
def primAt (env : Env) (l : TList) : List (Nat × Bool × Val) → TList × Option E
  | [] => (l, none)
  | (k, ins, v) :: rest =>
    match listPrim env l k ins v with
    | (l', none) => primAt env l' rest
    | (l', some e) => (l', some e)

/-- `slice.indices(len)` (CPython `PySlice_AdjustIndices`) for explicit bounds. -/
def sliceAdjust (len : Nat) (start stop step : Int) : Int × Int :=
  let n : Int := len
  let adj (x : Int) : Int :=
    if x < 0 then (if x + n < 0 then (if step < 0 then -1 else 0) else x + n)
    else if x ≥ n then (if step < 0 then n - 1 else n) else x
  (adj start, adj stop)

/-- `len(range(start, stop, step))`. -/
def rangeLen (start stop step : Int) : Nat :=
  if step > 0 then (if start < stop then ((stop - start - 1) / step + 1).toNat else 0)
  else if step < 0 then (if stop < start then ((start - stop - 1) / (-step) + 1).toNat else 0)
  else 0

/-- The positions `range(start, stop, step)` as naturals (after adjustment they are in range). -/
def rangeIdx (start step : Int) : Nat → List Nat
  | 0 => []
  | n + 1 => start.toNat :: rangeIdx (start + step) step n

def eraseIdxs (xs : List Val) (ks : List Nat) : List Val :=
  (xs.zipIdx.filter (fun p => !ks.contains p.2)).map (·.1)

/-- First position whose item `== value` (`remove`, 680-690). -/
def findEq (v : Val) : List Val → Option Nat
  | [] => none
  | x :: xs => if Val.pyEq x v then some 0 else (findEq v xs).map (· + 1)

/-- `extend` main loop (716-720): element by element; a failure keeps the applied prefix. -/
def extendLoop (env : Env) (l : TList) : List Val → TList × Option E
  | [] => (l, none)
  | v :: vs =>
    match listPrim env l l.items.length false v with
    | (l', none) => extendLoop env l' vs
    | (l', some e) => (l', some e)

/-- Python `<` on the atoms a sortable typed list holds (numbers by value, strings by code point). -/
def valLt (a b : Val) : Option Bool :=
  match a.num?, b.num? with
  | some x, some y => some (Num.lt x y)
  | _, _ => match a, b with
    | .str s, .str t => some (decide (s < t))
    | _, _ => none

def insertSorted (x : Val) : List Val → List Val
  | [] => [x]
  | y :: ys => if valLt y x == some true then y :: insertSorted x ys else x :: y :: ys

/-- Stable sort (`list.sort`) by `valLt`. -/
def sortVals (xs : List Val) : List Val := xs.reverse.foldl (fun acc x => insertSorted x acc) []

def sortable : List Val → Bool
  | [] => true
  | [_] => true
  | x :: y :: rest => (valLt x y).isSome && sortable (y :: rest)

inductive ListOp where
  | append (v : Val)
  | insert (i : Int) (v : Val)
  | setitem (i : Int) (v : Val)
  | setslice (start stop step : Int) (vs : List Val)
  | delitem (i : Int)
  | delslice (start stop step : Int)
  | pop (i : Int)
  | remove (v : Val)
  | extend (vs : List Val)          -- also `+=`
  | imul (n : Int)
  | clear
  | sort
  | reverse
  /-- `rebind({k: v | Insertion(v) | MISSING_VALUE, …})` (keys distinct). -/
  | rebind (kvs : List (Nat × Bool × Val))

def belowMin (l : TList) (removed : Nat) : Bool := decide (l.items.length < l.mn + removed)

def sortDesc (kvs : List (Nat × Bool × Val)) : List (Nat × Bool × Val) :=
  kvs.foldl (fun acc x =>
    let rec ins : List (Nat × Bool × Val) → List (Nat × Bool × Val)
      | [] => [x]
      | y :: ys => if y.1 < x.1 then x :: y :: ys else y :: ins ys
    ins acc) []

/-- One mutating call on a typed list: the list afterwards and the exception class, if any. -/
def listStep (env : Env) (l : TList) : ListOp → TList × Option E
  | .append v =>
    if atMax l 1 then (l, some .value)                                    -- 650
    else listPrim env l l.items.length false v
  | .insert i v =>
    if atMax l 1 then (l, some .value)                                    -- 662
    else listPrim env l i true v
  | .setitem i v =>
    match normIndex l.items.length i with
    | none => (l, some .index)                                            -- 566
    | some _ => listPrim env l i false v
  | .setslice start stop step vs =>                                       -- 553-592
    let (s, e) := sliceAdjust l.items.length start stop step
    let size := rangeLen s e step
    -- an extended slice of the wrong size is refused before any value is formalized (556-562)
    if step != 1 && size != vs.length then (l, some .value)
    else
    -- every replacement is formalized before anything is stored
    match vs.mapM (formalize env l) with
    | .error e => (l, some e)
    | .ok reps =>
      if step == 1 then
        primLoop env l s 1
          ((reps.take size).map (fun r => (false, r)) ++ (reps.drop size).map (fun r => (true, r))
            ++ List.replicate (size - reps.length) (false, Val.missing))
      else if size != reps.length then (l, some .value)
      else if step < 0 then
        primLoop env l (s + ((size : Int) - 1) * step) (-step) (reps.reverse.map (fun r => (false, r)))
      else primLoop env l s step (reps.map (fun r => (false, r)))
  | .delitem i =>
    match normIndex l.items.length i with
    | none => (l, some .index)                                            -- 594
    | some k =>
      if belowMin l 1 then (l, some .value)                               -- F08 repair
      else ({ l with items := l.items.eraseIdx k }, none)
  | .delslice start stop step =>
    let (s, e) := sliceAdjust l.items.length start stop step
    let ks := rangeIdx s step (rangeLen s e step)
    if belowMin l ks.length then (l, some .value)                         -- F08 repair
    else ({ l with items := eraseIdxs l.items ks }, none)
  | .pop i =>
    match normIndex l.items.length i with
    | none => (l, some .index)                                            -- 672
    | some k =>
      if belowMin l 1 then (l, some .value)
      else ({ l with items := l.items.eraseIdx k }, none)
  | .remove v =>
    match findEq v l.items with
    | none => (l, some .value)                                            -- 690
    | some k =>
      if belowMin l 1 then (l, some .value)                               -- 684
      else ({ l with items := l.items.eraseIdx k }, none)
  | .extend vs =>
    if atMax l vs.length then (l, some .value)                            -- 711
    else extendLoop env l vs
  | .imul n =>
    if n ≤ 0 then
      if l.mn > 0 then (l, some .value) else ({ l with items := [] }, none)
    else
      let vs := (List.replicate (n.toNat - 1) l.items).flatten
      if atMax l vs.length then (l, some .value) else extendLoop env l vs
  | .clear =>
    if l.mn > 0 then (l, some .value)                                     -- 729
    else ({ l with items := [] }, none)
  | .sort => if sortable (sortVals l.items) && sortable l.items then ({ l with items := sortVals l.items }, none) else (l, some .type)
  | .reverse => ({ l with items := l.items.reverse }, none)
  | .rebind kvs => primAt env l (sortDesc kvs)                            -- 347-364: largest key first

/-- `pg.List(items, value_spec=List(elem, mn, mx))`: `use_value_spec` applies the list spec. -/
def construct (env : Env) (elem : Spec) (mn : Nat) (mx : Option Nat) (items : List Val) : Except E TList :=
  match apply env (.list elem mn mx ⟨false, .missing, false⟩) false (.list items) with
  | .ok (.list ys) => .ok ⟨elem, mn, mx, ys⟩
  | .ok _ => .error .type
  | .error e => .error (ofErr e)

/-- The schema invariant of a typed list: every item is accepted by the element spec and mapped
to itself, and the length is within the declared bounds. -/
def Conforms (env : Env) (l : TList) : Prop :=
  (∀ x ∈ l.items, apply env l.elem false x = .ok x) ∧ sizeOk l.items.length l.mn l.mx = true

mutual
  /-- Structural equality of values, types included at every depth (for the executable
  conformance test of the drivers: "maps to itself"). -/
  def sameB : Val → Val → Bool
    | .missing, .missing => true
    | .none, .none => true
    | .bool a, .bool b => a == b
    | .int a, .int b => a == b
    | .float a, .float b => a.m == b.m && a.e == b.e
    | .str a, .str b => a == b
    | .list a, .list b => sameL a b
    | .tuple a, .tuple b => sameL a b
    | .dict a, .dict b => sameK a b
    | .obj c u p, .obj c' u' p' => c == c' && u == u' && p == p'
    | _, _ => false
  def sameL : List Val → List Val → Bool
    | [], [] => true
    | x :: xs, y :: ys => sameB x y && sameL xs ys
    | _, _ => false
  def sameK : List (String × Val) → List (String × Val) → Bool
    | [], [] => true
    | (k, x) :: xs, (l, y) :: ys => k == l && sameB x y && sameK xs ys
    | _, _ => false
end

def conformsB (env : Env) (l : TList) : Bool :=
  l.items.all (fun x => match apply env l.elem false x with
    | .ok y => sameB x y
    | .error _ => false) && sizeOk l.items.length l.mn l.mx

/-! ## Typed dict / object -/

/-- A `pg.Dict` bound to `pg.typing.Dict(fields)`, or the attribute container of a `pg.Object`
whose class schema is `fields`. -/
structure TDict where
  fields : List Field
  kvs : List (String × Val)

/-- `Schema.get_field(key)` (class_schema.py 1074-1093): the const key first, else the first
matching non-const key spec. -/
def getField (env : Env) : List Field → String → Option Field
  | fields, k =>
    match fields.find? (fun f => f.key == KeySpec.const k) with
    | some f => some f
    | none => fields.find? (fun f => !f.key.isConst && f.key.matches env k)

def eraseKey (kvs : List (String × Val)) (k : String) : List (String × Val) :=
  kvs.filter (fun kv => kv.1 != k)

/-- A value handed to a write: a plain Python value, or an already typed symbolic container
(`pg.List` / `pg.Dict` bound to the value spec `src`, created with `allow_partial = sp`). -/
inductive Arg where
  | plain (v : Val)
  | typed (src : Spec) (sp : Bool) (v : Val)

def Arg.val : Arg → Val
  | .plain v => v
  | .typed _ _ v => v

/-- `field.apply(value)` for a write argument.  A typed container takes the `CustomTyping` route
(value_specs.py 280-287; `custom_apply`, list.py / dict.py): the destination must declare itself
compatible with the bound spec (else ValueError); if the partial modes agree the value is
*trusted* and stored without validation, otherwise it is validated by the standard apply
(with the F75 repair: a partial container is refused by a destination that requires a complete
value).  `partialB` is `value.is_partial`. -/
def unionTyped (env : Env) (p : Bool) (src : Spec) (v : Val) : List Spec → Option (R Val)
  | [] => none
  | c :: cs =>
    match vt c with
    | some ts =>
      if instOf env v ts then
        -- (a frozen candidate does not look at the value's spec: the standard route below)
        if c.flags.frozen then none
        else some (if !isCompatible env c src then .error .value else .ok v)
      else unionTyped env p src v cs
    | none => unionTyped env p src v cs

def applyArg (env : Env) (dest : Spec) (p : Bool) (partialB : Val → Bool) : Arg → R Val
  | .plain v => apply env dest p v
  | .typed src sp v =>
    if dest.flags.frozen then apply env dest p v
    else if !isCompatible env dest src then .error .value
    else if sp == p then .ok v
    else if !p && partialB v then .error .value
    else
      -- the container has adopted the destination's partial mode; a non-union destination now
      -- validates it in full, but a Union hands it to the candidate of its type, whose own
      -- `custom_apply` finds the modes equal and trusts it again (value_specs.py 2755-2762)
      match dest with
      | .union cands _ =>
        match unionTyped env p src v cands with
        | some r => r
        | none => apply env dest p v
      | _ => apply env dest p v

/-- `MaybePartial.is_partial` of a container value: some member is `MISSING_VALUE` (deep). -/
partial def hasMissing : Val → Bool
  | .missing => true
  | .list xs => xs.any hasMissing
  | .tuple xs => xs.any hasMissing
  | .dict kvs => kvs.any (fun kv => hasMissing kv.2)
  | _ => false

/-- `_set_item_without_permission_check(key, value)` of a typed Dict (dict.py 535-585):
undeclared keys are refused; `MISSING_VALUE` deletes a dynamic key and restores the default of a
const key; everything stored went through `field.apply`. -/
def dictPrim (env : Env) (p : Bool) (pb : Val → Bool) (d : TDict) (k : String) (a : Arg) : TDict × Option E :=
  match getField env d.fields k with
  | none => (d, some .key)
  | some (.mk ks spec) =>
    if a.val.isMissing && !ks.isConst then ({ d with kvs := eraseKey d.kvs k }, none)
    else
      let a0 := if a.val.isMissing then Arg.plain spec.flags.default else a
      match applyArg env spec p pb a0 with
      | .error e => (d, some (ofErr e))
      | .ok w => ({ d with kvs := setKey d.kvs k w }, none)

/-- Batched writes (`rebind` / `update`), in the given order; a failure keeps the applied prefix. -/
def dictBatch (env : Env) (p : Bool) (pb : Val → Bool) (d : TDict) : List (String × Arg) → TDict × Option E
  | [] => (d, none)
  | (k, v) :: rest =>
    match dictPrim env p pb d k v with
    | (d', none) => dictBatch env p pb d' rest
    | (d', some e) => (d', some e)

inductive DictOp where
  | setitem (k : String) (v : Arg)          -- also `__setattr__`
  | delitem (k : String)                    -- also `pop(k)`
  | setdefault (k : String) (v : Arg)
  | update (kvs : List (String × Arg))      -- also `|=` and `rebind`
  | clear
  | popitem

def dictStep (env : Env) (p : Bool) (pb : Val → Bool) (d : TDict) : DictOp → TDict × Option E
  | .setitem k v => dictPrim env p pb d k v
  | .delitem k =>
    match lookup d.kvs k with
    | none => (d, some .key)                                              -- 723
    | some _ => dictPrim env p pb d k (.plain .missing)
  | .setdefault k v =>
    match lookup d.kvs k with
    | some x => if x.isMissing then dictPrim env p pb d k v else (d, none)   -- 798-806
    | none => dictPrim env p pb d k v
  | .update kvs => dictBatch env p pb d kvs
  | .clear =>                                                             -- 787-796 with the F73 repair
    match schemaApply env d.fields p [] with
    | .ok kvs => ({ d with kvs := kvs }, none)
    | .error e => (d, some (ofErr e))
  | .popitem => (d, some .value)                                          -- 780-782

/-! ### Nested key paths (`rebind({'z.y': v, 'w[0]': v, …})`)

`_set_item_of_current_tree` (base.py 1201-1224) resolves the parent of the path inside the tree
and calls THAT node's write primitive: the write is validated by the typed descendant's own spec
(the field / element spec it was bound to when it was stored), and no ancestor is re-validated.
Modelled for descendants that are typed dicts (with schema) and typed lists, also behind a Union
field (the candidate of the value's type); `allow_partial` off. -/

inductive PKey where
  | key (k : String)
  | idx (i : Nat)

/-- The candidate of a Union a container value was bound to (the first one of its type). -/
def unionPick (env : Env) (v : Val) : List Spec → Option Spec
  | [] => none
  | c :: cs =>
    match vt c with
    | some ts => if instOf env v ts then some c else unionPick env v cs
    | none => unionPick env v cs

/-- The spec a stored container value is bound to, given the spec of its field / element. -/
def boundSpec (env : Env) (s : Spec) (v : Val) : Spec :=
  match s with
  | .union cands _ => (unionPick env v cands).getD s
  | s => s

/-- The field / element spec of a stored container, or the Union candidate it is bound to, is frozen. -/
def frozenAt (env : Env) (s : Spec) (v : Val) : Bool := s.flags.frozen || (boundSpec env s v).flags.frozen

/-- Write `a` at `path` below the container value `v` whose field / element spec is `s`. -/
def nestedSet (env : Env) (pb : Val → Bool) : Spec → Val → List PKey → Bool → Val → Except E Val
  | _, _, [], _, _ => .error .key
  | s, v, [last], ins, a =>
    match boundSpec env s v, v, last with
    | .dict (some fields) _, .dict kvs, .key k =>
      match dictPrim env false pb ⟨fields, kvs⟩ k (.plain a) with
      | (d', none) => .ok (.dict d'.kvs)
      | (_, some e) => .error e
    | .list elem mn mx _, .list items, .idx i =>
      match listPrim env ⟨elem, mn, mx, items⟩ i ins a with
      | (l', none) => .ok (.list l'.items)
      | (_, some e) => .error e
    -- a container stored under `Any` / a schema-less `Dict` is untyped: nothing is validated
    | .any _, .dict kvs, .key k => .ok (.dict (if a.isMissing then eraseKey kvs k else setKey kvs k a))
    | .dict none _, .dict kvs, .key k => .ok (.dict (if a.isMissing then eraseKey kvs k else setKey kvs k a))
    | .any _, .list items, .idx i =>
      .ok (.list (if decide (i ≥ items.length) then (if a.isMissing then items else items ++ [a])
                  else if ins then insertAt items i a else items.set i a))
    | _, _, _ => .error .key
  | s, v, hd :: rest, ins, a =>
    match boundSpec env s v, v, hd with
    | .dict (some fields) _, .dict kvs, .key k =>
      if frozenAt env s v then .error .key        -- members of a frozen Dict value are plain: "not a symbolic type"
      else
      match lookup kvs k, getField env fields k with
      | some c, some f =>
        match nestedSet env pb f.value c rest ins a with
        | .ok c' => .ok (.dict (setKey kvs k c'))
        | .error e => .error e
      | _, _ => .error .key                       -- "Path … does not exist"
    | .list elem _ _ _, .list items, .idx i =>
      match items[i]? with
      | some c =>
        match nestedSet env pb elem c rest ins a with
        | .ok c' => .ok (.list (items.set i c'))
        | .error e => .error e
      | none => .error .key
    | .any f, .dict kvs, .key k =>
      match lookup kvs k with
      | some c =>
        match nestedSet env pb (.any f) c rest ins a with
        | .ok c' => .ok (.dict (setKey kvs k c'))
        | .error e => .error e
      | none => .error .key
    | .dict none _, .dict kvs, .key k =>
      match lookup kvs k with
      | some c =>
        match nestedSet env pb (.any ⟨true, .missing, false⟩) c rest ins a with
        | .ok c' => .ok (.dict (setKey kvs k c'))
        | .error e => .error e
      | none => .error .key
    | .any f, .list items, .idx i =>
      match items[i]? with
      | some c =>
        match nestedSet env pb (.any f) c rest ins a with
        | .ok c' => .ok (.list (items.set i c'))
        | .error e => .error e
      | none => .error .key
    | _, _, _ => .error .key

/-- `k in t` for strings. -/
def isInfix (k : List Char) : List Char → Bool
  | [] => k.isEmpty
  | c :: cs => k.isPrefixOf (c :: cs) || isInfix k cs

def isContainer : Val → Bool
  | .dict _ | .list _ => true
  | _ => false

/-- What resolving the parent node of `path` reports before anything is written (base.py 1213-1223 and
`_ensure_rebind_targets_writable`): `some .perm` — the node that holds the last key exists and is
sealed; `some .type` — the path runs through a string that contains the next key as a substring
(`'xb'['x']`, TypeError);
`none` — nothing to report (also for a path that does not exist: KeyError comes later).
The symbolic container created for a FROZEN field / element spec (or for the frozen Union candidate
the value is bound to) is sealed, recursively (`symbolic_transform_fn`, with the F185 repair).  The
members of a frozen *Dict* value are passed through as plain Python values (`pass_through=True`), so
below them there is no symbolic node any more. -/
def preCheck (env : Env) : Bool → Spec → Val → List PKey → Option E
  | _, _, _, [] => none
  | sl, s, v, [_] => if (sl || frozenAt env s v) && isContainer v then some .perm else none
  | sl, s, v, hd :: rest =>
    let sl' := sl || frozenAt env s v
    match boundSpec env s v, v, hd with
    | .dict (some fields) _, .dict kvs, .key k =>
      if frozenAt env s v then none
      else match lookup kvs k, getField env fields k with
        | some c, some f => preCheck env sl' f.value c rest
        | _, _ => none
    | .list elem _ _ _, .list items, .idx i =>
      match items[i]? with
      | some c => preCheck env sl' elem c rest
      | none => none
    | .any f, .dict kvs, .key k =>
      match lookup kvs k with
      | some c => preCheck env sl' (.any f) c rest
      | none => none
    | .dict none _, .dict kvs, .key k =>
      if frozenAt env s v then none
      else match lookup kvs k with
        | some c => preCheck env sl' (.any ⟨true, .missing, false⟩) c rest
        | none => none
    | .any f, .list items, .idx i =>
      match items[i]? with
      | some c => preCheck env sl' (.any f) c rest
      | none => none
    | _, .str t, .key k =>
      -- `KeyPath.query` tests `key in value` first: for a string that is the substring test, and
      -- only then indexes it (`'xb'['x']`: TypeError); otherwise the path "does not exist"
      if isInfix k.toList t.toList then some .type else none
    | _, _, _ => none

/-- The pre-check of one rebind entry. -/
def entryPre (env : Env) (d : TDict) (k : String) (rest : List PKey) : Option E :=
  match rest with
  | [] => none
  | rest =>
    match lookup d.kvs k, getField env d.fields k with
    | some c, some f => preCheck env false f.value c rest
    | _, _ => none

/-- One entry of a rebind: a direct key goes to the write primitive, a longer path to the typed
descendant it reaches (refused if that node is sealed); the ancestors are not re-validated. -/
def pathWrite0 (env : Env) (pb : Val → Bool) (d : TDict) (k : String) (rest : List PKey) (ins : Bool)
    (a : Val) : TDict × Option E :=
  match rest with
  | [] => dictPrim env false pb d k (.plain a)
  | rest =>
    match lookup d.kvs k, getField env d.fields k with
    | some c, some f =>
      match nestedSet env pb f.value c rest ins a with
      | .ok c' => ({ d with kvs := setKey d.kvs k c' }, none)
      | .error e => (d, some e)
    | _, _ => (d, some .key)

def pathWrite (env : Env) (pb : Val → Bool) (d : TDict) (k : String) (rest : List PKey) (ins : Bool)
    (a : Val) : TDict × Option E :=
  match entryPre env d k rest with
  | some e => (d, some e)
  | none => pathWrite0 env pb d k rest ins a

def pathLoop (env : Env) (pb : Val → Bool) (d : TDict) : List (String × List PKey × Bool × Val) → TDict × Option E
  | [] => (d, none)
  | (k, rest, ins, a) :: ws =>
    match pathWrite env pb d k rest ins a with
    | (d', none) => pathLoop env pb d' ws
    | (d', some e) => (d', some e)

/-- A batched rebind: refused as a whole, before anything is written, if any target is sealed
(`_ensure_rebind_targets_writable`, base.py); otherwise entry by entry, a failure keeps the prefix. -/
def pathBatch (env : Env) (pb : Val → Bool) (d : TDict) (ws : List (String × List PKey × Bool × Val)) : TDict × Option E :=
  match ws.findSome? (fun w => entryPre env d w.1 w.2.1) with
  | some e => (d, some e)
  | none => pathLoop env pb d ws

/-- One step of a dict / object history: a mutator call, or a `rebind` with key paths. -/
inductive TOp where
  | plain (op : DictOp)
  | paths (ws : List (String × List PKey × Bool × Val))

def tStep (env : Env) (p : Bool) (pb : Val → Bool) (d : TDict) : TOp → TDict × Option E
  | .plain o => dictStep env p pb d o
  | .paths ws => pathBatch env pb d ws

/-- `pg.Dict(value, value_spec=Dict(fields), allow_partial=p)`. -/
def constructDict (env : Env) (p : Bool) (fields : List Field) (kvs : List (String × Val)) : Except E TDict :=
  match schemaApply env fields p kvs with
  | .ok kvs' => .ok ⟨fields, kvs'⟩
  | .error e => .error (ofErr e)

/-- `Object.__init__(**kwargs)` (object.py 601-730): unexpected and missing required keyword
arguments are `TypeError`s, then the attribute container is a typed Dict. -/
def constructObject (env : Env) (p : Bool) (fields : List Field) (kwargs : List (String × Val)) : Except E TDict :=
  if !(unmatchedKeys env fields kwargs).isEmpty then .error .type
  else if !p && (fields.any fun f => match f.key with
      | .const k => f.value.flags.default.isMissing && (lookup kwargs k).isNone
      | _ => false) then .error .type
  else constructDict env p fields kwargs

/-- The schema invariant of a typed dict / object: only declared keys, each value accepted by its
field and mapped to itself (hence frozen fields hold their frozen value and nested typed
containers conform), every const key present. -/
def ConformsD (env : Env) (p : Bool) (d : TDict) : Prop :=
  (∀ kv ∈ d.kvs, ∃ f, getField env d.fields kv.1 = some f ∧ apply env f.value p kv.2 = .ok kv.2) ∧
  (∀ k ∈ constKeys d.fields, (lookup d.kvs k).isSome = true)

def conformsDB (env : Env) (p : Bool) (d : TDict) : Bool :=
  d.kvs.all (fun kv => match getField env d.fields kv.1 with
    | none => false
    | some f => match apply env f.value p kv.2 with
      | .ok y => sameB kv.2 y
      | .error _ => false) &&
  (constKeys d.fields).all (fun k => (lookup d.kvs k).isSome)

end Pg.C03
