/-
  C03 — typed `pg.List` (pyglove/core/symbolic/list.py) over the value-spec model: every write
  primitive formalizes the value with `element.apply` (`_formalized_value`, 436-451) before it is
  stored; some mutators check the size bounds explicitly (646-731).

  Modelled: construction with `value_spec=` (`use_value_spec` applies the List spec), `append`,
  `insert` (0 ≤ index ≤ len), `__setitem__` / `__delitem__` / `pop` with an int index, `remove`,
  `extend`, `clear`; type check on, `allow_partial` off, notification irrelevant.  Not modelled
  (C03 report): typed pg.Dict / pg.Object, slice assignment, `rebind`, symbolic element values.
-/
import PgModel.Typing
namespace Pg.C03
open Pg.Typing

/-- A `pg.List` bound to `pg.typing.List(elem, min_size=mn, max_size=mx)`. -/
structure TList where
  elem : Spec
  mn : Nat
  mx : Option Nat
  items : List Val

inductive Op where
  | append (v : Val)
  | insert (i : Nat) (v : Val)
  | setitem (i : Int) (v : Val)
  | delitem (i : Int)
  | pop (i : Int)
  | remove (v : Val)
  | extend (vs : List Val)
  | clear

/-- Error classes of a list mutator (`index`: IndexError, not a schema rejection). -/
inductive E where
  | type | value | key | index
  deriving DecidableEq, Repr

def ofErr : Err → E
  | .type => .type
  | .value => .value
  | .key => .key

/-- `_formalized_value`: `element.apply(value, allow_partial=False)`. -/
def formalize (env : Env) (l : TList) (v : Val) : Except E Val :=
  match apply env l.elem false v with
  | .ok v' => .ok v'
  | .error e => .error (ofErr e)

def atMax (l : TList) (extra : Nat) : Bool :=
  match l.mx with
  | some m => decide (m < l.items.length + extra)
  | none => false

/-- Python index normalisation for an int index in `[-len, len)`. -/
def normIndex (len : Nat) (i : Int) : Option Nat :=
  if i < -(len : Int) || i ≥ (len : Int) then none
  else some (if i < 0 then (i + len).toNat else i.toNat)

/-- First position whose item `== value` (`remove`, 680-690). -/
def findEq (v : Val) : List Val → Option Nat
  | [] => none
  | x :: xs => if Val.pyEq x v then some 0 else (findEq v xs).map (· + 1)

/-- `extend` main loop (716-720): element by element; a failure keeps the applied prefix. -/
def extendLoop (env : Env) (l : TList) : List Val → TList × Option E
  | [] => (l, none)
  | v :: vs =>
    match formalize env l v with
    | .error e => (l, some e)
    | .ok v' => extendLoop env { l with items := l.items ++ [v'] } vs

/-- One mutating call: the list afterwards and the exception class, if any. -/
def step (env : Env) (l : TList) : Op → TList × Option E
  | .append v =>
    if atMax l 1 then (l, some .value)                                    -- 650
    else match formalize env l v with
      | .error e => (l, some e)
      | .ok v' => ({ l with items := l.items ++ [v'] }, none)
  | .insert i v =>
    if atMax l 1 then (l, some .value)                                    -- 662
    else match formalize env l v with
      | .error e => (l, some e)
      | .ok v' => ({ l with items := l.items.take i ++ [v'] ++ l.items.drop i }, none)
  | .setitem i v =>
    match normIndex l.items.length i with
    | none => (l, some .index)                                            -- 566
    | some k => match formalize env l v with
      | .error e => (l, some e)
      | .ok v' => ({ l with items := l.items.set k v' }, none)
  | .delitem i =>
    match normIndex l.items.length i with
    | none => (l, some .index)                                            -- 594
    | some k => ({ l with items := l.items.eraseIdx k }, none)            -- no min_size check (F08)
  | .pop i =>
    match normIndex l.items.length i with
    | none => (l, some .index)                                            -- 672
    | some k => ({ l with items := l.items.eraseIdx k }, none)            -- no min_size check (F08)
  | .remove v =>
    match findEq v l.items with
    | none => (l, some .value)                                            -- 690
    | some k =>
      if l.mn == l.items.length then (l, some .value)                     -- 684
      else ({ l with items := l.items.eraseIdx k }, none)
  | .extend vs =>
    if atMax l vs.length then (l, some .value)                            -- 711
    else extendLoop env l vs
  | .clear =>
    if l.mn > 0 then (l, some .value)                                     -- 729
    else ({ l with items := [] }, none)

/-- `pg.List(items, value_spec=List(elem, mn, mx))`: `use_value_spec` applies the list spec. -/
def construct (env : Env) (elem : Spec) (mn : Nat) (mx : Option Nat) (items : List Val) : Except E TList :=
  match apply env (.list elem mn mx ⟨false, .missing, false⟩) false (.list items) with
  | .ok (.list ys) => .ok ⟨elem, mn, mx, ys⟩
  | .ok _ => .error .type
  | .error e => .error (ofErr e)

/-- The schema invariant of a typed list: every item is accepted by the element spec and mapped
to itself, and the length is within the declared bounds. -/
def Conforms (env : Env) (l : TList) : Prop :=
  (∀ x ∈ l.items, apply env l.elem false x = .ok x) ∧ sizeOk l.items.length l.mn l.mx = true

/-- Decidable version used by the driver. -/
def conformsB (env : Env) (l : TList) : Bool :=
  l.items.all (fun x => match apply env l.elem false x with
    | .ok y => Val.pyEq x y && (x.ty == y.ty)
    | .error _ => false) && sizeOk l.items.length l.mn l.mx

end Pg.C03
