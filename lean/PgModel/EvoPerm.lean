/-
  C14 — permutation crossover `Order` (recombinators.py:715-957) with `where = where.Any(k=1)`.
  Mirrors /repo with fixes/C14-F90.patch (the filter draws from the operator's seed).
-/
import PgModel.Evo
namespace Pg.C14

def isPermPoint (k : Nat) (cands : List GSpec) (dist srt : Bool) : Bool :=
  decide (k > 1) && cands.length == k && dist && !srt

/-- a permutation point: root element index (or `none` if nested), decisions of parent x, of parent y. -/
abbrev PermPoint := Option Nat × List Nat × List Nat

mutual
  /-- `possible_permutation_points`: walk both parents together while their values agree.
  Each point is reported with the two parents' decisions at it and, if it is an element of the root
  space (the only place where `from_dict` honours the rewritten decision, see `place`), its index. -/
  def permWalk : GSpec → Option Nat → Bool → DNA → DNA → List PermPoint
    | .space es, _, inCand, .space xs, .space ys => permWalkElems es none (inCand && es.length == 1) xs ys
    | .choices k cands dist srt, loc, coll, .choices xs, .choices ys =>
        (if isPermPoint k cands dist srt then [(if coll then none else loc, xs.map subVal, ys.map subVal)] else []) ++
        permWalkSubs cands xs ys
    | _, _, _, _, _ => []
  def permWalkElems : List GSpec → Option Nat → Bool → List DNA → List DNA → List PermPoint
    | e :: es, top, c, x :: xs, y :: ys =>
        permWalk e top c x y ++ permWalkElems es (top.map (· + 1)) c xs ys
    | _, _, _, _, _ => []
  def permWalkSubs : List GSpec → List DNA → List DNA → List PermPoint
    | cands, .sub _ v dx :: xs, .sub _ w dy :: ys =>
        (if v = w then
           match cands[v]?, dx with
           | some (.space es), .space ex =>
             (match dy with
              | .space ey => permWalkElems es none (es.length == 1) ex ey
              | _ => [])
           | _, _ => []
         else []) ++ permWalkSubs cands xs ys
    | _, _, _ => []
end

/-- the walk from the root: the elements of the root space carry their index. -/
def permPoints (g : GSpec) (x y : DNA) : List PermPoint :=
  match g, x, y with
  | .space es, .space xs, .space ys => permWalkElems es (some 0) false xs ys
  | _, _, _ => []

def rotate {α : Type} (l : List α) (n : Nat) : List α := l.drop n ++ l.take n

/-- `Order.order_crossover` for one child: the segment of the other parent, the rest in the order of
this parent starting after the segment. -/
def orderChild (self other : List Nat) (start stop : Nat) : List Nat :=
  let size := self.length
  let seg := (other.take stop).drop start
  let rest := (rotate self (stop % size)).filter (fun v => !seg.contains v)
  (rest.drop (size - stop)).take start ++ seg ++ rest.take (size - stop)

def entriesOf : DNA → List DNA
  | .choices subs => subs
  | _ => []

/-- `[subdna_map[v] for v in proposal]`; `none` = KeyError. -/
def reorder (subs : List DNA) (proposal : List Nat) : Option (List DNA) :=
  proposal.mapM (fun v => subs.find? (fun e => subVal e == v))

def setElem (d : DNA) (j : Nat) (e : DNA) : DNA :=
  match d with
  | .space ds => .space (ds.set j e)
  | d => d

def elemOf (d : DNA) (j : Nat) : Option DNA :=
  match d with
  | .space ds => ds[j]?
  | _ => none

/-- the tail shared by the permutation recombinators: every proposal goes through `from_dict`
(`checked`), the results are collected in a `set`, each survivor is a new object. -/
def finishChildren (g : GSpec) (raw : List DNA) : M Pop := do
  let outs ← forEachM (checked g) raw
  let outs ← setOrder outs
  forEachM mkChild outs

/-- `where.Any(k)`: all points if `k >= len`, else `sorted(random.sample(range(len), k))`. -/
def pickPoints (n k : Nat) : M (List Nat) :=
  if k ≥ n then pure (List.range n)
  else nextSample n k >>= fun is => pure (sortNats is)

/-- the four (parent × proposal) trees: a point below a chosen candidate (`none`) is never looked at by
`from_dict` (it takes the enclosing node whole); at root element `j` each parent's own entries are
re-ordered as the proposal says (`[subdna_map[v] for v in proposal]`). -/
def place (loc : Option Nat) (x y : DNA) (c0 c1 : List Nat) : M (List DNA) :=
  match loc with
  | none => pure [x, x, y, y]
  | some j =>
    match elemOf x j, elemOf y j with
    | some ex, some ey =>
      match reorder (entriesOf ex) c0, reorder (entriesOf ex) c1,
            reorder (entriesOf ey) c0, reorder (entriesOf ey) c1 with
      | some x0, some x1, some y0, some y1 =>
        pure [setElem x j (.choices x0), setElem x j (.choices x1),
              setElem y j (.choices y0), setElem y j (.choices y1)]
      | _, _, _, _ => fail .key
    | _, _ => fail .desync

/-- `Permutation.recombine` for a `permutate` method given as a function of the two decision lists:
for every selected permutation point, in order, the proposals are placed into fresh copies of the
parents' dictionaries. -/
def permProposals (permute : List Nat → List Nat → M (List Nat × List Nat)) (k : Nat) (pts : List PermPoint)
    (x y : DNA) : M (List DNA) :=
  pickPoints pts.length k >>= fun ts =>
    forEachM (fun t =>
      match pts[t]? with
      | none => fail .desync
      | some (loc, vx, vy) => permute vx vy >>= fun cs => place loc x y cs.1 cs.2) ts >>= fun ls =>
    pure ls.flatten

/-- `k` is the `k` of the `where.Any(k)` filter (1 by default). -/
def recPerm (permute : List Nat → List Nat → M (List Nat × List Nat)) (k : Nat) (g : GSpec) : Op := fun pop =>
  match pop with
  | [x, y] =>
    if !popAligned pop then fail .unmodelled
    else do
      let raw ← permProposals permute k (permPoints g x.dna y.dna) x.dna y.dna
      if raw.isEmpty then pure pop                     -- no point selected: `return parents`
      else finishChildren g raw
  | _ => fail .value

/-- the two cut points of Order / PMX: `sorted(random.sample(range(size), 2))` (one draw: two distinct
indices never span the whole list). -/
def cutPoints (size : Nat) : M (Nat × Nat) :=
  nextSample size 2 >>= fun ab =>
    match ab with
    | [a, b] => pure (min a b, max a b)
    | _ => fail .desync

/-! ### Order crossover -/

def permuteOrder (vx vy : List Nat) : M (List Nat × List Nat) :=
  cutPoints vx.length >>= fun se => pure (orderChild vx vy se.1 se.2, orderChild vy vx se.1 se.2)

def recOrder (g : GSpec) : Op := recPerm permuteOrder 1 g

/-! ### Partially mapped crossover (recombinators.py:852-902) -/

/-- `while v in assigned: v = self[index_in_other(v)]`; `none`: KeyError, or the loop would not end. -/
def pmxResolve (self other assigned : List Nat) : Nat → Nat → Option Nat
  | 0, _ => none
  | f + 1, v =>
    if !assigned.contains v then some v
    else match self[other.idxOf v]? with
         | some w => pmxResolve self other assigned f w
         | none => none

/-- fills the positions `js` (in this order), threading the set of assigned values. -/
def pmxFill (self other : List Nat) : List Nat → List Nat → Option (List Nat × List Nat)
  | [], assigned => some ([], assigned)
  | j :: js, assigned =>
    match self[j]? with
    | none => none
    | some v0 =>
      match pmxResolve self other assigned (self.length + 1) v0 with
      | none => none
      | some v =>
        match pmxFill self other js (v :: assigned) with
        | none => none
        | some (vs, a) => some (v :: vs, a)

def pmxChild (self other : List Nat) (start stop : Nat) : Option (List Nat) :=
  let seg := (other.take stop).drop start
  match pmxFill self other (List.range start) seg with
  | none => none
  | some (pre, a1) =>
    match pmxFill self other ((List.range self.length).drop stop) a1 with
    | none => none
    | some (post, _) => some (pre ++ seg ++ post)

def permutePMX (vx vy : List Nat) : M (List Nat × List Nat) :=
  cutPoints vx.length >>= fun se =>
    match pmxChild vx vy se.1 se.2, pmxChild vy vx se.1 se.2 with
    | some c0, some c1 => pure (c0, c1)
    | _, _ => fail .key

def recPMX (g : GSpec) : Op := recPerm permutePMX 1 g

/-! ### Cycle crossover (recombinators.py:960-1009)

`cycle_crossover` fills the two children with the recursive `pick(child_id, parent_id, index)`: starting
from an unvisited position `i` it walks the cycle `i → index_in_p0(p1[i]) → …` and gives child
`child_id` the items of parent 0 and the other child the items of parent 1 on that cycle. The model
walks the same cycle iteratively (`orbit`); a cycle that does not close, or an item of one parent that
the other does not have, is the `KeyError` / unfilled child of the code (`Err.key`). -/

/-- the position where parent 0 holds the item parent 1 has at `j`. -/
def cycNext (p0 p1 : List Nat) (j : Nat) : Nat := p0.idxOf (p1.getD j 0)

/-- positions on the cycle through `i`, from `j` on (`acc`: already walked); `none`: not closed. -/
def orbitFrom (p0 p1 : List Nat) (i : Nat) : Nat → Nat → List Nat → Option (List Nat)
  | 0, _, _ => none
  | f + 1, j, acc =>
    let n := cycNext p0 p1 j
    if n = i then some (j :: acc)
    else if n < p0.length then orbitFrom p0 p1 i f n (j :: acc)
    else none

def orbit (p0 p1 : List Nat) (i : Nat) : Option (List Nat) := orbitFrom p0 p1 i p0.length i []

/-- `true`: child 0 takes parent 0's item at that position (and child 1 parent 1's). -/
def assignAll (asg : List (Option Bool)) (o : List Nat) (b : Bool) : List (Option Bool) :=
  o.foldl (fun a j => a.set j (some b)) asg

/-- `for i in range(size): if children[0][i] is None: child_id = random.choice([0, 1]); pick(...)`. -/
def cycleLoop (p0 p1 : List Nat) : List Nat → List (Option Bool) → M (List (Option Bool))
  | [], asg => pure asg
  | i :: is, asg =>
    if (asg.getD i none).isSome then cycleLoop p0 p1 is asg
    else nextIdx .choice 2 >>= fun c =>
      match orbit p0 p1 i with
      | some o => cycleLoop p0 p1 is (assignAll asg o (c == 0))
      | none => fail .key

def allSomeBool : List (Option Bool) → Option (List Bool)
  | [] => some []
  | some a :: t => (allSomeBool t).map (a :: ·)
  | none :: _ => none

/-- the child that takes parent `p0`'s items where the side is `true`. -/
def cycleChild (p0 p1 : List Nat) (sides : List Bool) : List Nat :=
  (List.range p0.length).map (fun j => if sides.getD j false then p0.getD j 0 else p1.getD j 0)

def permuteCycle (vx vy : List Nat) : M (List Nat × List Nat) :=
  cycleLoop vx vy (List.range vx.length) (List.replicate vx.length none) >>= fun asg =>
    match allSomeBool asg with
    | some sides => pure (cycleChild vx vy sides, cycleChild vx vy (sides.map (!·)))
    | none => fail .key

def recCycle (g : GSpec) : Op := recPerm permuteCycle 1 g

end Pg.C14
