/-
  C14 — permutation crossover `Order` (recombinators.py:715-957) with `where = where.Any(k=1)`.
  Mirrors /repo with fixes/C14-F90.patch (the filter draws from the operator's seed).
-/
import PgModel.Evo
namespace Pg.C14

def isPermPoint (k : Nat) (cands : List GSpec) (dist srt : Bool) : Bool :=
  decide (k > 1) && cands.length == k && dist && !srt

mutual
  /-- `possible_permutation_points`: walk both parents together while their values agree.
  Each point is reported with its number of subchoices and, if it is an element of the root space
  (the only place where `from_dict` honours the rewritten decision, see `recOrder`), its index. -/
  def permWalk : GSpec → Option Nat → Bool → DNA → DNA → List (Option Nat × Nat)
    | .space es, _, inCand, .space xs, .space ys => permWalkElems es none (inCand && es.length == 1) xs ys
    | .choices k cands dist srt, loc, coll, .choices xs, .choices ys =>
        (if isPermPoint k cands dist srt then [(if coll then none else loc, k)] else []) ++
        permWalkSubs cands xs ys
    | _, _, _, _, _ => []
  def permWalkElems : List GSpec → Option Nat → Bool → List DNA → List DNA → List (Option Nat × Nat)
    | e :: es, top, c, x :: xs, y :: ys =>
        permWalk e top c x y ++ permWalkElems es (top.map (· + 1)) c xs ys
    | _, _, _, _, _ => []
  def permWalkSubs : List GSpec → List DNA → List DNA → List (Option Nat × Nat)
    | cands, .sub _ v dx :: xs, .sub _ w dy :: ys =>
        (if v = w then
           match cands[v]?, dx with
           | some (.space es), .space ex =>
             (match dy with
              | .space ey => permWalkElems es none (es.length == 1) ex ey
              | _ => [])
           | _, _ => []
         else []) ++ permWalkSubs cands xs ys
    | _, _, _ => []
end

/-- the walk from the root: the elements of the root space carry their index. -/
def permPoints (g : GSpec) (x y : DNA) : List (Option Nat × Nat) :=
  match g, x, y with
  | .space es, .space xs, .space ys => permWalkElems es (some 0) false xs ys
  | _, _, _ => []

def rotate {α : Type} (l : List α) (n : Nat) : List α := l.drop n ++ l.take n

/-- `Order.order_crossover` for one child: the segment of the other parent, the rest in the order of
this parent starting after the segment. -/
def orderChild (self other : List Nat) (start stop : Nat) : List Nat :=
  let size := self.length
  let seg := (other.take stop).drop start
  let rest := (rotate self (stop % size)).filter (fun v => !seg.contains v)
  (rest.drop (size - stop)).take start ++ seg ++ rest.take (size - stop)

def entriesOf : DNA → List DNA
  | .choices subs => subs
  | _ => []

/-- `[subdna_map[v] for v in proposal]`; `none` = KeyError. -/
def reorder (subs : List DNA) (proposal : List Nat) : Option (List DNA) :=
  proposal.mapM (fun v => subs.find? (fun e => subVal e == v))

def setElem (d : DNA) (j : Nat) (e : DNA) : DNA :=
  match d with
  | .space ds => .space (ds.set j e)
  | d => d

def elemOf (d : DNA) (j : Nat) : Option DNA :=
  match d with
  | .space ds => ds[j]?
  | _ => none

/-- the tail shared by the permutation recombinators: every proposal goes through `from_dict`
(`checked`), the results are collected in a `set`, each survivor is a new object. -/
def finishChildren (g : GSpec) (raw : List DNA) : M Pop := do
  let outs ← forEachM (checked g) raw
  let outs ← setOrder outs
  forEachM mkChild outs

/-- `where.Any(k=1)`: all points if there is at most one, else one sampled index. -/
def pickPoint (n : Nat) : M Nat :=
  if n ≤ 1 then pure 0
  else nextSample n 1 >>= fun is =>
    match is with
    | [t] => pure t
    | _ => fail .desync

/-- proposals for a point below a chosen candidate (`none`: `from_dict` takes the enclosing node
whole, the rewritten decision is never looked at) or at root element `j`. -/
def proposalsFor (loc : Option Nat) (x y : DNA) (start stop : Nat) : M (List DNA) :=
  match loc with
  | none => pure [x, x, y, y]
  | some j =>
    match elemOf x j, elemOf y j with
    | some ex, some ey =>
      let vx := (entriesOf ex).map subVal
      let vy := (entriesOf ey).map subVal
      let c0 := orderChild vx vy start stop
      let c1 := orderChild vy vx start stop
      match reorder (entriesOf ex) c0, reorder (entriesOf ex) c1,
            reorder (entriesOf ey) c0, reorder (entriesOf ey) c1 with
      | some x0, some x1, some y0, some y1 =>
        pure [setElem x j (.choices x0), setElem x j (.choices x1),
              setElem y j (.choices y0), setElem y j (.choices y1)]
      | _, _, _, _ => fail .key
    | _, _ => fail .desync

def proposalsAt (p : Option (Option Nat × Nat)) (x y : DNA) : M (List DNA) :=
  match p with
  | none => fail .desync
  | some (loc, k) =>
    nextSample k 2 >>= fun ab =>
      match ab with
      | [a, b] => proposalsFor loc x y (min a b) (max a b)
      | _ => fail .desync

/-- the four (parent × proposal) trees of one Order crossover, before `from_dict`. -/
def orderProposals (pts : List (Option Nat × Nat)) (x y : DNA) : M (List DNA) :=
  pickPoint pts.length >>= fun t => proposalsAt pts[t]? x y

def recOrder (g : GSpec) : Op := fun pop =>
  match pop with
  | [x, y] =>
    if !popAligned pop then fail .unmodelled
    else if (permPoints g x.dna y.dna).isEmpty then pure pop        -- `return parents`
    else do
      let raw ← orderProposals (permPoints g x.dna y.dna) x.dna y.dna
      finishChildren g raw
  | _ => fail .value

end Pg.C14
