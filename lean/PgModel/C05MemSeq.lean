/-
  C05 — `MemorySequence` / `MemorySequenceIO` (io/sequence.py:170-250): the record store behind
  paths with extension `.mem` / `.mem@N`. The store maps the path string to the list of raw
  records (`_root: defaultdict(list)`); mode 'w' resets the list, 'a' appends, 'r' reads.
  A reader hands out what the deserializer builds from the stored raw records **at that moment**:
  a read returns fresh values, so nothing a caller does to earlier results can reach the store.
-/
import PgModel.C05Store
namespace Pg.C05

abbrev Rec := List Char

structure MemSeq where
  root : List (Path × List Rec)
  deriving Inhabited

def MemSeq.empty : MemSeq := ⟨[]⟩

def msGet : List (Path × List Rec) → Path → List Rec
  | [], _ => []
  | (q, rs) :: r, p => if q = p then rs else msGet r p

def msSet : List (Path × List Rec) → Path → List Rec → List (Path × List Rec)
  | [], p, rs => [(p, rs)]
  | (q, qs) :: r, p, rs => if q = p then (q, rs) :: r else (q, qs) :: msSet r p rs

inductive SOp where
  /-- `with open_sequence(p, mode) as f: for r in recs: f.add(r)` (mode 'w' or 'a'). -/
  | add (p : Path) (mode : Mode) (recs : List Rec)
  /-- `with open_sequence(p, 'r') as f: list(f)`. -/
  | read (p : Path)
  /-- The caller changes, in place, a value an earlier read returned. -/
  | mutateResult (readNo idx : Nat)
  deriving Repr, Inhabited

inductive SOut where
  | unit
  | records (rs : List Rec)
  deriving DecidableEq, Repr, Inhabited

def sStep (s : MemSeq) : SOp → MemSeq × SOut
  | .add p .w recs => (⟨msSet s.root p recs⟩, .unit)
  | .add p .a recs => (⟨msSet s.root p (msGet s.root p ++ recs)⟩, .unit)
  | .read p => (s, .records (msGet s.root p))
  | .mutateResult _ _ => (s, .unit)          -- the result is the caller's own value

def sRun : MemSeq → List SOp → MemSeq × List SOut
  | s, [] => (s, [])
  | s, op :: ops =>
    let (s1, o) := sStep s op
    let (s2, os) := sRun s1 ops
    (s2, o :: os)

end Pg.C05
