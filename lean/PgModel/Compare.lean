/-
  C06 — model of symbolic equality, ordering and hashing.

  Mirrors pyglove/core/symbolic/base.py `eq` (1562-1631), `ne` (1634-1665), `lt` (1668-1762),
  `gt` (1765-1777), `_type_order` (1780-1800), `sym_hash` (1803-1829), `Dict.sym_hash`
  (dict.py:493-498), `List.sym_hash` (list.py:311-315), `Object.sym_eq / sym_lt / sym_hash`
  (object.py:821-835) and `callable_eq` (typing/inspect.py:198-232) on the value domain below,
  *as they are in the tree with fixes/C06-*.patch applied* (F14: `lt` of two `None` / two missing
  markers is `False`; F15b: dict keys are ordered by `lt`, not by native `<`; F15a: `Dict.sym_hash`
  combines the items with a `frozenset`; F15: `lt` walks dict keys in sorted order, object fields in
  declaration order). Defects that are kept (known findings) are mirrored:
  `lt` between instances of two distinct classes with one `__qualname__` never terminates (F39).

  The model has no state: every function below takes the *contents* of its operands. For values
  with a history (hashed / compared, then written through notifying or non-notifying paths) the
  correspondence rule is: the code answers as the model does on the contents after the writes.

  Numbers are exact dyadic rationals `m / 2^e` carrying their Python type as a tag (bool / int /
  float alias each other exactly as in Python); no `Float`. Strings are lists of code points.
  The type-rank table (`Env.rankOf`) is regenerated from `_type_order` by translate/t_c06.py
  (PgGen/C06Order.lean); `Env.qual` gives the `__qualname__` of the user classes.
-/
namespace Pg.C06

abbrev Str := List Nat

/-- Python's `<` on `str` (lexicographic by code point). -/
def lexLt : Str → Str → Bool
  | [], [] => false
  | [], _ :: _ => true
  | _ :: _, [] => false
  | a :: as, b :: bs => if a < b then true else if b < a then false else lexLt as bs

inductive NumTag | bool | int | float
  deriving DecidableEq, Repr

/-- The number `m / 2^e` of Python type `tag`. -/
structure Num where
  tag : NumTag
  m : Int
  e : Nat
  deriving DecidableEq, Repr

/-- Python's `<` between bool / int / finite float (exact). -/
def Num.lt (a b : Num) : Bool := decide (a.m * ((2 ^ b.e : Nat) : Int) < b.m * ((2 ^ a.e : Nat) : Int))
/-- Python's `==` between bool / int / finite float (exact). -/
def Num.eq (a b : Num) : Bool := decide (a.m * ((2 ^ b.e : Nat) : Int) = b.m * ((2 ^ a.e : Nat) : Int))

inductive Atom
  | missing              -- pg.MISSING_VALUE
  | none
  | num (n : Num)
  | str (s : Str)
  deriving DecidableEq, Repr

/-- Values. `sym = true`: `pg.List` / `pg.Dict`; `sym = false`: plain `list` / `dict`.
Dicts and object attributes are *ordered* association lists (insertion / declaration order). -/
inductive Val
  | atom (a : Atom)
  | list (sym : Bool) (xs : List Val)
  | tuple (xs : List Val)
  | dict (sym : Bool) (kvs : List (Atom × Val))
  | obj (cls : Nat) (kvs : List (Atom × Val))
  deriving Repr

inductive Err | typeError | recursionError
  deriving DecidableEq, Repr

/-- The rows of the `isinstance` chain of `_type_order`. -/
inductive TypeKind | missing | none | num | str | list | tuple | set | dict
  deriving DecidableEq, Repr

def TypeKind.all : List TypeKind := [.missing, .none, .num, .str, .list, .tuple, .set, .dict]

structure Env where
  /-- `str(type_order)` of each builtin row (generated from the source). -/
  rankOf : TypeKind → Str
  /-- `type(value).__qualname__` of user class `c`. -/
  qual : Nat → Str
  /-- the declared field names of class `c`, in declaration order (used by the `Comparable`
  class of the theorems only; no model function reads it). -/
  fields : Nat → List Atom := fun _ => []
  /-- class `c` has a variable-key schema (`pg.typing.StrKey()` fields, a symbolized function /
  class taking `**kwargs`): its attributes are listed in the order in which the keywords were given;
  `Object.sym_lt` compares them as a dict (fix F285). -/
  dyn : Nat → Bool := fun _ => false

/-! ### Equality (`eq`, `ne`) -/

/-- Python `==` on atoms (`callable_eq` falls through to `x == y`). -/
def atomEq : Atom → Atom → Bool
  | .missing, .missing => true
  | .none, .none => true
  | .num a, .num b => Num.eq a b
  | .str a, .str b => a == b
  | _, _ => false

/-- `right[k]` / `right.sym_getattr(k)`: first entry whose key is `==` to `k`. -/
def lookup (k : Atom) : List (Atom × Val) → Option Val
  | [] => none
  | (k', v) :: rest => if atomEq k k' then some v else lookup k rest

def hasKey (k : Atom) (kvs : List (Atom × Val)) : Bool := kvs.any (fun p => atomEq k p.1)

/-- `set(left.keys()) <= set(right.keys())`. -/
def keysSubset (xs ys : List (Atom × Val)) : Bool := xs.all (fun p => hasKey p.1 ys)

mutual
  /-- `pg.eq`. -/
  def eq : Val → Val → Bool
    | .atom a, .atom b => atomEq a b
    | .list _ xs, .list _ ys => eqList xs ys
    | .tuple xs, .tuple ys => eqList xs ys
    | .dict _ xs, .dict _ ys =>
        xs.length == ys.length && (keysSubset xs ys && keysSubset ys xs) && eqItems xs ys
    | .obj c xs, .obj d ys =>                      -- Object.sym_eq: exact class, then the attribute dicts
        c == d && (xs.length == ys.length && (keysSubset xs ys && keysSubset ys xs) && eqItems xs ys)
    | _, _ => false
  /-- `len(left) == len(right)` and no `ne(x, y)` in `zip(left, right)`. -/
  def eqList : List Val → List Val → Bool
    | [], [] => true
    | x :: xs, y :: ys => eq x y && eqList xs ys
    | _, _ => false
  /-- `for k, v in left.items(): if ne(v, right[k]): return False`. -/
  def eqItems : List (Atom × Val) → List (Atom × Val) → Bool
    | [], _ => true
    | (k, v) :: rest, ys =>
        (match lookup k ys with | some w => eq v w | none => false) && eqItems rest ys
end

def ne (x y : Val) : Bool := !eq x y

/-! ### Ordering (`lt`, `gt`) -/

def rank (env : Env) : Val → Str
  | .atom .missing => env.rankOf .missing
  | .atom .none => env.rankOf .none
  | .atom (.num _) => env.rankOf .num
  | .atom (.str _) => env.rankOf .str
  | .list _ _ => env.rankOf .list
  | .tuple _ => env.rankOf .tuple
  | .dict _ _ => env.rankOf .dict
  | .obj c _ => env.qual c

/-- The head of `lt`: values whose type-order strings differ are ordered by these strings. -/
def rankCmp (env : Env) (x y : Val) : Option Bool :=
  if rank env x = rank env y then none else some (lexLt (rank env x) (rank env y))

/-- `lt` on two atoms of one type order (after the F14 fix: `None` / missing are single points). -/
def atomLtSame : Atom → Atom → Except Err Bool
  | .num a, .num b => .ok (Num.lt a b)
  | .str a, .str b => .ok (lexLt a b)
  | .none, .none => .ok false
  | .missing, .missing => .ok false
  | _, _ => .error .typeError

/-- `lt(kl, kr)` on two atoms (used for values and, after the F15b fix, for dict keys). -/
def atomLt (env : Env) (a b : Atom) : Except Err Bool :=
  match rankCmp env (.atom a) (.atom b) with
  | some r => .ok r
  | none => atomLtSame a b

mutual
  /-- Python's native `<` as reached from `lt` for tuples (`return left < right`). -/
  def pyLt : Val → Val → Except Err Bool
    | .atom (.num a), .atom (.num b) => .ok (Num.lt a b)
    | .atom (.str a), .atom (.str b) => .ok (lexLt a b)
    | .list _ xs, .list _ ys => pySeqLt xs ys
    | .tuple xs, .tuple ys => pySeqLt xs ys
    | _, _ => .error .typeError
  /-- CPython's sequence comparison: first index with `!=`, then `<` there; else the lengths. -/
  def pySeqLt : List Val → List Val → Except Err Bool
    | [], [] => .ok false
    | [], _ :: _ => .ok true
    | _ :: _, [] => .ok false
    | x :: xs, y :: ys => if eq x y then pySeqLt xs ys else pyLt x y
end

mutual
  /-- the core of `pg.lt`: on values whose dict keys are sorted (see `symLt` below). -/
  def lt (env : Env) : Val → Val → Except Err Bool
    | .atom a, y =>
        match rankCmp env (.atom a) y with
        | some r => .ok r
        | none => match y with
          | .atom b => atomLtSame a b
          | _ => .error .typeError
    | .list s xs, y =>
        match rankCmp env (.list s xs) y with
        | some r => .ok r
        | none => match y with
          | .list _ ys => ltList env xs ys
          | _ => .error .typeError
    | .tuple xs, y =>
        match rankCmp env (.tuple xs) y with
        | some r => .ok r
        | none => match y with
          | .tuple ys => pySeqLt xs ys
          | _ => .error .typeError
    | .dict s xs, y =>
        match rankCmp env (.dict s xs) y with
        | some r => .ok r
        | none => match y with
          | .dict _ ys => ltItems env xs ys
          | _ => .error .typeError
    | .obj c xs, y =>
        match rankCmp env (.obj c xs) y with
        | some r => .ok r
        | none => match y with
          -- Object.sym_lt: same class → the attribute dicts; another class with the same
          -- qualname → `base.lt(self, other)` → `sym_lt` → … (RecursionError)
          | .obj d ys => if c = d then ltItems env xs ys else .error .recursionError
          | _ => .error .typeError
  /-- first index with `not eq(l, r)` decides; else the shorter list is smaller. -/
  def ltList (env : Env) : List Val → List Val → Except Err Bool
    | [], [] => .ok false
    | [], _ :: _ => .ok true
    | _ :: _, [] => .ok false
    | x :: xs, y :: ys => if eq x y then ltList env xs ys else lt env x y
  /-- keys are walked *by position* (`list(left.keys())[i]`, `list(right.keys())[i]`). -/
  def ltItems (env : Env) : List (Atom × Val) → List (Atom × Val) → Except Err Bool
    | [], [] => .ok false
    | [], _ :: _ => .ok true
    | _ :: _, [] => .ok false
    | (k, v) :: xs, (k', w) :: ys =>
        if atomEq k k' then (if eq v w then ltItems env xs ys else lt env v w)
        else atomLt env k k'
end

/-- `lt` with swapped arguments (on key-sorted values). -/
def gt (env : Env) (x y : Val) : Except Err Bool := lt env y x

/-! ### Key order of dicts (fix F15): `lt` walks the keys of a dict in *sorted* order

`base.lt` sorts the keys of both dicts by `lt` before walking them (`_sorted_keys`), while
`Object.sym_lt` compares the fields of two objects of one class in declaration order. Sorting the
keys at every level during the comparison is the same as sorting all dicts first (`canon`) and then
comparing by position (`lt` above, whose sub-value tests `eq` do not depend on key order). -/

def okTrue : Except Err Bool → Bool
  | .ok true => true
  | _ => false

/-- insertion into a key-sorted association list (`sorted(d.keys(), key=cmp_to_key(lt))`). -/
def insertItem (env : Env) (k : Atom) (v : Val) : List (Atom × Val) → List (Atom × Val)
  | [] => [(k, v)]
  | (k', w) :: rest =>
    if okTrue (atomLt env k k') then (k, v) :: (k', w) :: rest else (k', w) :: insertItem env k v rest

def sortItems (env : Env) : List (Atom × Val) → List (Atom × Val)
  | [] => []
  | (k, v) :: rest => insertItem env k v (sortItems env rest)

mutual
  /-- every dict with its keys sorted (object attributes keep their declaration order, unless the
  class has a variable-key schema: then they are sorted as the keys of a dict — fix F285). -/
  def canon (env : Env) : Val → Val
    | .atom a => .atom a
    | .list s xs => .list s (canonList env xs)
    | .tuple xs => .tuple (canonList env xs)
    | .dict s kvs => .dict s (sortItems env (canonItems env kvs))
    | .obj c kvs => .obj c (if env.dyn c then sortItems env (canonItems env kvs) else canonItems env kvs)
  def canonList (env : Env) : List Val → List Val
    | [] => []
    | x :: xs => canon env x :: canonList env xs
  def canonItems (env : Env) : List (Atom × Val) → List (Atom × Val)
    | [] => []
    | (k, v) :: rest => (k, canon env v) :: canonItems env rest
end

/-- `pg.lt`. -/
def symLt (env : Env) (x y : Val) : Except Err Bool := lt env (canon env x) (canon env y)

/-- `pg.gt`. -/
def symGt (env : Env) (x y : Val) : Except Err Bool := symLt env y x

/-! ### The literal shape of `base.lt` (keys sorted when the dict branch is reached)

`symLt` sorts the keys of *all* dicts first and then compares by position. The code sorts the keys
of the two dicts at hand when it reaches the dict branch (`lkeys = _sorted_keys(left)`), leaves the
values as they are and recurses. `ltF` transcribes that, with the recursion depth as a bound (it
answers `RecursionError` when the bound is exhausted — never, for the bound of `ltDirect`).
PgProofs/CompareDirect.lean proves `ltDirect = symLt` on well-formed values. -/

def ltListBy (f : Val → Val → Except Err Bool) : List Val → List Val → Except Err Bool
  | [], [] => .ok false
  | [], _ :: _ => .ok true
  | _ :: _, [] => .ok false
  | x :: xs, y :: ys => if eq x y then ltListBy f xs ys else f x y

def ltItemsBy (env : Env) (f : Val → Val → Except Err Bool) :
    List (Atom × Val) → List (Atom × Val) → Except Err Bool
  | [], [] => .ok false
  | [], _ :: _ => .ok true
  | _ :: _, [] => .ok false
  | (k, v) :: xs, (k', w) :: ys =>
      if atomEq k k' then (if eq v w then ltItemsBy env f xs ys else f v w)
      else atomLt env k k'

def ltF (env : Env) : Nat → Val → Val → Except Err Bool
  | 0, _, _ => .error .recursionError
  | n + 1, x, y =>
    match rankCmp env x y with
    | some r => .ok r
    | none =>
      match x, y with
      | .atom a, .atom b => atomLtSame a b
      | .list _ xs, .list _ ys => ltListBy (ltF env n) xs ys
      | .tuple xs, .tuple ys => pySeqLt xs ys
      | .dict _ xs, .dict _ ys => ltItemsBy env (ltF env n) (sortItems env xs) (sortItems env ys)
      | .obj c xs, .obj d ys =>
          if c = d then
            (if env.dyn c then ltItemsBy env (ltF env n) (sortItems env xs) (sortItems env ys)
             else ltItemsBy env (ltF env n) xs ys)
          else .error .recursionError
      | _, _ => .error .typeError

mutual
  def depth : Val → Nat
    | .atom _ => 0
    | .list _ xs => depthList xs + 1
    | .tuple xs => depthList xs + 1
    | .dict _ kvs => depthItems kvs + 1
    | .obj _ kvs => depthItems kvs + 1
  def depthList : List Val → Nat
    | [] => 0
    | x :: xs => max (depth x) (depthList xs)
  def depthItems : List (Atom × Val) → Nat
    | [] => 0
    | (_, v) :: rest => max (depth v) (depthItems rest)
end

/-- `pg.lt`, transcribed literally (the bound is never reached). -/
def ltDirect (env : Env) (x y : Val) : Except Err Bool := ltF env (depth x + 1) x y

/-! ### Hashing -/

inductive ClsTag | list | dict | user (c : Nat)
  deriving DecidableEq, Repr

/-- The term handed to Python's `hash`. `reh t`: the *integer* `hash(t)` is itself an element of a
hashed tuple (and is hashed again as an `int`); `fset`: a `frozenset` of the elements. -/
inductive HTerm
  | atom (a : Atom)
  | cls (c : ClsTag)
  | reh (t : HTerm)
  | tup (xs : List HTerm)
  | fset (xs : List HTerm)
  deriving Repr

def isMissing : Val → Bool
  | .atom .missing => true
  | _ => false

mutual
  /-- `pg.hash` (`base.sym_hash`, after fix F16): plain lists / dicts hash like the symbolic
  containers they are `eq` to, tuples element-wise through `sym_hash`. Every tuple handed to
  `sym_hash` is hashed as `hash(tuple([sym_hash(e) for e in x]))`, hence the `reh` layers. The
  result type stays `Except` (no branch raises any more). -/
  def hashTerm : Val → Except Err HTerm
    | .atom a => .ok (.atom a)
    | .list _ xs =>
        match hashList xs with
        | .ok ts => .ok (.tup [.reh (.cls .list), .reh (.tup ((ts.map .reh).map .reh))])
        | .error e => .error e
    | .tuple xs =>
        match hashList xs with
        | .ok ts => .ok (.tup (ts.map .reh))
        | .error e => .error e
    | .dict _ kvs =>
        match hashItems kvs with
        | .ok ts => .ok (.tup [.reh (.cls .dict), .reh (.fset ts)])
        | .error e => .error e
    | .obj c kvs =>
        match hashItems kvs with
        | .ok ts => .ok (.tup [.reh (.cls (.user c)),
                               .reh (.reh (.tup [.reh (.cls .dict), .reh (.fset ts)]))])
        | .error e => .error e
  def hashList : List Val → Except Err (List HTerm)
    | [] => .ok []
    | x :: xs =>
        match hashTerm x, hashList xs with
        | .ok t, .ok ts => .ok (t :: ts)
        | .error e, _ => .error e
        | _, .error e => .error e
  /-- `(k, sym_hash(v)) for k, v in items if v != MISSING_VALUE` (each pair hashed natively). -/
  def hashItems : List (Atom × Val) → Except Err (List HTerm)
    | [] => .ok []
    | (k, v) :: rest =>
        match hashTerm v, hashItems rest with
        | .ok t, .ok ts => .ok (if isMissing v then ts else .tup [.atom k, .reh t] :: ts)
        | .error e, _ => .error e
        | _, .error e => .error e
end

/-- Python's `hash` as a parameter. -/
structure PyHash where
  atom : Atom → Int
  cls : ClsTag → Int
  int : Int → Int
  tuple : List Int → Int
  fset : List Int → Int

mutual
  def evalHash (H : PyHash) : HTerm → Int
    | .atom a => H.atom a
    | .cls c => H.cls c
    | .reh t => H.int (evalHash H t)
    | .tup xs => H.tuple (evalHashList H xs)
    | .fset xs => H.fset (evalHashList H xs)
  def evalHashList (H : PyHash) : List HTerm → List Int
    | [] => []
    | t :: ts => evalHash H t :: evalHashList H ts
end

/-- `pg.hash(x)` as a number (or the exception it raises). -/
def symHash (H : PyHash) (x : Val) : Except Err Int :=
  match hashTerm x with
  | .ok t => .ok (evalHash H t)
  | .error e => .error e

/-! ### Operators of classes that opt into symbolic comparison

`Object.__eq__` / `__ne__` / `__hash__` (object.py) of an instance of a class with
`use_symbolic_comparison = True`: `return self.sym_eq(other)`, `not self.__eq__(other)`,
`return self.sym_hash()` — the very methods `pg.eq` / `pg.ne` / `pg.hash` dispatch to when the
left operand is an object. -/

/-- `x == y` for `x = cls(**kvs)` of an opted-in class. -/
def opEq (c : Nat) (kvs : List (Atom × Val)) (y : Val) : Bool := eq (.obj c kvs) y
/-- `x != y`. -/
def opNe (c : Nat) (kvs : List (Atom × Val)) (y : Val) : Bool := !opEq c kvs y
/-- `hash(x)`. -/
def opHash (H : PyHash) (c : Nat) (kvs : List (Atom × Val)) : Except Err Int := symHash H (.obj c kvs)

end Pg.C06
