/-
  C10 — model of traversal / lookup / flatten / canonicalize on *plain* nested values
  (`dict` with `str`/`int` keys, `list`, leaves `None` / `int` / `str`).

  VALUES ARE TREES. A Python value in which the same dict / list object sits at several positions
  (aliasing, no cycles) is modelled by its unfolding: the shared object appears as equal subtrees.
  All functions below are insensitive to aliasing in the code (they never mutate their input and
  never compare containers by identity), which the correspondence run checks on aliased inputs;
  node identity (`p.query(root) is node`) is checked by the oracle on the real objects.

  * `visitsPre` / `visitsPost`   `utils.traverse` (hierarchical.py:22-85) and `pg.traverse`
                                 (symbolic/base.py:1337-1432) — same walk on plain values;
  * `query`                      `KeyPath._query` (value_location.py:334-383) on plain values,
                                 including its quirks (`key in src` on lists / strings);
  * `queryLeaves`                `pg.query(x, where=is-leaf)`: results keyed by the printed path;
  * `flatten`                    hierarchical.py:170-269;
  * `canonicalize`               hierarchical.py:304-442 with `merge_tree` (591-636),
                                 `_merge_dict_into_dict` (526-567), `_merge_dict_into_list`
                                 (570-588), `try_listify_dict_with_int_keys` (272-301) and the
                                 bottom-up `transform` (88-167), `sparse_list_as_dict=True`.
-/
import PgModel.KeyPath
namespace Pg.C10

/-- Leaves. `missing` is a `pg.MISSING_VALUE` placeholder (a plain `MISSING_VALUE` stored in a dict /
list, or the unbound field of a partial `pg.Object`): a node that *exists* and holds "no value yet".
`bool` are `True` / `False` (falsy-but-present leaves such as `False`, `0`, `''`, `None`, `[]`, `{}`
are ordinary nodes).

`canonicalize` is modelled for values *without* `missing` leaves only: the code treats a missing
value as "absent" there (`merge_tree` overwrites it, `transform` deletes it), which this model does
not mirror; `canonical` therefore excludes `missing` leaves and the harness never sends them to
flatten / canonicalize. Traversal, lookup, `exists`, `pg.query` and `flatten` treat it as a leaf. -/
inductive Atom where
  | none | int (z : Int) | str (s : List Char) | missing | bool (b : Bool)
  deriving DecidableEq, Repr

inductive Val where
  | leaf (a : Atom)
  | dict (items : List (Key × Val))
  | list (items : List Val)
  deriving Repr, Inhabited

abbrev Items := List (Key × Val)

namespace Val

mutual
  def beq : Val → Val → Bool
    | .leaf a, .leaf b => a == b
    | .dict a, .dict b => beqItems a b
    | .list a, .list b => beqList a b
    | _, _ => false
  def beqItems : Items → Items → Bool
    | [], [] => true
    | (k, x) :: xs, (l, y) :: ys => k == l && beq x y && beqItems xs ys
    | _, _ => false
  def beqList : List Val → List Val → Bool
    | [], [] => true
    | x :: xs, y :: ys => beq x y && beqList xs ys
    | _, _ => false
end

instance : BEq Val := ⟨beq⟩

/-! ### Traversal -/

mutual
  /-- Pre-order visit log: `(path, node)` in calling order of `preorder_visitor_fn`. -/
  def visitsPre : Val → Path → List (Path × Val)
    | .leaf a, p => [(p, .leaf a)]
    | .dict items, p => (p, .dict items) :: visitsPreItems items p
    | .list items, p => (p, .list items) :: visitsPreList items p 0
  def visitsPreItems : Items → Path → List (Path × Val)
    | [], _ => []
    | (k, v) :: rest, p => visitsPre v (p ++ [k]) ++ visitsPreItems rest p
  def visitsPreList : List Val → Path → Nat → List (Path × Val)
    | [], _, _ => []
    | v :: rest, p, i => visitsPre v (p ++ [.i i]) ++ visitsPreList rest p (i + 1)
end

mutual
  /-- Post-order visit log. -/
  def visitsPost : Val → Path → List (Path × Val)
    | .leaf a, p => [(p, .leaf a)]
    | .dict items, p => visitsPostItems items p ++ [(p, .dict items)]
    | .list items, p => visitsPostList items p 0 ++ [(p, .list items)]
  def visitsPostItems : Items → Path → List (Path × Val)
    | [], _ => []
    | (k, v) :: rest, p => visitsPost v (p ++ [k]) ++ visitsPostItems rest p
  def visitsPostList : List Val → Path → Nat → List (Path × Val)
    | [], _, _ => []
    | v :: rest, p, i => visitsPost v (p ++ [.i i]) ++ visitsPostList rest p (i + 1)
end

/-! ### Lookup -/

/-- Python sequence indexing with a (possibly negative) int that is already `< len`. -/
def pyIndex {α : Type} (xs : List α) (z : Int) : Option α :=
  if 0 ≤ z then xs[z.toNat]? else
  if 0 ≤ z + xs.length then xs[(z + xs.length).toNat]? else none

/-- `t in s` for strings (substring test). -/
def isInfix : List Char → List Char → Bool
  | t, [] => t.isEmpty
  | t, c :: cs => t.isPrefixOf (c :: cs) || isInfix t cs

/-- `KeyPath._query` on plain values. -/
def query : Val → Path → Except Err Val
  | v, [] => .ok v
  | .dict items, k :: ks =>
    -- a `dict` is looked up by key whatever the key type (fix C10-F36; before the fix an int
    -- key was first tested with `key < len(src)` as if `src` were a sequence)
    match Assoc.lookup items k with
    | some c => query c ks
    | none => .error .key
  | .list items, k :: ks =>
    match k with
    | .i z =>
      if z < items.length then
        match pyIndex items z with
        | some c => query c ks
        | none => .error .index
      else .error .key
    | .s s => if items.any (fun x => x == .leaf (.str s)) then .error .type else .error .key
  | .leaf (.str s), k :: ks =>
    match k with
    | .i z =>
      if z < s.length then
        match pyIndex s z with
        | some c => query (.leaf (.str [c])) ks
        | none => .error .index
      else .error .key
    | .s t => if isInfix t s then .error .type else .error .key
  | .leaf _, _ :: _ => .error .key

/-- `KeyPath.exists` (value_location.py: `try: self.query(src); return True; except KeyError: return
False`): only KeyError is caught — a present node holding a missing-value placeholder or any falsy
value exists. -/
def existsM (v : Val) (p : Path) : Except Err Bool :=
  match query v p with
  | .ok _ => .ok true
  | .error .key => .ok false
  | .error e => .error e

/-- `KeyPath.get(src, default)`: `none` stands for the default. -/
def getM (v : Val) (p : Path) : Except Err (Option Val) :=
  match query v p with
  | .ok r => .ok (some r)
  | .error .key => .ok none
  | .error e => .error e

def isLeaf : Val → Bool
  | .leaf _ => true
  | _ => false

/-- `pg.query(x, where=<is leaf>)`: a dict keyed by `str(path)` (later equal keys overwrite). -/
def queryLeaves (v : Val) : Items :=
  ((visitsPre v []).filter (fun pv => isLeaf pv.2)).foldl
    (fun acc pv => Assoc.set acc (.s (pathStr pv.1)) pv.2) []

/-- The rebinder dictionary `get_rebind_dict(fn, x)` (symbolic/base.py) for the rebinder that
replaces every int leaf `n` by `n + 1` and keeps everything else: keyed by `str(path)`. -/
def intBump : Path × Val → Option (Path × Val)
  | (p, .leaf (.int z)) => some (p, .leaf (.int (z + 1)))
  | _ => none

def rebindInts (v : Val) : Items :=
  ((visitsPre v []).filterMap intBump).foldl
    (fun acc pv => Assoc.set acc (.s (pathStr pv.1)) pv.2) []

/-! ### flatten -/

/-- `not isinstance(value, (dict, list)) or not value`. -/
def isLeafLike : Val → Bool
  | .leaf _ => true
  | .dict items => items.isEmpty
  | .list items => items.isEmpty

/-- `flatten(src, flatten_complex_keys)`: the result dict has string keys. -/
def flatten (fck : Bool) (v : Val) : Val :=
  if isLeafLike v then v
  else .dict (((visitsPost v []).filter (fun pv => !pv.1.isEmpty && isLeafLike pv.2)).foldl
    (fun acc pv => Assoc.set acc (.s (pathStrPc (!fck) pv.1)) pv.2) [])

/-! ### canonicalize -/

def insertInt (z : Int) : List Int → List Int
  | [] => [z]
  | y :: ys => if z ≤ y then z :: y :: ys else y :: insertInt z ys

def sortInts (xs : List Int) : List Int := xs.foldr insertInt []

def intKey? : Key → Option Int
  | .i z => some z
  | .s _ => none

/-- the int keys of a dict with their values, if *all* keys are ints. -/
def intItems (items : Items) : Option (List (Int × Val)) :=
  items.mapM (fun kv => (intKey? kv.1).map (fun z => (z, kv.2)))

/-- `_merge_dict_into_list` (570-588): for the sorted int keys, overwrite below the *old* size,
append otherwise. -/
def mergeIntoList (oldSize : Nat) : List Val → List (Int × Val) → Except Err (List Val)
  | dest, [] => .ok dest
  | dest, (z, v) :: rest =>
    if z < oldSize then
      let idx : Option Nat :=
        if 0 ≤ z then some z.toNat
        else if 0 ≤ z + dest.length then some (z + dest.length).toNat else none
      match idx with
      | some n => if n < dest.length then mergeIntoList oldSize (dest.set n v) rest else .error .index
      | none => .error .index
    else mergeIntoList oldSize (dest ++ [v]) rest

mutual
  /-- `merge_tree(dest, src, _merge_fn)` where `_merge_fn` raises KeyError on two present values. -/
  def mergeTree : Val → Val → Except Err Val
    | .dict d, .dict s =>
      match mergeDD d s with
      | .ok r => .ok (.dict r)
      | .error e => .error e
    | .list l, .dict s =>
      match intItems s with
      | none => .error .key
      | some zs =>
        let sorted := sortInts (zs.map (·.1))
        match mergeIntoList l.length l (sorted.filterMap (fun z => (zs.find? (fun p => p.1 == z)))) with
        | .ok r => .ok (.list r)
        | .error e => .error e
    | _, _ => .error .key
  /-- second loop of `_merge_dict_into_dict` (546-564). -/
  def mergeDD : Items → Items → Except Err Items
    | d, [] => .ok d
    | d, (k, v) :: rest =>
      match Assoc.lookup d k with
      | none => mergeDD (Assoc.set d k v) rest
      | some old =>
        match mergeTree old v with
        | .ok nv => mergeDD (Assoc.set d k nv) rest
        | .error e => .error e
end

/-- The condition under which `try_listify_dict_with_int_keys(src, convert_when_sparse=False)`
converts: non-empty, all keys ints, `min_key == 0 and max_key == len(src) - 1`. -/
def isListifiable (items : Items) : Bool :=
  match intItems items with
  | none => false
  | some zs =>
    !zs.isEmpty &&
      (let sorted := sortInts (zs.map (·.1))
       sorted.head? == some 0 && sorted.getLast? == some (Int.ofNat zs.length - 1))

/-- `[src[key] for key in sorted(src.keys())]`. -/
def listifiedValues (zs : List (Int × Val)) : List Val :=
  (sortInts (zs.map (·.1))).filterMap (fun z => (zs.find? (fun p => p.1 == z)).map (·.2))

/-- `try_listify_dict_with_int_keys(src, convert_when_sparse=False)`. -/
def tryListify (items : Items) : Val :=
  if isListifiable items then
    match intItems items with
    | some zs => .list (listifiedValues zs)
    | none => .dict items
  else .dict items

mutual
  /-- `transform(canonical_dict, _listify_dict_equivalent)`: bottom-up. -/
  def listifyAll : Val → Val
    | .leaf a => .leaf a
    | .list items => .list (listifyList items)
    | .dict items => tryListify (listifyItems items)
  def listifyItems : Items → Items
    | [] => []
    | (k, v) :: rest => (k, listifyAll v) :: listifyItems rest
  def listifyList : List Val → List Val
    | [] => []
    | v :: rest => listifyAll v :: listifyList rest
end

/-- The nested one-key dicts `sub_root` built for a multi-key path (420-426). -/
def nest : Path → Val → Val
  | [], v => v
  | k :: ks, v => .dict [(k, nest ks v)]

mutual
  /-- `canonicalize(src, sparse_list_as_dict=True)`. -/
  def canonicalize (dc : DigitClass) : Val → Except Err Val
    | .leaf a => .ok (.leaf a)
    | .list items =>
      match canonList dc items with
      | .ok r => .ok (.list r)
      | .error e => .error e
    | .dict items =>
      match canonItems dc items [] with
      | .ok cd => .ok (listifyAll (.dict cd))
      | .error e => .error e
  def canonList (dc : DigitClass) : List Val → Except Err (List Val)
    | [] => .ok []
    | v :: rest =>
      match canonicalize dc v with
      | .ok v' =>
        match canonList dc rest with
        | .ok r => .ok (v' :: r)
        | .error e => .error e
      | .error e => .error e
  /-- the loop over `src.items()` (399-428); `acc` is `canonical_dict`. -/
  def canonItems (dc : DigitClass) : Items → Items → Except Err Items
    | [], acc => .ok acc
    | (k, v) :: rest, acc =>
      let path : Except Err Path := match k with
        | .s s => parse dc s
        | .i z => .ok [.i z]
      match path with
      | .error e => .error e
      | .ok [] => .error .key                       -- 'Key must not be empty'
      | .ok [k1] =>
        match canonicalize dc v with
        | .error e => .error e
        | .ok nv =>
          match Assoc.lookup acc k1 with
          | none => canonItems dc rest (Assoc.set acc k1 nv)
          | some old =>
            match mergeTree old nv with
            | .ok m => canonItems dc rest (Assoc.set acc k1 m)
            | .error e => .error e
      | .ok (k1 :: k2 :: more) =>
        match canonicalize dc v with
        | .error e => .error e
        | .ok nv =>
          match mergeTree (.dict acc) (nest (k1 :: k2 :: more) nv) with
          | .ok (.dict acc') => canonItems dc rest acc'
          | .ok _ => .error .key                    -- unreachable
          | .error e => .error e
end

end Val
end Pg.C10
