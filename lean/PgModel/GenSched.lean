/-
  C15 — scheduled hyper-parameters with internal state: `pyglove/ext/scalars/step_wise.py` `StepWise`.
  The operators of an Evolution evaluate their scheduled parameters with the `step` of the current call
  (`scalars.scalar_value(param, step)`); an instance recovered from its history creates fresh schedule
  objects and first evaluates them at the current step.  Both variants of `StepWise.call` are modelled:
  the pinned one keeps a phase counter that advances only when it is called with exactly the last step of
  the current phase; the repaired one (/repo df4963a) is a function of `step`.
-/
namespace Pg.C15.Sched

/-- value of a phase as a function of the step within the phase: a constant or `base.STEP` -/
inductive PV where
  | const (c : Int)
  | step
  deriving Repr, DecidableEq

def PV.eval : PV → Int → Int
  | .const c, _ => c
  | .step, s => s

/-- `_phase_ending_steps` for integer phase lengths: cumulative length − 1 -/
def endings : List (Nat × PV) → Int → List Int
  | [], _ => []
  | (len, _) :: rest, acc => (acc + len - 1) :: endings rest (acc + len)

structure State where
  phase : Nat
  last : Option Int
  deriving Repr, DecidableEq

def init : State := ⟨0, none⟩

/-- the pinned, stateful `StepWise.call` -/
def callStateful (phases : List (Nat × PV)) (st : State) (step : Nat) : Option Int × State :=
  let ends := endings phases 0
  match phases[st.phase]? with
  | none => (st.last, st)
  | some (_, pv) =>
    let phaseStep : Int := if st.phase > 0 then (step : Int) - (ends.getD (st.phase - 1) 0 + 1) else step
    let v := pv.eval phaseStep
    let phase' := if (step : Int) = ends.getD st.phase 0 then st.phase + 1 else st.phase
    (some v, ⟨phase', some v⟩)

/-- the repaired `StepWise.call` (/repo df4963a): a function of the step —
`step = max(0, min(step, ending_steps[-1]))`, then the first phase whose ending step is not exceeded
(the last phase at the latest). `none`: no phases (IndexError in the code). -/
def findPhase (ends : List Int) (step : Int) : Nat → Nat → Nat
  | 0, phase => phase
  | fuel + 1, phase =>
    if phase + 1 < ends.length ∧ step > ends.getD phase 0 then findPhase ends step fuel (phase + 1) else phase

def callStateless (phases : List (Nat × PV)) (step : Nat) : Option Int :=
  let ends := endings phases 0
  match ends.getLast?, phases with
  | some lastEnd, _ :: _ =>
    let s : Int := max 0 (min (step : Int) lastEnd)
    let phase := findPhase ends s ends.length 0
    let start : Int := if phase > 0 then ends.getD (phase - 1) 0 + 1 else 0
    (phases[phase]?).map fun p => p.2.eval (s - start)
  | _, _ => none

/-- the values an instance sees when it is called at the given steps, in order -/
def run (stateful : Bool) (phases : List (Nat × PV)) : State → List Nat → List (Option Int)
  | _, [] => []
  | st, s :: rest =>
    if stateful then
      let (v, st') := callStateful phases st s
      v :: run stateful phases st' rest
    else callStateless phases s :: run stateful phases st rest

end Pg.C15.Sched
