/-
  C05 — stand-alone typed containers (a `pg.Dict` / `pg.List` bound to a value spec but not held
  by an object): what `sym_jsonify` emits for them and what their schema-backed writes do.
  Anchors: symbolic/dict.py sym_jsonify 826-872 (schema branch: frozen fields hidden, MISSING
  skipped — the same code path as an object's attribute container), `__setitem__` → schema
  lookup (KeyError on an unknown key) + `apply`; symbolic/list.py append (max_size, element spec).
  The value spec itself is *not* part of the JSON (findings F11d / F11e).
-/
import PgModel.C05Codec
namespace Pg.C05

structure TypedDict where
  fields : List Field
  items : List (Str × Tree)        -- schema order, including frozen fields and MISSING values
  deriving Inhabited

/-- `pg.to_json(d)` for a typed dict (dict.py:836-860). -/
def TypedDict.toJson (env : ClassEnv) (d : TypedDict) : JV :=
  .obj (toJsonA env (frozenNames d.fields) d.items)

/-- The key → value content `pg.eq` / `sym_hash` look at. -/
def TypedDict.content (d : TypedDict) : List (Key × Tree) := d.items.map (fun p => (Key.s p.1, p.2))

/-- `d[k] = v` on the typed dict: unknown key → KeyError, else `apply` of the field's spec. -/
def TypedDict.set (d : TypedDict) (k : Str) (v : Tree) : Except Err TypedDict :=
  match d.fields.find? (fun f => f.name == k) with
  | none => .error .key
  | some f =>
    match applyField f v with
    | .error e => .error e
    | .ok w => .ok { d with items := d.items.map (fun p => if p.1 == k then (p.1, w) else p) }

structure TypedList where
  elem : Kind
  maxSize : Option Nat
  items : List Tree
  deriving Inhabited

def TypedList.toJson (env : ClassEnv) (l : TypedList) : JV := .arr (toJsonL env l.items)

/-- `l.append(v)` on the typed list. -/
def TypedList.append (l : TypedList) (v : Tree) : Except Err TypedList :=
  if (match l.maxSize with
      | some m => decide (l.items.length ≥ m)
      | none => false) then .error .value
  else match v with
    | .leaf .none =>                                  -- "Value cannot be None" unless the element is Any
      if l.elem = .any then .ok { l with items := l.items ++ [v] } else .error .value
    | _ =>
      if accepts l.elem v then .ok { l with items := l.items ++ [v] }
      else .error .type

end Pg.C05
