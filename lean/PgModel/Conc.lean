/-
  C16 — interleaving model of concurrent sampling with the in-memory backend.

  Mirrors pyglove/core/tuning/local_backend.py (`_InMemoryBackend.__init__` get-or-create of the
  named study and set-up of the shared algorithm, `next`, `_InMemoryResult.create_trial`,
  `_complete_trial`, `_InMemoryFeedback._add_measurement / done / skip / end_loop`), the loop of
  sample.py, and the counters of geno/dna_generator.py (`propose`, `feedback`).

  Global state: registry (name → study), the studies ever created, the shared algorithm
  (counters + ghost log of fed-back trial ids), the workers (program counter + locals).
  `exec cfg s w a` performs action `a` of worker `w`: ONE ATOMIC ACTION PER MAXIMAL LOCK-PROTECTED
  REGION AND ONE PER UNPROTECTED SHARED ACCESS. Which regions are protected is the record
  `cfg : LockCfg`, generated from the source by translate/t_c16.py (T-LOCK). With a flag `true`
  only the region's atomic action is enabled; with the flag `false` only its pieces (the individual
  reads and writes, `x += 1` as read-then-write) are enabled.

  The same `exec` is (a) what the theorems of PgProps/C16.lean quantify over and (b) what the
  driver runs to validate the event logs of real scheduled runs (trace validation).
-/
namespace Pg.C16

/-- T-LOCK facts: is the region executed under one lock hold? -/
structure LockCfg where
  getOrCreateAtomic : Bool        -- `name not in registry` test + register / fetch        (local_backend.py:300-305)
  algoSetupAtomic : Bool          -- `algorithm.dna_spec is None` test + `algorithm.setup`   (317-318)
  nextReuseAtomic : Bool          -- latest trial of the group + its status + create_trial   (377-379)
  createTrialAtomic : Bool        -- body of create_trial                                     (187-195)
  completeTrialAtomic : Bool      -- body of _complete_trial                                  (200-212)
  doneCheckAndSetAtomic : Bool    -- done: status test, transition, feedback, bookkeeping     (120-128)
  skipCheckAndSetAtomic : Bool    -- skip: status test, transition, bookkeeping               (133-138)
  addMeasurementAtomic : Bool     -- _add_measurement: status test + append                   (104-113)
  generatorCountersAtomic : Bool  -- `_num_feedbacks += 1` serialised (lexically or by every call chain)
  evolutionProposeAtomic : Bool   -- Evolution._propose touches its queue/population under its lock
  evolutionFeedbackAtomic : Bool  -- Evolution._feedback touches the population under its lock
  proposeBeforeBookkeeping : Bool -- create_trial calls dna_fn() (which may raise) before it touches any state
  deriving DecidableEq, Repr

def LockCfg.allAtomic (c : LockCfg) : Bool :=
  c.getOrCreateAtomic && c.algoSetupAtomic && c.nextReuseAtomic && c.createTrialAtomic &&
  c.completeTrialAtomic && c.doneCheckAndSetAtomic && c.skipCheckAndSetAtomic &&
  c.addMeasurementAtomic && c.generatorCountersAtomic && c.evolutionProposeAtomic &&
  c.evolutionFeedbackAtomic && c.proposeBeforeBookkeeping

structure Trial where
  id : Nat
  group : Nat
  completed : Bool := false        -- status: PENDING / COMPLETED
  infeasible : Bool := false
  meas : List Int := []            -- rewards of the measurements added so far
  final : Option Int := none       -- reward of final_measurement
  deriving DecidableEq, Repr

structure Study where
  trials : List Trial := []
  numPending : Int := 0            -- _num_trials_by_status['PENDING']
  numCompleted : Int := 0          -- _num_trials_by_status['COMPLETED']
  numInfeasible : Int := 0
  best : Option Nat := none        -- id of _best_trial
  latest : Nat → Option Nat := fun _ => none     -- _latest_trial_per_group
  active : Bool := true

def Study.new : Study := {}

structure Algo where
  isSetup : Bool := false
  numProposals : Nat := 0
  numFeedbacks : Nat := 0
  fedBack : List Nat := []         -- ghost: trial ids passed to algorithm.feedback, in order
  setups : Nat := 0                -- ghost: how often `setup` ran
  space : Option Nat := none       -- a finite proposer (Sweeping, generator): `_propose` raises
                                   -- StopIteration once `space` proposals have been made

/-- Program counter of a worker (a thread iterating `pg.sample(..., name=…, group=…)`). -/
inductive PC where
  | start                          -- before the backend constructor
  | gocAbsent | gocPresent         -- after the unprotected registry test
  | preSetup                       -- has a study; before the algorithm set-up test
  | setupDo                        -- saw `dna_spec is None` (unprotected)
  | loop                           -- top of `while True`, before reading is_active
  | next                           -- inside backend.next(), is_active was true
  | nextGot (o : Option Nat)       -- read latest trial of the group (unprotected)
  | create                         -- decided to call create_trial
  | ctNew | ctAppend (id : Nat) | ctPendR (id : Nat) | ctPendW (id : Nat) | ctLatest (id : Nat)
  | hold (t : Nat)                 -- user code holds the feedback object of trial t
  | amOk (t : Nat)                 -- passed the status test of _add_measurement
  | doneOk (t : Nat)               -- saw PENDING in done()
  | doneFin (t : Nat)              -- status set; before `final_measurement = measurements[-1]`
  | doneFb (t : Nat)               -- before the feedback call
  | doneFbW (t : Nat)              -- read _num_feedbacks (in `tmp`); before writing it back
  | doneCp (t : Nat)               -- before _complete_trial
  | skipOk (t : Nat)
  | cpComplW (t : Nat) | cpPendR (t : Nat) | cpPendW (t : Nat) | cpInf (t : Nat)
  | cpBestR (t : Nat) | cpBestW (t : Nat)
  | finished                       -- StopIteration by budget / end_loop: the generator returned
  | exhausted                      -- StopIteration raised by the proposer: the generator returned
  | crashed                        -- the proposer raised another exception: it left pg.sample
  deriving DecidableEq, Repr

structure Worker where
  group : Nat
  study : Nat := 0                 -- index into `State.studies`
  pc : PC := .start
  tmp : Int := 0                   -- value read by the first half of a split `+=`

structure State where
  maxTrials : Option Nat
  nWorkers : Nat
  registry : Option Nat := none    -- `_in_memory_results[name]`
  studies : List Study := []
  algo : Algo := {}
  workers : Nat → Worker

inductive Act where
  | gocAtomic | gocTest | gocRegister | gocFetch
  | setupAtomic | setupTest | setupDo
  | checkActive
  | nextAtomic | nextAtomicErr | nextLatest | nextStatus
  | createAtomic | createAtomicErr | ctCheck | ctNew | ctAppend | ctPendR | ctPendW | ctLatest
  | release
  | measure (r : Int) | amStatus | amAppend (r : Int)
  | doneAtomic | doneStatus | doneSet | doneFinal | fbAtomic | fbRead | fbWrite | fbSkip
  | skipAtomic | skipStatus | skipSet
  | completeAtomic | cpComplR | cpComplW | cpPendR | cpPendW | cpInf | cpBestR | cpBestW
  | endLoop
  | poll                           -- user code reads poll_result(name) (no shared write)
  deriving DecidableEq, Repr

def init (n : Nat) (groups : Nat → Nat) (maxTrials : Option Nat) (space : Option Nat := none) : State :=
  { maxTrials := maxTrials, nWorkers := n, algo := { space := space },
    workers := fun i => { group := groups i } }

/-- `_propose` of a finite proposer raises StopIteration. -/
def Algo.spaceExhausted (a : Algo) : Bool :=
  match a.space with
  | some sp => decide (sp ≤ a.numProposals)
  | none => false

/-! ### Pure bodies of the regions -/

def updTrial (k : Nat) (f : Trial → Trial) (l : List Trial) : List Trial :=
  l.map (fun t => if t.id = k then f t else t)

def findTrial (k : Nat) (l : List Trial) : Option Trial := l.find? (fun t => decide (t.id = k))

def Study.isPending (st : Study) (k : Nat) : Bool :=
  match findTrial k st.trials with
  | some t => !t.completed
  | none => false

def Study.rewardOf (st : Study) (k : Nat) : Option Int := (findTrial k st.trials).bind (·.final)

/-- `max_num_trials is not None and next_trial_id() > max_num_trials` -/
def exhausted (maxTrials : Option Nat) (st : Study) : Bool :=
  match maxTrials with
  | some m => decide (st.trials.length + 1 > m)
  | none => false

def newTrial (id g : Nat) : Trial := { id := id, group := g }

/-- Body of `create_trial` (187-195) after the max test. -/
def Study.create (st : Study) (g : Nat) : Study :=
  let id := st.trials.length + 1
  { st with trials := st.trials ++ [newTrial id g],
            numPending := st.numPending + 1,
            latest := fun g' => if g' = g then some id else st.latest g' }

/-- `best is None or best.final.reward < trial.final.reward` (206-210). -/
def Study.better (st : Study) (t : Trial) : Bool :=
  match st.best with
  | none => true
  | some b =>
    match st.rewardOf b, t.final with
    | some rb, some rt => decide (rb < rt)
    | _, _ => false

/-- Body of `_complete_trial` (200-212) for trial `k`. -/
def Study.complete (st : Study) (k : Nat) : Study :=
  match findTrial k st.trials with
  | none => st
  | some t =>
    let st1 := { st with numCompleted := st.numCompleted + 1, numPending := st.numPending - 1 }
    if t.infeasible then { st1 with numInfeasible := st1.numInfeasible + 1 }
    else if st1.better t then { st1 with best := some k } else st1

def lastInt : List Int → Option Int
  | [] => none
  | [x] => some x
  | _ :: xs => lastInt xs

/-- done(): `status = COMPLETED; final_measurement = measurements[-1]` (124-125). -/
def Study.markDone (st : Study) (k : Nat) : Study :=
  { st with trials := updTrial k (fun t => { t with completed := true, final := lastInt t.meas }) st.trials }

def Study.setCompleted (st : Study) (k : Nat) : Study :=
  { st with trials := updTrial k (fun t => { t with completed := true }) st.trials }

def Study.setFinal (st : Study) (k : Nat) : Study :=
  { st with trials := updTrial k (fun t => { t with final := lastInt t.meas }) st.trials }

def Study.isInfeasible (st : Study) (k : Nat) : Bool :=
  match findTrial k st.trials with
  | some t => t.infeasible
  | none => false

/-- skip(): `status = COMPLETED; infeasible = True; final_measurement = Measurement(reward=0)` (134-137). -/
def Study.markSkipped (st : Study) (k : Nat) : Study :=
  { st with trials := updTrial k (fun t => { t with completed := true, infeasible := true, final := some 0 }) st.trials }

def Study.addMeas (st : Study) (k : Nat) (r : Int) : Study :=
  { st with trials := updTrial k (fun t => { t with meas := t.meas ++ [r] }) st.trials }

def Study.hasMeas (st : Study) (k : Nat) : Bool :=
  match findTrial k st.trials with
  | some t => !t.meas.isEmpty
  | none => false

/-- `_InMemoryBackend._feedback` → `algorithm.feedback(dna, reward)` (356-360, dna_generator 114-132). -/
def Algo.feedback (a : Algo) (k : Nat) : Algo :=
  { a with fedBack := a.fedBack ++ [k], numFeedbacks := a.numFeedbacks + 1 }

def Algo.propose (a : Algo) : Algo := { a with numProposals := a.numProposals + 1 }

/-- `DNAGenerator.setup`: resets the counters (dna_generator.py:70-75). -/
def Algo.setup (a : Algo) : Algo :=
  { a with isSetup := true, numProposals := 0, numFeedbacks := 0, setups := a.setups + 1 }

/-! ### State plumbing -/

def State.setW (s : State) (w : Nat) (wk : Worker) : State :=
  { s with workers := fun j => if j = w then wk else s.workers j }

def State.setPc (s : State) (w : Nat) (pc : PC) : State :=
  s.setW w { s.workers w with pc := pc }

def State.studyOf (s : State) (w : Nat) : Option Study := s.studies[(s.workers w).study]?

def State.setStudy (s : State) (w : Nat) (st : Study) : State :=
  { s with studies := s.studies.set (s.workers w).study st }

/-! ### Regions as atomic actions -/

/-- 300-305 under one lock hold. -/
def gocAtomic (s : State) (w : Nat) : State :=
  match s.registry with
  | some i => s.setW w { s.workers w with study := i, pc := .preSetup }
  | none =>
    let i := s.studies.length
    { s with studies := s.studies ++ [Study.new], registry := some i }.setW w
      { s.workers w with study := i, pc := .preSetup }

/-- 317-318 under one lock hold. -/
def setupAtomic (s : State) (w : Nat) : State :=
  (if s.algo.isSetup then s else { s with algo := s.algo.setup }).setPc w .loop

/-- create_trial (184-196) under the study lock. `err`: the proposer raises a transient exception
on this call. `early`: the source does bookkeeping before calling `dna_fn()` (flag
`proposeBeforeBookkeeping` false) — then a raising proposer leaves `PENDING += 1` behind. -/
def createAtomic (s : State) (w : Nat) (st : Study) (err early : Bool) : State :=
  if exhausted s.maxTrials st then s.setPc w .finished
  else if s.algo.spaceExhausted || err then
    (if early then s.setStudy w { st with numPending := st.numPending + 1 } else s).setPc w
      (if s.algo.spaceExhausted then .exhausted else .crashed)
  else
    let id := st.trials.length + 1
    ({ s with algo := s.algo.propose }.setStudy w (st.create (s.workers w).group)).setPc w (.hold id)

/-- 377-379 under one hold of the study lock. -/
def nextAtomic (s : State) (w : Nat) (st : Study) (err early : Bool) : State :=
  match st.latest (s.workers w).group with
  | some t => if st.isPending t then s.setPc w (.hold t) else createAtomic s w st err early
  | none => createAtomic s w st err early

/-- _add_measurement (104-113) under the study lock. -/
def measureAtomic (s : State) (w : Nat) (st : Study) (t : Nat) (r : Int) : State :=
  if st.isPending t then s.setStudy w (st.addMeas t r) else s     -- else: RaceConditionError

/-- done (120-128) under the study lock. -/
def doneAtomic (s : State) (w : Nat) (st : Study) (t : Nat) : State :=
  if st.isPending t then
    if st.hasMeas t then
      { s with algo := s.algo.feedback t }.setStudy w ((st.markDone t).complete t)
    else s                                                         -- ValueError
  else s

/-- skip (133-138) under the study lock. -/
def skipAtomic (s : State) (w : Nat) (st : Study) (t : Nat) : State :=
  if st.isPending t then s.setStudy w ((st.markSkipped t).complete t) else s

/-! ### The step function -/

def exec (cfg : LockCfg) (s : State) (w : Nat) (a : Act) : Option State :=
  if w < s.nWorkers then
    let wk := s.workers w
    match a with
    -- backend constructor --------------------------------------------------------------
    | .gocAtomic =>
      if cfg.getOrCreateAtomic && wk.pc == .start then some (gocAtomic s w) else none
    | .gocTest =>
      if !cfg.getOrCreateAtomic && wk.pc == .start then
        some (s.setPc w (if s.registry.isSome then .gocPresent else .gocAbsent))
      else none
    | .gocRegister =>
      if !cfg.getOrCreateAtomic && wk.pc == .gocAbsent then
        let i := s.studies.length
        some ({ s with studies := s.studies ++ [Study.new], registry := some i }.setW w
          { wk with study := i, pc := .preSetup })
      else none
    | .gocFetch =>
      if !cfg.getOrCreateAtomic && wk.pc == .gocPresent then
        match s.registry with
        | some i => some (s.setW w { wk with study := i, pc := .preSetup })
        | none => none
      else none
    | .setupAtomic =>
      if cfg.algoSetupAtomic && wk.pc == .preSetup then some (setupAtomic s w) else none
    | .setupTest =>
      if !cfg.algoSetupAtomic && wk.pc == .preSetup then
        some (s.setPc w (if s.algo.isSetup then .loop else .setupDo))
      else none
    | .setupDo =>
      if !cfg.algoSetupAtomic && wk.pc == .setupDo then
        some ({ s with algo := s.algo.setup }.setPc w .loop)
      else none
    -- backend.next() -------------------------------------------------------------------
    | .checkActive =>
      if wk.pc == .loop then
        match s.studyOf w with
        | some st => some (s.setPc w (if st.active then .next else .finished))
        | none => none
      else none
    | .nextAtomic =>
      if cfg.nextReuseAtomic && cfg.createTrialAtomic && wk.pc == .next then
        (s.studyOf w).map (fun st => nextAtomic s w st false (!cfg.proposeBeforeBookkeeping))
      else none
    | .nextAtomicErr =>
      if cfg.nextReuseAtomic && cfg.createTrialAtomic && wk.pc == .next then
        (s.studyOf w).map (fun st => nextAtomic s w st true (!cfg.proposeBeforeBookkeeping))
      else none
    | .nextLatest =>
      if !cfg.nextReuseAtomic && wk.pc == .next then
        (s.studyOf w).map (fun st => s.setPc w (.nextGot (st.latest wk.group)))
      else none
    | .nextStatus =>
      if !cfg.nextReuseAtomic then
        match wk.pc, s.studyOf w with
        | .nextGot (some t), some st => some (s.setPc w (if st.isPending t then .hold t else .create))
        | .nextGot none, some _ => some (s.setPc w .create)
        | _, _ => none
      else none
    | .createAtomic =>
      if !cfg.nextReuseAtomic && cfg.createTrialAtomic && wk.pc == .create then
        (s.studyOf w).map (fun st => createAtomic s w st false (!cfg.proposeBeforeBookkeeping))
      else none
    | .createAtomicErr =>
      if !cfg.nextReuseAtomic && cfg.createTrialAtomic && wk.pc == .create then
        (s.studyOf w).map (fun st => createAtomic s w st true (!cfg.proposeBeforeBookkeeping))
      else none
    | .ctCheck =>
      if !cfg.createTrialAtomic && (wk.pc == .create || (cfg.nextReuseAtomic && wk.pc == .next)) then
        (s.studyOf w).map (fun st => s.setPc w (if exhausted s.maxTrials st then .finished else .ctNew))
      else none
    | .ctNew =>
      if !cfg.createTrialAtomic && wk.pc == .ctNew then
        (s.studyOf w).map (fun st =>
          if s.algo.spaceExhausted then s.setPc w .exhausted
          else { s with algo := s.algo.propose }.setPc w (.ctAppend (st.trials.length + 1)))
      else none
    | .ctAppend =>
      if !cfg.createTrialAtomic then
        match wk.pc, s.studyOf w with
        | .ctAppend id, some st =>
          some ((s.setStudy w { st with trials := st.trials ++ [newTrial id wk.group] }).setPc w (.ctPendR id))
        | _, _ => none
      else none
    | .ctPendR =>
      if !cfg.createTrialAtomic then
        match wk.pc, s.studyOf w with
        | .ctPendR id, some st => some (s.setW w { wk with pc := .ctPendW id, tmp := st.numPending })
        | _, _ => none
      else none
    | .ctPendW =>
      if !cfg.createTrialAtomic then
        match wk.pc, s.studyOf w with
        | .ctPendW id, some st => some ((s.setStudy w { st with numPending := wk.tmp + 1 }).setPc w (.ctLatest id))
        | _, _ => none
      else none
    | .ctLatest =>
      if !cfg.createTrialAtomic then
        match wk.pc, s.studyOf w with
        | .ctLatest id, some st =>
          some ((s.setStudy w { st with latest := fun g' => if g' = wk.group then some id else st.latest g' }).setPc w (.hold id))
        | _, _ => none
      else none
    -- user code on a held feedback object ----------------------------------------------
    | .poll => some s
    | .release =>
      match wk.pc with
      | .hold _ => some (s.setPc w .loop)
      | _ => none
    | .endLoop =>
      match wk.pc, s.studyOf w with
      | .hold _, some st => some (s.setStudy w { st with active := false })
      | _, _ => none
    | .measure r =>
      if cfg.addMeasurementAtomic then
        match wk.pc, s.studyOf w with
        | .hold t, some st => some (measureAtomic s w st t r)
        | _, _ => none
      else none
    | .amStatus =>
      if !cfg.addMeasurementAtomic then
        match wk.pc, s.studyOf w with
        | .hold t, some st => some (if st.isPending t then s.setPc w (.amOk t) else s)
        | _, _ => none
      else none
    | .amAppend r =>
      if !cfg.addMeasurementAtomic then
        match wk.pc, s.studyOf w with
        | .amOk t, some st => some ((s.setStudy w (st.addMeas t r)).setPc w (.hold t))
        | _, _ => none
      else none
    | .doneAtomic =>
      if cfg.doneCheckAndSetAtomic && cfg.completeTrialAtomic && cfg.generatorCountersAtomic then
        match wk.pc, s.studyOf w with
        | .hold t, some st => some (doneAtomic s w st t)
        | _, _ => none
      else none
    | .doneStatus =>
      if !cfg.doneCheckAndSetAtomic then
        match wk.pc, s.studyOf w with
        | .hold t, some st => some (if st.isPending t then s.setPc w (.doneOk t) else s)
        | _, _ => none
      else none
    | .doneSet =>
      if !cfg.doneCheckAndSetAtomic then
        match wk.pc, s.studyOf w with
        | .doneOk t, some st =>
          some (if st.hasMeas t then (s.setStudy w (st.setCompleted t)).setPc w (.doneFin t) else s.setPc w (.hold t))
        | _, _ => none
      else none
    | .doneFinal =>
      if !cfg.doneCheckAndSetAtomic then
        match wk.pc, s.studyOf w with
        | .doneFin t, some st => some ((s.setStudy w (st.setFinal t)).setPc w (.doneFb t))
        | _, _ => none
      else none
    | .fbSkip =>       -- get_reward_for_feedback returned None (trial meanwhile marked infeasible)
      if !cfg.doneCheckAndSetAtomic then
        match wk.pc, s.studyOf w with
        | .doneFb t, some st => if st.isInfeasible t then some (s.setPc w (.doneCp t)) else none
        | _, _ => none
      else none
    | .fbAtomic =>
      if cfg.generatorCountersAtomic then
        match wk.pc with
        | .doneFb t => some ({ s with algo := s.algo.feedback t }.setPc w (.doneCp t))
        | _ => none
      else none
    | .fbRead =>
      if !cfg.generatorCountersAtomic then
        match wk.pc with
        | .doneFb t =>
          some ({ s with algo := { s.algo with fedBack := s.algo.fedBack ++ [t] } }.setW w
            { wk with pc := .doneFbW t, tmp := s.algo.numFeedbacks })
        | _ => none
      else none
    | .fbWrite =>
      if !cfg.generatorCountersAtomic then
        match wk.pc with
        | .doneFbW t => some ({ s with algo := { s.algo with numFeedbacks := wk.tmp.toNat + 1 } }.setPc w (.doneCp t))
        | _ => none
      else none
    | .skipAtomic =>
      if cfg.skipCheckAndSetAtomic && cfg.completeTrialAtomic then
        match wk.pc, s.studyOf w with
        | .hold t, some st => some (skipAtomic s w st t)
        | _, _ => none
      else none
    | .skipStatus =>
      if !cfg.skipCheckAndSetAtomic then
        match wk.pc, s.studyOf w with
        | .hold t, some st => some (if st.isPending t then s.setPc w (.skipOk t) else s)
        | _, _ => none
      else none
    | .skipSet =>
      if !cfg.skipCheckAndSetAtomic then
        match wk.pc, s.studyOf w with
        | .skipOk t, some st => some ((s.setStudy w (st.markSkipped t)).setPc w (.doneCp t))
        | _, _ => none
      else none
    -- _complete_trial -------------------------------------------------------------------
    | .completeAtomic =>
      if cfg.completeTrialAtomic then
        match wk.pc, s.studyOf w with
        | .doneCp t, some st => some ((s.setStudy w (st.complete t)).setPc w (.hold t))
        | _, _ => none
      else none
    | .cpComplR =>
      if !cfg.completeTrialAtomic then
        match wk.pc, s.studyOf w with
        | .doneCp t, some st => some (s.setW w { wk with pc := .cpComplW t, tmp := st.numCompleted })
        | _, _ => none
      else none
    | .cpComplW =>
      if !cfg.completeTrialAtomic then
        match wk.pc, s.studyOf w with
        | .cpComplW t, some st => some ((s.setStudy w { st with numCompleted := wk.tmp + 1 }).setPc w (.cpPendR t))
        | _, _ => none
      else none
    | .cpPendR =>
      if !cfg.completeTrialAtomic then
        match wk.pc, s.studyOf w with
        | .cpPendR t, some st => some (s.setW w { wk with pc := .cpPendW t, tmp := st.numPending })
        | _, _ => none
      else none
    | .cpPendW =>
      if !cfg.completeTrialAtomic then
        match wk.pc, s.studyOf w with
        | .cpPendW t, some st => some ((s.setStudy w { st with numPending := wk.tmp - 1 }).setPc w (.cpInf t))
        | _, _ => none
      else none
    | .cpInf =>
      if !cfg.completeTrialAtomic then
        match wk.pc, s.studyOf w with
        | .cpInf t, some st =>
          match findTrial t st.trials with
          | some tr =>
            some (if tr.infeasible then
                    (s.setStudy w { st with numInfeasible := st.numInfeasible + 1 }).setPc w (.hold t)
                  else s.setPc w (.cpBestR t))
          | none => none
        | _, _ => none
      else none
    | .cpBestR =>
      if !cfg.completeTrialAtomic then
        match wk.pc, s.studyOf w with
        | .cpBestR t, some st =>
          match findTrial t st.trials with
          | some tr => some (s.setPc w (if st.better tr then .cpBestW t else .hold t))
          | none => none
        | _, _ => none
      else none
    | .cpBestW =>
      if !cfg.completeTrialAtomic then
        match wk.pc, s.studyOf w with
        | .cpBestW t, some st => some ((s.setStudy w { st with best := some t }).setPc w (.hold t))
        | _, _ => none
      else none
  else none

/-- One step of some worker. -/
def Step (cfg : LockCfg) (s s' : State) : Prop := ∃ w a, exec cfg s w a = some s'

inductive Reachable (cfg : LockCfg) (s0 : State) : State → Prop where
  | refl : Reachable cfg s0 s0
  | step {s s'} : Reachable cfg s0 s → Step cfg s s' → Reachable cfg s0 s'

/-- Runs a schedule (list of (worker, action)); `none` if some action is not enabled. -/
def run (cfg : LockCfg) (s : State) : List (Nat × Act) → Option State
  | [] => some s
  | (w, a) :: rest =>
    match exec cfg s w a with
    | some s' => run cfg s' rest
    | none => none

/-- Index of the first action that is not enabled (for diagnostics) and the last good state. -/
def runDiag (cfg : LockCfg) (s : State) (i : Nat) : List (Nat × Act) → State × Option Nat
  | [] => (s, none)
  | (w, a) :: rest =>
    match exec cfg s w a with
    | some s' => runDiag cfg s' (i + 1) rest
    | none => (s, some i)

/-! ### Executable check of the decidable core of the invariant (used by the driver on the final
state of every validated trace, and by the counterexample theorems) -/

/-- The fed-back predicate: COMPLETED, not skipped, id `k`. -/
def fedPred (k : Nat) (t : Trial) : Bool := t.completed && !t.infeasible && t.id == k

def leFinal (a b : Option Int) : Bool :=
  match a, b with
  | some x, some y => decide (x ≤ y)
  | _, _ => true

def checkBest (st : Study) : Bool :=
  match st.best with
  | none => st.trials.all fun t => !t.completed || t.infeasible
  | some b => st.trials.any fun t => t.id == b && t.completed && !t.infeasible &&
      st.trials.all fun t' => !(t'.completed && !t'.infeasible) || leFinal t'.final t.final

def checkStudy (maxT : Option Nat) (a : Algo) (st : Study) : Bool :=
  (st.trials.map (·.id) == List.range' 1 st.trials.length) &&
  (match maxT with
   | some m => decide (st.trials.length ≤ m)
   | none => true) &&
  (st.numPending == ((st.trials.countP fun t => !t.completed : Nat) : Int)) &&
  (st.numCompleted == ((st.trials.countP fun t => t.completed : Nat) : Int)) &&
  (st.numInfeasible == ((st.trials.countP fun t => t.infeasible : Nat) : Int)) &&
  (a.numFeedbacks == a.fedBack.length) &&
  (a.numProposals == st.trials.length) &&
  ((List.range (st.trials.length + 2)).all fun k => a.fedBack.count k == st.trials.countP (fedPred k)) &&
  (a.fedBack.all fun k => a.fedBack.count k == st.trials.countP (fedPred k)) &&
  (st.trials.all fun t => t.completed || st.latest t.group == some t.id) &&
  (match a.space with
   | some sp => decide (a.numProposals ≤ sp)
   | none => true) &&
  checkBest st

def checkState (s : State) : Bool :=
  decide (s.studies.length ≤ 1) && s.studies.all (checkStudy s.maxTrials s.algo)

end Pg.C16
