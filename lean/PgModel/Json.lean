/-
  Minimal JSON value type, parser and printer (no `import Lean`, so drivers link small).
  Used (a) as the wire format of the line protocol between the Python harness and the Lean
  drivers, and (b) as the JSON value type `J` of the C05 codec model.

  Numbers on the wire are integers only (floats are sent as exact rationals / tokens by the
  harness); the parser rejects fractions and exponents.
-/
namespace Pg

inductive J where
  | null
  | bool (b : Bool)
  | int (i : Int)
  | str (s : String)
  | arr (xs : List J)
  | obj (kvs : List (String × J))
  deriving Repr, Inhabited

namespace J

mutual
  def beq : J → J → Bool
    | .null, .null => true
    | .bool a, .bool b => a == b
    | .int a, .int b => a == b
    | .str a, .str b => a == b
    | .arr a, .arr b => beqList a b
    | .obj a, .obj b => beqKvs a b
    | _, _ => false
  def beqList : List J → List J → Bool
    | [], [] => true
    | x :: xs, y :: ys => beq x y && beqList xs ys
    | _, _ => false
  def beqKvs : List (String × J) → List (String × J) → Bool
    | [], [] => true
    | (k, x) :: xs, (l, y) :: ys => k == l && beq x y && beqKvs xs ys
    | _, _ => false
end

instance : BEq J := ⟨beq⟩

/-! ### Accessors (total; `none` / default on shape mismatch) -/

def get? (j : J) (k : String) : Option J :=
  match j with
  | .obj kvs => (kvs.find? (fun p => p.1 == k)).map (·.2)
  | _ => none

def getD (j : J) (k : String) (d : J) : J := (j.get? k).getD d

def asInt? : J → Option Int
  | .int i => some i
  | _ => none

def asNat? : J → Option Nat
  | .int i => if i ≥ 0 then some i.toNat else none
  | _ => none

def asStr? : J → Option String
  | .str s => some s
  | _ => none

def asBool? : J → Option Bool
  | .bool b => some b
  | _ => none

def asArr? : J → Option (List J)
  | .arr xs => some xs
  | _ => none

def asObj? : J → Option (List (String × J))
  | .obj kvs => some kvs
  | _ => none

def getInt? (j : J) (k : String) : Option Int := (j.get? k).bind asInt?
def getNat? (j : J) (k : String) : Option Nat := (j.get? k).bind asNat?
def getStr? (j : J) (k : String) : Option String := (j.get? k).bind asStr?
def getBool? (j : J) (k : String) : Option Bool := (j.get? k).bind asBool?
def getArr? (j : J) (k : String) : Option (List J) := (j.get? k).bind asArr?

def ofNat (n : Nat) : J := .int n
def ofStrs (xs : List String) : J := .arr (xs.map .str)
def ofInts (xs : List Int) : J := .arr (xs.map .int)
def ofNats (xs : List Nat) : J := .arr (xs.map (fun (n : Nat) => J.int (Int.ofNat n)))
def ofOptInt : Option Int → J
  | some i => .int i
  | none => .null

/-! ### Printer -/

private def hexDigit (n : Nat) : Char :=
  if n < 10 then Char.ofNat (48 + n) else Char.ofNat (87 + n)

private def escapeChar (c : Char) : String :=
  if c == '"' then "\\\""
  else if c == '\\' then "\\\\"
  else if c == '\n' then "\\n"
  else if c == '\r' then "\\r"
  else if c == '\t' then "\\t"
  else if c.toNat < 0x20 || c.toNat == 0x7f then
    let n := c.toNat
    "\\u00" ++ String.singleton (hexDigit (n / 16)) ++ String.singleton (hexDigit (n % 16))
  else String.singleton c

def escapeStr (s : String) : String :=
  s.foldl (fun acc c => acc ++ escapeChar c) ""

mutual
  partial def render : J → String
    | .null => "null"
    | .bool true => "true"
    | .bool false => "false"
    | .int i => toString i
    | .str s => "\"" ++ escapeStr s ++ "\""
    | .arr xs => "[" ++ ", ".intercalate (xs.map render) ++ "]"
    | .obj kvs => "{" ++ ", ".intercalate (kvs.map fun (k, v) => "\"" ++ escapeStr k ++ "\": " ++ render v) ++ "}"
end

/-! ### Parser (recursive descent over a char array; glue code, `partial`) -/

structure PState where
  s : Array Char
  pos : Nat

abbrev P := StateT PState (Except String)

private def peek : P (Option Char) := do
  let st ← get
  pure (st.s[st.pos]?)

private def advance : P Unit := modify fun st => { st with pos := st.pos + 1 }

private partial def skipWs : P Unit := do
  match (← peek) with
  | some c => if c == ' ' || c == '\n' || c == '\t' || c == '\r' then do advance; skipWs else pure ()
  | none => pure ()

private def expect (c : Char) : P Unit := do
  match (← peek) with
  | some d => if c == d then advance else throw s!"expected {c} got {d}"
  | none => throw s!"expected {c} got EOF"

private def hexVal (c : Char) : Option Nat :=
  if '0' ≤ c && c ≤ '9' then some (c.toNat - 48)
  else if 'a' ≤ c && c ≤ 'f' then some (c.toNat - 87)
  else if 'A' ≤ c && c ≤ 'F' then some (c.toNat - 55)
  else none

private def parseHex4 : P Nat := do
  let mut n := 0
  for _ in [0:4] do
    match (← peek) with
    | some c =>
      match hexVal c with
      | some v => n := n * 16 + v; advance
      | none => throw "bad hex"
    | none => throw "EOF in \\u"
  pure n

private partial def parseStrBody (acc : String) : P String := do
  match (← peek) with
  | none => throw "EOF in string"
  | some '"' => advance; pure acc
  | some '\\' =>
    advance
    match (← peek) with
    | some 'n' => advance; parseStrBody (acc.push '\n')
    | some 't' => advance; parseStrBody (acc.push '\t')
    | some 'r' => advance; parseStrBody (acc.push '\r')
    | some 'b' => advance; parseStrBody (acc.push (Char.ofNat 8))
    | some 'f' => advance; parseStrBody (acc.push (Char.ofNat 12))
    | some '/' => advance; parseStrBody (acc.push '/')
    | some '"' => advance; parseStrBody (acc.push '"')
    | some '\\' => advance; parseStrBody (acc.push '\\')
    | some 'u' =>
      advance
      let hi ← parseHex4
      if 0xD800 ≤ hi && hi < 0xDC00 then
        -- surrogate pair
        expect '\\'; expect 'u'
        let lo ← parseHex4
        let cp := 0x10000 + (hi - 0xD800) * 0x400 + (lo - 0xDC00)
        parseStrBody (acc.push (Char.ofNat cp))
      else
        parseStrBody (acc.push (Char.ofNat hi))
    | _ => throw "bad escape"
  | some c => advance; parseStrBody (acc.push c)

private partial def parseDigits (acc : Nat) (seen : Bool) : P (Nat × Bool) := do
  match (← peek) with
  | some c =>
    if '0' ≤ c && c ≤ '9' then do advance; parseDigits (acc * 10 + (c.toNat - 48)) true
    else pure (acc, seen)
  | none => pure (acc, seen)

private def parseLit (lit : String) (v : J) : P J := do
  for c in lit.toList do expect c
  pure v

mutual
  private partial def parseValue : P J := do
    skipWs
    match (← peek) with
    | none => throw "EOF"
    | some 'n' => parseLit "null" .null
    | some 't' => parseLit "true" (.bool true)
    | some 'f' => parseLit "false" (.bool false)
    | some '"' => advance; let s ← parseStrBody ""; pure (.str s)
    | some '[' => advance; skipWs
                  match (← peek) with
                  | some ']' => advance; pure (.arr [])
                  | _ => parseArr #[]
    | some '{' => advance; skipWs
                  match (← peek) with
                  | some '}' => advance; pure (.obj [])
                  | _ => parseObj #[]
    | some '-' => advance
                  let (n, seen) ← parseDigits 0 false
                  if !seen then throw "bad number"
                  pure (.int (-(n : Int)))
    | some c =>
      if '0' ≤ c && c ≤ '9' then do
        let (n, _) ← parseDigits 0 false
        match (← peek) with
        | some '.' => throw "fractions not supported on the wire"
        | some 'e' => throw "exponents not supported on the wire"
        | _ => pure (.int n)
      else throw s!"unexpected char {c}"
  private partial def parseArr (acc : Array J) : P J := do
    let v ← parseValue
    skipWs
    match (← peek) with
    | some ',' => advance; parseArr (acc.push v)
    | some ']' => advance; pure (.arr (acc.push v).toList)
    | _ => throw "expected , or ]"
  private partial def parseObj (acc : Array (String × J)) : P J := do
    skipWs
    expect '"'
    let k ← parseStrBody ""
    skipWs
    expect ':'
    let v ← parseValue
    skipWs
    match (← peek) with
    | some ',' => advance; parseObj (acc.push (k, v))
    | some '}' => advance; pure (.obj (acc.push (k, v)).toList)
    | _ => throw "expected , or }"
end

def parse (s : String) : Except String J :=
  match (parseValue.run { s := s.toList.toArray, pos := 0 }) with
  | .ok (v, _) => .ok v
  | .error e => .error e

end J

/-- The generic stdin → stdout loop of every driver: one JSON value per input line, one JSON
value per output line. A line that fails to parse yields `{"driver_error": ...}` (the harness
treats that as an infrastructure failure, never as a verdict). -/
partial def driverLoop (handle : J → J) : IO Unit := do
  let stdin ← IO.getStdin
  let stdout ← IO.getStdout
  let rec loop : IO Unit := do
    let line ← stdin.getLine
    if line.isEmpty then return ()
    let t := line.trimAscii.toString
    if t.isEmpty then loop else
    match J.parse t with
    | .ok j => stdout.putStrLn (handle j).render
    | .error e => stdout.putStrLn (J.obj [("driver_error", .str e)]).render
    loop
  loop
  stdout.flush

end Pg
