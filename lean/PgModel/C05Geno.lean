/-
  C05 — DNASpec objects (`pg.geno.Space / Choices / Float / CustomDecisionPoint`) as trees.

  A DNASpec is an ordinary `pg.Object`: its JSON is the generic object form (`_type` + fields).
  `specTree` maps the shared geno model (`PgModel/Geno/Spec.lean`, C11/C12) to the object tree
  `pg.to_json` walks; the class schemas are the real ones (geno/space.py, categorical.py,
  numerical.py, custom.py) reduced to the field kinds of the object model. What the geno model
  does not carry — the rendering of a location as a path string, of literal values as the
  `literal_values` list, of float bounds as tokens — is a parameter (`GenoText`).
-/
import PgModel.C05Codec
import PgModel.Geno.Spec
namespace Pg.C05

structure GenoText where
  loc : Geno.Info → Str                         -- `str(spec.location)`
  lits : Geno.Info → Option (List Tree)         -- `literal_values` (None for non-literal candidates)
  num : Int → Nat → Str                         -- float token of a bound

def kSpace : Str := "pyglove.generators.geno.Template".toList    -- serialization key of geno.Space
def kChoices : Str := "pyglove.generators.geno.Choices".toList
def kFloat : Str := "pyglove.generators.geno.Float".toList
def kCustom : Str := "pyglove.generators.geno.CustomDecisionPoint".toList

def fAny (n : Str) (noneable : Bool) (d : Option Tree) : Field := ⟨n, .any, noneable, d, false⟩

def spaceFields : List Field :=
  [fAny "location".toList false (some (.leaf (.str []))), fAny "hints".toList true (some (.leaf .none)),
   fAny "elements".toList false (some (.list [])),
   ⟨"index".toList, .int, true, some (.leaf .none), false⟩]

def choicesFields : List Field :=
  [fAny "location".toList false (some (.leaf (.str []))), fAny "hints".toList true (some (.leaf .none)),
   ⟨"name".toList, .str, true, some (.leaf .none), false⟩,
   ⟨"num_choices".toList, .int, false, some (.leaf (.int 1)), false⟩,
   fAny "candidates".toList false none,
   fAny "literal_values".toList true (some (.leaf .none)),
   ⟨"distinct".toList, .bool, false, some (.leaf (.bool true)), false⟩,
   ⟨"sorted".toList, .bool, false, some (.leaf (.bool false)), false⟩,
   ⟨"subchoice_index".toList, .int, true, some (.leaf .none), false⟩]

def floatFields : List Field :=
  [fAny "location".toList false (some (.leaf (.str []))), fAny "hints".toList true (some (.leaf .none)),
   ⟨"name".toList, .str, true, some (.leaf .none), false⟩,
   fAny "min_value".toList false none, fAny "max_value".toList false none,
   fAny "scale".toList true (some (.leaf .none))]

def customFields : List Field :=
  [fAny "location".toList false (some (.leaf (.str []))), fAny "hints".toList true (some (.leaf .none)),
   ⟨"name".toList, .str, true, some (.leaf .none), false⟩,
   ⟨"hyper_type".toList, .str, true, some (.leaf .none), false⟩,
   fAny "next_dna_fn".toList true (some (.leaf .none)),
   fAny "random_dna_fn".toList true (some (.leaf .none))]

/-- The schemas of the four DNASpec classes, field by field in declaration order. -/
def genoEnv : ClassEnv :=
  ⟨[(kSpace, spaceFields), (kChoices, choicesFields), (kFloat, floatFields), (kCustom, customFields)]⟩

def optStrTree : Option String → Tree
  | none => .leaf .none
  | some s => .leaf (.str s.toList)

def optLits (o : Option (List Tree)) : Tree :=
  match o with
  | none => .leaf .none
  | some l => .list l

mutual
  def pointTree (gt : GenoText) : Geno.Point → Tree
    | .choices k cands d s info =>
      .obj kChoices [("location".toList, .leaf (.str (gt.loc info))), ("hints".toList, .leaf .none),
        ("name".toList, optStrTree info.name), ("num_choices".toList, .leaf (.int k)),
        ("candidates".toList, .list (candsTree gt cands 0)),
        ("literal_values".toList, optLits (gt.lits info)),
        ("distinct".toList, .leaf (.bool d)), ("sorted".toList, .leaf (.bool s)),
        ("subchoice_index".toList, .leaf .none)]
    | .float ln ld hn hd info =>
      .obj kFloat [("location".toList, .leaf (.str (gt.loc info))), ("hints".toList, .leaf .none),
        ("name".toList, optStrTree info.name), ("min_value".toList, .leaf (.float (gt.num ln ld))),
        ("max_value".toList, .leaf (.float (gt.num hn hd))), ("scale".toList, .leaf .none)]
    | .custom info =>
      .obj kCustom [("location".toList, .leaf (.str (gt.loc info))), ("hints".toList, .leaf .none),
        ("name".toList, optStrTree info.name), ("hyper_type".toList, .leaf .none),
        ("next_dna_fn".toList, .leaf .none), ("random_dna_fn".toList, .leaf .none)]
  def pointsTree (gt : GenoText) : List Geno.Point → List Tree
    | [] => []
    | p :: ps => pointTree gt p :: pointsTree gt ps
  /-- The candidates of a choice: spaces carrying their index. -/
  def candsTree (gt : GenoText) : List (List Geno.Point) → Nat → List Tree
    | [], _ => []
    | c :: cs, i =>
      .obj kSpace [("location".toList, .leaf (.str [])), ("hints".toList, .leaf .none),
        ("elements".toList, .list (pointsTree gt c)), ("index".toList, .leaf (.int i))] ::
      candsTree gt cs (i + 1)
end

def specTree (gt : GenoText) : Geno.Spec → Tree
  | .space s =>
    .obj kSpace [("location".toList, .leaf (.str [])), ("hints".toList, .leaf .none),
      ("elements".toList, .list (pointsTree gt s)), ("index".toList, .leaf .none)]
  | .point p => pointTree gt p

end Pg.C05
