/-
  C13 — specification predicates over the hyper model (what the property demands of a decoded
  value, what "distinguishable candidates" means, which DNA trees are DNA objects).
-/
import PgModel.Hyper
namespace Pg.C13

/-! ### DNA objects are in normal form -/

mutual
  /-- What `DNA(value, children)` can hold after the constructor's normalisation: a single child
  always carries a value, a value-less node never has exactly one child. -/
  def nfD : DNA → Bool
    | .mk v cs =>
      (match cs with
       | [.mk none _] => false
       | _ => true) &&
      (match v, cs with
       | none, [_] => false
       | _, _ => true) &&
      nfL cs
  def nfL : List DNA → Bool
    | [] => true
    | d :: ds => nfD d && nfL ds
end

/-! ### Values without any placeholder -/

mutual
  /-- No placeholder at all (`pg.is_deterministic`). -/
  def plainT : Tmpl → Bool
    | .const _ => true
    | .node _ kids => plainL kids
    | .choice _ _ _ _ _ _ => false
    | .floatv _ _ _ => false
    | .custom _ _ => false
  def plainL : List Tmpl → Bool
    | [] => true
    | t :: ts => plainT t && plainL ts
end

/-! ### Python equality of values -/

mutual
  /-- `a == b` on values of the model (structural, `Atom.pyEq` at the leaves). -/
  def eqvT : Tmpl → Tmpl → Bool
    | .const a, v =>
      match v with
      | .const b => Atom.pyEq a b
      | _ => false
    | .node l kids, v =>
      match v with
      | .node l' vs => decide (l = l') && eqvL kids vs
      | _ => false
    | .choice tag one k cands distinct sorted, v =>
      match v with
      | .choice tag' one' k' vs distinct' sorted' =>
        decide (tag = tag' ∧ one = one' ∧ k = k' ∧ distinct = distinct' ∧ sorted = sorted') && eqvL cands vs
      | _ => false
    | .floatv tag lo hi, v =>
      match v with
      | .floatv tag' lo' hi' => decide (tag = tag' ∧ lo = lo' ∧ hi = hi')
      | _ => false
    | .custom tag cid, v =>
      match v with
      | .custom tag' cid' => decide (tag = tag' ∧ cid = cid')
      | _ => false
  def eqvL : List Tmpl → List Tmpl → Bool
    | [], vs => vs.isEmpty
    | t :: ts, vs =>
      match vs with
      | [] => false
      | v :: vs' => eqvT t v && eqvL ts vs'
end

section
variable (W : Cfg)

/-! ### Well-formed templates (what the constructors of `OneOf` / `ManyOf` enforce) -/

mutual
  /-- `OneOf` has `num_choices = 1`; `geno.Choices` demands `num_choices >= 1`. -/
  def wfT : Tmpl → Bool
    | .const _ => true
    | .node _ kids => wfL kids
    | .choice _ one k cands _ _ => (if one then decide (k = 1) else decide (1 ≤ k)) && wfL cands
    | .floatv _ _ _ => true
    | .custom _ _ => true
  def wfL : List Tmpl → Bool
    | [] => true
    | t :: ts => wfT t && wfL ts
end

/-! ### "No placeholder left (modulo filter)" -/

mutual
  /-- No placeholder selected by `W` occurs anywhere in the value (`pg.is_deterministic` when
  `W` selects everything). -/
  def detT : Tmpl → Bool
    | .const _ => true
    | .node _ kids => detL kids
    | .choice tag _ _ cands _ _ => !W tag && detL cands
    | .floatv tag _ _ => !W tag
    | .custom tag _ => !W tag
  def detL : List Tmpl → Bool
    | [] => true
    | t :: ts => detT t && detL ts
end

/-! ### "Of the shape the template prescribes" -/

mutual
  /-- `shapeT t v`: `v` is `t` with every selected `oneof` replaced by a value of the shape of one
  of its candidates, every selected `manyof k` by a list of `k` such values, every selected
  `floatv` by a float within its bounds; everything else is unchanged. -/
  def shapeT : Tmpl → Tmpl → Bool
    | .const a, v =>
      match v with
      | .const b => decide (a = b)
      | _ => false
    | .node l kids, v =>
      match v with
      | .node l' vs => decide (l = l') && shapeL kids vs
      | _ => false
    | .choice tag one k cands distinct sorted, v =>
      if W tag then
        if one then anyShape cands v
        else
          match v with
          | .node .list vs => decide (vs.length = k) && vs.all (fun x => anyShape cands x)
          | _ => false
      else
        match v with
        | .choice tag' one' k' vs distinct' sorted' =>
          decide (tag = tag' ∧ one = one' ∧ k = k' ∧ distinct = distinct' ∧ sorted = sorted') && shapeL cands vs
        | _ => false
    | .floatv tag lo hi, v =>
      if W tag then
        match v with
        | .const (.flt x) => Num.le lo x && Num.le x hi
        | _ => false
      else
        match v with
        | .floatv tag' lo' hi' => decide (tag = tag' ∧ lo = lo' ∧ hi = hi')
        | _ => false
    | .custom tag cid, v =>
      -- a selected custom placeholder is replaced by an opaque value without placeholders
      if W tag then plainT v
      else
        match v with
        | .custom tag' cid' => decide (tag = tag' ∧ cid = cid')
        | _ => false
  def shapeL : List Tmpl → List Tmpl → Bool
    | [], vs => vs.isEmpty
    | t :: ts, vs =>
      match vs with
      | [] => false
      | v :: vs' => shapeT t v && shapeL ts vs'
  def anyShape : List Tmpl → Tmpl → Bool
    | [], _ => false
    | c :: cs, v => shapeT c v || anyShape cs v
end

/-! ### The contract of the user hooks of custom hyper primitives (an explicit hypothesis) -/

/-- On the genomes the hooks call their own (`W.dom`): `custom_decode` succeeds, returns a value
without placeholders, and `custom_encode` maps that value back to the same DNA
("decode ∘ encode = id on their own range"). -/
def HooksLawful : Prop :=
  ∀ cid d, W.dom cid d = true →
    ∃ v, W.dec cid d = some v ∧ plainT v = true ∧ W.enc cid v = some d

/-- Whatever `custom_decode` returns (also outside `dom`) contains no placeholder. -/
def HooksPlain : Prop := ∀ cid d v, W.dec cid d = some v → plainT v = true

/-- What `custom_encode` returns is a str-valued DNA object that `custom_decode` maps back to an
equal value (needed only for the soundness of encoding arbitrary values). -/
def HooksEncSound : Prop :=
  ∀ cid v d, W.enc cid v = some d →
    nfD d = true ∧ (∃ s, d.value = some (.str s)) ∧ ∃ v', W.dec cid d = some v' ∧ eqvT v' v = true

/-! ### Distinguishable candidates -/

mutual
  /-- The semantic condition of the property ("whenever the candidates are distinguishable"):
  in every selected choice, no earlier candidate can encode what a later candidate decodes to —
  recursively in all sub-templates. -/
  def DistT : Tmpl → Prop
    | .const _ => True
    | .node _ kids => DistL kids
    | .choice tag _ _ cands _ _ =>
      DistL cands ∧
      (W tag = true → ∀ (i j : Nat) ci cj, j < i → cands[i]? = some ci → cands[j]? = some cj →
        ∀ d v, decode W ci d = .ok v → ∀ d', encode W cj v ≠ .ok d')
    | .floatv _ _ _ => True
    | .custom _ _ => True
  def DistL : List Tmpl → Prop
    | [] => True
    | t :: ts => DistT t ∧ DistL ts
end

/-! ### A decidable sufficient condition: candidates differ at their heads -/

/-- The outermost shape of a decoded value. -/
inductive Head where
  | atom (a : Atom)
  | node (l : Label) (n : Nat)
  | float (lo hi : Num)
  | inactive (tag : Nat)
  | any                       -- unknown (value of a custom hyper primitive)
  deriving DecidableEq, Repr

def Atom.num? : Atom → Option Num
  | .int i => some ⟨i, 0⟩
  | .flt x => some x
  | _ => Option.none

mutual
  /-- Heads of the values a template can decode to. -/
  def heads : Tmpl → List Head
    | .const a => [.atom a]
    | .node l kids => [.node l kids.length]
    | .choice tag one k cands _ _ =>
      if W tag then (if one then headsL cands else [.node .list k]) else [.inactive tag]
    | .floatv tag lo hi => if W tag then [.float lo hi] else [.inactive tag]
    | .custom tag _ => if W tag then [.any] else [.inactive tag]
  def headsL : List Tmpl → List Head
    | [] => []
    | c :: cs => heads c ++ headsL cs
end

mutual
  /-- Could the template encode a value with this head? (over-approximation) -/
  def matchHead : Tmpl → Head → Bool
    | .const a, h =>
      match h with
      | .atom b => Atom.pyEq a b
      | .float lo hi => match a.num? with
        | some x => Num.le lo x && Num.le x hi
        | none => false
      | .any => true
      | _ => false
    | .node l kids, h =>
      match h with
      | .node l' n => decide (l = l') && decide (kids.length = n)
      | .any => true
      | _ => false
    | .choice tag one k cands _ _, h =>
      if W tag then
        if one then matchHeadL cands h
        else match h with
          | .node .list n => decide (n = k)
          | .any => true
          | _ => false
      else decide (h = .inactive tag) || decide (h = .any)
    | .floatv tag lo hi, h =>
      if W tag then
        match h with
        | .atom (.flt x) => Num.le lo x && Num.le x hi
        | .float lo' hi' => Num.le lo hi' && Num.le lo' hi
        | .any => true
        | _ => false
      else decide (h = .inactive tag) || decide (h = .any)
    | .custom tag _, h =>
      -- a selected custom hyper may encode anything
      if W tag then true else decide (h = .inactive tag) || decide (h = .any)
  def matchHeadL : List Tmpl → Head → Bool
    | [], _ => false
    | c :: cs, h => matchHead c h || matchHeadL cs h
end

/-- No earlier candidate matches a head of a later one. -/
def candsApart (mh : List (Head → Bool)) (hs : List (List Head)) : Bool :=
  match mh, hs with
  | m :: mrest, _ :: hrest => hrest.all (fun later => later.all (fun h => !m h)) && candsApart mrest hrest
  | _, _ => true

mutual
  /-- Decidable sufficient condition for `DistT` (the harness's `head_distinct`). -/
  def headDistinct : Tmpl → Bool
    | .const _ => true
    | .node _ kids => headDistinctL kids
    | .choice tag _ _ cands _ _ =>
      headDistinctL cands && (!W tag || candsApart (matchFns cands) (headLists cands))
    | .floatv _ _ _ => true
    | .custom _ _ => true
  def headDistinctL : List Tmpl → Bool
    | [] => true
    | t :: ts => headDistinct t && headDistinctL ts
  def matchFns : List Tmpl → List (Head → Bool)
    | [] => []
    | c :: cs => (fun h => matchHead W c h) :: matchFns cs
  def headLists : List Tmpl → List (List Head)
    | [] => []
    | c :: cs => heads W c :: headLists cs
end

end

/-! ### Bounded numeric value specs (`pg.typing.Float/Int(min_value, max_value)`) -/

structure Bound where
  lo : Option Num
  hi : Option Num

def Bound.has (b : Bound) (x : Num) : Bool :=
  (match b.lo with
   | none => true
   | some l => Num.le l x) &&
  (match b.hi with
   | none => true
   | some h => Num.le x h)

mutual
  /-- What a bounded numeric field accepts when a (hyper) value is bound to it: a number within
  the bounds; a `floatv` whose whole range is within the bounds (`Float.custom_apply`,
  numerical.py); a `oneof` all of whose candidates are accepted (`OneOf.custom_apply`,
  categorical.py:434-466). -/
  def okB (b : Bound) : Tmpl → Bool
    | .const a =>
      match a.num? with
      | some x => b.has x
      | none => false
    | .node _ _ => false
    | .choice _ one _ cands _ _ => one && okBL b cands
    | .floatv _ lo hi => b.has lo && b.has hi
    | .custom _ _ => false
  def okBL (b : Bound) : List Tmpl → Bool
    | [] => true
    | c :: cs => okB b c && okBL b cs
end

/-! ### Histories of API calls on one template -/

/-- The calls of the public API on one template. -/
inductive Op where
  | decode (d : DNA)
  | encode (v : Tmpl)

inductive Res where
  | value (r : Except Err Tmpl)
  | dna (r : Except Err DNA)

/-- A history of calls and their results. The model has no state besides the template: this is the
*claim* that the code is held to (decode / encode keep no cache, hand out no shared objects). -/
def runOps (W : Cfg) (t : Tmpl) : List Op → List Res
  | [] => []
  | .decode d :: ops => .value (decode W t d) :: runOps W t ops
  | .encode v :: ops => .dna (encode W t v) :: runOps W t ops

end Pg.C13
