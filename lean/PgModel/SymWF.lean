/-
  Well-formedness of the symbolic forest as computable Bool checkers (so that the driver can
  report it after every step and `decide` can evaluate it on concrete forests), and the
  decidable admissibility predicate of operations.
-/
import PgModel.SymOps
namespace Pg.Sym

mutual
  /-- a subtree stored under holder `h` at path `p`: believes exactly that, and so do all its
  descendants (relative to it). -/
  def Tree.okSub (h : Nat) (p : List Key) : Tree → Bool
    | .leaf _ => true
    | .node m its => (m.parent == some h && m.path == p) && okItems m.id p its
  def okItems (h : Nat) (p : List Key) : Items → Bool
    | [] => true
    | (k, c) :: r => c.okSub h (p ++ [k]) && okItems h p r
end

/-- a root: nothing is demanded of its own beliefs; its descendants must agree with its own
believed path. -/
def Tree.okRoot : Tree → Bool
  | .leaf _ => true
  | .node m its => okItems m.id m.path its

def keysOf (its : Items) : List Key := its.map (·.1)

def positional : Nat → List Key → Bool
  | _, [] => true
  | n, k :: ks => k == Key.i n && positional (n + 1) ks

def nodupKeys : List Key → Bool
  | [] => true
  | k :: ks => !ks.contains k && nodupKeys ks

/-- representation invariant of a payload: list keys are the positions, dict keys are distinct. -/
def keysOk (kind : Kind) (its : Items) : Bool :=
  match kind with
  | .list => positional 0 (keysOf its)
  | _ => nodupKeys (keysOf its)

mutual
  def Tree.shapeOk : Tree → Bool
    | .leaf _ => true
    | .node m its => keysOk m.kind its && shapeOkItems its
  def shapeOkItems : Items → Bool
    | [] => true
    | (_, c) :: r => c.shapeOk && shapeOkItems r
end

def nodupNat : List Nat → Bool
  | [] => true
  | x :: xs => !xs.contains x && nodupNat xs

/-- C01's invariant on the model (a state between two calls: nothing is in flight). -/
def Forest.wf (f : Forest) : Bool :=
  f.roots.all Tree.okRoot && nodupNat f.ids && f.roots.all Tree.shapeOk &&
    f.ids.all (fun i => decide (i < f.nextId)) && !f.aliased && f.pool.isEmpty

/-- the part of the invariant that is about the representation only (no beliefs): node ids are
distinct and below the counter, payload keys are well-shaped, nothing is in flight. -/
def Forest.repOk (f : Forest) : Bool :=
  nodupNat f.ids && f.roots.all Tree.shapeOk && f.ids.all (fun i => decide (i < f.nextId)) && f.pool.isEmpty

/-! ### Admissibility -/

mutual
  def VE.refs : VE → List Nat
    | .atom _ => []
    | .fresh => []
    | .freshTuple _ => []
    | .mkRef _ => []
    | .ref id => [id]
    | .node _ _ _ _ items => refsItems items
    | .typedList items => refsItems items
  def refsItems : List (Key × VE) → List Nat
    | [] => []
    | (_, v) :: r => v.refs ++ refsItems r
end

mutual
  /-- the keys of a dict literal are distinct (a Python dict display cannot say anything else). -/
  def VE.keysDistinct : VE → Bool
    | .node kind _ _ _ items =>
      (match kind with
       | .dict => nodupKeys (items.map (·.1))
       | _ => true) && keysDistinctItems items
    | .typedList items => keysDistinctItems items
    | _ => true
  def keysDistinctItems : List (Key × VE) → Bool
    | [] => true
    | (_, v) :: r => v.keysDistinct && keysDistinctItems r
end

/-- the values an operation offers. -/
def Op.values : Op → List VE
  | .new v | .setItem _ _ v | .lAppend _ v | .lInsert _ _ v | .dSetDefault _ _ v => [v]
  | .lExtend _ vs | .lSetSlice _ _ _ _ vs => vs
  | .dUpdate _ kvs => kvs.map (·.2)
  | .rebind _ pairs _ => pairs.map (·.2.2)
  | _ => []

/-- well-formedness of the *encoding* of a call: dict literals have distinct keys. -/
def wellKeyed (op : Op) : Bool := op.values.all VE.keysDistinct

def Op.target? : Op → Option Nat
  | .new _ => none
  | .clone _ _ => none
  | .setItem t _ _ | .delItem t _ | .lAppend t _ | .lInsert t _ _ | .lExtend t _ | .lPop t _
  | .lRemove t _ | .lClear t | .lSort t _ _ | .lReverse t | .lIMul t _ | .lSetSlice t _ _ _ _
  | .lDelSlice t _ _ _ | .setSeal t _
  | .dPop t _ | .dPopItem t | .dClear t | .dSetDefault t _ _ | .dUpdate t _ | .rebind t _ _ => some t

def Op.refs : Op → List Nat
  | .new v | .setItem _ _ v | .lAppend _ v | .lInsert _ _ v | .dSetDefault _ _ v => v.refs
  | .lExtend _ vs | .lSetSlice _ _ _ _ vs => vs.flatMap VE.refs
  | .dUpdate _ kvs => kvs.flatMap (fun kv => kv.2.refs)
  | .rebind _ pairs _ => pairs.flatMap (fun p => p.2.2.refs)
  | _ => []

/-- F30 (and its stale-parent variant F78): an offered node object that would be *moved* (it
believes it has no parent) and that contains the written container or any of its *believed*
ancestors: pyglove builds a cycle of parents and its path update / notification walk never
terminates. -/
def divergent (f : Forest) (op : Op) : Bool :=
  match op.target? with
  | none => false
  | some t =>
    let chain := chainFrom f (f.ids.length + 1) t
    op.refs.any (fun id =>
      match f.find? id with
      | some (.node m its) => m.parent.isNone && chain.any (fun c => (Tree.node m its).ids.contains c)
      | _ => false)

/-- F79: an existing child of a list offered as an *insertion* into that very list: when the
insertion index is the child's own index, `_relocate_if_symbolic` keeps the very node and the
list then holds one object twice. (Excluded for every index: the glue never produces it.) -/
def insertsOwnChild (f : Forest) : Op → Bool
  | .lInsert t _ (.ref id) => (f.metaOf? id).any (fun m => m.parent == some t)
  | .lSetSlice t _ _ _ vs => vs.any (fun v => match v with
      | .ref id => (f.metaOf? id).any (fun m => m.parent == some t)
      | _ => false)
  | .rebind t pairs _ => pairs.any (fun p => match p.2.2, p.2.1 with
      | .ref id, true =>
        (match (f.find? t).bind (fun tr => tr.query p.1.dropLast) with
         | some (.node pm _) => (f.metaOf? id).any (fun m => m.parent == some pm.id)
         | _ => false)
      | _, _ => false)
  | _ => false

/-- every offered node object is offered once (the glue guarantees it; a second use of a moved
object would find it inside a value under construction, which the forest cannot address). -/
def refsDistinct (op : Op) : Bool := nodupNat op.refs

/-- entry points whose effect on paths depends on a defect of the unpatched tree. -/
def usesDefectF02 : Op → Bool
  | .lSort .. | .lReverse .. => true
  | _ => false

def usesDefectF03 (notifyOn : Bool) : Op → Bool
  | .setItem _ (.i idx) _ => !notifyOn && idx < 0
  | .lInsert .. | .lPop .. | .lRemove .. | .lSetSlice .. | .lDelSlice .. => !notifyOn
  | .delItem _ (.i _) => !notifyOn
  | .rebind _ _ skip => skip.getD (!notifyOn)
  | .dUpdate .. => true
  | _ => false

def Admissible (cfg : Cfg) (f : Forest) (notifyOn : Bool) (op : Op) : Bool :=
  !divergent f op && refsDistinct op && (cfg.insertCopiesOwn || !insertsOwnChild f op) &&
    (cfg.reindexOnReorder || !usesDefectF02 op) &&
    (cfg.reindexOnMutate || !usesDefectF03 notifyOn op)

/-- the step used by driver and theorems: inadmissible-by-divergence calls have no after-state. -/
def stepA (cfg : Cfg) (f : Forest) (notifyOn : Bool) (op : Op) : Res :=
  if divergent f op then ⟨f, .diverges⟩ else stepN cfg f notifyOn op

/-! ### Clone equality and flag agreement (C07) -/

mutual
  /-- `pg.eq` of an original and its clone: same kinds, same keys, same leaves; non-symbolic leaf
  objects (and the elements of tuples): the same object (shallow) or any object (deep). -/
  def Tree.symEq (deep : Bool) : Tree → Tree → Bool
    | .leaf (.opaque i), .leaf (.opaque j) => deep || i == j
    | .leaf (.tup a), .leaf (.tup b) => if deep then a.length == b.length else a == b
    | .leaf a, .leaf b => a == b
    | .node m its, .node m' its' => m.kind == m'.kind && symEqItems deep its its'
    | _, _ => false
  def symEqItems (deep : Bool) : Items → Items → Bool
    | [], [] => true
    | (k, c) :: r, (k', c') :: r' => k == k' && c.symEq deep c' && symEqItems deep r r'
    | _, _ => false
end

mutual
  /-- `sealed` and `accessor_writable` agree at every node (of two trees of the same shape). -/
  def Tree.flagsEq : Tree → Tree → Bool
    | .leaf _, .leaf _ => true
    | .node m its, .node m' its' => m.sealed == m'.sealed && m.accW == m'.accW && flagsEqItems its its'
    | _, _ => false
  def flagsEqItems : Items → Items → Bool
    | [], [] => true
    | (_, c) :: r, (_, c') :: r' => c.flagsEq c' && flagsEqItems r r'
    | _, _ => false
end

mutual
  /-- the seal marks of a tree are what a clone reproduces: a node is sealed exactly when its
  clone is constructed sealed (`cloneSealed`) or a node above it is (`anc`) — the constructors
  seal recursively. Fails for a sealed `pg.Ref` (F92), for an unsealed node below a sealed one
  (F93) and, unpatched, for a sealed list (F17). -/
  def Tree.sealFaithful (cfg : Cfg) (anc : Bool) : Tree → Bool
    | .leaf _ => true
    | .node m its => m.sealed == (anc || cloneSealed cfg m) && sealFaithfulItems cfg (anc || cloneSealed cfg m) its
  def sealFaithfulItems (cfg : Cfg) (anc : Bool) : Items → Bool
    | [] => true
    | (_, c) :: r => c.sealFaithful cfg anc && sealFaithfulItems cfg anc r
end

mutual
  /-- `allow_partial` agrees at every node (of two trees of the same shape). -/
  def Tree.partEq : Tree → Tree → Bool
    | .leaf _, .leaf _ => true
    | .node m its, .node m' its' => m.part == m'.part && partEqItems its its'
    | _, _ => false
  def partEqItems : Items → Items → Bool
    | [], [] => true
    | (_, c) :: r, (_, c') :: r' => c.partEq c' && partEqItems r r'
    | _, _ => false
end

mutual
  /-- the `allow_partial` marks of a tree are what a clone reproduces: a spec-bound list held
  directly in a field of an object carries the flag the object's constructor would hand it
  (`adopt`: that flag — the object's own `allow_partial`, or the ambient scope's, F120). -/
  def Tree.partFaithful (cfg : Cfg) (adopt : Option Bool) : Tree → Bool
    | .leaf _ => true
    | .node m its =>
      (match adopt with
       | some b => !m.typed || m.part == b
       | none => true) &&
      partFaithfulItems cfg (match m.kind with
        | .obj _ => some (cfg.scopePartial.getD m.part)
        | _ => none) its
  def partFaithfulItems (cfg : Cfg) (adopt : Option Bool) : Items → Bool
    | [] => true
    | (_, c) :: r => c.partFaithful cfg adopt && partFaithfulItems cfg adopt r
end

mutual
  /-- no payload holds a MISSING placeholder (lists drop them while copying). -/
  def Tree.noMissing : Tree → Bool
    | .leaf _ => true
    | .node _ its => noMissingItems its
  def noMissingItems : Items → Bool
    | [] => true
    | (_, c) :: r => !c.isMissing && c.noMissing && noMissingItems r
end

/-- the in-place mutators that offer no value (non-interference, C07). -/
def Quiet : Op → Bool
  | .lReverse _ | .lSort _ _ _ | .lClear _ | .dClear _ | .dPopItem _ | .delItem _ _ | .lPop _ _ | .lRemove _ _
  | .dPop _ _ | .lDelSlice _ _ _ _ | .setSeal _ _ => true
  | _ => false

/-- a history: calls with the state of `notify_on_change` they run under. -/
def runHist (cfg : Cfg) (f : Forest) : List (Bool × Op) → Forest
  | [] => f
  | (n, op) :: rest => runHist cfg (stepA cfg f n op).forest rest

end Pg.Sym
