/-
  C15 — the abstract `repro` / `update` parameters of the generator model (PgModel/Gen.lean) instantiated
  with the operator model of C14 (PgModel/Evo.lean: selectors, mutators, combinators over an oracle stream
  of recorded PRNG draws), for the algorithms pyglove/ext/evolution builds:

    regularized_evolution:  selectors.Random(tournament_size, seed) >> selectors.Top(1) >> mutator
                            population_init=(Random(seed), population_size), update = selectors.Last(population_size)
    hill_climb:             selectors.Top(1) >> (mutator * batch_size)
                            population_init=(Random(seed), init_population_size), update = selectors.Top(1)

  (the pipeline texts are checked by translate/t_c15.py).  DNA values of the generator model are indices
  into the enumeration of a flat space `Dict(d0=oneof(range(a0)), d1=oneof(range(a1)), …)`; they are
  converted to the DNA trees of the operator model and back.  The draws of one `_evolve` call are the
  oracle segment recorded for that call (keyed by `step` = num_proposals at the call).
-/
import PgModel.Gen
import PgModel.Evo
namespace Pg.C15.Ops
open Pg.C14 (GSpec DNA Ind Pop OpExpr Ev NSpec)

def gspecOf (dims : List Nat) : GSpec :=
  .space (dims.map fun a => .choices 1 (List.replicate a (.space [])) true false)   -- pg.oneof: distinct

/-- mixed-radix digits, most significant first (`spec.iter_dna()` varies the last decision fastest) -/
def digits : List Nat → Nat → List Nat
  | [], _ => []
  | a :: rest, idx =>
    let w := rest.foldl (· * ·) 1
    ((idx / w) % a) :: digits rest (idx % w)

def dnaOf (dims : List Nat) (idx : Nat) : DNA :=
  .space ((digits dims idx).map fun v => .choices [.sub 0 v (.space [])])

def valueOf : DNA → Nat
  | .choices [.sub _ v _] => v
  | _ => 0

def idxOf (dims : List Nat) : DNA → Nat
  | .space es => (dims.zip (es.map valueOf)).foldl (fun acc (a, v) => acc * a + v) 0
  | _ => 0

def toPop (dims : List Nat) (pop : List Item) : Pop :=
  (List.range pop.length).zip pop |>.map fun (i, it) => { uid := i, dna := dnaOf dims it.dna, fit := it.reward }

/-- a draw-consuming operation on a population; `none` when the oracle segment does not fit (desync) or
the operation raises -/
def runOp (e : OpExpr) (pop : Pop) (oracle : List Ev) : Option Pop :=
  match (Pg.C14.eval e pop).run { oracle := oracle, nextUid := 1000000 } with
  | .ok (p, st) => if st.oracle.isEmpty then some p else none
  | .error _ => none

def desync : Nat := 999999

def reproOf (dims : List Nat) (e : OpExpr) (events : Nat → List Ev) : List Item → Nat → Nat → List Nat :=
  fun pop _ step =>
    match runOp e (toPop dims pop) (events step) with
    | some p => p.map fun x => idxOf dims x.dna
    | none => [desync]

/-- a selection (no draws) applied to the items themselves: the individuals' uids are positions -/
def updateOf (dims : List Nat) (e : OpExpr) : List Item → Nat → List Item :=
  fun pop _ =>
    match runOp e (toPop dims pop) [] with
    | some p => p.filterMap fun x => pop[x.uid]?
    | none => pop

def fuel : Nat := 8

def regEvoRepro (dims : List Nat) (tournament : Nat) : OpExpr :=
  .seq (.seq (.leaf (Pg.C14.selRandom (.count tournament) false)) (.leaf (Pg.C14.selTop (.count 1))))
       (.leaf (Pg.C14.mutUniform fuel (gspecOf dims)))

def regEvoUpdate (n : Nat) : OpExpr := .leaf (Pg.C14.selLast (.count n))

def hillClimbRepro (dims : List Nat) (batch : Nat) : OpExpr :=
  .seq (.leaf (Pg.C14.selTop (.count 1))) (.repeat_ (.leaf (Pg.C14.mutUniform fuel (gspecOf dims))) batch)

def hillClimbUpdate : OpExpr := .leaf (Pg.C14.selTop (.count 1))

/-- the environment of `regularized_evolution(mutators.Uniform(seed), population_size, tournament_size, seed)` -/
def regEvoEnv (base : Env) (dims : List Nat) (populationSize tournament : Nat) (events : Nat → List Ev) : Env :=
  { base with repro := reproOf dims (regEvoRepro dims tournament) events,
              update := updateOf dims (regEvoUpdate populationSize) }

/-- the environment of `hill_climb(mutators.Uniform(seed), batch_size, init_population_size, seed)` -/
def hillClimbEnv (base : Env) (dims : List Nat) (batch : Nat) (events : Nat → List Ev) : Env :=
  { base with repro := reproOf dims (hillClimbRepro dims batch) events,
              update := updateOf dims hillClimbUpdate }

end Pg.C15.Ops
