/-
  C09 — executable model of change notification and of the memoised derived state.

  Mirrors pyglove/core/symbolic/base.py `_notify_field_updates` (walk from every update's target up
  the parent chain, group per ancestor, relative paths, dispatch sorted by path descending = children
  before parents, reset of the memoised facts of every notified node), `sym_rebind` (notification
  unless `skip_notification` / `notify_on_change(False)`), the accessor writes of dict.py / list.py /
  object.py (single update, notified under `flags.is_change_notification_enabled()`), `Dict.update`
  (`skip_notification=True`). THE MODEL MIRRORS THE TREE WITH fixes/C09-F55.patch AND fixes/C09-F112.patch
  APPLIED: `clear`, `popitem`, `sort`, `reverse` report what they removed / moved, `del l[-1]` reports
  the position.

  Derived state: `sym_nondefault()` and `sym_missing()` are model functions of the contents and of
  the VALUE SPECS (class schemas of objects, schemas that Dicts are bound to: fields with defaults,
  container defaults, required fields), see `deriveS` / `missS`; each node has the two memos
  `_sym_nondefault_values` / `_sym_missing_values`, filled by reads exactly where the code fills them
  (`readND`: a schema-bound node diffs against its defaults without asking its children; `readMiss`
  and schema-less containers recurse) and reset together by every write along the chain to the root.
  Simplifications (stated in the evidence): the memo of a schema-bound node may hold references to
  live child containers that are flattened at read time; the model stores the flattened snapshot
  (every write below resets the memo, so the two cannot be told apart on this tree); the third memo
  `_sym_puresymbolic` is not modelled (oracle only); writes whose value the spec would transform
  (conversion, defaults filled into a new typed Dict, rejected types) are not generated (C03).
  Believed parent = real parent (C01's invariant; only fresh plain values are inserted).
-/
import PgModel.Guard
namespace Pg.C09
open Pg.C08 (Atom Key)

abbrev Path := List Key

inductive Kind where
  | dict | list | obj
  deriving DecidableEq, Repr

/-- Plain contents (no identities, no memos, no schemas): the defaults of a value spec, and the
values that `sym_nondefault()` reports. `cls` = the class of an object (0 for Dict / List). -/
inductive Val where
  | atom (a : Atom)
  | node (k : Kind) (cls : Nat) (items : List (Key × Val))
  deriving Repr

/-- `sym_nondefault()`, flattened: (relative path, value). -/
abbrev LeafMap := List (Path × Val)

/-- The schema of a `pg.Object` class or of a schema-bound `pg.Dict`: the fields with their
defaults (`none` = required field without a default). -/
abbrev Schema := List (Key × Option Val)

structure Meta where
  id : Nat                      -- object identity (for reporting receivers)
  sub : Bool                    -- subscribes: onchange_callback given / `_on_change` overridden
  cache : Option LeafMap        -- `_sym_nondefault_values` (none = not computed)
  miss : Option (List Path) := none   -- `_sym_missing_values` (none = not computed)
  cls : Nat := 0                -- class of an object
  sch : Option Schema := none   -- value spec: the class schema of an object / the schema a Dict is bound to
  deriving Repr

inductive T where
  | leaf (a : Atom)
  | node (m : Meta) (k : Kind) (items : List (Key × T))
  deriving Repr

instance : Inhabited T := ⟨.leaf .none⟩

/-- One FieldUpdate: absolute path of the changed location (from the root the caller holds), old
and new value (`none` = MISSING_VALUE). -/
structure Update where
  path : Path
  old : Option T
  new : Option T
  deriving Repr

/-- One delivered event: receiver identity and the (relative path, old, new) entries. -/
structure Event where
  recv : Nat
  entries : List (Path × Option T × Option T)
  deriving Repr

namespace T

def lookup (k : Key) : List (Key × T) → Option T
  | [] => none
  | (k', v) :: rest => if k' = k then some v else lookup k rest

def setKv (k : Key) (v : T) : List (Key × T) → List (Key × T)
  | [] => [(k, v)]
  | (k', v') :: rest => if k' = k then (k, v) :: rest else (k', v') :: setKv k v rest

def eraseKv (k : Key) : List (Key × T) → List (Key × T)
  | [] => []
  | (k', v') :: rest => if k' = k then rest else (k', v') :: eraseKv k rest

def child (t : T) (k : Key) : Option T :=
  match t with
  | .leaf _ => none
  | .node _ _ items => lookup k items

def setChild (t : T) (k : Key) (c : T) : T :=
  match t with
  | .leaf a => .leaf a
  | .node m kd items => .node m kd (setKv k c items)

def atomEq : Option T → T → Bool
  | some (.leaf a), .leaf b => a == b
  | _, _ => false

end T
open T

def isMissingLeaf : T → Bool
  | .leaf .missing => true
  | _ => false

/-! ### cache handling -/

def resetCache : T → T
  | .leaf a => .leaf a
  | .node m k items => .node { m with cache := none, miss := none } k items

/-- Reset the cache of every node on the way from the root to the node at `p` (inclusive): the
nodes `_notify_field_updates` visits for an update whose target is at `p`. -/
def resetChain : T → Path → T
  | t, [] => resetCache t
  | t, k :: rest =>
    match t.child k with
    | none => resetCache t
    | some c => (resetCache t).setChild k (resetChain c rest)

/-! ### notification (base.py `_notify_field_updates`) -/

/-- Subscribing nodes on the way from the root to the node at `p`, root first, with their paths. -/
def chainSubs : T → Path → Path → List (Path × Nat)
  | .leaf _, _, _ => []
  | .node m _ _, here, [] => if m.sub then [(here, m.id)] else []
  | .node m _ items, here, k :: rest =>
    let own := if m.sub then [(here, m.id)] else []
    match lookup k items with
    | none => own
    | some c => own ++ chainSubs c (here ++ [k]) rest

/-- Drop the first `n` keys (`update.path - target.sym_path`). -/
def relPath (n : Nat) (p : Path) : Path := p.drop n

/-- Per-target grouping, in first-seen order. `tp` = path of the update's target node. -/
def addToGroups (groups : List (Path × Nat × List (Path × Option T × Option T)))
    (recv : Path × Nat) (u : Update) : List (Path × Nat × List (Path × Option T × Option T)) :=
  match groups with
  | [] => [(recv.1, recv.2, [(relPath recv.1.length u.path, u.old, u.new)])]
  | (p, id, es) :: rest =>
    if id = recv.2 then (p, id, es ++ [(relPath p.length u.path, u.old, u.new)]) :: rest
    else (p, id, es) :: addToGroups rest recv u

def groupAll (root : T) : List (Update × Path) → List (Path × Nat × List (Path × Option T × Option T))
    → List (Path × Nat × List (Path × Option T × Option T))
  | [], g => g
  | (u, tp) :: rest, g =>
    -- walk from the target upwards: target first, root last
    let g' := (chainSubs root [] tp).reverse.foldl (fun acc r => addToGroups acc r u) g
    groupAll root rest g'

def insertDesc (x : Path × Nat × List (Path × Option T × Option T)) :
    List (Path × Nat × List (Path × Option T × Option T)) → List (Path × Nat × List (Path × Option T × Option T))
  | [] => [x]
  | y :: ys => if Pg.C08.pathLt x.1 y.1 then y :: insertDesc x ys else x :: y :: ys

/-- `sorted(..., key=path, reverse=True)`: stable, descending by KeyPath order. -/
def sortDesc : List (Path × Nat × List (Path × Option T × Option T)) →
    List (Path × Nat × List (Path × Option T × Option T))
  | [] => []
  | x :: xs => insertDesc x (sortDesc xs)

/-- The delivered events, in delivery order, for a batch of updates (each with the path of its
target node). -/
def notifications (root : T) (ups : List (Update × Path)) : List Event :=
  (sortDesc (groupAll root ups [])).map fun g => { recv := g.2.1, entries := g.2.2 }

def resetAll (root : T) : List (Update × Path) → T
  | [] => root
  | (_, tp) :: rest => resetAll (resetChain root tp) rest

/-! ### the write primitive -/

/-- `node._set_item_without_permission_check(k, v)` on the node at `p`; `v = none` deletes (dict).
Returns the new tree and the update (none when nothing is to be reported: old `is` new). -/
def writeAt : T → Path → Path → Key → Option T → Option (T × Option Update)
  | .leaf _, _, _, _, _ => none
  | .node m kd items, here, [], k, v =>
    let old := lookup k items
    match v with
    | none =>
      match old with
      | none => some (.node m kd items, none)
      | some o => some (.node m kd (eraseKv k items), some { path := here ++ [k], old := some o, new := none })
    | some nv =>
      if atomEq old nv then some (.node m kd items, none)          -- `old_value is value`
      else
        -- an object only accepts its fields; a list index past the end appends at `len`
        match kd, old, k with
        | .obj, none, _ => none
        | .list, none, _ =>
          let k' := Key.i items.length
          some (.node m kd (items ++ [(k', nv)]), some { path := here ++ [k'], old := none, new := some nv })
        | _, _, _ => some (.node m kd (setKv k nv items), some { path := here ++ [k], old := old, new := some nv })
  | .node m kd items, here, k :: rest, key, v =>
    match lookup k items with
    | none => none
    | some c =>
      match writeAt c (here ++ [k]) rest key v with
      | none => none
      | some (c', u) => some (.node m kd (setKv k c' items), u)

/-! ### operations -/

inductive Op where
  | setKey (k : Key) (v : T)              -- d[k] = v, l[i] = v (i < len), o.k = v
  | delKey (k : Key)                      -- del d[k]
  | append (v : T)
  | extend (vs : List T)                  -- l.extend(vs) / l += vs: one batched notification
  | rebind (pairs : List (Path × T))      -- paths relative to the receiver
  | update (kvs : List (Key × T))         -- Dict.update: rebind with skip_notification=True
  | clear | reverse | popitem | sort      -- (fix C09-F55) report what they removed / moved
  -- list operations that shift positions (list.py: insert, __delitem__ / pop / remove, slices, `*=`)
  | insert (i : Int) (v : T)
  | delIdx (i : Int)                      -- del l[i] / l.pop(i)
  | remove (a : Atom)
  | setSlice (a b st : Option Int) (vs : List T)
  | delSlice (a b st : Option Int)
  | imul (k : Int)
  deriving Repr

structure Out where
  tree : T
  ok : Bool
  events : List Event
  deriving Repr

def getAt : T → Path → Option T
  | t, [] => some t
  | t, k :: rest => match t.child k with
    | none => none
    | some c => getAt c rest

/-- The write primitive as the code runs it: write, then (if an update is produced) invalidate the
memoised facts of the written node and of all its ancestors (`_invalidate_content_caches`). -/
def writeReset (root : T) (parent : Path) (k : Key) (v : Option T) : Option (T × Option Update) :=
  match writeAt root [] parent k v with
  | none => none
  | some (r', none) => some (r', none)
  | some (r', some u) => some (resetChain r' parent, some u)

/-- Apply the pairs in order (absolute paths = receiver path ++ relative path). -/
def writeAll (root : T) (recv : Path) : List (Path × T) → List (Update × Path) → Option (T × List (Update × Path))
  | [], acc => some (root, acc)
  | (p, v) :: rest, acc =>
    match p.reverse with
    | [] => none
    | k :: revParent =>
      let parent := recv ++ revParent.reverse
      match writeReset root parent k (some v) with
      | none => none
      | some (root', none) => writeAll root' recv rest acc
      | some (root', some u) => writeAll root' recv rest (acc ++ [(u, parent)])

/-- `rebind` pairs whose value may be MISSING_VALUE (= delete): a Dict key is deleted; a List item
is overwritten by a MISSING_VALUE placeholder (an index past the end: nothing happens), reported as
(item -> MISSING); the placeholder is dropped by the list's change handler — if it runs. -/
def writeAllM (root : T) (recv : Path) : List (Path × T) → List (Update × Path) → Option (T × List (Update × Path))
  | [], acc => some (root, acc)
  | (p, v) :: rest, acc =>
    match p.reverse with
    | [] => none
    | k :: revParent =>
      let parent := recv ++ revParent.reverse
      let w : Option (Option (T × Option Update)) :=
        if isMissingLeaf v then
          match getAt root parent with
          | some (.node _ .list items) =>
            if (lookup k items).isNone then some (some (root, none))       -- appending MISSING_VALUE: no-op
            else some (writeReset root parent k (some (.leaf .missing)))
          | some (.node _ .obj _) => none                                   -- a field reset to its default: not modelled
          | _ => some (writeReset root parent k none)
        else some (writeReset root parent k (some v))
      match w with
      | none => none
      | some none => none
      | some (some (root', none)) => writeAllM root' recv rest acc
      | some (some (root', some u)) => writeAllM root' recv rest (acc ++ [(u, parent)])

/-- Put a transformed receiver back. -/
def mapAt (g : T → T) : T → Path → T
  | t, [] => g t
  | t, k :: rest => match t.child k with
    | none => t
    | some c => t.setChild k (mapAt g c rest)

def rawClear : T → T
  | .leaf a => .leaf a
  | .node m k _ => .node m k []

def reindex (xs : List (Key × T)) : List (Key × T) :=
  (List.range xs.length).zip (xs.map (·.2)) |>.map fun (i, t) => (Key.i i, t)

def rawReverse : T → T
  | .leaf a => .leaf a
  | .node m k items => .node m k (reindex items.reverse)

def rawPopitem : T → T
  | .leaf a => .leaf a
  | .node m k items => .node m k items.dropLast

/-- The remaining paths of those that continue with key `k`. -/
def tailsFor (k : Key) (paths : List Path) : List Path :=
  paths.filterMap fun p => match p with
    | k' :: r => if k' = k then some r else none
    | [] => none

mutual
  /-- What the change handlers of the nodes on the way to the updated nodes do to the tree: every
  such node has its memos reset, and every `pg.List` among them drops the MISSING_VALUE placeholders
  that a `rebind` left in it (`List._on_change`) and re-indexes. `paths` = what remains of the paths
  to the updated nodes (the node is on such a way iff there is one). -/
  def purgeSet (paths : List Path) : T → T
    | .leaf a => .leaf a
    | .node m kd items =>
      if paths.isEmpty then .node m kd items
      else
        let items' := purgeItems paths items
        .node { m with cache := none, miss := none } kd
          (if kd == .list then reindex (items'.filter fun kv => !isMissingLeaf kv.2) else items')
  def purgeItems (paths : List Path) : List (Key × T) → List (Key × T)
    | [] => []
    | (k, t) :: rest => (k, purgeSet (tailsFor k paths) t) :: purgeItems paths rest
end

/-- Finish a call: when notification is on (and something was updated) deliver the events;
`_notify_field_updates` also resets the memoised facts of every node it visits, and the handler
of every List it visits drops the placeholders of deleted items. Without notification neither
happens (the placeholders stay: known finding C02-F03). -/
def finish (root' : T) (ups : List (Update × Path)) (notify : Bool) : Out :=
  if notify && !ups.isEmpty then
    { tree := purgeSet (ups.map (·.2)) (resetAll root' ups), ok := true, events := notifications root' ups }
  else { tree := root', ok := true, events := [] }

inductive OpKind where
  | setKey | delKey | append | extend | rebind | update | clear | reverse | popitem | sort
  | insert | delIdx | remove | setSlice | delSlice | imul
  deriving DecidableEq, Repr

def Op.kind : Op → OpKind
  | .setKey _ _ => .setKey | .delKey _ => .delKey | .append _ => .append | .extend _ => .extend
  | .rebind _ => .rebind
  | .update _ => .update | .clear => .clear | .reverse => .reverse | .popitem => .popitem | .sort => .sort
  | .insert _ _ => .insert | .delIdx _ => .delIdx | .remove _ => .remove | .setSlice _ _ _ _ => .setSlice
  | .delSlice _ _ _ => .delSlice | .imul _ => .imul

/-- A mutator that goes around the write primitive (`clear`, `reverse`, `popitem`): raw change of
the receiver, invalidation of its chain, nobody is notified. -/
def rawStep (g : T → T) (root : T) (recv : Path) : Out :=
  { tree := resetChain (mapAt g root recv) recv, ok := true, events := [] }

/-! ### list operations that shift positions

Each is a pure *edit* of the list's values: the new values and the FieldUpdates the code records
(position, old, new; `none` = MISSING_VALUE), in the order in which it records them:
`insert` reports (MISSING -> value) at the insertion position; a deletion reports (item -> MISSING) at
the position the item had *before* the call (slices: from the largest position down); a step-1 slice
assignment reports replacements (old -> new, skipped when `old is new`), then insertions
(MISSING -> value) for surplus values or removals (item -> MISSING) for the shortfall, all at
`start + i`; an extended slice reports replacements at its positions in ascending order. -/

structure Edit where
  vals : List T
  ents : List (Nat × Option T × Option T)

def atomSame : T → T → Bool
  | .leaf a, .leaf b => a == b
  | _, _ => false

def isLeafEq (a : Atom) : T → Bool
  | .leaf b => a == b
  | _ => false

def editInsert (i : Int) (v : T) (xs : List T) : Option Edit :=
  let p := Pg.C08.insertPos xs.length i
  some { vals := Pg.C08.insertAt xs p v, ents := [(p, none, some v)] }

def editDelIdx (i : Int) (xs : List T) : Option Edit :=
  match Pg.C08.normIdx xs.length i with
  | none => none
  | some j => some { vals := xs.eraseIdx j, ents := [(j, xs[j]?, none)] }

def editRemove (a : Atom) (xs : List T) : Option Edit :=
  match xs.findIdx? (isLeafEq a) with
  | none => none
  | some j => some { vals := xs.eraseIdx j, ents := [(j, xs[j]?, none)] }

def editDelSlice (a b st : Option Int) (xs : List T) : Option Edit :=
  match Pg.C08.sliceRange xs.length a b st with
  | none => none
  | some (_, _, step, ps) =>
    let desc := if step > 0 then ps.reverse else ps        -- sorted(range(...), reverse=True)
    some { vals := Pg.C08.eraseAll xs ps, ents := desc.map fun p => (p, xs[p]?, none) }

/-- entries of `l[start:start+size] = vs` (step 1), position by position. -/
def sliceEnts (xs : List T) (start size : Nat) (vs : List T) : Nat → List (Nat × Option T × Option T)
  | 0 => []
  | c + 1 =>
    let i := (max size vs.length) - (c + 1)
    let rest := sliceEnts xs start size vs c
    match decide (i < size), vs[i]? with
    | true, some v =>
      match xs[start + i]? with
      | some o => if atomSame o v then rest else (start + i, some o, some v) :: rest
      | none => (start + i, none, some v) :: rest
    | false, some v => (start + i, none, some v) :: rest
    | true, none => (start + i, xs[start + i]?, none) :: rest
    | false, none => rest

def replEnts (xs : List T) : List Nat → List T → List (Nat × Option T × Option T)
  | p :: ps, v :: vs =>
    match xs[p]? with
    | some o => if atomSame o v then replEnts xs ps vs else (p, some o, some v) :: replEnts xs ps vs
    | none => replEnts xs ps vs
  | _, _ => []

/-- `notifyOn = false` and fewer values than positions: the code leaves MISSING_VALUE placeholders
in the list (known finding C02-F03); that combination is not modelled (`none` = outside the model,
reported as a failing call). -/
def editSetSlice (notifyOn : Bool) (a b st : Option Int) (vs : List T) (xs : List T) : Option Edit :=
  match Pg.C08.sliceRange xs.length a b st with
  | none => none
  | some (start, stop, step, ps) =>
    if step = 1 then
      let s := start.toNat
      let size := (max s stop.toNat) - s
      if !notifyOn && vs.length < size then none
      else some { vals := xs.take s ++ vs ++ xs.drop (s + size),
                  ents := sliceEnts xs s size vs (max size vs.length) }
    else if ps.length ≠ vs.length then none
    else
      let asc := if step > 0 then (ps, vs) else (ps.reverse, vs.reverse)
      some { vals := Pg.C08.setAll xs ps vs, ents := replEnts xs asc.1 asc.2 }

def repeatVals (xs : List T) : Nat → List T
  | 0 => []
  | n + 1 => xs ++ repeatVals xs n

def appendEnts (n : Nat) : List T → List (Nat × Option T × Option T)
  | [] => []
  | v :: vs => (n, none, some v) :: appendEnts (n + 1) vs

def clearEnts (n : Nat) : List T → List (Nat × Option T × Option T)
  | [] => []
  | v :: vs => (n, some v, none) :: clearEnts (n + 1) vs

/-- `List.clear()` (fix C09-F55): every removed item is reported (item -> MISSING) at its position. -/
def editClear (xs : List T) : Option Edit := some { vals := [], ents := clearEnts 0 xs }

/-- Positions whose item is not the former one after an in-place reordering (`new is not old`);
`src i` = the former position of the item now at `i`. -/
def movedEnts (old new : List T) (src : Nat → Nat) : Nat → List (Nat × Option T × Option T)
  | 0 => []
  | c + 1 =>
    let i := old.length - (c + 1)
    let rest := movedEnts old new src c
    match old[i]?, new[i]? with
    | some o, some n => if src i == i || atomSame o n then rest else (i, some o, some n) :: rest
    | _, _ => rest

/-- `List.reverse()` (fix C09-F55). -/
def editReverse (xs : List T) : Option Edit :=
  some { vals := xs.reverse, ents := movedEnts xs xs.reverse (fun i => xs.length - 1 - i) xs.length }

def intOf? : T → Option Int
  | .leaf (.int i) => some i
  | _ => none

def allInts : List T → Option (List Int)
  | [] => some []
  | t :: ts => match intOf? t, allInts ts with
    | some i, some is => some (i :: is)
    | _, _ => none

/-- `List.sort()` (fix C09-F55) on a list of ints (a list of at most one item is left alone; other
lists are not comparable element-wise: TypeError, the list in an unspecified order — not modelled).
Equal ints are the same object, so `src` plays no role. -/
def editSort (xs : List T) : Option Edit :=
  match allInts xs with
  | some is =>
    let ys := (Pg.C08.sortInts is).map fun i => T.leaf (.int i)
    some { vals := ys, ents := movedEnts xs ys (fun _ => xs.length) xs.length }
  | none => if xs.length ≤ 1 then some { vals := xs, ents := [] } else none

/-- `l *= k`: `clear()` for k <= 0, else `extend` with k-1 copies. -/
def editIMul (k : Int) (xs : List T) : Option Edit :=
  if k ≤ 0 then editClear xs
  else
    let copies := repeatVals xs (k.toNat - 1)
    some { vals := xs ++ copies, ents := appendEnts xs.length copies }

def indexed (vs : List T) : List (Key × T) :=
  (List.range vs.length).zip vs |>.map fun (i, t) => (Key.i i, t)

def setVals (vs : List T) : T → T
  | .leaf a => .leaf a
  | .node m k _ => .node m k (indexed vs)

/-- Run an edit on the list at `recv`: new values (re-indexed), invalidation of the chain, then the
notification of the recorded updates (all owned by the list itself). -/
def applyEdit (root : T) (recv : Path) (notify : Bool) (f : List T → Option Edit) : Out :=
  match getAt root recv with
  | some (.node _ .list items) =>
    match f (items.map (·.2)) with
    | none => { tree := root, ok := false, events := [] }
    | some e =>
      finish (resetChain (mapAt (setVals e.vals) root recv) recv)
        (e.ents.map fun x => ({ path := recv ++ [Key.i x.1], old := x.2.1, new := x.2.2 }, recv)) notify
  | _ => { tree := root, ok := false, events := [] }

def setItems (items' : List (Key × T)) : T → T
  | .leaf a => .leaf a
  | .node m k _ => .node m k items'

/-- `Dict.clear()` / `Dict.popitem()` (fix C09-F55): the removed keys are reported (value -> MISSING). -/
def applyKeyEdit (root : T) (recv : Path) (notify : Bool)
    (f : List (Key × T) → Option (List (Key × T) × List (Key × Option T × Option T))) : Out :=
  match getAt root recv with
  | some (.node _ .dict items) =>
    match f items with
    | none => { tree := root, ok := false, events := [] }
    | some (items', ents) =>
      finish (resetChain (mapAt (setItems items') root recv) recv)
        (ents.map fun x => ({ path := recv ++ [x.1], old := x.2.1, new := x.2.2 }, recv)) notify
  | _ => { tree := root, ok := false, events := [] }

def dictClear (items : List (Key × T)) : Option (List (Key × T) × List (Key × Option T × Option T)) :=
  some ([], items.map fun kv => (kv.1, some kv.2, none))

def dictPopitem (items : List (Key × T)) : Option (List (Key × T) × List (Key × Option T × Option T)) :=
  match items.getLast? with
  | none => none                                   -- KeyError: the dict is empty
  | some kv => some (items.dropLast, [(kv.1, some kv.2, none)])

/-- One public call on the node at `recv`, inside `notify_on_change(notifyOn)`. -/
def step (root : T) (recv : Path) (notifyOn : Bool) : Op → Out
  | .setKey k v =>
    match writeReset root recv k (some v) with
    | none => { tree := root, ok := false, events := [] }
    | some (r', none) => { tree := r', ok := true, events := [] }
    | some (r', some u) => finish r' [(u, recv)] notifyOn
  | .delKey k =>
    match writeReset root recv k none with
    | none => { tree := root, ok := false, events := [] }
    | some (r', none) => { tree := r', ok := false, events := [] }       -- KeyError: absent key
    | some (r', some u) => finish r' [(u, recv)] notifyOn
  | .append v =>
    match (getAt root recv) with
    | some (.node _ .list items) =>
      match writeReset root recv (Key.i items.length) (some v) with
      | some (r', some u) => finish r' [(u, recv)] notifyOn
      | _ => { tree := root, ok := false, events := [] }
    | _ => { tree := root, ok := false, events := [] }
  | .extend vs =>
    match (getAt root recv) with
    | some (.node _ .list items) =>
      match writeAll root recv ((List.range vs.length).zip vs |>.map fun (i, v) => ([Key.i (items.length + i)], v)) [] with
      | none => { tree := root, ok := false, events := [] }
      | some (r', ups) => finish r' ups notifyOn
    | _ => { tree := root, ok := false, events := [] }
  | .rebind pairs =>
    -- List._sym_rebind applies the pairs in descending path order and reports the updates in
    -- ascending order; the harness sends the pairs of a list receiver in ascending order.
    if pairs.any (fun pv => isMissingLeaf pv.2) then
      -- some pairs delete (value MISSING_VALUE)
      match getAt root recv with
      | some (.node _ .list _) =>
        match writeAllM root recv pairs.reverse [] with
        | none => { tree := root, ok := false, events := [] }
        | some (r', ups) => finish r' ups.reverse notifyOn
      | _ =>
        match writeAllM root recv pairs [] with
        | none => { tree := root, ok := false, events := [] }
        | some (r', ups) => finish r' ups notifyOn
    else
    match getAt root recv with
    | some (.node _ .list _) =>
      match writeAll root recv pairs.reverse [] with
      | none => { tree := root, ok := false, events := [] }
      | some (r', ups) => finish r' ups.reverse notifyOn
    | _ =>
      match writeAll root recv pairs [] with
      | none => { tree := root, ok := false, events := [] }
      | some (r', ups) => finish r' ups notifyOn
  | .update kvs =>
    match writeAll root recv (kvs.map fun (k, v) => ([k], v)) [] with
    | none => { tree := root, ok := false, events := [] }
    | some (r', ups) => finish r' ups false                              -- skip_notification=True
  | .clear =>
    match getAt root recv with
    | some (.node _ .list _) => applyEdit root recv notifyOn editClear
    | _ => applyKeyEdit root recv notifyOn dictClear
  | .reverse => applyEdit root recv notifyOn editReverse
  | .sort => applyEdit root recv notifyOn editSort
  | .popitem => applyKeyEdit root recv notifyOn dictPopitem
  | .insert i v => applyEdit root recv notifyOn (editInsert i v)
  | .delIdx i => applyEdit root recv notifyOn (editDelIdx i)
  | .remove a => applyEdit root recv notifyOn (editRemove a)
  | .setSlice a b st vs => applyEdit root recv notifyOn (editSetSlice notifyOn a b st vs)
  | .delSlice a b st => applyEdit root recv notifyOn (editDelSlice a b st)
  | .imul k => applyEdit root recv notifyOn (editIMul k)

/-! ### handlers that mutate during notification (re-entrant dispatch)

A change handler (`_on_change` / `_on_bound` of an object, the `onchange_callback` of a Dict / List)
may itself issue an ordinary mutating call — on its own node, on a descendant, on an ancestor. That
call is complete before the handler returns: it writes, and its events are delivered to *every*
subscribing ancestor-or-self of what it wrote, the node whose handler is running included; only then
the outer dispatch goes on with its next receiver. The nesting is bounded by `fuel` (the handlers of
the harness stop reacting at that depth). -/

/-- What the handler of the node with identity `id` does on every event it receives: nothing, or one
call (receiver path from the root, operation). -/
abbrev React := Nat → Option (Path × Op)

/-- Deliver the events of one call in order; after each delivery the receiver's handler may run a
nested call (`nested`), whose own log comes right after the event that triggered it. -/
def dispatchWith (nested : T → Nat → T × List Event) (t : T) : List Event → T × List Event
  | [] => (t, [])
  | e :: rest =>
    let r1 := nested t e.recv
    let r2 := dispatchWith nested r1.1 rest
    (r2.1, e :: r1.2 ++ r2.2)

/-- One notified call with re-entrant handlers, at most `fuel` levels of nesting: the tree
afterwards and the log of all deliveries in the order in which the handlers ran. -/
def stepR (react : React) : Nat → T → Path → Op → T × List Event
  | 0, t, recv, op => ((step t recv true op).tree, (step t recv true op).events)
  | f + 1, t, recv, op =>
    dispatchWith (fun t' id => match react id with
        | some (rp, rop) => stepR react f t' rp rop
        | none => (t', [])) (step t recv true op).tree (step t recv true op).events

/-! ### derived state: `sym_nondefault()` / `sym_missing()` against the value specs

What a node reports depends on its contents and on the value specs only, never on identities or
memos: the functions below are defined on `S`, the tree with everything else erased. -/

/-- Contents with classes and schemas, without identities and memos. -/
inductive S where
  | leaf (a : Atom)
  | node (k : Kind) (cls : Nat) (sch : Option Schema) (items : List (Key × S))
  deriving Repr

mutual
  def T.sv : T → S
    | .leaf a => .leaf a
    | .node m kd items => .node kd m.cls m.sch (T.svItems items)
  def T.svItems : List (Key × T) → List (Key × S)
    | [] => []
    | (k, t) :: rest => (k, T.sv t) :: T.svItems rest
end

mutual
  def S.val : S → Val
    | .leaf a => .atom a
    | .node kd cls _ items => .node kd cls (S.valItems items)
  def S.valItems : List (Key × S) → List (Key × Val)
    | [] => []
    | (k, t) :: rest => (k, S.val t) :: S.valItems rest
end

mutual
  /-- `pg.eq` of a value and a default (structural; objects: same class). -/
  def Val.beq : Val → Val → Bool
    | .atom a, .atom b => a == b
    | .node k c xs, .node k' c' ys => k == k' && c == c' && Val.beqItems xs ys
    | _, _ => false
  def Val.beqItems : List (Key × Val) → List (Key × Val) → Bool
    | [], [] => true
    | (k, v) :: xs, (k', v') :: ys => k == k' && Val.beq v v' && Val.beqItems xs ys
    | _, _ => false
end

def Val.lookup (k : Key) : List (Key × Val) → Option Val
  | [] => none
  | (k', v) :: rest => if k' = k then some v else Val.lookup k rest

def schemaDefault (sch : Schema) (k : Key) : Option Val :=
  match sch.find? (fun e => e.1 == k) with
  | some e => e.2
  | none => none

def prefixKey (k : Key) (m : LeafMap) : LeafMap := m.map fun (p, a) => (k :: p, a)

mutual
  /-- `utils.flatten` of a live value that `_diff_base` returned as a whole: Dicts and Lists are
  walked, objects and empty containers are leaves. -/
  def liveFlat (here : Path) : S → LeafMap
    | .leaf a => [(here, .atom a)]
    | .node kd cls sch items =>
      if kd == .obj || items.isEmpty then [(here, (S.node kd cls sch items).val)] else liveItems here items
  def liveItems (here : Path) : List (Key × S) → LeafMap
    | [] => []
    | (k, t) :: rest => liveFlat (here ++ [k]) t ++ liveItems here rest
end

mutual
  /-- `Dict._diff_base(value, default)`, flattened below `here`: nothing when the value equals the
  default; the value itself when it is a leaf, a list, has no default, or is of another class than
  the default; the field-wise diff when both are Dicts / objects of the same class. -/
  def diffFlat (here : Path) : S → Option Val → LeafMap
    | .leaf a, d =>
      if (match d with | some dv => Val.beq (.atom a) dv | none => false) then [] else [(here, .atom a)]
    | .node kd cls sch items, d =>
      if (match d with | some dv => Val.beq (S.node kd cls sch items).val dv | none => false) then []
      else match d with
        | some (.node kd' cls' ditems) =>
          if kd != .list && kd == kd' && cls == cls' then
            let r := diffItems here items ditems
            if r.isEmpty then [(here, .node .dict 0 [])] else r
          else liveFlat here (.node kd cls sch items)
        | _ => liveFlat here (.node kd cls sch items)
  def diffItems (here : Path) : List (Key × S) → List (Key × Val) → LeafMap
    | [], _ => []
    | (k, t) :: rest, ds => diffFlat (here ++ [k]) t (Val.lookup k ds) ++ diffItems here rest ds
end

/-- A schema-bound node: every field against its default (a field that holds MISSING_VALUE equals
its "default" MISSING_VALUE); the children are not asked for their own facts. -/
def typedItems (sch : Schema) : List (Key × S) → LeafMap
  | [] => []
  | (k, .leaf .missing) :: rest => typedItems sch rest
  | (k, t) :: rest => diffFlat [k] t (schemaDefault sch k) ++ typedItems sch rest

mutual
  /-- `sym_nondefault()` recomputed on the current contents, ignoring every memo. -/
  def deriveS : S → LeafMap
    | .leaf _ => []
    | .node _ _ (some sch) items => typedItems sch items
    | .node _ _ none items => deriveItemsS items
  /-- A schema-less container: every leaf; every symbolic child's own `sym_nondefault()`. -/
  def deriveItemsS : List (Key × S) → LeafMap
    | [] => []
    | (k, .leaf a) :: rest => ([k], .atom a) :: deriveItemsS rest
    | (k, .node kd cls sch its) :: rest => prefixKey k (deriveS (.node kd cls sch its)) ++ deriveItemsS rest
end

mutual
  /-- `sym_missing()`: the fields that hold MISSING_VALUE, at any depth. -/
  def missS : S → List Path
    | .leaf _ => []
    | .node _ _ sch items => missItemsS sch.isSome items
  /-- `typed`: the node is schema-bound (only then a field holding MISSING_VALUE is "missing"; a
  placeholder in a List is not). -/
  def missItemsS (typed : Bool) : List (Key × S) → List Path
    | [] => []
    | (k, .leaf a) :: rest => (if typed && a == .missing then [[k]] else []) ++ missItemsS typed rest
    | (k, .node kd cls sch its) :: rest => (missS (.node kd cls sch its)).map (k :: ·) ++ missItemsS typed rest
end

def derive (t : T) : LeafMap := deriveS t.sv
def deriveMiss (t : T) : List Path := missS t.sv

/-! ### reads: what is memoised where -/

mutual
  /-- `node.sym_nondefault()`: the memo if there is one; otherwise a schema-bound node (object,
  typed Dict) diffs its contents against the defaults *without asking its children* and memoises
  the result at itself only, while a schema-less container asks every symbolic child (which
  memoises in turn). -/
  def readND : T → T × LeafMap
    | .leaf a => (.leaf a, [])
    | .node m kd items =>
      match m.cache with
      | some d => (.node m kd items, d)
      | none =>
        match m.sch with
        | some sch =>
          let d := typedItems sch (T.svItems items)
          (.node { m with cache := some d } kd items, d)
        | none =>
          let r := readNDItems items
          (.node { m with cache := some r.2 } kd r.1, r.2)
  def readNDItems : List (Key × T) → List (Key × T) × LeafMap
    | [] => ([], [])
    | (k, .leaf a) :: rest =>
      let r := readNDItems rest
      ((k, .leaf a) :: r.1, ([k], .atom a) :: r.2)
    | (k, .node m kd its) :: rest =>
      let c := readND (.node m kd its)
      let r := readNDItems rest
      ((k, c.1) :: r.1, prefixKey k c.2 ++ r.2)
end

mutual
  /-- `node.sym_missing()`: the memo, or the recursion through all symbolic children (schema-bound
  or not), each memoising its own answer. -/
  def readMiss : T → T × List Path
    | .leaf a => (.leaf a, [])
    | .node m kd items =>
      match m.miss with
      | some d => (.node m kd items, d)
      | none =>
        let r := readMissItems m.sch.isSome items
        (.node { m with miss := some r.2 } kd r.1, r.2)
  def readMissItems (typed : Bool) : List (Key × T) → List (Key × T) × List Path
    | [] => ([], [])
    | (k, .leaf a) :: rest =>
      let r := readMissItems typed rest
      ((k, .leaf a) :: r.1, (if typed && a == .missing then [[k]] else []) ++ r.2)
    | (k, .node m kd its) :: rest =>
      let c := readMiss (.node m kd its)
      let r := readMissItems typed rest
      ((k, c.1) :: r.1, c.2.map (k :: ·) ++ r.2)
end

/-- Which facts a read asks for. -/
structure Facts where
  nd : Bool
  miss : Bool

/-- A read of derived facts of the node at `p` only (the harness chooses which nodes it reads,
which facts, and when); nothing outside the subtree at `p` is touched. Returns the new tree and
the values read. -/
def readAt (root : T) (p : Path) (f : Facts := ⟨true, true⟩) : T × Option (LeafMap × List Path) :=
  match getAt root p with
  | none => (root, none)
  | some n =>
    let r1 := if f.nd then readND n else (n, [])
    let r2 := if f.miss then readMiss r1.1 else (r1.1, [])
    (mapAt (fun _ => r2.1) root p, some (r1.2, r2.2))

mutual
  /-- The paths of all symbolic nodes, pre-order (the order in which the harness reads everything). -/
  def allPaths (here : Path) : T → List Path
    | .leaf _ => []
    | .node _ _ items => here :: allPathsItems here items
  def allPathsItems (here : Path) : List (Key × T) → List Path
    | [] => []
    | (k, t) :: rest => allPaths (here ++ [k]) t ++ allPathsItems here rest
end

/-- Reading every fact of every node (the protocol of the streams without chosen reads). -/
def readEverything (root : T) : T × List (Path × LeafMap × List Path) :=
  (allPaths [] root).foldl (fun acc p =>
    match readAt acc.1 p with
    | (t', some v) => (t', acc.2 ++ [(p, v.1, v.2)])
    | (t', none) => (t', acc.2)) (root, [])

/-! ### `notify_on_change` is a thread-local stack of scopes; two trees (flags.py)

`pg.notify_on_change(v)` pushes `v` on a stack that belongs to the calling thread
(`thread_local_value_scope`); `is_change_notification_enabled()` reads the innermost entry of the
calling thread's stack, True when the thread is inside no such scope. -/

/-- Per thread: the scopes it is inside of, innermost first. -/
abbrev NStacks := Nat → List Bool

def switchOn (st : List Bool) : Bool := st.head?.getD true

inductive NAct where
  | enter (v : Bool) | leave
  deriving Repr

def NAct.apply (st : List Bool) : NAct → List Bool
  | .enter v => v :: st
  | .leave => st.tail

def NStacks.act (ts : NStacks) (t : Nat) (a : NAct) : NStacks :=
  fun i => if i = t then NAct.apply (ts t) a else ts i

/-- One step of a history of several threads over two trees: thread `t` enters / leaves a scope, or
makes a call on a node of one of the trees (`wrapper = false`: the call is `rebind(...,
skip_notification=True)`-like, silenced by the caller itself). -/
inductive NStep where
  | scope (t : Nat) (a : NAct)
  | call (t : Nat) (inExt : Bool) (recv : Path) (wrapper : Bool) (op : Op)

structure NState where
  stacks : NStacks
  tree : T
  ext : T

def stepN (s : NState) : NStep → NState × Out
  | .scope t a => ({ s with stacks := s.stacks.act t a }, { tree := s.tree, ok := true, events := [] })
  | .call t inExt recv w op =>
    let on := w && switchOn (s.stacks t)
    if inExt then
      let o := step s.ext recv on op
      ({ s with ext := o.tree }, o)
    else
      let o := step s.tree recv on op
      ({ s with tree := o.tree }, o)

def runN : NState → List NStep → NState
  | s, [] => s
  | s, x :: rest => runN (stepN s x).1 rest

/-- The scope actions of thread `t` in a history, in order. -/
def ownNActs (t : Nat) : List NStep → List NAct
  | [] => []
  | .scope u a :: rest => if u = t then a :: ownNActs t rest else ownNActs t rest
  | .call _ _ _ _ _ :: rest => ownNActs t rest

/-! ### Writes that a value spec REJECTS (pg.typing; dict.py `_set_item_without_permission_check`)

The field of the owner decides: `Int(min_value=…)` refuses non-integers (TypeError) and too small
integers (ValueError); a field with a fixed Dict schema refuses non-dicts and badly typed items
(TypeError / ValueError) and keys the schema does not have (KeyError); an `Object(cls)` field refuses
everything but instances of the class (TypeError); None where the field is not noneable is a
ValueError. A refused write raises and leaves the tree as it
was: the old value stays where it is, attached as before (the `except` branch re-attaches it). -/

inductive RejErr where
  | key | type | value
  deriving DecidableEq, Repr

inductive LeafTy where
  | any | int (min : Option Int)
  deriving Repr

inductive FieldTy where
  | leaf (l : LeafTy)
  | dict (fields : List (Key × LeafTy))
  | obj (classes : List Nat)
  deriving Repr

def LeafTy.check : LeafTy → T → Option RejErr
  | .any, _ => none
  | .int mn, .leaf (.int i) => if (match mn with | some m => decide (m ≤ i) | none => true) then none else some .value
  | .int _, .leaf .none => some .value        -- "Value cannot be None"
  | .int _, _ => some .type

def checkItems (fields : List (Key × LeafTy)) : List (Key × T) → Option RejErr
  | [] => none
  | (k, v) :: rest =>
    match fields.find? (fun f => f.1 == k) with
    | none => some .key
    | some f => match f.2.check v with
      | some e => some e
      | none => checkItems fields rest

def FieldTy.check : FieldTy → T → Option RejErr
  | .leaf l, v => l.check v
  | .dict fs, .node _ .dict items => checkItems fs items
  | .dict _, .leaf .none => some .value
  | .dict _, _ => some .type
  | .obj cs, .node m .obj _ => if cs.contains m.cls then none else some .type
  | .obj _, .leaf .none => some .value
  | .obj _, _ => some .type

/-- class of the owner → field → what the field accepts (classes / fields not named: anything). -/
abbrev Rules := Nat → Key → FieldTy

/-- The single location a call writes (owner, key, value) — the calls of the rejected-write histories:
an accessor write, a one-pair rebind (from the owner or an ancestor), a one-key `update`. -/
def singleTarget (recv : Path) : Op → Option (Path × Key × T)
  | .setKey k v => some (recv, k, v)
  | .update [(k, v)] => some (recv, k, v)
  | .rebind [(p, v)] => match p.getLast? with
    | some k => some (recv ++ p.dropLast, k, v)
    | none => none
  | _ => none

def rejection (rules : Rules) (root : T) (recv : Path) (op : Op) : Option RejErr :=
  match singleTarget recv op with
  | some (owner, k, v) =>
    match getAt root owner with
    | some (.node m _ _) => (rules m.cls k).check v
    | _ => none
  | none => none

/-- One public call, value specs included: refused → nothing happens (`ok = false`, no event, the same
tree); otherwise `step`. -/
def stepV (rules : Rules) (root : T) (recv : Path) (notifyOn : Bool) (op : Op) : Out :=
  match rejection rules root recv op with
  | some _ => { tree := root, ok := false, events := [] }
  | none => step root recv notifyOn op

structure VCall where
  recv : Path
  notifyOn : Bool
  op : Op

def runV (rules : Rules) : T → List VCall → T
  | t, [] => t
  | t, c :: rest => runV rules (stepV rules t c.recv c.notifyOn c.op).tree rest

/-- The history without the calls that were refused when their turn came. -/
def keepAccepted (rules : Rules) : T → List VCall → List VCall
  | _, [] => []
  | t, c :: rest =>
    match rejection rules t c.recv c.op with
    | some _ => keepAccepted rules t rest
    | none => c :: keepAccepted rules (step t c.recv c.notifyOn c.op).tree rest

end Pg.C09
