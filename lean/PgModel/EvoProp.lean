/-
  C14 — selector `Proportional` (selectors.py:124-170) with its `_partition`, over exact rationals.
-/
import PgModel.EvoNum
namespace Pg.C14

/-- `int(x + 0.5)` for `x ≥ 0`. -/
def roundHalfUp (x : Q) : Nat := (x + 1 / 2).floor.toNat

/-- `allocation[i] += 1` / `-= 1`; `none` if the slot does not exist or would become negative. -/
def bump (up : Bool) (l : List Nat) (i : Nat) : Option (List Nat) :=
  match l[i]? with
  | some a => if up then some (l.set i (a + 1)) else if a = 0 then none else some (l.set i (a - 1))
  | none => none

/-- the inner `while delta == -1 and allocation[item_index] == 0` scan (cyclic, at most `fuel`
slots): the position in `cands` of the next slot that can give one item back. -/
def nextDec (alloc cands : List Nat) : Nat → Nat → Option Nat
  | 0, _ => none
  | f + 1, pos =>
    let p := pos % cands.length
    match cands[p]? with
    | some idx => if alloc.getD idx 0 > 0 then some p else nextDec alloc cands f (p + 1)
    | none => none

/-- the round-robin adjustment loop, `steps = |extra|` iterations. -/
def adjust (up : Bool) (cands : List Nat) : Nat → Nat → List Nat → Option (List Nat)
  | 0, _, alloc => some alloc
  | s + 1, nc, alloc =>
    match (if up then (if cands.isEmpty then none else some (nc % cands.length))
           else nextDec alloc cands (cands.length + 1) nc) with
    | none => none
    | some p =>
      match cands[p]? with
      | none => none
      | some idx =>
        match bump up alloc idx with
        | none => none
        | some alloc' => adjust up cands s (p + 1) alloc'

/-- `Proportional._partition(weights, n)` for a non-zero total weight. -/
def partition (ws : List Q) (n : Nat) : Option (List Nat) :=
  let den := qsum ws
  let alloc := ws.map (fun w => roundHalfUp ((n : Q) * w / den))
  let total := alloc.sum
  if total = n then some alloc
  else
    let up := decide (total < n)
    let idxs := (List.range ws.length).filter (fun i => decide (0 < ws.getD i 0))
    let cands := idxs.mergeSort (fun a b =>
      if up then decide (ws.getD a 0 ≥ ws.getD b 0) else decide (ws.getD a 0 ≤ ws.getD b 0))
    adjust up cands (if up then n - total else total - n) 0 alloc

def replicateAll : List Ind → List Nat → List Ind
  | x :: xs, c :: cs => List.replicate c x ++ replicateAll xs cs
  | _, _ => []

/-- the harness' weights function: the given weights, cyclically. -/
def cycleWeights (ws : List Q) (n : Nat) : List Q :=
  (List.range n).map (fun i => ws.getD (i % ws.length) 0)

def selProportional (n : NSpec) (wf : Nat → List Q) : Op := fun pop =>
  let k := numOutput n pop.length
  let ws := wf pop.length
  if ws.isEmpty then (if k = 0 then pure [] else fail .zerodiv)   -- `0 % len([])`
  else if qsum ws = 0 then fail .zerodiv                         -- `n * w / sum(weights)`
  else
    match partition ws k with
    | none => fail .unmodelled
    | some alloc => pure (replicateAll pop alloc)

end Pg.C14
