/-
  C15 — NEAT's speciation bookkeeping inside the model: the population update of `pg.evolution.neat`
  (pyglove/ext/evolution/neat.py)

    population_update = selectors.Top(1, cluster=True, key=base.get_generation_id)
                        >> speciate(distance=compatibility_distance(disjoint, matching), distance_threshold)

  as a pure function.  `speciate` keeps `global_state.living_species` (species = representative + living
  members) and marks every DNA object with its species in `DNA.userdata` (not persisted).  Experiment
  (1350 crash points, round 4): recovery IS exact, because `Evolution.recover` replays the update once per
  feedback on the new DNA objects, which rebuilds the userdata marks step by step (and `DNA.clone` drops
  userdata, so children never inherit a species).  The userdata mark of a population member is therefore
  a function of the species table: the species whose member list contains it (identity = proposal id).

  As for NSGA2, the second state component is folded into the model's population component:
      [speciesMark, representative, member…]* ++ [popMark] ++ population        (no popMark: never updated)

  On the flat spaces of the harness `_compute_diff` gives (N, W, D) = (#decisions, #differing decisions, 0),
  so the compatibility distance is `matching · W / N`, compared with the threshold as exact tenths.
-/
import PgModel.Gen
namespace Pg.C15.Neat

/-- structural facts of neat.py, extracted by translate/t_c15.py (coefficients in tenths) -/
structure Facts where
  matching10 : Nat
  threshold10 : Nat
  deriving Repr, DecidableEq

def speciesMarkDna : Nat := 1000001
def popMarkDna : Nat := 1000002
def speciesMark : Item := { dna := speciesMarkDna }
def popMark : Item := { dna := popMarkDna }
def isSpeciesMark (it : Item) : Bool := it.dna == speciesMarkDna
def isPopMark (it : Item) : Bool := it.dna == popMarkDna

structure Species where
  rep : Option Item
  members : List Item
  deriving Inhabited

/-- split the species section at the species marks: groups of (representative, member…) -/
def groups : List Item → List (List Item) → List (List Item)
  | [], acc => acc.reverse.map List.reverse
  | it :: rest, acc =>
    if isSpeciesMark it then groups rest ([] :: acc)
    else match acc with
      | [] => groups rest acc
      | g :: gs => groups rest ((it :: g) :: gs)

def splitSpecies (l : List Item) : List Species :=
  (groups l []).map fun body => { rep := body.head?, members := body.drop 1 }

/-- (living species if the update ever ran, population) -/
def decode (enc : List Item) : Option (List Species) × List Item :=
  if enc.any isPopMark then
    (some (splitSpecies (enc.takeWhile (fun it => !isPopMark it))),
     (enc.dropWhile (fun it => !isPopMark it)).drop 1)
  else (none, enc)

def encode (species : List Species) (pop : List Item) : List Item :=
  (species.flatMap fun s => speciesMark :: ((s.rep.toList) ++ s.members)) ++ [popMark] ++ pop

/-- mixed-radix digits of a DNA index -/
def digits : List Nat → Nat → List Nat
  | [], _ => []
  | a :: rest, idx =>
    let w := rest.foldl (· * ·) 1
    ((idx / w) % a) :: digits rest (idx % w)

/-- `compatibility_distance(left, right) <= threshold` on a flat space -/
def compatible (facts : Facts) (dims : List Nat) (a b : Item) : Bool :=
  let w := ((digits dims a.dna).zip (digits dims b.dna)).filter (fun p => p.1 != p.2) |>.length
  decide (facts.matching10 * w ≤ facts.threshold10 * dims.length)

def sameObject (a b : Item) : Bool := a.pid == b.pid && a.pid.isSome

/-- `Top(1, cluster=True, key=generation_id)`: the individuals of the latest generation, in order -/
def latestGeneration (pop : List Item) : List Item :=
  let g := pop.foldl (fun m it => max m (it.gid.getD 0)) 0
  pop.filter fun it => it.gid.getD 0 == g

def addMember (table : List Species) (i : Nat) (dna : Item) : List Species :=
  (List.range table.length).zip table |>.map fun (j, s) =>
    if j == i then { rep := if s.rep.isNone then some dna else s.rep, members := s.members ++ [dna] } else s

/-- one iteration of the loop of `speciate` (neat.py): `old` = member lists before they were cleared
(the userdata marks), `table` = the living species with the members collected so far -/
def speciateOne (facts : Facts) (dims : List Nat) (old : List Species) (table : List Species) (dna : Item) :
    List Species :=
  -- `dna.userdata.get('species')`
  match (List.range old.length).find? fun i => (old.getD i default).members.any (sameObject dna) with
  | some i => addMember table i dna
  | none =>
    match (List.range table.length).find? fun i =>
        match (table.getD i default).rep with
        | some r => compatible facts dims r dna
        | none => false with
    | some i => addMember (addMember table i dna) i dna       -- `species.add(dna)` and `parent_species.add(dna)`
    | none => addMember (table ++ [{ rep := none, members := [] }]) table.length dna

/-- `population_update` of `neat(...)` on the encoded component -/
def update (facts : Facts) (dims : List Nat) (enc : List Item) (_step : Nat) : List Item :=
  let (species, pop) := decode enc
  let old := species.getD []
  let pop1 := latestGeneration pop
  let cleared := old.map fun s => { s with members := [] }
  let table := pop1.foldl (speciateOne facts dims old) cleared
  encode (table.filter fun s => !s.members.isEmpty) pop1

end Pg.C15.Neat
