/-
  C05 — functions as JSON leaves (utils/json_conversion.py `_function_to_json` 597-616,
  `_function_from_json` 755-770): a function is written either BY CODE (marshalled code object +
  defaults) or BY NAME (`module.qualname`, resolved with `_load_symbol` on load). Which one is
  decided by two tests on the function; the tests present in the current source are extracted by
  the translator (`PgGen/C05Fn.lean`).
-/
namespace Pg.C05

/-- Where a plain Python function (def or lambda) can come from. -/
inductive FnOrigin where
  | moduleDef | moduleLambda | classBodyDef | classBodyLambda | nestedDef | nestedLambda
  deriving DecidableEq, Repr, Inhabited

def FnOrigin.all : List FnOrigin :=
  [.moduleDef, .moduleLambda, .classBodyDef, .classBodyLambda, .nestedDef, .nestedLambda]

/-- `f.__name__ == '<lambda>'`. -/
def FnOrigin.isLambda : FnOrigin → Bool
  | .moduleLambda | .classBodyLambda | .nestedLambda => true
  | _ => false

/-- `f.__code__.co_flags & CO_NESTED`: the code object was compiled inside a *function* scope
(a class body at module level is not one). -/
def FnOrigin.isNested : FnOrigin → Bool
  | .nestedDef | .nestedLambda => true
  | _ => false

/-- The disjuncts of the `if` in `_function_to_json`. -/
structure FnTests where
  lambdaName : Bool
  coNested : Bool
  deriving DecidableEq, Repr

/-- Is the function written by code? -/
def writtenByCode (t : FnTests) (o : FnOrigin) : Bool :=
  (t.lambdaName && o.isLambda) || (t.coNested && o.isNested)

/-- `_load_symbol(module.qualname)` finds the function: the qualified name is a chain of
attributes — `<lambda>` and `<locals>` are not. -/
def FnOrigin.resolvableByName : FnOrigin → Bool
  | .moduleDef | .classBodyDef => true
  | _ => false

end Pg.C05
