/-
  C05 — functions as JSON leaves (utils/json_conversion.py `_function_to_json` 597-616,
  `_function_from_json` 755-770): a function is written either BY CODE (marshalled code object +
  defaults) or BY NAME (`module.qualname`, resolved with `_load_symbol` on load). Which one is
  decided by two tests on the function; the tests present in the current source are extracted by
  the translator (`PgGen/C05Fn.lean`).
-/
namespace Pg.C05

/-- Where a plain Python function (def or lambda) can come from. -/
inductive FnOrigin where
  | moduleDef | moduleLambda | classBodyDef | classBodyLambda | nestedDef | nestedLambda
  deriving DecidableEq, Repr, Inhabited

def FnOrigin.all : List FnOrigin :=
  [.moduleDef, .moduleLambda, .classBodyDef, .classBodyLambda, .nestedDef, .nestedLambda]

/-- `f.__name__ == '<lambda>'`. -/
def FnOrigin.isLambda : FnOrigin → Bool
  | .moduleLambda | .classBodyLambda | .nestedLambda => true
  | _ => false

/-- `f.__code__.co_flags & CO_NESTED`: the code object was compiled inside a *function* scope
(a class body at module level is not one). -/
def FnOrigin.isNested : FnOrigin → Bool
  | .nestedDef | .nestedLambda => true
  | _ => false

/-- The disjuncts of the `if` in `_function_to_json`. -/
structure FnTests where
  lambdaName : Bool
  coNested : Bool
  deriving DecidableEq, Repr

/-- Is the function written by code? -/
def writtenByCode (t : FnTests) (o : FnOrigin) : Bool :=
  (t.lambdaName && o.isLambda) || (t.coNested && o.isNested)

/-- `_load_symbol(module.qualname)` finds the function: the qualified name is a chain of
attributes — `<lambda>` and `<locals>` are not. -/
def FnOrigin.resolvableByName : FnOrigin → Bool
  | .moduleDef | .classBodyDef => true
  | _ => false

end Pg.C05

namespace Pg.C05

/-! ### Loading functions written by code: `_function_from_json` (755-770) -/

/-- What the JSON of a by-code function carries: the code payload and, separately, the defaults. -/
structure FnJ where
  code : Nat
  defaults : List Int
  deriving DecidableEq, Repr, Inhabited

/-- One load. With `memo`, a function once rebuilt is remembered in a process-level table keyed by
the code payload alone (the shape of seeded change C05-10); without, it is rebuilt from its own
JSON every time. -/
def loadFn (memo : Bool) (table : List (Nat × FnJ)) (j : FnJ) : List (Nat × FnJ) × FnJ :=
  if memo then
    match table.find? (fun p => p.1 == j.code) with
    | some p => (table, p.2)
    | none => ((j.code, j) :: table, j)
  else (table, j)

/-- The loads of a process, in order (one value with several functions, several files, jsonl records …). -/
def loadAll (memo : Bool) : List (Nat × FnJ) → List FnJ → List (Nat × FnJ) × List FnJ
  | table, [] => (table, [])
  | table, j :: js =>
    let (t1, f) := loadFn memo table j
    let (t2, fs) := loadAll memo t1 js
    (t2, f :: fs)

end Pg.C05

namespace Pg.C05

/-! ### Class methods: `_method_to_json` / `_method_from_json` -/

/-- A class method as a value: the class that defines it, the class it is bound to (`__self__`:
the same, or a subclass that inherits it), its name. -/
structure MethodRef where
  defining : List Char
  bound : List Char
  name : List Char
  deriving DecidableEq, Repr, Inhabited

/-- The written name: class and attribute. -/
def writeMethod (namesBound : Bool) (m : MethodRef) : List Char × List Char :=
  (if namesBound then m.bound else m.defining, m.name)

/-- `_load_symbol`: the attribute of the named class — a method bound to THAT class (the class
that defines it does not change: the named class is the defining class or inherits from it). -/
def loadMethod (m : MethodRef) (w : List Char × List Char) : MethodRef := ⟨m.defining, w.1, w.2⟩

end Pg.C05
