/-
  Value specs (`pyglove/core/typing/value_specs.py`, `class_schema.py`, `key_specs.py`):
  executable model of `apply`, `is_compatible`, `extend`.  Serves C04 (and C03, C05, C13, C18).

  The model mirrors what the code does, stage by stage, including its defects.  Line anchors refer
  to value_specs.py unless another file is named.

  Parameters (trusted, see `Env`): the subclass relation of user classes and the regular-expression
  matcher.  Not modelled: user `transform`s, `Callable`/`Functor`/`Type` specs, forward references,
  `CustomTyping` values, converters other than the built-in int→float.
-/
namespace Pg.Typing

/-! ### Values -/

/-- Exact dyadic rational `m / 2^e` (Python finite floats; ints have `e = 0`). -/
structure Num where
  m : Int
  e : Nat
  deriving DecidableEq, Repr

namespace Num
def ofInt (i : Int) : Num := ⟨i, 0⟩
def le (a b : Num) : Bool := decide (a.m * (2 : Int) ^ b.e ≤ b.m * (2 : Int) ^ a.e)
def lt (a b : Num) : Bool := decide (a.m * (2 : Int) ^ b.e < b.m * (2 : Int) ^ a.e)
def eq (a b : Num) : Bool := decide (a.m * (2 : Int) ^ b.e = b.m * (2 : Int) ^ a.e)
end Num

/-- Python values the specs are applied to.  `missing` is `MISSING_VALUE` (also any
`MissingValue(spec)`, which compares equal to it).  `obj cls uid part`: an instance of user class
`cls` with a copy-stable identity `uid` (its `__eq__`), `part` = `is_partial`. -/
inductive Val where
  | missing
  | none
  | bool (b : Bool)
  | int (i : Int)
  | float (n : Num)
  | str (s : String)
  | list (xs : List Val)
  | tuple (xs : List Val)
  | dict (kvs : List (String × Val))
  | obj (cls : Nat) (uid : Nat) (part : Bool)
  deriving Repr, Inhabited

namespace Val

def isMissing : Val → Bool
  | .missing => true
  | _ => false

def isNone : Val → Bool
  | .none => true
  | _ => false

/-- Numeric view of bool / int / float (what Python's comparison operators see). -/
def num? : Val → Option Num
  | .bool b => some ⟨if b then 1 else 0, 0⟩
  | .int i => some ⟨i, 0⟩
  | .float n => some n
  | _ => Option.none

mutual
  /-- Python `==` on the modelled values (numeric tower compares by value; dicts compare here
  item by item in order, see the C04 report: the harness keeps equal dicts in equal order). -/
  def pyEq : Val → Val → Bool
    | .missing, .missing => true
    | .none, .none => true
    | .bool a, .bool b => a == b
    | .bool a, .int b => (if a then 1 else 0) == b
    | .bool a, .float b => Num.eq ⟨if a then 1 else 0, 0⟩ b
    | .int a, .bool b => a == (if b then 1 else 0)
    | .int a, .int b => a == b
    | .int a, .float b => Num.eq ⟨a, 0⟩ b
    | .float a, .bool b => Num.eq a ⟨if b then 1 else 0, 0⟩
    | .float a, .int b => Num.eq a ⟨b, 0⟩
    | .float a, .float b => Num.eq a b
    | .str a, .str b => a == b
    | .list a, .list b => pyEqList a b
    | .tuple a, .tuple b => pyEqList a b
    | .dict a, .dict b => pyEqKvs a b
    | .obj c u _, .obj c' u' _ => c == c' && u == u'
    | _, _ => false
  def pyEqList : List Val → List Val → Bool
    | [], [] => true
    | x :: xs, y :: ys => pyEq x y && pyEqList xs ys
    | _, _ => false
  def pyEqKvs : List (String × Val) → List (String × Val) → Bool
    | [], [] => true
    | (k, x) :: xs, (l, y) :: ys => k == l && pyEq x y && pyEqKvs xs ys
    | _, _ => false
end

/-- `x in values` for a Python list. -/
def pyIn (x : Val) (vals : List Val) : Bool := vals.any (fun e => pyEq e x)

end Val

/-! ### Types (`value_type`, `isinstance`, converters) -/

inductive Ty where
  | object | bool | int | float | str | list | tuple | dict
  | obj (cls : Nat)
  | noneT | missingT
  deriving DecidableEq, Repr

/-- Parameters of the model. -/
structure Env where
  /-- `issubclass(a, b)` on user classes. -/
  sub : Nat → Nat → Bool
  /-- `re.compile(pattern[id]).match(s) is not None`. -/
  rx : Nat → String → Bool

def Val.ty : Val → Ty
  | .missing => .missingT
  | .none => .noneT
  | .bool _ => .bool
  | .int _ => .int
  | .float _ => .float
  | .str _ => .str
  | .list _ => .list
  | .tuple _ => .tuple
  | .dict _ => .dict
  | .obj c _ _ => .obj c

/-- `issubclass(a, b)`: `bool ⊂ int`, everything `⊂ object`, user classes by `env.sub`. -/
def Ty.sub (env : Env) : Ty → Ty → Bool
  | _, .object => true
  | .bool, .int => true
  | .obj a, .obj b => env.sub a b
  | a, b => a == b

/-- `pg_inspect.is_instance(value, value_type)` for a type or tuple of types. -/
def instOf (env : Env) (v : Val) (ts : List Ty) : Bool := ts.any (fun t => Ty.sub env v.ty t)

/-- `type_conversion.get_converter(type(value), value_type)` applied to the value: the only
built-in converter that concerns the modelled values is int → float (`bool ⊂ int`). -/
def convert (v : Val) (ts : List Ty) : Option Val :=
  if ts.any (fun t => t == .float || t == .object) then
    match v with
    | .bool b => some (.float ⟨if b then 1 else 0, 0⟩)
    | .int i => some (.float ⟨i, 0⟩)
    | _ => none
  else none

inductive Err where
  | type | value | key
  deriving DecidableEq, Repr

abbrev R := Except Err

/-- Type check and conversion stage of `ValueSpecBase.apply` (303-317). -/
def typeCheck (env : Env) (vt : Option (List Ty)) (v : Val) : R Val :=
  match vt with
  | none => .ok v
  | some ts =>
    if instOf env v ts then .ok v
    else match convert v ts with
      | some v' => .ok v'
      | none => .error .type

/-! ### Specs -/

structure Flags where
  noneable : Bool
  /-- `Val.missing` = no default. -/
  default : Val
  frozen : Bool
  deriving Repr, Inhabited

inductive KeySpec where
  | const (k : String)
  | strKey (regex : Option Nat)
  deriving DecidableEq, Repr

mutual
  inductive Spec where
    | any (f : Flags)
    | bool (f : Flags)
    | int (lo hi : Option Int) (f : Flags)
    | float (lo hi : Option Num) (f : Flags)
    | str (regex : Option Nat) (f : Flags)
    | enum (vals : List Val) (f : Flags)
    | list (elem : Spec) (min : Nat) (max : Option Nat) (f : Flags)
    /-- `Tuple`: `fixed_length` is `min_size == max_size` (1396); a fixed tuple has one element spec
    per position, a variable one exactly one. -/
    | tuple (elems : List Spec) (min : Nat) (max : Option Nat) (f : Flags)
    /-- `Dict`: `none` = schema-less. -/
    | dict (fields : Option (List Field)) (f : Flags)
    | obj (cls : Nat) (f : Flags)
    | union (cands : List Spec) (f : Flags)
    /-- `pg.typing.Callable()` without argument specs: no value type; none of the modelled values is
    callable, so it accepts only `None` (when noneable) — the candidate that opens `Union._apply`'s
    converter fallback. -/
    | callable (f : Flags)
  inductive Field where
    | mk (key : KeySpec) (value : Spec)
end

instance : Inhabited Spec := ⟨.any default⟩

namespace Spec

def flags : Spec → Flags
  | .any f | .bool f | .int _ _ f | .float _ _ f | .str _ f | .enum _ f | .list _ _ _ f
  | .tuple _ _ _ f | .dict _ f | .obj _ f | .union _ f | .callable f => f

def setFlags (g : Flags) : Spec → Spec
  | .any _ => .any g
  | .bool _ => .bool g
  | .int lo hi _ => .int lo hi g
  | .float lo hi _ => .float lo hi g
  | .str r _ => .str r g
  | .enum vs _ => .enum vs g
  | .list e mn mx _ => .list e mn mx g
  | .tuple es mn mx _ => .tuple es mn mx g
  | .dict fs _ => .dict fs g
  | .obj c _ => .obj c g
  | .union cs _ => .union cs g
  | .callable _ => .callable g

/-- The spec class (`__class__`), for `isinstance(other, self.__class__)`. -/
inductive Kind where
  | any | bool | int | float | str | enum | list | tuple | dict | obj | union | callable
  deriving DecidableEq, Repr

def kind : Spec → Kind
  | .any _ => .any | .bool _ => .bool | .int .. => .int | .float .. => .float | .str .. => .str
  | .enum .. => .enum | .list .. => .list | .tuple .. => .tuple | .dict .. => .dict
  | .obj .. => .obj | .union .. => .union | .callable .. => .callable

end Spec

def Field.key : Field → KeySpec | .mk k _ => k
def Field.value : Field → Spec | .mk _ v => v

/-- `Tuple.fixed_length` (1394-1396). -/
def fixedLen (mn : Nat) (mx : Option Nat) : Bool := mx == some mn

/-- `Enum.__init__` 913-925: the common value type of the candidates, `none` if mixed. -/
def enumVTLoop : Option Ty → List Val → Option Ty
  | acc, [] => acc
  | acc, v :: vs =>
    if v.isNone then enumVTLoop acc vs
    else match acc with
      | none => enumVTLoop (some v.ty) vs
      | some t =>
        let nt := v.ty
        if t == nt || (t == .bool && nt == .int) then enumVTLoop (some nt) vs       -- issubclass(value_type, next_type)
        else if nt == .bool && t == .int then enumVTLoop (some t) vs               -- issubclass(next_type, value_type)
        else none

def enumVT (vals : List Val) : Option Ty := enumVTLoop none vals

mutual
  /-- `_value_type` of a spec: `none` = no type check. -/
  def vt : Spec → Option (List Ty)
    | .any _ => some [.object]
    | .bool _ => some [.bool]
    | .int .. => some [.int]
    | .float .. => some [.float]
    | .str .. => some [.str]
    | .enum vals _ => (enumVT vals).map ([·])
    | .list .. => some [.list]
    | .tuple .. => some [.tuple]
    | .dict .. => some [.dict]
    | .obj c _ => some [.obj c]
    | .union cands _ => vtUnion cands          -- 2653-2665
    | .callable _ => none                      -- 2116: `callable_type` is None
  def vtUnion : List Spec → Option (List Ty)
    | [] => some []
    | c :: cs => match vt c, vtUnion cs with
      | some a, some b => some (a ++ b)
      | _, _ => none
end

/-! ### `apply` -/

/-- Head of `ValueSpecBase.apply` (256-275): frozen, missing, None. -/
def gate (f : Flags) (p : Bool) (v : Val) (k : Val → R Val) : R Val :=
  if f.frozen then
    if !v.isMissing && !Val.pyEq f.default v then .error .value else .ok f.default
  else if v.isMissing then (if p then .ok .missing else .error .value)
  else if v.isNone then (if f.noneable then .ok .none else .error .value)
  else k v

/-- `Number._validate` (676-686). -/
def outOfRange (lo hi : Option Num) (n : Num) : Bool :=
  (match lo with | some l => Num.lt n l | none => false)
  || (match hi with | some h => Num.lt h n | none => false)

def rangeCheck (lo hi : Option Num) (v : Val) : R Val :=
  match v.num? with
  | none => .error .type
  | some n => if outOfRange lo hi n then .error .value else .ok v

def KeySpec.isConst : KeySpec → Bool
  | .const _ => true
  | .strKey _ => false

/-- `KeySpec.match(key)` on string keys. -/
def KeySpec.matches (env : Env) : KeySpec → String → Bool
  | .const k, s => k == s
  | .strKey none, _ => true
  | .strKey (some r), s => env.rx r s

def constKeys : List Field → List String
  | [] => []
  | .mk (.const k) _ :: fs => k :: constKeys fs
  | .mk _ _ :: fs => constKeys fs

def nonConstKeySpecs : List Field → List KeySpec
  | [] => []
  | .mk (.const _) _ :: fs => nonConstKeySpecs fs
  | .mk ks _ :: fs => ks :: nonConstKeySpecs fs

def lookup (kvs : List (String × Val)) (k : String) : Option Val :=
  (kvs.find? (fun kv => kv.1 == k)).map (·.2)

/-- `dict_obj[key] = new_value`: in place for an existing key, appended otherwise. -/
def setKey : List (String × Val) → String → Val → List (String × Val)
  | [], k, v => [(k, v)]
  | (l, w) :: rest, k, v => if l == k then (l, v) :: rest else (l, w) :: setKey rest k v

def setKeys (kvs : List (String × Val)) : List (String × Val) → List (String × Val)
  | [] => kvs
  | (k, v) :: rest => setKeys (setKey kvs k v) rest

/-- `dict_obj.get(key, MISSING)`, replaced by a copy of the field default when missing
(class_schema.py 1203-1211). -/
def valueOrDefault (kvs : List (String × Val)) (k : String) (dflt : Val) : Val :=
  match lookup kvs k with
  | some v => if v.isMissing then dflt else v
  | none => dflt

/-- `Schema.resolve`: keys matched by no field (class_schema.py 1116-1150). -/
def unmatchedKeys (env : Env) (fields : List Field) (kvs : List (String × Val)) : List String :=
  (kvs.map (·.1)).filter fun k =>
    !(constKeys fields).contains k && !(nonConstKeySpecs fields).any (fun ks => ks.matches env k)

/-- Keys handled by the field with key spec `ks`, given the non-const key specs declared before it. -/
def fieldKeys (env : Env) (consts : List String) (earlier : List KeySpec) (ks : KeySpec)
    (kvs : List (String × Val)) : List String :=
  match ks with
  | .const k => [k]
  | ks => (kvs.map (·.1)).filter fun k =>
      !consts.contains k && ks.matches env k && !earlier.any (fun e => e.matches env k)

def sizeOk (n mn : Nat) (mx : Option Nat) : Bool :=
  decide (mn ≤ n) && (match mx with | some m => decide (n ≤ m) | none => true)

mutual
  /-- `ValueSpecBase.apply` (245-328) with the per-class `_apply` / `_validate`. -/
  def apply (env : Env) : Spec → Bool → Val → R Val
    | .any f, p, v => gate f p v fun v => .ok v
    | .bool f, p, v => gate f p v fun v => typeCheck env (some [.bool]) v
    | .int lo hi f, p, v => gate f p v fun v => do
        let v ← typeCheck env (some [.int]) v
        rangeCheck (lo.map Num.ofInt) (hi.map Num.ofInt) v
    | .float lo hi f, p, v => gate f p v fun v => do
        let v ← typeCheck env (some [.float]) v
        rangeCheck lo hi v
    | .str rx f, p, v => gate f p v fun v => do
        let v ← typeCheck env (some [.str]) v
        match rx, v with
        | some r, .str s => if env.rx r s then .ok v else .error .value      -- 560-571
        | _, _ => .ok v
    | .enum vals f, p, v => gate f p v fun v => do
        let v ← typeCheck env ((enumVT vals).map ([·])) v
        if Val.pyIn v vals then .ok v else .error .value                     -- 957-964
    | .list elem mn mx f, p, v => gate f p v fun v => do
        let v ← typeCheck env (some [.list]) v
        match v with
        | .list xs => do
          let ys ← xs.mapM (fun x => apply env elem p x)                     -- 1170-1178
          if sizeOk ys.length mn mx then .ok (.list ys) else .error .value    -- 1183-1200
        | _ => .error .type
    | .tuple elems mn mx f, p, v => gate f p v fun v => do
        let v ← typeCheck env (some [.tuple]) v
        match v with
        | .tuple xs =>
          if fixedLen mn mx then
            if xs.length != elems.length then .error .value                  -- 1445
            else do
              let ys ← applyZip env elems p xs
              .ok (.tuple ys)
          else if !sizeOk xs.length mn mx then .error .value                 -- 1455-1470
          else do
            let ys ← applyVar env elems p xs                                 -- 1471-1479
            .ok (.tuple ys)
        | _ => .error .type
    | .dict none f, p, v => gate f p v fun v => typeCheck env (some [.dict]) v
    | .dict (some fields) f, p, v => gate f p v fun v => do
        let v ← typeCheck env (some [.dict]) v
        match v with
        | .dict kvs =>
          if !(unmatchedKeys env fields kvs).isEmpty then .error .key        -- class_schema.py 1189-1194
          else do
            let kvs' ← applyFields env fields (constKeys fields) [] p kvs
            .ok (.dict kvs')
        | _ => .error .type
    | .obj c f, p, v => gate f p v fun v => do
        let v ← typeCheck env (some [.obj c]) v
        match v with
        | .obj _ _ part => if !p && part then .error .value else .ok v       -- 1948-1955
        | _ => .ok v
    | .callable f, p, v => gate f p v fun _ => .error .type             -- 2151-2155: "Value is not callable"
    | .union cands f, p, v => gate f p v fun v => do
        let v ← typeCheck env (vtUnion cands) v
        match unionStrong env cands p v with                                 -- 2755-2762
        | some r => r
        | none =>
          match unionWeak env cands p v with                                 -- 2774-2778
          | some r => r
          | none =>
            match unionConv env cands p v with                               -- 2784-2794
            | some r => r
            | none => .error .type
  /-- Variable-length tuple: every element by `elements[0]`. -/
  def applyVar (env : Env) : List Spec → Bool → List Val → R (List Val)
    | [], _, xs => if xs.isEmpty then .ok [] else .error .type     -- (IndexError; unreachable for constructed specs)
    | e :: _, p, xs => xs.mapM (fun x => apply env e p x)
  /-- Fixed-length tuple: element `i` by spec `i`. -/
  def applyZip (env : Env) : List Spec → Bool → List Val → R (List Val)
    | [], _, _ => .ok []
    | _ :: _, _, [] => .ok []
    | s :: ss, p, x :: xs => do
      let y ← apply env s p x
      let ys ← applyZip env ss p xs
      .ok (y :: ys)
  /-- `Schema.apply` main loop (class_schema.py 1196-1229), field by field in declaration order. -/
  def applyFields (env : Env) : List Field → List String → List KeySpec → Bool →
      List (String × Val) → R (List (String × Val))
    | [], _, _, _, acc => .ok acc
    | .mk ks spec :: rest, consts, earlier, p, acc => do
      let keys := fieldKeys env consts earlier ks acc
      let vals ← keys.mapM (fun k => apply env spec p (valueOrDefault acc k spec.flags.default))
      applyFields env rest consts (if ks.isConst then earlier else earlier ++ [ks]) p
        (setKeys acc (keys.zip vals))
  /-- First candidate whose value type the value is an instance of. -/
  def unionStrong (env : Env) : List Spec → Bool → Val → Option (R Val)
    | [], _, _ => none
    | c :: cs, p, v =>
      match vt c with
      | some ts => if instOf env v ts then some (apply env c p v) else unionStrong env cs p v
      | none => unionStrong env cs p v
  /-- Candidates without value type: first that does not raise `TypeError`. -/
  def unionWeak (env : Env) : List Spec → Bool → Val → Option (R Val)
    | [], _, _ => none
    | c :: cs, p, v =>
      match vt c with
      | none =>
        match apply env c p v with
        | .error .type => unionWeak env cs p v
        | r => some r
      | some _ => unionWeak env cs p v
  /-- First candidate reachable through a converter. -/
  def unionConv (env : Env) : List Spec → Bool → Val → Option (R Val)
    | [], _, _ => none
    | c :: cs, p, v =>
      match vt c with
      | some ts =>
        match convert v ts with
        | some v' => some (apply env c p v')
        | none => unionConv env cs p v
      | none => unionConv env cs p v
end

/-- `Schema.apply` on a dict's items. -/
def schemaApply (env : Env) (fields : List Field) (p : Bool) (kvs : List (String × Val)) :
    R (List (String × Val)) :=
  if !(unmatchedKeys env fields kvs).isEmpty then .error .key
  else applyFields env fields (constKeys fields) [] p kvs

def isOk {α : Type} : R α → Bool
  | .ok _ => true
  | .error _ => false

/-- The acceptance set of a spec (`allow_partial = False`). -/
def accepts (env : Env) (s : Spec) (v : Val) : Bool := isOk (apply env s false v)

end Pg.Typing

namespace Pg.Typing

/-! ### `is_compatible`

Mirrors the tree *with fixes/C04-F09.patch applied* (`Union.is_compatible` compares noneable).
`frozen` is ignored by every `is_compatible` and `List._is_compatible` ignores `min_size`
(findings F09, F09b: the repo's own suite pins / depends on both behaviours). -/

mutual
  /-- Non-union leaves of a spec (`Union.is_compatible` 2825-2829 iterates the other union's
  candidates recursively). -/
  def leaves : Spec → List Spec
    | .union cands _ => leavesList cands
    | s => [s]
  def leavesList : List Spec → List Spec
    | [] => []
    | c :: cs => leaves c ++ leavesList cs
end

def findField (fields : List Field) (k : KeySpec) : Option Spec :=
  match fields with
  | [] => none
  | .mk k' s :: rest => if k' == k then some s else findField rest k

def hasKey (fields : List Field) (k : KeySpec) : Bool := (findField fields k).isSome

def optLe (a b : Option Num) : Bool :=        -- "self bound present ⇒ other bound present and not below"
  match a, b with
  | none, _ => true
  | some _, none => false
  | some x, some y => Num.le x y

/-- `Number._is_compatible` (717-725). -/
def numCompat (slo shi olo ohi : Option Num) : Bool :=
  (match slo with
   | none => true
   | some l => match olo with | none => false | some ol => !Num.lt ol l) &&
  (match shi with
   | none => true
   | some h => match ohi with | none => false | some oh => !Num.lt h oh)


mutual
  /-- `a.is_compatible(b)`. -/
  def isCompatible (env : Env) : Spec → Spec → Bool
    | .any _, _ => true                                                                  -- 2999
    | .bool f, b =>
      match b with
      | .bool g => !(!f.noneable && g.noneable)                                            -- 352-356
      | _ => false
    | .int lo hi f, b =>
      match b with
      | .int olo ohi g => !(!f.noneable && g.noneable) &&
          numCompat (lo.map Num.ofInt) (hi.map Num.ofInt) (olo.map Num.ofInt) (ohi.map Num.ofInt)
      | _ => false
    | .float lo hi f, b =>
      match b with
      | .float olo ohi g => !(!f.noneable && g.noneable) && numCompat lo hi olo ohi
      | _ => false
    | .str _ f, b =>
      match b with
      | .str _ g => !(!f.noneable && g.noneable)                                           -- 585-591
      | _ => false
    | .enum vals f, b =>
      if b.flags.frozen && Val.pyIn b.flags.default vals then true                         -- 979-980
      else match b with
        | .enum ovals g => !(!f.noneable && g.noneable) && ovals.all (fun v => Val.pyIn v vals)   -- 983-988
        | _ => false
    | .list elem mn mx f, b =>
      match b with
      | .list oelem omn omx g =>
        !(!f.noneable && g.noneable) &&
        -- (`min_size` is not compared: finding F09b)
        (match mx with
         | none => true
         | some m => match omx with | none => false | some om => decide (om ≤ m)) &&       -- 1208-1210
        isCompatible env elem oelem
      | _ => false
    | .tuple elems mn mx f, b =>
      match b with
      | .tuple oelems omn omx g =>
        !(!f.noneable && g.noneable) &&
        (if fixedLen mn mx then
          if fixedLen omn omx then
            elems.length == oelems.length && zipCompat env elems oelems                    -- 1522-1528
          else false                                                                       -- 1529-1530
        else if fixedLen omn omx then
          -- `len(other)` is `len(other.elements)` (1430-1432)
          !(decide (oelems.length < mn) ||
            (match mx with | some m => decide (m < oelems.length) | none => false)) &&
          headCompatAll env elems oelems                                                   -- 1535-1537
        else
          decide (mn ≤ omn) &&                                                             -- 1541
          (match mx with
           | none => true
           | some m => match omx with | none => false | some om => decide (om ≤ m)) &&     -- 1543-1545
          headCompat env elems oelems)                                                     -- 1546
      | _ => false
    | .dict fields f, b =>
      match b with
      | .dict ofields g =>
        !(!f.noneable && g.noneable) &&
        (match fields with
         | none => true                                                                    -- 1782
         | some fs => match ofields with
           | none => false                                                                 -- 1779
           | some ofs =>
             -- class_schema.py 1063-1072
             ofs.all (fun of_ => hasKey fs of_.key) && fieldsCompat env fs ofs)
      | _ => false
    | .obj c f, b =>
      match b with
      | .obj oc g => !(!f.noneable && g.noneable) && env.sub oc c                           -- 1974
      | _ => false
    | .callable f, b =>
      match b with
      | .callable g => !(!f.noneable && g.noneable)       -- 2277-2295 (no argument specs); an `Object`
      | _ => false                                        -- class without `__call__` is refused (2265-2275)
    | .union cands f, b =>
      !(!f.noneable && b.flags.noneable) &&                                                -- F09 repair
      (leaves b).all (fun ob => anyCompat env cands ob)                                    -- 2823-2834
  termination_by structural a => a
  /-- `self.elements[0]` compatible with every element spec of the other (fixed) tuple. -/
  def headCompatAll (env : Env) : List Spec → List Spec → Bool
    | [], os => os.isEmpty
    | e :: _, os => os.all (fun oe => isCompatible env e oe)
  termination_by structural a => a
  /-- `self.elements[0].is_compatible(other.elements[0])`. -/
  def headCompat (env : Env) : List Spec → List Spec → Bool
    | e :: _, oe :: _ => isCompatible env e oe
    | _, _ => false
  termination_by structural a => a
  def zipCompat (env : Env) : List Spec → List Spec → Bool
    | [], _ => true
    | _ :: _, [] => true
    | s :: ss, o :: os => isCompatible env s o && zipCompat env ss os
  termination_by structural a => a
  def fieldsCompat (env : Env) : List Field → List Field → Bool
    | [], _ => true
    | .mk k s :: rest, ofs =>
      (match findField ofs k with
       | none => false
       | some os => isCompatible env s os) && fieldsCompat env rest ofs
  termination_by structural a => a
  def anyCompat (env : Env) : List Spec → Spec → Bool
    | [], _ => false
    | c :: cs, o => isCompatible env c o || anyCompat env cs o
  termination_by structural a => a
end

end Pg.Typing

namespace Pg.Typing

/-! ### `extend` -/

def Spec.cls? : Spec → Option Nat
  | .obj c _ => some c
  | _ => none

def Spec.isUnion : Spec → Bool
  | .union .. => true
  | _ => false

/-- `Union.get_candidate(dest)` second loop (2731-2739); a nested union is searched with both of
its loops. -/
def getCand2 (env : Env) : List Spec → Spec → Option Spec
  | [], _ => none
  | c :: cs, d =>
    match c with
    | .union ccs _ =>
      match ccs.find? (fun x => x.kind == d.kind && isCompatible env d x) with
      | some x => some x
      | none =>
        match getCand2 env ccs d with
        | some x => some x
        | none => getCand2 env cs d
    | c => if isCompatible env d c then some c else getCand2 env cs d

/-- `Union(cands).get_candidate(dest)` (2713-2739). -/
def getCand (env : Env) (cands : List Spec) (d : Spec) : Option Spec :=
  match cands.find? (fun x => x.kind == d.kind && isCompatible env d x) with
  | some x => some x
  | none => getCand2 env cands d

mutual
  /-- `_base_candidate(c, v)` of `Union._extend` (2801-2814). -/
  def baseCand (env : Env) (c : Spec) : Spec → Option Spec
    | .union vcs _ => baseCandList env c vcs
    | v =>
      if c.kind == v.kind &&
         (c.kind != .obj || (match c.cls?, v.cls? with | some a, some b => env.sub a b | _, _ => false))
      then some v else none
  def baseCandList (env : Env) (c : Spec) : List Spec → Option Spec
    | [] => none
    | v :: vs => match baseCand env c v with
      | some x => some x
      | none => baseCandList env c vs
end

/-- What the head of `ValueSpecBase.extend` (206-238) decides before `_extend` runs. -/
inductive Pre where
  | retSelf                 -- `return self` (base is `Any`)
  | retEnum (s : Spec)      -- frozen child over an `Enum` base: a *new* frozen Enum is returned
  | go (base : Spec)        -- continue with `self._extend(base)`

def extendPre (env : Env) (child base : Spec) : R Pre :=
  let cf := child.flags
  let bf := base.flags
  if bf.frozen && (!cf.frozen || !Val.pyEq cf.default bf.default) then .error .type        -- 208
  else
  match (match base with | .enum bvals _ => if cf.frozen then some bvals else none | _ => none) with
  | some bvals =>                                                                          -- 212-219
    if Val.pyIn cf.default bvals then
      let e0 : Spec := .enum bvals ⟨bvals.any Val.isNone, .missing, false⟩
      match apply env e0 true cf.default with          -- `.freeze(default)` applies the value
      | .ok d => .ok (.retEnum (.enum bvals ⟨bvals.any Val.isNone, d, true⟩))
      | .error e => .error e
    else .error .type
  | none =>
  if base.kind == .any then .ok .retSelf                                                   -- 224
  else
    let base? : Option Spec :=
      match base with
      | .union bcs _ => if child.isUnion then some base else getCand env bcs child         -- 227-232
      | _ => some base
    match base? with
    | none => .error .type
    | some b =>
      -- the candidate resolved in a Union base is subject to the frozen-base guard as well (F292 repair)
      if base.isUnion && !child.isUnion && b.flags.frozen &&
          (!cf.frozen || !Val.pyEq cf.default b.flags.default) then .error .type
      else
      if !(child.kind == b.kind || child.kind == .enum) then .error .type                   -- 234
      else if !b.flags.noneable && cf.noneable then .error .type                            -- 236
      else .ok (.go b)

/-- `Number._extend` (688-715) on one bound pair; returns the new (min, max). -/
def numExtend (lo hi blo bhi : Option Num) : R (Option Num × Option Num) :=
  let lo' : R (Option Num) :=
    match blo with
    | none => .ok lo
    | some bl => match lo with
      | none => .ok (some bl)
      | some l => if Num.lt l bl then .error .type else .ok (some l)
  let hi' : R (Option Num) :=
    match bhi with
    | none => .ok hi
    | some bh => match hi with
      | none => .ok (some bh)
      | some h => if Num.lt bh h then .error .type else .ok (some h)
  match lo', hi' with
  | .error e, _ => .error e
  | .ok _, .error e => .error e
  | .ok l, .ok h =>
    match l, h with
    | some a, some b => if Num.lt b a then .error .type else .ok (l, h)
    | _, _ => .ok (l, h)

def intExtend (lo hi blo bhi : Option Int) : R (Option Int × Option Int) :=
  let lo' : R (Option Int) :=
    match blo with
    | none => .ok lo
    | some bl => match lo with
      | none => .ok (some bl)
      | some l => if l < bl then .error .type else .ok (some l)
  let hi' : R (Option Int) :=
    match bhi with
    | none => .ok hi
    | some bh => match hi with
      | none => .ok (some bh)
      | some h => if bh < h then .error .type else .ok (some h)
  match lo', hi' with
  | .error e, _ => .error e
  | .ok _, .error e => .error e
  | .ok l, .ok h =>
    match l, h with
    | some a, some b => if b < a then .error .type else .ok (l, h)
    | _, _ => .ok (l, h)

/-- `ListKey.extend` (key_specs.py): returns the new max. -/
def listKeyExtend (mn : Nat) (mx : Option Nat) (bmn : Nat) (bmx : Option Nat) : R (Option Nat) :=
  if mn < bmn then .error .type
  else match bmx with
    | none => .ok mx
    | some bm => match mx with
      | none => .ok (some bm)
      | some m => if bm < m then .error .type else .ok (some m)

def asError {α β : Type} (e : Err) : R α → (α → R β) → R β
  | .ok a, k => k a
  | .error _, _ => .error e

def replaceField (fields : List Field) (k : KeySpec) (s : Spec) : List Field :=
  match fields with
  | [] => []
  | .mk k' s' :: rest => if k' == k then .mk k s :: rest else .mk k' s' :: replaceField rest k s

mutual
  /-- The state of `self` after `self.extend(base)` succeeded (what a *nested* extension keeps:
  `Field.extend` (class_schema.py 701-704) discards the return value). -/
  def extendSelf (env : Env) : Spec → Spec → R Spec
    | .any f, base =>
      match extendPre env (.any f) base with
      | .error e => .error e
      | .ok _ => .ok (.any f)
    | .bool f, base =>
      match extendPre env (.bool f) base with
      | .error e => .error e
      | .ok _ => .ok (.bool f)
    | .int lo hi f, base =>
      match extendPre env (.int lo hi f) base with
      | .error e => .error e
      | .ok (.go (.int blo bhi _)) =>
        match intExtend lo hi blo bhi with
        | .error e => .error e
        | .ok (l, h) => .ok (.int l h f)
      | .ok _ => .ok (.int lo hi f)
    | .float lo hi f, base =>
      match extendPre env (.float lo hi f) base with
      | .error e => .error e
      | .ok (.go (.float blo bhi _)) =>
        match numExtend lo hi blo bhi with
        | .error e => .error e
        | .ok (l, h) => .ok (.float l h f)
      | .ok _ => .ok (.float lo hi f)
    | .str rx f, base =>
      match extendPre env (.str rx f) base with
      | .error e => .error e
      | .ok (.go (.str brx _)) => .ok (.str (match rx with | some r => some r | none => brx) f)   -- 578-583
      | .ok _ => .ok (.str rx f)
    | .enum vals f, base =>
      match extendPre env (.enum vals f) base with
      | .error e => .error e
      | .ok (.go b) =>
        -- 966-975: every candidate value must be acceptable to the base
        if vals.all (fun v => isOk (apply env b false v)) then .ok (.enum vals f) else .error .type
      | .ok _ => .ok (.enum vals f)
    | .list elem mn mx f, base =>
      match extendPre env (.list elem mn mx f) base with
      | .error e => .error e
      | .ok (.go (.list belem bmn bmx _)) =>
        match listKeyExtend mn mx bmn bmx with
        | .error e => .error e
        | .ok mx' =>
          match extendSelf env elem belem with
          | .error e => .error e
          | .ok elem' => .ok (.list elem' mn mx' f)
      | .ok _ => .ok (.list elem mn mx f)
    | .tuple elems mn mx f, base =>
      match extendPre env (.tuple elems mn mx f) base with
      | .error e => .error e
      | .ok (.go (.tuple belems bmn bmx _)) =>
        if fixedLen mn mx then
          if fixedLen bmn bmx then
            if elems.length != belems.length then .error .type                              -- 1484
            else match extendZip env elems belems with
              | .error e => .error e
              | .ok es => .ok (.tuple es mn mx f)
          else
            -- `len(self)` = number of element specs (1430)
            if elems.length < bmn then .error .type                                         -- 1490
            else if (match bmx with | some bm => decide (bm < elems.length) | none => false) then .error .type
            else match belems with
              | be :: _ =>
                match extendAll env elems be with
                | .error e => .error e
                | .ok es => .ok (.tuple es mn mx f)
              | [] => .error .type
        else if fixedLen bmn bmx then .error .type                                          -- 1500
        else
          if mn != 0 && mn < bmn then .error .type                                          -- 1506
          else if (match mx, bmx with | some m, some bm => decide (bm < m) | _, _ => false) then .error .type
          else
            let mn' := if mn == 0 then bmn else mn                                          -- 1514
            let mx' := match mx with | none => bmx | some m => some m                      -- 1516
            match extendHead env elems belems with
            | .error err => .error err
            | .ok es => .ok (.tuple es mn' mx' f)
      | .ok _ => .ok (.tuple elems mn mx f)
    | .dict fields f, base =>
      match extendPre env (.dict fields f) base with
      | .error e => .error e
      | .ok (.go (.dict bfields bf)) =>
        match bfields with
        | none => .ok (.dict fields f)                                                      -- 1768
        | some bfs =>
          match fields with
          | none => .ok (.dict (some bfs) { f with default := bf.default })                 -- 1769-1771
          | some fs =>
            -- Schema.extend (class_schema.py 1004-1042): shared fields extended (in the child's
            -- order), result ordered base-first
            match extendFields env fs bfs with
            | .error e => .error e
            | .ok fs' =>
              let merged :=
                (bfs.map fun bfld => match findField fs' bfld.key with
                  | some s => Field.mk bfld.key s
                  | none => bfld)
                ++ fs'.filter (fun fld => !hasKey bfs fld.key)
              match schemaApply env merged true [] with                                     -- 1774
              | .error e => .error e
              | .ok kvs => .ok (.dict (some merged) { f with default := .dict kvs })
      | .ok _ => .ok (.dict fields f)
    | .obj c f, base =>
      match extendPre env (.obj c f) base with
      | .error e => .error e
      | .ok (.go b) =>
        if isCompatible env b (.obj c f) then .ok (.obj c f) else .error .type              -- 1965
      | .ok _ => .ok (.obj c f)
    | .callable f, base =>
      match extendPre env (.callable f) base with
      | .error e => .error e
      | .ok _ => .ok (.callable f)                                                        -- 2254-2261
    | .union cands f, base =>
      match extendPre env (.union cands f) base with
      | .error e => .error e
      | .ok (.go b) =>
        match extendCands env cands b with
        | .error e => .error e
        | .ok cs => .ok (.union cs f)
      | .ok _ => .ok (.union cands f)
  termination_by structural a => a
  /-- `self.elements[0].extend(base.elements[0])` (1518). -/
  def extendHead (env : Env) : List Spec → List Spec → R (List Spec)
    | e :: rest, be :: _ =>
      match extendSelf env e be with
      | .error err => .error err
      | .ok e' => .ok (e' :: rest)
    | _, _ => .error .type
  termination_by structural a => a
  def extendZip (env : Env) : List Spec → List Spec → R (List Spec)
    | [], _ => .ok []
    | s :: ss, [] => .ok (s :: ss)
    | s :: ss, b :: bs =>
      match extendSelf env s b with
      | .error e => .error e
      | .ok s' => match extendZip env ss bs with
        | .error e => .error e
        | .ok ss' => .ok (s' :: ss')
  termination_by structural a => a
  def extendAll (env : Env) : List Spec → Spec → R (List Spec)
    | [], _ => .ok []
    | s :: ss, b =>
      match extendSelf env s b with
      | .error e => .error e
      | .ok s' => match extendAll env ss b with
        | .error e => .error e
        | .ok ss' => .ok (s' :: ss')
  termination_by structural a => a
  def extendFields (env : Env) : List Field → List Field → R (List Field)
    | [], _ => .ok []
    | .mk k s :: rest, bfs =>
      match (match findField bfs k with
             | none => Except.ok s
             | some bs => extendSelf env s bs) with
      | .error e => .error e
      | .ok s' => match extendFields env rest bfs with
        | .error e => .error e
        | .ok rest' => .ok (.mk k s' :: rest')
  termination_by structural a => a
  def extendCands (env : Env) : List Spec → Spec → R (List Spec)
    | [], _ => .ok []
    | sc :: scs, b =>
      match baseCand env sc b with
      | none => .error .type                                                                -- 2818
      | some bc =>
        match extendSelf env sc bc with
        | .error e => .error e
        | .ok sc' => match extendCands env scs b with
          | .error e => .error e
          | .ok scs' => .ok (sc' :: scs')
  termination_by structural a => a
end

/-- `child.extend(base)`: the returned spec. -/
def extend (env : Env) (child base : Spec) : R Spec :=
  match extendPre env child base with
  | .error e => .error e
  | .ok (.retEnum s) => .ok s
  | .ok _ => extendSelf env child base

end Pg.Typing

namespace Pg.Typing

/-! ### What the constructors enforce (structure only; the default clause is `DefaultOk` below) -/

def distinctStrs : List String → Bool
  | [] => true
  | k :: ks => !ks.contains k && distinctStrs ks

def distinctKeys : List KeySpec → Bool
  | [] => true
  | k :: ks => !ks.contains k && distinctKeys ks

def fieldKeySpecs : List Field → List KeySpec
  | [] => []
  | .mk k _ :: fs => k :: fieldKeySpecs fs

mutual
  /-- Decidable well-formedness: `min ≤ max` (655, 1110, 1358), non-empty enum (905), enum
  noneable iff `None` is a candidate (927, 945-950), tuple element count (1337, 1362-1378),
  at least two union candidates (2619), `Any` is noneable (2992), distinct schema keys. -/
  def wf : Spec → Bool
    | .any f => f.noneable
    | .bool _ => true
    | .int lo hi _ => (match lo, hi with | some l, some h => decide (l ≤ h) | _, _ => true)
    | .float lo hi _ => (match lo, hi with | some l, some h => Num.le l h | _, _ => true)
    | .str _ _ => true
    | .enum vals f => !vals.isEmpty && (f.noneable == vals.any Val.isNone)
    | .list elem mn mx _ => (match mx with | some m => decide (mn ≤ m) | none => true) && wf elem
    | .tuple elems mn mx _ =>
      (if fixedLen mn mx then elems.length == mn
       else elems.length == 1 && (match mx with | some m => decide (mn ≤ m) | none => true))
      && wfList elems
    | .dict none _ => true
    | .dict (some fields) _ => distinctKeys (fieldKeySpecs fields) && wfFields fields
    | .obj _ _ => true
    | .union cands _ => decide (2 ≤ cands.length) && wfList cands
    | .callable _ => true
  def wfList : List Spec → Bool
    | [] => true
    | s :: ss => wf s && wfList ss
  def wfFields : List Field → Bool
    | [] => true
    | .mk _ s :: fs => wf s && wfFields fs
end

end Pg.Typing
