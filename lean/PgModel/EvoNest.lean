/-
  C14 — nested populations: `ElementWise` (`x.for_each(op)`, base.py:1418-1441) and `Flatten`
  (`x.flatten(max_level)`, base.py:1444-1465). An operation of a pipeline may return a list whose
  elements are lists again (groups of individuals); `for_each` applies an operation to every element,
  `flatten` splices nested lists back.
-/
import PgModel.Evo
namespace Pg.C14

inductive Nest where
  | item (x : Ind)
  | list (xs : List Nest)
  deriving Inhabited

mutual
  /-- all individuals of a nested value, left to right. -/
  def Nest.items : Nest → List Ind
    | .item x => [x]
    | .list xs => itemsAll xs
  def itemsAll : List Nest → List Ind
    | [] => []
    | n :: ns => n.items ++ itemsAll ns
end

/-- a flat population as a nested value and back (`none`: some element is a list). -/
def ofPop (p : Pop) : List Nest := p.map .item

def toPop : List Nest → Option Pop
  | [] => some []
  | .item x :: t => (toPop t).map (x :: ·)
  | .list _ :: _ => none

/-- `Flatten._flatten_list(input_list, level, output)`. -/
def flattenList (maxLevel : Option Nat) : Nat → Nat → List Nest → List Nest
  | 0, _, xs => xs
  | fuel + 1, level, xs =>
    match maxLevel with
    | some m => if level > m then [.list xs] else flattenStep maxLevel fuel level xs
    | none => flattenStep maxLevel fuel level xs
where
  flattenStep (maxLevel : Option Nat) (fuel level : Nat) : List Nest → List Nest
    | [] => []
    | .item x :: t => .item x :: flattenStep maxLevel fuel level t
    | .list ys :: t => flattenList maxLevel fuel (level + 1) ys ++ flattenStep maxLevel fuel level t

mutual
  def Nest.depth : Nest → Nat
    | .item _ => 0
    | .list xs => depthList xs + 1
  def depthList : List Nest → Nat
    | [] => 0
    | n :: ns => max n.depth (depthList ns)
end

/-- `[xs[i:i+k] for i in range(0, len(xs), k)]` (the grouping lambda of the harness). -/
def chunk (k : Nat) : Nat → List Nest → List Nest
  | 0, _ => []
  | fuel + 1, xs => if xs.isEmpty then [] else .list (xs.take k) :: chunk k fuel (xs.drop k)

/-- stages of a pipeline over nested values. -/
inductive NStage where
  | flat (e : OpExpr)                 -- an ordinary operation: needs (and returns) a flat population
  | chunk (k : Nat)                   -- Lambda grouping the population into lists of `k`
  | forEach (e : OpExpr)              -- `.for_each(e)`: `e` applied to every element, each a flat list
  | forEachWrap                       -- `.for_each(lambda x: [x, [x]])`
  | flatten (maxLevel : Option Nat)   -- `.flatten(max_level)`

def evalStage : NStage → List Nest → M (List Nest)
  | .flat e, xs =>
    match toPop xs with
    | some p => eval e p >>= fun out => pure (ofPop out)
    | none => fail .unmodelled
  | .chunk k, xs => if k = 0 then fail .unmodelled else pure (chunk k xs.length xs)
  | .forEach e, xs =>
    forEachM (fun n => match n with
      | .list ys => (match toPop ys with
                     | some p => eval e p >>= fun out => pure (Nest.list (ofPop out))
                     | none => fail .unmodelled)
      | .item _ => fail .unmodelled) xs
  | .forEachWrap, xs => pure (xs.map (fun n => Nest.list [n, .list [n]]))
  | .flatten m, xs => pure (flattenList m (depthList xs + 2) 0 xs)

def evalStages : List NStage → List Nest → M (List Nest)
  | [], xs => pure xs
  | s :: ss, xs => evalStage s xs >>= fun ys => evalStages ss ys

end Pg.C14
