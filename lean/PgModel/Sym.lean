/-
  The symbolic forest (DESIGN §5.4): trees of Dict / List / Object nodes that carry their own
  beliefs (believed parent id, believed path), separate from where they actually are.
  Serves C01 (tree integrity) and C07 (clone fidelity and independence).

  Anchors (pyglove/core/symbolic): base.py `_relocate_if_symbolic` 1164-1192, `sym_setpath`
  545-550, `sym_setparent` 528-530, `_notify_field_updates` 1223-1261, `sym_rebind` 552-591,
  `_set_item_of_current_tree` 1198-1221; dict.py `_set_item_without_permission_check` 533-583,
  `_sym_clone` 505-522, mutators 647-824; list.py `_set_item_without_permission_check` 397-434,
  `_on_change` 458-477, `_sym_clone` 321-335, mutators 530-744; object.py 858-900, 923-945.

  Representation. One node constructor for the three container kinds; `items` is the ordered
  payload. For `list` nodes the stored key of the i-th item is always `Key.i i` (the model
  renumbers after every structural list operation: "actual key" = position). What a node
  *believes* lives in its `Meta`.  Mathlib-free, no `import Lean`.
-/
namespace Pg.Sym

inductive Atom where
  | none | missing | int (i : Int) | str (n : Nat) | opaque (id : Nat)
  | tup (ids : List Nat)          -- a tuple of non-symbolic leaf objects
  deriving DecidableEq, Repr, Inhabited

/-- Keys: interned string names (`s n` stands for the text `k<n>`) and integers. -/
inductive Key where
  | s (n : Nat) | i (idx : Int)
  deriving DecidableEq, Repr, Inhabited

inductive Kind where
  | dict | list | obj (cls : Nat)
  deriving DecidableEq, Repr, Inhabited

structure Meta where
  id : Nat
  parent : Option Nat      -- sym_parent, as an id
  path : List Key          -- sym_path
  kind : Kind
  sealed : Bool
  accW : Bool              -- accessor_writable
  part : Bool              -- allow_partial
  ref : Option Nat := none -- pg.Ref only: the referenced value (id of a node, or of a plain object)
  typed : Bool := false    -- list with the value spec `pg.typing.List(pg.typing.Object(C0))`
  deriving DecidableEq, Repr, Inhabited

inductive Tree where
  | leaf (a : Atom)
  | node (m : Meta) (items : List (Key × Tree))
  deriving Repr, Inhabited

abbrev Items := List (Key × Tree)

/-- Which behaviour of the source is mirrored. `pinned`: /repo before the C01/C07 patches;
`patched`: with fixes/C01-F02, C01-F03, C01-F78, C07-F17 applied. -/
structure Cfg where
  reindexOnMutate : Bool     -- F03: list write primitive / `__delitem__` re-index; negative index normalised
  reindexOnReorder : Bool    -- F02: `sort` / `reverse` re-index
  listCloneSealed : Bool     -- F17: `List._sym_clone` passes `sealed`
  detachOnRemove : Bool      -- F78: `del l[i]` / `pop` / `remove` / `clear` / `popitem` detach what they remove
  insertCopiesOwn : Bool     -- F79: inserting an element of a list into that list copies it
  notifyBulk : Bool          -- 6daab50: clear / popitem / sort / reverse deliver change notifications
  scopePartial : Option Bool := none  -- ambient: the call runs inside `with pg.allow_partial(b)`
  sliceAtTarget : Bool := false       -- F225: a slice assignment formalizes each value for the position it is stored at
  deriving DecidableEq, Repr

def Cfg.pinned : Cfg := ⟨false, false, false, false, false, false, none, false⟩
def Cfg.patched : Cfg := ⟨true, true, true, true, true, true, none, true⟩

/-- every configuration that has the four fixes the *belief* invariant depends on (F02, F03, F78,
F79); the clone flag fix (F17), the bulk notifications and the ambient `allow_partial` scope are
free, and so is the slice fix (F225). `Cfg.patched = Cfg.fixedWith true true none true`. -/
def Cfg.fixedWith (listCloneSealed notifyBulk : Bool) (scope : Option Bool) (sliceAtTarget : Bool) : Cfg :=
  ⟨true, true, listCloneSealed, true, true, notifyBulk, scope, sliceAtTarget⟩

/-- The object classes: 0 and 1 are the test classes of the harness (fields `k0 k1` / `k0 k1 k2`,
all `Any`, default None, `allow_symbolic_assignment = True`); 2 is `pg.Ref`, 3 is
`pg.symbolic.ValueFromParentChain` (no symbolic fields, not assignable). -/
def clsFields : Nat → List Key
  | 0 => [Key.s 0, Key.s 1]
  | 1 => [Key.s 0, Key.s 1, Key.s 2]
  | _ => []

def clsRef : Nat := 2
def clsInferred : Nat := 3

namespace Tree

def meta? : Tree → Option Meta
  | .leaf _ => none
  | .node m _ => some m

def id? (t : Tree) : Option Nat := t.meta?.map (·.id)

def items : Tree → Items
  | .leaf _ => []
  | .node _ its => its

def isNode : Tree → Bool
  | .leaf _ => false
  | .node _ _ => true

def isMissing : Tree → Bool
  | .leaf .missing => true
  | _ => false

def setParent (par : Option Nat) : Tree → Tree
  | .leaf a => .leaf a
  | .node m its => .node { m with parent := par } its

end Tree

mutual
  /-- ids of all nodes of a tree, preorder. -/
  def Tree.ids : Tree → List Nat
    | .leaf _ => []
    | .node m its => m.id :: idsItems its
  def idsItems : Items → List Nat
    | [] => []
    | (_, c) :: r => c.ids ++ idsItems r
end

mutual
  /-- all node subtrees of a tree, preorder. -/
  def Tree.subnodes : Tree → List Tree
    | .leaf _ => []
    | .node m its => .node m its :: subnodesItems its
  def subnodesItems : Items → List Tree
    | [] => []
    | (_, c) :: r => c.subnodes ++ subnodesItems r
end

mutual
  def Tree.find? (id : Nat) : Tree → Option Tree
    | .leaf _ => none
    | .node m its => if m.id = id then some (.node m its) else findItems? id its
  def findItems? (id : Nat) : Items → Option Tree
    | [] => none
    | (_, c) :: r =>
      match c.find? id with
      | some t => some t
      | none => findItems? id r
end

mutual
  /-- `sym_setpath` (base.py:545-550) with `_update_children_paths` of the three kinds
  (dict.py:524-531, list.py:388-395, object.py:889-894): nothing happens when the path is
  already the requested one (so stale descendants below a node with the right path stay stale). -/
  def Tree.setPath (p : List Key) : Tree → Tree
    | .leaf a => .leaf a
    | .node m its => if m.path = p then .node m its else .node { m with path := p } (setPathItems p its)
  def setPathItems (p : List Key) : Items → Items
    | [] => []
    | (k, c) :: r => (k, c.setPath (p ++ [k])) :: setPathItems p r
end

mutual
  /-- `seal` (list.py, dict.py, object.py): always reaches every symbolic descendant. -/
  def Tree.seal (s : Bool) : Tree → Tree
    | .leaf a => .leaf a
    | .node m its => .node { m with sealed := s } (sealItems s its)
  def sealItems (s : Bool) : Items → Items
    | [] => []
    | (k, c) :: r => (k, c.seal s) :: sealItems s r
end

def renumberFrom (n : Nat) : Items → Items
  | [] => []
  | (_, c) :: r => (Key.i n, c) :: renumberFrom (n + 1) r

/-- list payload: the key of the i-th item is `i`. -/
def renumber (its : Items) : Items := renumberFrom 0 its

/-- a container that is bound to a value spec and is stored directly in a field of an object goes
through `field.apply(..., allow_partial=accepts_partial(obj))`, and `List.custom_apply`
(list.py) then takes over the holder's `allow_partial`. -/
def adoptPartial (hobj hpart : Bool) : Tree → Tree
  | .leaf a => .leaf a
  | .node m its => if hobj && m.typed then .node { m with part := hpart } its else .node m its

/-- `if sealed: self.seal(True)` at the end of the constructors. -/
def sealIf (b : Bool) (t : Tree) : Tree := if b then t.seal true else t

/-- The `sealed` flag a clone is constructed with: `Dict._sym_clone` and `Object._sym_clone` pass
`sealed=self._sealed`; `List._sym_clone` does not (F17) unless patched. -/
def cloneSealed (cfg : Cfg) (m : Meta) : Bool :=
  match m.kind with
  | .list => cfg.listCloneSealed && m.sealed
  | .obj 2 => false          -- `Ref._sym_clone` builds `Ref(value, allow_partial=…)`: `sealed` is lost (F92)
  | _ => m.sealed

mutual
  /-- `sym_clone(deep)` (base.py:593-604 + per-type `_sym_clone`): every symbolic container is
  copied (fresh ids from `next`), non-symbolic leaves are shared by a shallow clone and copied
  (`copy.deepcopy`) by a deep clone. The clone is built directly at its destination
  (`par`, `p`): `clone()` yields parent None / path [] and `_relocate_if_symbolic` then re-paths
  the whole fresh tree, which is the same thing. -/
  def Tree.clone (cfg : Cfg) (deep : Bool) (next : Nat) (par : Option Nat) (p : List Key) : Tree → Tree × Nat
    | .leaf (.opaque i) => if deep then (.leaf (.opaque next), next + 1) else (.leaf (.opaque i), next)
    -- a tuple is not symbolic: shared by a shallow clone, rebuilt with copied elements by a deep one
    | .leaf (.tup ids) =>
      if deep then (.leaf (.tup ((List.range ids.length).map (· + next))), next + ids.length)
      else (.leaf (.tup ids), next)
    | .leaf a => (.leaf a, next)
    | .node m its =>
      let r := cloneItems cfg deep (next + 1) next p its
      -- `List(source)` appends item by item and appending MISSING is a no-op (list.py:402-405):
      -- placeholders left by writes without notification are not copied.
      let its' := match m.kind with
        | .list => setPathItems p (renumber (r.1.filter (fun kv => !kv.2.isMissing)))
        -- the constructor of the object clone stores its fields through `field.apply(...,
        -- allow_partial=accepts_partial(self))`: spec-bound containers adopt the flag — also the
        -- one of an enclosing `pg.allow_partial` scope (F120)
        | .obj _ => r.1.map (fun kv => (kv.1, adoptPartial true (cfg.scopePartial.getD m.part) kv.2))
        | .dict => r.1
      -- the constructors seal (recursively) only when asked to: `if sealed: self.seal(True)`
      (sealIf (cloneSealed cfg m)
        (Tree.node { m with id := next, parent := par, path := p, sealed := false } its'), r.2)
  def cloneItems (cfg : Cfg) (deep : Bool) (next : Nat) (h : Nat) (p : List Key) : Items → Items × Nat
    | [] => ([], next)
    | (k, c) :: r =>
      let c' := c.clone cfg deep next (some h) (p ++ [k])
      let r' := cloneItems cfg deep c'.2 h p r
      ((k, c'.1) :: r'.1, r'.2)
end

mutual
  /-- Apply a local transformer to the item list of the node with id `t`. -/
  def Tree.updateAt (t : Nat) (g : Meta → Items → Items) : Tree → Tree
    | .leaf a => .leaf a
    | .node m its => if m.id = t then .node m (g m its) else .node m (updateAtItems t g its)
  def updateAtItems (t : Nat) (g : Meta → Items → Items) : Items → Items
    | [] => []
    | (k, c) :: r => (k, c.updateAt t g) :: updateAtItems t g r
end

mutual
  /-- apply `g` to the subtree rooted at the node with id `t`. -/
  def Tree.mapSubtree (t : Nat) (g : Tree → Tree) : Tree → Tree
    | .leaf a => .leaf a
    | .node m its => if m.id = t then g (.node m its) else .node m (mapSubtreeItems t g its)
  def mapSubtreeItems (t : Nat) (g : Tree → Tree) : Items → Items
    | [] => []
    | (k, c) :: r => (k, c.mapSubtree t g) :: mapSubtreeItems t g r
end

/-! ### Local item-list functions -/

def getKey (its : Items) (k : Key) : Option Tree := (its.find? (fun kv => kv.1 == k)).map (·.2)

def hasKey (its : Items) (k : Key) : Bool := its.any (fun kv => kv.1 == k)

/-- replace the value of an existing key in place, else append. -/
def setKey (k : Key) (v : Tree) : Items → Items
  | [] => [(k, v)]
  | (k', c) :: r => if k' = k then (k, v) :: r else (k', c) :: setKey k v r

def eraseKey (k : Key) : Items → Items
  | [] => []
  | (k', c) :: r => if k' = k then r else (k', c) :: eraseKey k r

def insertAt (n : Nat) (v : Tree) (its : Items) : Items :=
  renumber (its.take n ++ [(Key.i 0, v)] ++ its.drop n)

def removeAt (n : Nat) (its : Items) : Items := renumber (its.take n ++ its.drop (n + 1))

/-- re-index all children: `self._update_children_paths(self.sym_path, self.sym_path)`. -/
def reindex (m : Meta) (its : Items) : Items := setPathItems m.path its

def lastKey? (p : List Key) : Option Key := p.getLast?

/-- the path part of `List._on_change` (list.py:471-474): a child is re-pathed only when the
*last key* of its believed path differs from its index. -/
def onChangeReindex (m : Meta) : Items → Items
  | [] => []
  | (k, c) :: r =>
    (k, match c with
        | .leaf a => .leaf a
        | .node cm cits =>
          if lastKey? cm.path = some k then .node cm cits else (Tree.node cm cits).setPath (m.path ++ [k]))
      :: onChangeReindex m r

/-- `List._on_change` (list.py:458-477): drop MISSING placeholders, then re-index. -/
def listOnChange (m : Meta) (its : Items) : Items :=
  onChangeReindex m (renumber (its.filter (fun kv => !kv.2.isMissing)))

/-! ### Forest -/

structure Forest where
  roots : List Tree
  nextId : Nat
  aliased : Bool := false       -- set when a step had to put one node object in two places
  pool : List Tree := []        -- node objects moved during the current call (still addressable)
  consumed : Bool := false      -- the value being replaced (`pending`) has been moved into the new value
  deriving Repr, Inhabited

namespace Forest

def empty : Forest := { roots := [], nextId := 0 }

def ids (f : Forest) : List Nat := f.roots.flatMap Tree.ids

def nodes (f : Forest) : List Tree := f.roots.flatMap Tree.subnodes

def find? (f : Forest) (id : Nat) : Option Tree := f.roots.findSome? (Tree.find? id)

def metaOf? (f : Forest) (id : Nat) : Option Meta := (f.find? id).bind Tree.meta?

def isRoot (f : Forest) (id : Nat) : Bool := f.roots.any (fun r => r.id? == some id)

def removeRoot (f : Forest) (id : Nat) : Forest :=
  { f with roots := f.roots.filter (fun r => r.id? != some id) }

def addRoot (f : Forest) (t : Tree) : Forest :=
  if t.isNode then { f with roots := f.roots ++ [t] } else f

def mapAt (f : Forest) (t : Nat) (g : Meta → Items → Items) : Forest :=
  { f with roots := f.roots.map (Tree.updateAt t g) }

end Forest

/-! ### Values offered to operations -/

inductive VE where
  | atom (a : Atom)                 -- a leaf value as it is (an `opaque i` is that very object)
  | fresh                           -- a fresh non-symbolic object
  | freshTuple (n : Nat)            -- a tuple of n fresh non-symbolic objects
  | mkRef (tgt : Option Nat)        -- `pg.Ref(x)`: x an existing node, or (none) a fresh plain list
  | typedList (items : List (Key × VE))   -- `pg.List([...], value_spec=pg.typing.List(pg.typing.Object(C0)))`
  | node (kind : Kind) (sealed accW part : Bool) (items : List (Key × VE))
  | ref (id : Nat)                  -- an existing node object
  deriving Repr, Inhabited

def VE.isMissing : VE → Bool
  | .atom .missing => true
  | _ => false

/-- `_relocate_if_symbolic` (base.py:1164-1192) for an existing node object offered as a value:
clone (shallow) when the node believes it has a parent and is not believed to be already at this
very location, otherwise move the very node; then overwrite its beliefs. `pending` is the
old value of the slot being written by `Dict._set_item_without_permission_check`: it has just
been detached (parent None) but still occupies the slot, so offering it moves it (the model
keeps it in its slot with its old beliefs until the new value is stored and detaches it here). For attribute
containers of objects the identity test `value.sym_parent is not self` compares the owner object
with the attribute dict and is always true (`holderObj`). -/
def relocateRef (cfg : Cfg) (f : Forest) (pending : Option Nat) (par : Option Nat) (holderObj : Bool) (p : List Key) (id : Nat) :
    Forest × Tree :=
  match f.find? id with
  | none =>
    -- a node inside an object that was moved earlier in this call: it has a parent, so it is copied
    match f.pool.findSome? (Tree.find? id) with
    | some t =>
      let c := t.clone cfg false f.nextId par p
      ({ f with nextId := c.2 }, c.1)
    | none => (f, .leaf .none)
  | some (.leaf a) => (f, .leaf a)
  | some (.node m its) =>
    if pending == some id && !f.consumed then
      -- the value being replaced by this very call: the dict has detached it (parent None, path
      -- root) before it formalizes the new value, so it is moved; it leaves its slot when the
      -- new value is stored (offered a second time it has a parent and is copied)
      ({ f with pool := f.pool ++ [.node m its], consumed := true },
       ((((Tree.node m its).setParent none).setPath []).setPath p).setParent par)
    else if m.parent.isNone || (!holderObj && m.parent == par && m.path == p) then
      let t := ((Tree.node m its).setPath p).setParent par
      if f.isRoot id then ({ f.removeRoot id with pool := f.pool ++ [.node m its] }, t)
      else ({ f with aliased := true }, t)
    else
      let c := (Tree.node m its).clone cfg false f.nextId par p
      ({ f with nextId := c.2 }, c.1)

/-- store `v` under `slot` of the container with meta `m'`; `v` was built for the path
`m'.path ++ [pathKey]` (re-pathing it there is the identity — `setPath` returns at once). -/
def storeKey (slot pathKey : Key) (v : Tree) (m' : Meta) (xs : Items) : Items :=
  setKey slot (v.setPath (m'.path ++ [pathKey])) xs

def normObjItems (cls : Nat) (its : Items) : Items :=
  (clsFields cls).map (fun k => (k, (getKey its k).getD (.leaf .none)))

mutual
  /-- Construction from a (nested) value: `from_json` conversion of plain containers and the
  constructors `pg.Dict(...)`, `pg.List(...)`, `Cls(...)`; existing node objects inside go
  through `relocateRef`. The result is built for the destination (`par`, `p`). -/
  def evalVE (cfg : Cfg) (f : Forest) (pending : Option Nat) (par : Option Nat) (holderObj : Bool) (hpart : Bool) (p : List Key) : VE → Forest × Tree
    | .fresh => ({ f with nextId := f.nextId + 1 }, .leaf (.opaque f.nextId))
    | .freshTuple n => ({ f with nextId := f.nextId + n }, .leaf (.tup ((List.range n).map (· + f.nextId))))
    | .mkRef tgt =>
      -- a Ref is a pg.Object without symbolic fields; the referenced value is not its child
      let id := f.nextId
      let tg := tgt.getD (id + 1)
      ({ f with nextId := id + 2 },
       .node { id := id, parent := par, path := p, kind := .obj clsRef, sealed := false, accW := false,
               part := false, ref := some tg } [])
    | .atom a => (f, .leaf a)
    | .ref id => relocateRef cfg f pending par holderObj p id
    | .typedList items =>
      let id := f.nextId
      let r := evalItems cfg { f with nextId := id + 1 } pending id false false p (some 0) items
      (r.1, Tree.node { id := id, parent := par, path := p, kind := .list, sealed := false, accW := true,
                        part := false, typed := true } r.2)
    | .node kind sl aw pt items =>
      let id := f.nextId
      let isObj := match kind with | .obj _ => true | _ => false
      -- a plain container converted by `from_json` inherits `allow_partial` of its holder
      -- (`accepts_partial(self)`, dict.py:591 / list.py:438); a constructed one keeps its own.
      let pt := if par.isSome && !sl && aw && !pt && !isObj then hpart else pt
      -- list items are addressed by their position
      let r := evalItems cfg { f with nextId := id + 1 } pending id isObj pt p
        (match kind with | .list => some 0 | _ => none) items
      let its := match kind with
        | .obj cls => normObjItems cls (r.2.map (fun kv => (kv.1, adoptPartial true pt kv.2)))
        | _ => r.2
      let t := Tree.node { id := id, parent := par, path := p, kind := kind, sealed := false, accW := aw, part := pt } its
      (r.1, sealIf sl t)
  def evalItems (cfg : Cfg) (f : Forest) (pending : Option Nat) (h : Nat) (holderObj : Bool) (hpart : Bool) (p : List Key)
      (pos : Option Nat) : List (Key × VE) → Forest × Items
    | [] => (f, [])
    | (k0, v) :: r =>
      let k := match pos with | some n => Key.i n | none => k0
      let a := evalVE cfg f pending (some h) holderObj hpart (p ++ [k]) v
      let b := evalItems cfg a.1 pending h holderObj hpart p (pos.map (· + 1)) r
      (b.1, (k, a.2) :: b.2)
end

inductive Err where
  | index | key | value | type | perm | attr | assertion
  | cycle      -- the written container was moved into the offered value: pyglove does not return
  deriving DecidableEq, Repr, Inhabited

def Err.name : Err → String
  | .index => "IndexError" | .key => "KeyError" | .value => "ValueError"
  | .type => "TypeError" | .perm => "WritePermissionError" | .attr => "AttributeError"
  | .assertion => "AssertionError"
  | .cycle => "Hang"

end Pg.Sym
