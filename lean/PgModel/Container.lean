/-
  C02 — executable models of Python's `list` / `dict` (Spec layer `PyList` / `PyDict`, DESIGN §5.1)
  and of spec-less `pg.List` / `pg.Dict` (Impl model, contents level).

  The Impl model mirrors /repo *with fixes/C02-F04.patch, C02-F06.patch and C02-F07.patch applied*
  (`_parse_slice` = `slice.indices`, slice assignment normalised per step, `del l[a:b:c]`,
  `Dict.update` with plain keys). Source anchors are given as `list.py:<def>` / `dict.py:<def>`.

  No Mathlib, no `import Lean` (linked into the driver).
-/
namespace Pg.C02

/-! ## Values -/

inductive Key where
  | s (name : String)
  | i (idx : Int)
  | b (v : Bool)             -- `True` / `False` are `int` instances: admitted keys, equal to `1` / `0`
  deriving DecidableEq, Repr, Inhabited

def Key.num? : Key → Option Int
  | .i j => some j
  | .b v => some (if v then 1 else 0)
  | .s _ => Option.none

/-- Python key equality (`hash` + `==`): `True` and `1` are the same key, but remain
distinguishable objects (the dict keeps the key object that was inserted first). -/
def Key.eqv : Key → Key → Bool
  | .s n1, .s n2 => n1 == n2
  | k1, k2 => match k1.num?, k2.num? with
    | some x, some y => x == y
    | _, _ => false

/-- Python values that cross the API in this property: atoms and nested containers.
`missing` is `pg.MISSING_VALUE`. Whether a nested container is a plain `list`/`dict` or a
`pg.List`/`pg.Dict` is *not* recorded: that is the `erase` of DESIGN §6 C02 (extension 4), applied
once and for all by the harness canonicalisation; the oracle checks separately that every nested
container of a symbolic container is symbolic. -/
inductive Val where
  | none
  | bool (b : Bool)
  | int (i : Int)
  | float (i : Int)          -- the float `i.0` (only integral floats cross the protocol)
  | negzero                  -- `-0.0` (equal to `0`, `0.0`, `False`; distinguishable from all of them)
  | str (s : String)
  | missing
  | list (xs : List Val)
  | dict (kvs : List (Key × Val))
  deriving Repr, Inhabited

/-- Argument of the write primitive: a value or `pg.Insertion(value)`. -/
inductive Arg where
  | plain (v : Val)
  | ins (v : Val)
  deriving Repr, Inhabited

inductive Err where
  | index | key | type | value
  deriving DecidableEq, Repr, Inhabited

def Val.isMissing : Val → Bool
  | .missing => true
  | _ => false

/-- `value == MISSING_VALUE` for an argument of the write primitive (an `Insertion` object is not
equal to the marker, whatever it wraps). -/
def Arg.isPlainMissing : Arg → Bool
  | .plain v => v.isMissing
  | .ins _ => false

/-- Numeric view: `bool` is a subclass of `int` (`True == 1`), `1 == 1.0`, `0 == -0.0`. -/
def Val.num? : Val → Option Int
  | .bool b => some (if b then 1 else 0)
  | .int i => some i
  | .float i => some i
  | .negzero => some 0
  | _ => Option.none

def lookupKey (k : Key) : List (Key × Val) → Option Val
  | [] => Option.none
  | (k', v) :: rest => if k'.eqv k then some v else lookupKey k rest

mutual
  /-- Python `==` on the modelled values (dict equality ignores order). -/
  def pyEq : Val → Val → Bool
    | .none, .none => true
    | .missing, .missing => true
    | .str a, .str b => a == b
    | .list a, .list b => pyEqList a b
    | .dict a, .dict b => a.length == b.length && pyEqKvs a b
    | a, b => match a.num?, b.num? with
      | some x, some y => x == y          -- bool / int / float compare by numeric value
      | _, _ => false
  def pyEqList : List Val → List Val → Bool
    | [], [] => true
    | x :: xs, y :: ys => pyEq x y && pyEqList xs ys
    | _, _ => false
  def pyEqKvs : List (Key × Val) → List (Key × Val) → Bool
    | [], _ => true
    | (k, v) :: rest, b =>
      (match lookupKey k b with
       | some v' => pyEq v v'
       | Option.none => false) && pyEqKvs rest b
end

mutual
  /-- `base.from_json` on a plain value (contents level): nested `MISSING` items of lists and
  nested `MISSING` values of dicts are dropped by the constructors of `pg.List` / `pg.Dict`
  (`list.py:__init__` → `_set_item_without_permission_check(len, MISSING)` is a no-op;
  `dict.py:_set_item_without_permission_check` with an absent key likewise). -/
  def conv : Val → Val
    | .list xs => .list (convList xs)
    | .dict kvs => .dict (convKvs kvs)
    | v => v
  def convList : List Val → List Val
    | [] => []
    | x :: xs => if x.isMissing then convList xs else conv x :: convList xs
  def convKvs : List (Key × Val) → List (Key × Val)
    | [] => []
    | (k, v) :: rest => if v.isMissing then convKvs rest else (k, conv v) :: convKvs rest
end

mutual
  /-- No `MISSING` strictly inside the value. -/
  def missingFree : Val → Bool
    | .list xs => missingFreeList xs
    | .dict kvs => missingFreeKvs kvs
    | _ => true
  def missingFreeList : List Val → Bool
    | [] => true
    | x :: xs => !x.isMissing && missingFree x && missingFreeList xs
  def missingFreeKvs : List (Key × Val) → Bool
    | [] => true
    | (_, v) :: rest => !v.isMissing && missingFree v && missingFreeKvs rest
end

/-! ## Index and slice arithmetic -/

/-- Python index normalisation: `some j` iff `-n ≤ i < n`. -/
def normIndex (n : Nat) (i : Int) : Option Nat :=
  if 0 ≤ i then (if i < n then some i.toNat else Option.none)
  else (if -(n : Int) ≤ i then some (i + n).toNat else Option.none)

structure Slice where
  start : Option Int
  stop : Option Int
  step : Option Int
  deriving Repr, Inhabited

/-- `slice(start, stop, step).indices(n)` (CPython `_PySlice_GetLongIndices`); `ValueError` for
step 0. -/
def sliceIndices (s : Slice) (n : Nat) : Except Err (Int × Int × Int) :=
  let step := s.step.getD 1
  if step = 0 then .error .value else
  let len : Int := n
  let lower : Int := if step < 0 then -1 else 0
  let upper : Int := if step < 0 then len - 1 else len
  let adj (b : Int) : Int :=
    if b < 0 then (if b + len < lower then lower else b + len)
    else (if b > upper then upper else b)
  let start := match s.start with
    | Option.none => if step < 0 then upper else lower
    | some b => adj b
  let stop := match s.stop with
    | Option.none => if step < 0 then lower else upper
    | some b => adj b
  .ok (start, stop, step)

def rangeUp : Nat → Int → Int → Int → List Int
  | 0, _, _, _ => []
  | f + 1, cur, stop, step => if cur < stop then cur :: rangeUp f (cur + step) stop step else []

def rangeDown : Nat → Int → Int → Int → List Int
  | 0, _, _, _ => []
  | f + 1, cur, stop, step => if cur > stop then cur :: rangeDown f (cur + step) stop step else []

/-- Python `range(start, stop, step)` as a list (`[]` for step 0, which never reaches here).
The fuel `|stop - start|` suffices because `|step| ≥ 1`. -/
def pyRange (start stop step : Int) : List Int :=
  if step > 0 then rangeUp (stop - start).toNat start stop step
  else if step < 0 then rangeDown (start - stop).toNat start stop step
  else []

/-- CPython's closed form of the slice length (`PySlice_AdjustIndices`). -/
def sliceLen (start stop step : Int) : Int :=
  if step < 0 then (if stop < start then (start - stop - 1) / (-step) + 1 else 0)
  else (if start < stop then (stop - start - 1) / step + 1 else 0)

def getAt (xs : List Val) (i : Int) : Option Val :=
  if i < 0 then Option.none else xs[i.toNat]?

def setAt (xs : List Val) (i : Int) (v : Val) : List Val :=
  if i < 0 then xs else xs.set i.toNat v

/-- Builtin `list.insert(i, v)` (negative indices count from the end; out of range clamps). -/
def pyInsert (xs : List Val) (i : Int) (v : Val) : List Val :=
  let n : Int := xs.length
  let j : Int := if i < 0 then (if i + n < 0 then 0 else i + n) else (if i > n then n else i)
  xs.take j.toNat ++ v :: xs.drop j.toNat

/-- Elements whose position is not listed. -/
def dropIdxsFrom (ps : List Int) : Nat → List Val → List Val
  | _, [] => []
  | k, x :: xs => if ps.contains (k : Int) then dropIdxsFrom ps (k + 1) xs
                  else x :: dropIdxsFrom ps (k + 1) xs

def dropIdxs (xs : List Val) (ps : List Int) : List Val := dropIdxsFrom ps 0 xs

/-- Position of the first element equal (Python `==`) to `v`. -/
def findIdx (v : Val) : List Val → Option Nat
  | [] => Option.none
  | x :: xs => if pyEq x v then some 0 else (findIdx v xs).map (· + 1)

/-- Bound of `list.index(x, start, stop)`: negative values count from the end, clamped at 0. -/
def clampIdx (n : Nat) (i : Int) : Nat :=
  if i < 0 then (if i + n < 0 then 0 else (i + n).toNat) else i.toNat

/-- `list.index(v, start, stop)`: first position in `[start, stop)` (after clamping) holding `v`. -/
def indexIn (xs : List Val) (v : Val) (start stop : Int) : Option Nat :=
  let a := clampIdx xs.length start
  let b := clampIdx xs.length stop
  (findIdx v ((xs.take b).drop a)).map (fun j => a + j)

def countEq (v : Val) (xs : List Val) : Nat := (xs.filter (fun x => pyEq x v)).length

def purge (xs : List Val) : List Val := xs.filter (fun x => !x.isMissing)

def repeatList (n : Nat) (xs : List Val) : List Val :=
  match n with
  | 0 => []
  | k + 1 => xs ++ repeatList k xs

/-! ### Sorting. Comparable sort keys: all numbers (`bool`/`int`/`float`), or all `str`; anything
else with at least two elements is a `TypeError` (the order CPython leaves behind is then
unspecified; the harness only issues such sorts on two-element lists, which stay as they are).
`key=` is one of a closed family of key functions. -/

inductive SortKind where
  | ints | strs | bad
  deriving DecidableEq

def sortKind (xs : List Val) : SortKind :=
  if xs.all (fun x => x.num?.isSome) then .ints
  else if xs.all (fun x => match x with | .str _ => true | _ => false) then .strs
  else .bad

def valLt : Val → Val → Bool
  | .str a, .str b => a < b
  | a, b => match a.num?, b.num? with
    | some x, some y => x < y
    | _, _ => false

/-- The `key=` argument of `sort`: `None`, `len`, `lambda x: -x`, `abs`, `lambda x: 0`. -/
inductive SortKey where
  | none | len | neg | abs | const
  deriving DecidableEq, Repr, Inhabited

/-- The sort key of an item (`Option.none`: the key function raises `TypeError`). Only the order of
the keys matters, so numeric keys are returned as `int`s. -/
def keyOf (k : SortKey) (v : Val) : Option Val :=
  match k with
  | .none => some v
  | .const => some (.int 0)
  | .len => match v with
    | .str s => some (.int s.length)
    | .list xs => some (.int xs.length)
    | .dict kvs => some (.int kvs.length)
    | _ => Option.none
  | .neg => v.num?.map (fun x => .int (-x))
  | .abs => v.num?.map (fun x => .int x.natAbs)

/-- Stable insertion: `x` goes after every element not greater than it. -/
def insertSortedBy (lt : Val → Val → Bool) (x : Val) : List Val → List Val
  | [] => [x]
  | y :: ys => if lt x y then x :: y :: ys else y :: insertSortedBy lt x ys

def insertionSortBy (lt : Val → Val → Bool) (xs : List Val) : List Val :=
  xs.foldl (fun acc x => insertSortedBy lt x acc) []

/-- `list.sort(key=key, reverse=rev)`: the keys are computed first (a raising key function leaves
the list as it is); the sort is stable, and `reverse` keeps the original order of items with equal
keys (CPython reverses, sorts, reverses). -/
def pySort (xs : List Val) (rev : Bool) (key : SortKey) : Except Err (List Val) :=
  if xs.any (fun x => (keyOf key x).isNone) then .error .type
  else if xs.length < 2 then .ok xs
  else
    let kv := fun x => (keyOf key x).getD .none
    if sortKind (xs.map kv) = .bad then .error .type
    else
      let lt := fun a b => valLt (kv a) (kv b)
      if rev then .ok (insertionSortBy lt xs.reverse).reverse
      else .ok (insertionSortBy lt xs)

/-! ## Operations and outcomes -/

inductive LOp where
  | get (i : Int) | getSlice (s : Slice) | len | contains (v : Val) | index (v : Val) | count (v : Val)
  | indexIn (v : Val) (start stop : Int)
  | radd (vs : List Val)       -- `plain_list + l` (builtin `list.__add__`; a new plain list)
  | getBad | setBad | delBad
  | set (i : Int) (v : Val) | setSlice (s : Slice) (vs : List Val) | del (i : Int) | delSlice (s : Slice)
  | append (v : Val) | insert (i : Int) (v : Val) | extend (vs : List Val)
  | pop (i : Option Int) | remove (v : Val) | clear | sort (rev : Bool) (key : SortKey) | reverse
  | iadd (vs : List Val) | imul (n : Int) | add (vs : List Val) | mul (n : Int) | copy
  | rebind (pairs : List (Int × Arg))
  deriving Repr, Inhabited

/-- One step of a history: the operation and whether change notification is enabled
(`pg.notify_on_change(False)` ⇒ `notify = false`). -/
structure LStep where
  op : LOp
  notify : Bool
  deriving Repr, Inhabited

/-- State after the step and what the call returned / raised. A failing call may have modified
the container (multi-path `rebind`). -/
structure LOut where
  st : List Val
  res : Except Err Val

def okNone (st : List Val) : LOut := ⟨st, .ok .none⟩
def fail (st : List Val) (e : Err) : LOut := ⟨st, .error e⟩

/-! ## Spec: Python `list` + the documented extensions -/
namespace PyList

def getItem (xs : List Val) (i : Int) : Except Err Val :=
  match normIndex xs.length i with
  | some j => match xs[j]? with
    | some v => .ok v
    | Option.none => .error .index
  | Option.none => .error .index

def getSlice (xs : List Val) (s : Slice) : Except Err (List Val) :=
  match sliceIndices s xs.length with
  | .error e => .error e
  | .ok (a, b, c) => .ok ((pyRange a b c).filterMap (getAt xs))

def setItem (xs : List Val) (i : Int) (v : Val) : Except Err (List Val) :=
  match normIndex xs.length i with
  | some j => .ok (xs.set j v)
  | Option.none => .error .index

def assignAll (xs : List Val) : List Int → List Val → List Val
  | i :: is, v :: vs => assignAll (setAt xs i v) is vs
  | _, _ => xs

/-- `list_ass_subscript` with a slice. -/
def setSlice (xs : List Val) (s : Slice) (vs : List Val) : Except Err (List Val) :=
  match sliceIndices s xs.length with
  | .error e => .error e
  | .ok (a, b, c) =>
    if c = 1 then
      let b' := if b < a then a else b
      .ok (xs.take a.toNat ++ vs ++ xs.drop b'.toNat)
    else
      let ps := pyRange a b c
      if ps.length ≠ vs.length then .error .value
      else .ok (assignAll xs ps vs)

def delItem (xs : List Val) (i : Int) : Except Err (List Val) :=
  match normIndex xs.length i with
  | some j => .ok (xs.eraseIdx j)
  | Option.none => .error .index

def delSlice (xs : List Val) (s : Slice) : Except Err (List Val) :=
  match sliceIndices s xs.length with
  | .error e => .error e
  | .ok (a, b, c) => .ok (dropIdxs xs (pyRange a b c))

def pop (xs : List Val) (i : Option Int) : Except Err (Val × List Val) :=
  match normIndex xs.length (i.getD (-1)) with
  | some j => match xs[j]? with
    | some v => .ok (v, xs.eraseIdx j)
    | Option.none => .error .index
  | Option.none => .error .index

def remove (xs : List Val) (v : Val) : Except Err (List Val) :=
  match findIdx v xs with
  | some j => .ok (xs.eraseIdx j)
  | Option.none => .error .value

def mul (xs : List Val) (n : Int) : List Val := repeatList n.toNat xs

/-- Extensions 2 and 3 (documented for `rebind`): one `(index, value)` pair; an index past the end
appends, an `Insertion` inserts, anything else assigns (assigning `MISSING` deletes: the marker
is dropped by the `purge` that closes every list step). Negative indices are not part of the
documented API (`Admissible` excludes them). -/
def rebindOne (xs : List Val) (k : Int) (a : Arg) : Except Err (List Val) :=
  match a with
  | .ins v => if k < xs.length then .ok (pyInsert xs k v) else .ok (xs ++ [v])
  | .plain v =>
    if k < xs.length then setItem xs k v
    else if v.isMissing then .ok xs          -- appending the marker does nothing
    else .ok (xs ++ [v])

def rebindAll (xs : List Val) : List (Int × Arg) → List Val × Except Err Val
  | [] => (xs, .ok .none)
  | (k, a) :: rest =>
    match rebindOne xs k a with
    | .ok xs' => rebindAll xs' rest
    | .error e => (xs, .error e)

end PyList

/-- Insertion of a pair into a list of pairs sorted by descending index (`sorted(..., reverse=True)`
of `list.py:_sym_rebind`; keys of one `rebind` dict are distinct). -/
def insertDesc (p : Int × Arg) : List (Int × Arg) → List (Int × Arg)
  | [] => [p]
  | q :: qs => if q.1 < p.1 then p :: q :: qs else q :: insertDesc p qs

def sortDesc (ps : List (Int × Arg)) : List (Int × Arg) := ps.foldl (fun acc p => insertDesc p acc) []

/-- The reference step on a Python list. Every step ends with `purge`: the missing-value marker is
never an element (extension 1: assigning / appending / inserting it deletes resp. does nothing). -/
def specL (xs : List Val) (st : LStep) : LOut :=
  let lift (r : Except Err (List Val)) : LOut :=
    match r with
    | .ok ys => okNone (purge ys)
    | .error e => fail xs e
  match st.op with
  | .get i => ⟨xs, PyList.getItem xs i⟩
  | .getSlice s => ⟨xs, (PyList.getSlice xs s).map Val.list⟩
  | .len => ⟨xs, .ok (.int xs.length)⟩
  | .contains v => ⟨xs, .ok (.bool (findIdx v xs).isSome)⟩
  | .index v => ⟨xs, match findIdx v xs with | some j => .ok (.int j) | Option.none => .error .value⟩
  | .indexIn v a b => ⟨xs, match indexIn xs v a b with | some j => .ok (.int j) | Option.none => .error .value⟩
  | .radd vs => ⟨xs, .ok (.list (vs ++ xs))⟩
  | .count v => ⟨xs, .ok (.int (countEq v xs))⟩
  | .getBad => fail xs .type
  | .setBad => fail xs .type
  | .delBad => fail xs .type
  | .set i v => lift (PyList.setItem xs i v)
  | .setSlice s vs => lift (PyList.setSlice xs s vs)
  | .del i => lift (PyList.delItem xs i)
  | .delSlice s => lift (PyList.delSlice xs s)
  | .append v => lift (.ok (xs ++ [v]))
  | .insert i v => lift (.ok (pyInsert xs i v))
  | .extend vs => lift (.ok (xs ++ vs))
  | .pop i => match PyList.pop xs i with
    | .ok (v, ys) => ⟨purge ys, .ok v⟩
    | .error e => fail xs e
  | .remove v => lift (PyList.remove xs v)
  | .clear => okNone []
  | .sort rev key => lift (pySort xs rev key)
  | .reverse => lift (.ok xs.reverse)
  | .iadd vs => lift (.ok (xs ++ vs))
  | .imul n => lift (.ok (PyList.mul xs n))
  | .add vs => ⟨xs, .ok (.list (purge (xs ++ vs)))⟩
  | .mul n => ⟨xs, .ok (.list (PyList.mul xs n))⟩
  | .copy => ⟨xs, .ok (.list xs)⟩
  | .rebind pairs =>
    if pairs.isEmpty then fail xs .value
    else
      let (ys, r) := PyList.rebindAll xs (sortDesc pairs)
      match r with
      | .ok _ => okNone (purge ys)
      | .error e => ⟨ys, .error e⟩

/-! ## Impl model: what `pg.List` does (patched tree) -/
namespace PgList

/-- `list.py:_set_item_without_permission_check` (returns the new payload and whether a
`FieldUpdate` was produced). The identity short cut (`old_value is value` ⇒ no update) is not
modelled: it leaves the payload as it is and only suppresses a notification. -/
def setItemRaw (xs : List Val) (key : Int) (a : Arg) : Except Err (List Val × Bool) :=
  let n : Int := xs.length
  -- `if index >= len(self): if value == MISSING_VALUE: return None; index = len(self)`
  if key ≥ n ∧ a.isPlainMissing = true then .ok (xs, false)
  else
    let index := if key ≥ n then n else key
    match a with
    | .ins v =>
      -- `should_insert`; `list.insert(self, index, new_value)` / `super().append(new_value)`
      if index < n then .ok (pyInsert xs index (conv v), true) else .ok (xs ++ [conv v], true)
    | .plain v =>
      if index < n then
        -- `list.__setitem__(self, index, new_value)`: the builtin handles (and range-checks) negatives
        match normIndex xs.length index with
        | some j => .ok (xs.set j (conv v), true)
        | Option.none => .error .index
      else .ok (xs ++ [conv v], true)

/-- `list.py:_on_change`: drop the `MISSING` placeholders (run by `_notify_field_updates`). -/
def onChange (xs : List Val) : List Val := purge xs

/-- `if flags.is_change_notification_enabled() and update(s): self._notify_field_updates(...)`. -/
def notifyIf (notify upd : Bool) (xs : List Val) : List Val :=
  if notify && upd then onChange xs else xs

/-- Writes `rs` at positions `pos, pos + step, …` through the write primitive
(`for i, r in enumerate(replacements): self._set_item_without_permission_check(start + i * step, r)`),
accumulating whether any update was produced. An exception leaves the writes done so far. -/
def writeRun (xs : List Val) (pos step : Int) (upd : Bool) : List Arg → List Val × Bool × Option Err
  | [] => (xs, upd, Option.none)
  | r :: rs =>
    match setItemRaw xs pos r with
    | .ok (ys, u) => writeRun ys (pos + step) step (upd || u) rs
    | .error e => (xs, upd, some e)

/-- `list.py:__getitem__` with an integer. -/
def getItem (xs : List Val) (i : Int) : Except Err Val :=
  let n : Int := xs.length
  if i < -n ∨ i ≥ n then .error .index
  else match normIndex xs.length i with      -- `self.sym_inferred(index)` → `list.__getitem__`
    | some j => match xs[j]? with
      | some v => .ok v
      | Option.none => .error .index
    | Option.none => .error .index

/-- `list.py:__getitem__` with a slice: `[self[i] for i in range(*self._parse_slice(index))]`. -/
def getSlice (xs : List Val) (s : Slice) : Except Err (List Val) :=
  match sliceIndices s xs.length with       -- `_parse_slice` = `index.indices(len(self))`
  | .error e => .error e
  | .ok (a, b, c) => (pyRange a b c).mapM (getItem xs)

/-- `list.py:__delitem__` for one (already range-checked) integer position. -/
def delRaw (xs : List Val) (i : Int) : Except Err (List Val) :=
  match normIndex xs.length i with            -- `super().__delitem__(i)`
  | some j => .ok (xs.eraseIdx j)
  | Option.none => .error .index

def delItem (xs : List Val) (i : Int) (notify : Bool) : Except Err (List Val) :=
  let n : Int := xs.length
  if i < -n ∨ i ≥ n then .error .index
  else match delRaw xs i with
    | .ok ys => .ok (notifyIf notify true ys)
    | .error e => .error e

def delMany (xs : List Val) : List Int → Except Err (List Val)
  | [] => .ok xs
  | i :: is => match delRaw xs i with
    | .ok ys => delMany ys is
    | .error e => .error e

/-- `list.py:extend` (also `__iadd__`, and the constructor loop): append through the primitive. -/
def extendRaw (xs : List Val) (upd : Bool) : List Val → List Val × Bool
  | [] => (xs, upd)
  | v :: vs =>
    match setItemRaw xs xs.length (.plain v) with
    | .ok (ys, u) => extendRaw ys (upd || u) vs
    | .error _ => (xs, upd)        -- unreachable: appending never raises

def extend (xs : List Val) (vs : List Val) (notify : Bool) : List Val :=
  let (ys, u) := extendRaw xs false vs
  notifyIf notify u ys

/-- `List(items)`: `list.py:__init__` (no notification inside the constructor). -/
def construct (items : List Val) : List Val := (extendRaw [] false items).1

def rebindRun (xs : List Val) (upd : Bool) : List (Int × Arg) → List Val × Bool × Option Err
  | [] => (xs, upd, Option.none)
  | (k, a) :: rest =>
    match setItemRaw xs k a with
    | .ok (ys, u) => rebindRun ys (upd || u) rest
    | .error e => (xs, upd, some e)

end PgList

open PgList in
/-- One step of `pg.List`. -/
def implL (xs : List Val) (st : LStep) : LOut :=
  let n : Int := xs.length
  let nt := st.notify
  match st.op with
  | .get i => ⟨xs, getItem xs i⟩
  | .getSlice s => ⟨xs, (getSlice xs s).map Val.list⟩
  | .len => ⟨xs, .ok (.int xs.length)⟩
  | .contains v => ⟨xs, .ok (.bool (findIdx v xs).isSome)⟩          -- builtin `list.__contains__`
  | .index v => ⟨xs, match findIdx v xs with | some j => .ok (.int j) | Option.none => .error .value⟩
  | .indexIn v a b => ⟨xs, match indexIn xs v a b with | some j => .ok (.int j) | Option.none => .error .value⟩
  | .radd vs => ⟨xs, .ok (.list (vs ++ xs))⟩
  | .count v => ⟨xs, .ok (.int (countEq v xs))⟩
  | .getBad => fail xs .type
  | .setBad => fail xs .type
  | .delBad => fail xs .type
  | .set i v =>
    -- `list.py:__setitem__`, integer branch
    if i < -n ∨ i ≥ n then fail xs .index
    else match setItemRaw xs i (.plain v) with
      | .ok (ys, u) => okNone (notifyIf nt u ys)
      | .error e => fail xs e
  | .setSlice s vs =>
    -- `list.py:__setitem__`, slice branch (patched)
    match sliceIndices s xs.length with
    | .error e => fail xs e
    | .ok (a, b, c) =>
      let size := (pyRange a b c).length            -- `len(range(start, stop, step))`
      let m := vs.length
      if c = 1 then
        let rs : List Arg :=
          if size < m then (vs.take size).map Arg.plain ++ (vs.drop size).map Arg.ins
          else vs.map Arg.plain ++ List.replicate (size - m) (Arg.plain .missing)
        match writeRun xs a 1 false rs with
        | (ys, u, Option.none) => okNone (notifyIf nt u ys)
        | (ys, _, some e) => fail ys e
      else if size ≠ m then fail xs .value
      else
        let (rs, a', c') :=
          if c < 0 then (vs.reverse, a + ((size : Int) - 1) * c, -c) else (vs, a, c)
        match writeRun xs a' c' false (rs.map Arg.plain) with
        | (ys, u, Option.none) => okNone (notifyIf nt u ys)
        | (ys, _, some e) => fail ys e
  | .del i =>
    match delItem xs i nt with
    | .ok ys => okNone ys
    | .error e => fail xs e
  | .delSlice s =>
    -- `list.py:__delitem__`, slice branch (patched): positions in descending order
    match sliceIndices s xs.length with
    | .error e => fail xs e
    | .ok (a, b, c) =>
      let ps := pyRange a b c
      let desc := if c > 0 then ps.reverse else ps        -- `sorted(range(...), reverse=True)`
      match delMany xs desc with
      | .ok ys => okNone (notifyIf nt (!desc.isEmpty) ys)
      | .error e => fail xs e
  | .append v =>
    match setItemRaw xs n (.plain v) with
    | .ok (ys, u) => okNone (notifyIf nt u ys)
    | .error e => fail xs e
  | .insert i v =>
    match setItemRaw xs i (.ins v) with                    -- `mark_as_insertion(value)`
    | .ok (ys, u) => okNone (notifyIf nt u ys)
    | .error e => fail xs e
  | .extend vs => okNone (extend xs vs nt)
  | .pop i =>
    -- `list.py:pop`
    let idx := i.getD (-1)
    if idx < -n ∨ idx ≥ n then fail xs .index
    else
      let idx' := (idx + n) % n
      match getItem xs idx', delItem xs idx' nt with
      | .ok v, .ok ys => ⟨ys, .ok v⟩
      | .error e, _ => fail xs e
      | _, .error e => fail xs e
  | .remove v =>
    -- `list.py:remove`: `for i, item in self.sym_items(): if item == value: del self[i]`
    match findIdx v xs with
    | some j => match delItem xs j nt with
      | .ok ys => okNone ys
      | .error e => fail xs e
    | Option.none => fail xs .value
  | .clear => okNone []                                    -- `super().clear()`
  | .sort rev key => match pySort xs rev key with                  -- `super().sort(...)`
    | .ok ys => okNone ys
    | .error e => fail xs e
  | .reverse => okNone xs.reverse                          -- `super().reverse()`
  | .iadd vs => okNone (extend xs vs nt)                   -- `__iadd__` → `extend`
  | .imul k =>
    -- `__imul__`: `clear()` for n ≤ 0, else extend by n-1 copies of the items
    if k ≤ 0 then okNone []
    else okNone (extend xs (repeatList (k.toNat - 1) xs) nt)
  | .add vs =>
    -- `__add__`: `self.copy()` then `extend(other)` on the copy
    ⟨xs, .ok (.list (extend (construct xs) vs nt))⟩
  | .mul k =>
    -- `__mul__`: `result = List(); for _ in range(n): result.extend(self)`
    ⟨xs, .ok (.list ((List.range k.toNat).foldl (fun acc _ => extend acc xs nt) []))⟩
  | .copy => ⟨xs, .ok (.list (construct xs))⟩              -- `List(super().copy())`
  | .rebind pairs =>
    -- `base.py:sym_rebind` + `list.py:_sym_rebind` (descending path order)
    if pairs.isEmpty then fail xs .value
    else match rebindRun xs false (sortDesc pairs) with
      | (ys, u, Option.none) => okNone (notifyIf nt u ys)
      | (ys, _, some e) => fail ys e

/-! ## Dicts -/

def hasKey (kvs : List (Key × Val)) (k : Key) : Bool := kvs.any (fun p => p.1.eqv k)

/-- `d[k] = v` on a builtin dict: an existing key keeps its position. -/
def dictSet (kvs : List (Key × Val)) (k : Key) (v : Val) : List (Key × Val) :=
  if hasKey kvs k then kvs.map (fun p => if p.1.eqv k then (p.1, v) else p) else kvs ++ [(k, v)]

def dictErase (kvs : List (Key × Val)) (k : Key) : List (Key × Val) := kvs.filter (fun p => !(p.1.eqv k))

def Key.toVal : Key → Val
  | .s n => .str n
  | .i j => .int j
  | .b v => .bool v

inductive DOp where
  | get (k : Key) | getD (k : Key) (d : Val) | contains (k : Key) | len
  | set (k : Key) (v : Val) | del (k : Key) | pop (k : Key) (d : Option Val) | popitem | clear
  | setdefault (k : Key) (d : Val) | update (pairs kw : List (Key × Val)) | copy
  | union (pairs : List (Key × Val)) (reflected : Bool)   -- `d | x` / `x | d` (builtin `dict.__or__`: a new plain dict)
  | rebind (pairs kw : List (Key × Val))
  deriving Repr, Inhabited

structure DStep where
  op : DOp
  notify : Bool
  deriving Repr, Inhabited

structure DOut where
  st : List (Key × Val)
  res : Except Err Val

namespace PyDict

/-- Extension 1: assigning `MISSING` deletes the key (nothing happens if it is absent). -/
def assign (kvs : List (Key × Val)) (k : Key) (v : Val) : List (Key × Val) :=
  if v.isMissing then dictErase kvs k else dictSet kvs k v

/-- `a | b` on builtin dicts: a copy of `a` updated with `b` (plain assignments; a new dict). -/
def union (a b : List (Key × Val)) : List (Key × Val) := b.foldl (fun acc p => dictSet acc p.1 p.2) a

def assignAll (kvs : List (Key × Val)) : List (Key × Val) → List (Key × Val)
  | [] => kvs
  | (k, v) :: rest => assignAll (assign kvs k v) rest

end PyDict

/-- The reference step on a Python dict (+ extension 1; `rebind` with plain keys = `update` that
refuses an empty argument). -/
def specD (kvs : List (Key × Val)) (st : DStep) : DOut :=
  match st.op with
  | .get k => ⟨kvs, match lookupKey k kvs with | some v => .ok v | Option.none => .error .key⟩
  | .getD k d => ⟨kvs, .ok ((lookupKey k kvs).getD d)⟩
  | .contains k => ⟨kvs, .ok (.bool (hasKey kvs k))⟩
  | .len => ⟨kvs, .ok (.int kvs.length)⟩
  | .set k v => ⟨PyDict.assign kvs k v, .ok .none⟩
  | .del k => if hasKey kvs k then ⟨dictErase kvs k, .ok .none⟩ else ⟨kvs, .error .key⟩
  | .pop k d =>
    match lookupKey k kvs with
    | some v => ⟨dictErase kvs k, .ok v⟩
    | Option.none => match d with
      | some dv => ⟨kvs, .ok dv⟩
      | Option.none => ⟨kvs, .error .key⟩
  | .popitem =>
    match kvs.getLast? with
    | some (k, v) => ⟨kvs.dropLast, .ok (.list [k.toVal, v])⟩
    | Option.none => ⟨kvs, .error .key⟩
  | .clear => ⟨[], .ok .none⟩
  | .setdefault k d =>
    match lookupKey k kvs with
    | some v => ⟨kvs, .ok v⟩
    | Option.none => ⟨PyDict.assign kvs k d, .ok d⟩
  -- `d.update(other, **kw)`: the entries of `other` in order, then the keyword arguments in order
  | .update pairs kw => ⟨PyDict.assignAll kvs (pairs ++ kw), .ok .none⟩
  | .copy => ⟨kvs, .ok (.dict kvs)⟩
  | .union pairs r => ⟨kvs, .ok (.dict (if r then PyDict.union pairs kvs else PyDict.union kvs pairs))⟩
  | .rebind pairs kw =>
    if (pairs ++ kw).isEmpty then ⟨kvs, .error .value⟩ else ⟨PyDict.assignAll kvs (pairs ++ kw), .ok .none⟩

namespace PgDict

/-- `dict.py:_set_item_without_permission_check` without value spec (the identity short cut is not
modelled, see `PgList.setItemRaw`). -/
def setItemRaw (kvs : List (Key × Val)) (k : Key) (v : Val) : List (Key × Val) × Bool :=
  if v.isMissing then
    -- `if key in self: super().__delitem__(key) … else: return None`
    if hasKey kvs k then (dictErase kvs k, true) else (kvs, false)
  else (dictSet kvs k (conv v), true)      -- `super().__setitem__(key, self._formalized_value(...))`

/-- `updates = dict(other); updates.update(kwargs)`: the call's arguments are first merged into one
plain dict (a repeated key keeps its first position and takes its last value; `MISSING` is an
ordinary value here). -/
def mergePairs (ps : List (Key × Val)) : List (Key × Val) :=
  ps.foldl (fun acc p => dictSet acc p.1 p.2) []

def setAll (kvs : List (Key × Val)) : List (Key × Val) → List (Key × Val)
  | [] => kvs
  | (k, v) :: rest => setAll (setItemRaw kvs k v).1 rest

mutual
  /-- `Dict._sym_clone(deep=False)`: symbolic children are cloned; contents level: identity. -/
  def cloneVal : Val → Val
    | .list xs => .list (cloneList xs)
    | .dict kvs => .dict (cloneKvs kvs)
    | v => v
  def cloneList : List Val → List Val
    | [] => []
    | x :: xs => cloneVal x :: cloneList xs
  def cloneKvs : List (Key × Val) → List (Key × Val)
    | [] => []
    | (k, v) :: rest => (k, cloneVal v) :: cloneKvs rest
end

end PgDict

open PgDict in
/-- One step of `pg.Dict` (`_on_change` of a Dict only forwards to the callback, so `notify` has
no effect on contents). -/
def implD (kvs : List (Key × Val)) (st : DStep) : DOut :=
  match st.op with
  | .get k =>
    -- `__getitem__`: `sym_inferred(key)`; AttributeError → KeyError
    ⟨kvs, match lookupKey k kvs with | some v => .ok v | Option.none => .error .key⟩
  | .getD k d => ⟨kvs, .ok ((lookupKey k kvs).getD d)⟩        -- builtin `dict.get`
  | .contains k => ⟨kvs, .ok (.bool (hasKey kvs k))⟩
  | .len => ⟨kvs, .ok (.int kvs.length)⟩
  | .set k v => ⟨(setItemRaw kvs k v).1, .ok .none⟩           -- `__setitem__`
  | .del k =>
    -- `__delitem__`: `if name not in self: raise KeyError`; then the primitive with MISSING
    if !hasKey kvs k then ⟨kvs, .error .key⟩
    else ⟨(setItemRaw kvs k .missing).1, .ok .none⟩
  | .pop k d =>
    -- `pop`: `if key in self: value = self[key]; del self[key]; return value if value != MISSING else default`
    if hasKey kvs k then
      match lookupKey k kvs with
      | some v =>
        let kvs' := (setItemRaw kvs k .missing).1
        if v.isMissing then
          match d with
          | some dv => ⟨kvs', .ok dv⟩
          | Option.none => ⟨kvs', .ok .missing⟩               -- `RAISE_IF_NOT_FOUND` sentinel; unreachable
        else ⟨kvs', .ok v⟩
      | Option.none => ⟨kvs, .error .key⟩
    else match d with
      | some dv => ⟨kvs, .ok dv⟩
      | Option.none => ⟨kvs, .error .key⟩
  | .popitem =>
    -- `popitem`: `super().popitem()`
    match kvs.getLast? with
    | some (k, v) => ⟨kvs.dropLast, .ok (.list [k.toVal, v])⟩
    | Option.none => ⟨kvs, .error .key⟩
  | .clear => ⟨[], .ok .none⟩
  | .setdefault k d =>
    -- `setdefault`: `value = MISSING; if key in self: value = self.sym_getattr(key);
    --  if value == MISSING: self[key] = default; value = default; return value`
    let value := if hasKey kvs k then (lookupKey k kvs).getD .missing else .missing
    if value.isMissing then ⟨(setItemRaw kvs k d).1, .ok d⟩ else ⟨kvs, .ok value⟩
  -- `update`: merge `other` and `kwargs`, then `rebind(KeyPath(k) …)` entry by entry
  | .update pairs kw => ⟨setAll kvs (mergePairs (pairs ++ kw)), .ok .none⟩
  | .copy => ⟨kvs, .ok (.dict (cloneKvs kvs))⟩                -- `copy` → `sym_clone(deep=False)`
  -- `__or__` / `__ror__` are not overridden: the builtin reads the payload and builds a plain dict
  | .union pairs r => ⟨kvs, .ok (.dict (if r then PyDict.union pairs kvs else PyDict.union kvs pairs))⟩
  | .rebind pairs kw =>
    -- `path_value_pairs.update(kwargs)`, then one entry at a time
    if (pairs ++ kw).isEmpty then ⟨kvs, .error .value⟩ else ⟨setAll kvs (mergePairs (pairs ++ kw)), .ok .none⟩

/-! ## Histories -/

def runL (step : List Val → LStep → LOut) (xs : List Val) : List LStep → List Val
  | [] => xs
  | s :: rest => runL step (step xs s).st rest

def runD (step : List (Key × Val) → DStep → DOut) (kvs : List (Key × Val)) : List DStep → List (Key × Val)
  | [] => kvs
  | s :: rest => runD step (step kvs s).st rest

end Pg.C02
