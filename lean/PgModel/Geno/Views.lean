/-
  Geno layer, part 4 (C12): the exported views of a DNA and the binding of its nodes.

  * `flat` / `fromNumbers`       — `to_numbers()` / `DNA.from_numbers` (base.py:1210-1295)
  * `toNested` / `toCompact`     — `to_numbers(flatten=False)` / compact `sym_jsonify`
  * `parse`                      — `DNA(nested)` (`_parse_value_and_children`, base.py:547-579)
  * `annot`                      — which decision point every node is bound to after `use_spec`
                                   (base.py:768-896), ids as `DNASpec.id` (base.py:296-315)
  * `toDict`                     — `to_dict` (base.py:1049-1208) over the *beliefs* of the nodes
  * `swapAt`, `swapStale`        — the Swap mutator on raw trees / keeping stale beliefs

  The model mirrors the tree WITH fixes C12-F21 (Swap re-binds) and C12-F21b (`to_numbers(False)`
  chains tuples, so it coincides with the compact JSON value except for the empty DNA).
-/
import PgModel.Geno.Spec
import PgModel.Geno.Enum
namespace Pg.Geno
open DNA

/-! ### flat numbers -/

mutual
  def flat : DNA → List Val
    | .mk v cs => (match v with
                   | .none => []
                   | v => [v]) ++ flatList cs
  def flatList : List DNA → List Val
    | [] => []
    | c :: cs => flat c ++ flatList cs
end

/-! ### nested numbers / compact JSON value -/

inductive Nest where
  | v (x : Val)
  | list (xs : List Nest)
  | tuple (xs : List Nest)
  deriving Repr, Inhabited

def nestNode (v : Val) (ks : List Nest) : Nest :=
  match v, ks with
  | .none, ks => .list ks
  | v, [] => .v v
  | v, [.tuple xs] => .tuple (.v v :: xs)
  | v, [k] => .tuple [.v v, k]
  | v, ks => .tuple [.v v, .list ks]

mutual
  /-- `to_numbers(flatten=False)`. -/
  def toNested : DNA → Nest
    | .mk v cs => nestNode v (toNestedList cs)
  def toNestedList : List DNA → List Nest
    | [] => []
    | c :: cs => toNested c :: toNestedList cs
end

/-- The `value` of the compact JSON form (`sym_jsonify(compact=True)`): as `toNested`, except
that a DNA without children is its bare value (the empty DNA is `null`, not `[]`). -/
def toCompact : DNA → Nest
  | .mk v [] => .v v
  | d => toNested d

/-- One node of the compact form: a node without children is its bare value (also `None`). -/
def nestNodeC : Val → List Nest → Nest
  | v, [] => .v v
  | v, k :: ks => nestNode v (k :: ks)

mutual
  /-- The `value` of the compact JSON form exactly as `sym_jsonify(compact=True, type_info=False)`
  recurses (base.py:1403-1420): a node without children is its bare value at EVERY depth, so an
  empty DNA below the root is `null` (`toCompact` above does this for the root only; the two
  agree unless an empty DNA is a child). -/
  def toCompactDeep : DNA → Nest
    | .mk v cs => nestNodeC v (toCompactDeepList cs)
  def toCompactDeepList : List DNA → List Nest
    | [] => []
    | c :: cs => toCompactDeep c :: toCompactDeepList cs
end

def numVal : Nest → Option Val
  | .v (.int i) => some (.int i)
  | .v (.flt n d) => some (.flt n d)
  | _ => none

mutual
  /-- `DNA(value)` for a nested value (base.py:547-595). `none` = ValueError. -/
  def parse : Nest → Option DNA
    | .v x => some (.mk x [])
    | .list xs =>
      match parseList xs with
      | none => none
      | some [c] => some c
      | some cs => some (.mk .none cs)
    | .tuple xs => parseTuple xs
  def parseList : List Nest → Option (List DNA)
    | [] => some []
    | x :: xs =>
      match parse x, parseList xs with
      | some d, some ds => some (d :: ds)
      | _, _ => none
  /-- The items of a tuple: `(v, <list>)`, `(v, <scalar>)`, `(v, w, ...)` chains. -/
  def parseTuple : List Nest → Option DNA
    | [] => none
    | [_] => none
    | [x, y] =>
      match numVal x with
      | none => none
      | some v =>
        match y with
        | .list ys => (parseList ys).map (.mk v ·)
        | .v .none => some (.mk v [])
        | .v s => some (.mk v [.mk s []])
        | .tuple _ => some (.mk v [])
    | x :: y :: z :: rest =>
      match numVal x, parseTuple (y :: z :: rest) with
      | some v, some c => some (.mk v [c])
      | _, _ => none
end

/-! ### the verbose JSON form -/

/-- `d.to_json(compact=False)` (base.py:1399-1405): the symbolic-Object form of the ROOT only —
its `value` and the list `children`; every child is serialised by its own `to_json()`, i.e. in
the compact form (`{'format': 'compact', 'value': …}`). -/
def toVerbose : DNA → Val × List Nest
  | .mk v cs => (v, toCompactDeepList cs)

/-- `from_json` of the verbose form (base.py:1475-1480): the children are parsed from their
compact values, then `DNA(value, children)` normalises (`mk'`). -/
def parseVerbose (j : Val × List Nest) : Option DNA := (parseList j.2).map (DNA.mk' j.1)

/-! ### from_numbers -/

def takeIdx (n : Nat) : List Val → Option (Nat × List Val)
  | .int v :: rest => if inRange n v then some (v.toNat, rest) else none
  | _ => none

def fromNumSingleWith (n : Nat) (fat : Nat → List Val → Option (DNA × List Val))
    (vs : List Val) : Option (DNA × List Val) :=
  match takeIdx n vs with
  | none => none
  | some (v, rest) => (fat v rest).map fun (sub, rest') => (mk' (.int (v : Nat)) [sub], rest')

def repeatM (f : List Val → Option (DNA × List Val)) : Nat → List Val → Option (List DNA × List Val)
  | 0, vs => some ([], vs)
  | k + 1, vs =>
    match f vs with
    | none => none
    | some (d, rest) => (repeatM f k rest).map fun (ds, rest') => (d :: ds, rest')

mutual
  def fromNumP : Point → List Val → Option (DNA × List Val)
    | .choices k cands _ _ _, vs =>
      if k == 1 then fromNumSingleWith cands.length (fromNumAt cands) vs
      else (repeatM (fromNumSingleWith cands.length (fromNumAt cands)) k vs).map
        fun (cs, rest) => (mk' .none cs, rest)
    | .float loN loD hiN hiD _, vs =>
      match vs with
      | .flt n d :: rest =>
        if ratLe loN loD n d && ratLe n d hiN hiD then some (.mk (.flt n d) [], rest) else none
      | _ => none
    | .custom _, vs =>
      match vs with
      | .str s :: rest => some (.mk (.str s) [], rest)
      | _ => none
  def fromNumElems : List Point → List Val → Option (List DNA × List Val)
    | [], vs => some ([], vs)
    | p :: ps, vs =>
      match fromNumP p vs with
      | none => none
      | some (d, rest) => (fromNumElems ps rest).map fun (ds, rest') => (d :: ds, rest')
  def fromNumAt : List (List Point) → Nat → List Val → Option (DNA × List Val)
    | [], _, _ => none
    | c :: _, 0, vs => (fromNumElems c vs).map fun (ds, rest) => (mk' .none ds, rest)
    | _ :: cs, i + 1, vs => fromNumAt cs i vs
end

/-- `DNA.from_numbers(values, spec)`; every level is bound to its spec on construction, which
adds the distinct / sorted tests of binding. -/
def Spec.fromNumbers (g : Spec) (vs : List Val) : Option DNA :=
  let r : Option (DNA × List Val) := match g with
    | .space s => (fromNumElems s vs).map fun (p : List DNA × List Val) => (mk' .none p.1, p.2)
    | .point p => fromNumP p vs
  match r with
  | some (d, []) => if g.bind d then some d else none
  | _ => none

/-! ### decision-point ids and the beliefs of bound nodes -/

inductive Tok where
  | s (name : String)
  | i (idx : Int)
  | cond (idx n : Nat)
  deriving DecidableEq, Repr, Inhabited

def locToks (ks : List Key) : List Tok :=
  ks.map fun
    | .s n => .s n
    | .i k => .i k

/-- `KeyPath.path` (value_location.py:424-448) for plain names. -/
def renderId (ts : List Tok) : String :=
  (ts.foldl (fun (acc : String × Bool) t =>
    match t with
    | .s n => (acc.1 ++ (if acc.2 then "" else ".") ++ n, false)
    | .i k => (acc.1 ++ "[" ++ toString k ++ "]", false)
    | .cond i n => (acc.1 ++ "[=" ++ toString i ++ "/" ++ toString n ++ "]", false)) ("", true)).1

inductive DpKind where
  | choice | float | custom
  deriving DecidableEq, Repr, Inhabited

/-- What a bound node knows about its decision point. -/
structure Dp where
  id : List Tok
  parentId : Option (List Tok) := none     -- the multi-choice this sub-choice belongs to
  sub : Option Nat := none                 -- `subchoice_index`
  arity : Nat := 1                         -- `num_choices` of the multi-choice this sub-choice belongs to
  name : Option String := none
  n : Nat := 0                             -- number of candidates
  lits : Option (List Lit) := none
  kind : DpKind := .choice
  deriving DecidableEq, Repr, Inhabited

/-- A DNA whose nodes carry the decision point they are bound to (`node.spec`); `none` for
unbound nodes and for nodes bound to a space / a multi-choice container. -/
inductive BDNA where
  | mk (value : Val) (bound : Option Dp) (children : List BDNA)
  deriving Repr, Inhabited

mutual
  def BDNA.erase : BDNA → DNA
    | .mk v _ cs => .mk v (eraseList cs)
  def eraseList : List BDNA → List DNA
    | [] => []
    | c :: cs => c.erase :: eraseList cs
end

mutual
  def unboundOf : DNA → BDNA
    | .mk v cs => .mk v none (unboundList cs)
  def unboundList : List DNA → List BDNA
    | [] => []
    | c :: cs => unboundOf c :: unboundList cs
end

def choiceDp (id : List Tok) (parentId : Option (List Tok)) (sub : Option Nat) (info : Info) (n : Nat)
    (k : Nat := 1) : Dp :=
  { id := id, parentId := parentId, sub := sub, arity := k, name := info.name, n := n, lits := info.lits,
    kind := .choice }

def annotSingleWith (dp : Dp) (kat : Nat → List DNA → Option (List BDNA)) : DNA → Option BDNA
  | .mk (.int v) cs =>
    if inRange dp.n v then (kat v.toNat cs).map fun bs => .mk (.int v) (some dp) bs else none
  | _ => none

def mapIdxM (f : Nat → DNA → Option BDNA) : Nat → List DNA → Option (List BDNA)
  | _, [] => some []
  | i, d :: ds =>
    match f i d, mapIdxM f (i + 1) ds with
    | some b, some bs => some (b :: bs)
    | _, _ => none

/-- `_use_spec_for_child_choices`: the `k` nodes `cs` against the sub-choices of a choice. -/
def annotChoiceNodes (id : List Tok) (k n : Nat) (info : Info)
    (kat : List Tok → Nat → List DNA → Option (List BDNA)) (cs : List DNA) : Option (List BDNA) :=
  if cs.length != k then none
  else if k == 1 then mapIdxM (fun _ c => annotSingleWith (choiceDp id none none info n) (kat id) c) 0 cs
  else mapIdxM (fun i c =>
    annotSingleWith (choiceDp (id ++ [.i (i : Nat)]) (some id) (some i) info n k) (kat (id ++ [.i (i : Nat)])) c) 0 cs

def annotLeaf (pre : List Tok) : Point → DNA → Option BDNA
  | .float _ _ _ _ info, .mk (.flt n d) cs =>
    some (.mk (.flt n d) (some { id := pre ++ locToks info.loc, name := info.name, kind := .float }) (unboundList cs))
  | .custom info, .mk (.str s) cs =>
    some (.mk (.str s) (some { id := pre ++ locToks info.loc, name := info.name, kind := .custom }) (unboundList cs))
  | _, _ => none

mutual
  def annotP (pre : List Tok) : Point → DNA → Option BDNA
    | .choices k cands _ _ info, d =>
      let id := pre ++ locToks info.loc
      if k == 1 then
        annotSingleWith (choiceDp id none none info cands.length) (annotKidsAt cands cands.length id 0) d
      else
        match d with
        | .mk .none cs =>
          (annotChoiceNodes id k cands.length info (fun id' => annotKidsAt cands cands.length id' 0) cs).map
            fun bs => .mk .none none bs
        | _ => none
    | p, d => annotLeaf pre p d
  def annotElems (pre : List Tok) : List Point → List DNA → Option (List BDNA)
    | [], [] => some []
    | p :: ps, d :: ds =>
      match annotP pre p d, annotElems pre ps ds with
      | some b, some bs => some (b :: bs)
      | _, _ => none
    | _, _ => none
  /-- The children of an `int` node against the chosen candidate space (cf. `bindKids`). -/
  def annotKids (pre : List Tok) : List Point → List DNA → Option (List BDNA)
    | [], cs => if cs.isEmpty then some [] else none
    | [.choices k cands _ _ info], cs =>
      annotChoiceNodes (pre ++ locToks info.loc) k cands.length info
        (fun id' => annotKidsAt cands cands.length id' 0) cs
    | [p], cs => (match cs with
                  | [x] => (annotLeaf pre p x).map fun b => [b]
                  | _ => none)
    | p :: q :: rest, c1 :: c2 :: cs =>
      match annotP pre p c1, annotP pre q c2, annotElems pre rest cs with
      | some a, some b, some bs => some (a :: b :: bs)
      | _, _, _ => none
    | _ :: _ :: _, _ => none
  /-- `annotKidsAt cands n id off v cs`: walk to candidate `v` (already skipped: `off`); the id
  prefix of its elements is `id ++ [=v/n]`. -/
  def annotKidsAt : List (List Point) → Nat → List Tok → Nat → Nat → List DNA → Option (List BDNA)
    | [], _, _, _, _, _ => none
    | c :: _, n, id, off, 0, cs => annotKids (id ++ [.cond off n]) c cs
    | _ :: cs', n, id, off, i + 1, cs => annotKidsAt cs' n id (off + 1) i cs
end

/-- The beliefs of the nodes of `d` after `d.use_spec(g)` succeeded. -/
def Spec.annot : Spec → DNA → Option BDNA
  | .point p, d => annotP [] p d
  | .space [p], d => annotP [] p d
  | .space s, .mk .none cs => (annotElems [] s cs).map fun bs => .mk .none none bs
  | _, _ => none

/-- `Aligned g b`: every node of `b` is bound to the decision point of its own position, i.e.
`b` is what binding its raw numbers afresh gives. -/
def Aligned (g : Spec) (b : BDNA) : Prop := g.annot b.erase = some b

/-! ### to_dict -/

inductive DV where
  | val (v : Val)
  | dna (d : DNA)
  | str (s : String)
  | lit (l : Lit)
  | choice (i n : Nat) (lit : Option Lit)   -- the strings 'i/n' and 'i/n (literal)', kept structured
  deriving Repr, Inhabited

inductive DE where
  | one (v : DV)
  | many (vs : List DV)
  deriving Repr, Inhabited

/-- `key_type`: 0 = id (also dna_spec, keyed by the spec's id), 1 = name_or_id;
`value_type`: 0 value, 1 dna, 2 choice, 3 literal, 4 choice_and_literal;
`multi`: 0 subchoice, 1 parent, 2 both. -/
structure Opts where
  keyType : Nat := 0
  valueType : Nat := 0
  multi : Nat := 0
  deriving Repr, Inhabited

def litStr : Lit → String
  | .s v => v
  | .i v => toString v
  | .f n d => toString n ++ "/" ++ toString d     -- float literals are not generated

def keyOf (o : Opts) (name : Option String) (id : List Tok) : String :=
  if o.keyType == 1 then name.getD (renderId id) else renderId id

/-- `format_candidate` (categorical.py:204-228) / the value styles of `to_dict`. -/
def fmtChoice (o : Opts) (dp : Dp) (v : Int) (self : DNA) : DV :=
  match o.valueType with
  | 0 => .val (.int v)
  | 1 => .dna self
  | 2 => .choice v.toNat dp.n none
  | 3 => match dp.lits.bind (·[v.toNat]?) with
         | some l => .lit l
         | none => .choice v.toNat dp.n none
  | _ => .choice v.toNat dp.n (dp.lits.bind (·[v.toNat]?))

/-- The text of a structured choice value (`format_candidate`). -/
def choiceStr (i n : Nat) (lit : Option Lit) : String :=
  let plain := toString i ++ "/" ++ toString n
  match lit with
  | some l => plain ++ " (" ++ litStr l ++ ")"
  | none => plain

def dictPut (dict : List (String × DE)) (k : String) (v : DV) : List (String × DE) :=
  if dict.any (·.1 == k) then
    dict.map fun (k', e) =>
      if k' == k then (k', match e with
                           | .one x => .many [x, v]
                           | .many xs => .many (xs ++ [v]))
      else (k', e)
  else dict ++ [(k, .one v)]

def needsSubchoiceKey (o : Opts) (dp : Dp) : Bool :=
  o.multi != 1 && (o.multi == 0 || (o.keyType != 1 || dp.name.isNone))

mutual
  /-- `_dump_node` (base.py:1155-1187). -/
  def dumpNode (o : Opts) : BDNA → List (String × DE) → List (String × DE)
    | .mk v bound cs, dict =>
      let dict :=
        match bound, v with
        | some dp, .int i =>
          if dp.kind == .choice then
            let x := fmtChoice o dp i (BDNA.mk v bound cs).erase
            match dp.sub with
            | some _ =>
              let dict := if o.multi != 0 then dictPut dict (keyOf o dp.name (dp.parentId.getD [])) x else dict
              if needsSubchoiceKey o dp then dictPut dict (keyOf o dp.name dp.id) x else dict
            | none => dictPut dict (keyOf o dp.name dp.id) x
          else dictPut dict (keyOf o dp.name dp.id)
            (if o.valueType == 1 then .dna (BDNA.mk v bound cs).erase else .val v)
        | some dp, v' =>
          if dp.kind != .choice then
            dictPut dict (keyOf o dp.name dp.id)
              (if o.valueType == 1 then .dna (BDNA.mk v bound cs).erase else .val v')
          else dict
        | none, _ => dict
      dumpList o cs dict
  def dumpList (o : Opts) : List BDNA → List (String × DE) → List (String × DE)
    | [], dict => dict
    | c :: cs, dict => dumpList o cs (dumpNode o c dict)
end

def toDict (o : Opts) (b : BDNA) : List (String × DE) := dumpNode o b []

/-! ### from_dict (base.py:926-1047) -/

def dictGet (d : List (String × DE)) (k : String) : Option DE := (d.find? (·.1 == k)).map (·.2)

def dictSet (d : List (String × DE)) (k : String) (e : DE) : List (String × DE) :=
  d.map fun (k', e') => if k' == k then (k', e) else (k', e')

/-- `_get_decision`: by id, else by name; a list found under the NAME is popped. `none` = no decision. -/
def getDecision (d : List (String × DE)) (id : String) (name : Option String) :
    Option DE × List (String × DE) :=
  match dictGet d id with
  | some e => (some e, d)
  | none =>
    match name with
    | none => (none, d)
    | some nm =>
      match dictGet d nm with
      | some (.many (x :: rest)) => (some (.one x), dictSet d nm (.many rest))
      | some (.many []) => (none, dictSet d nm (.many []))
      | some (.one x) => (some (.one x), d)
      | none => (none, d)

def digitsVal (cs : List Char) : Option Nat :=
  if cs.isEmpty || !cs.all Char.isDigit then none
  else some (cs.foldl (fun acc c => acc * 10 + (c.toNat - 48)) 0)

/-- The two regular expressions of `candidate_index`: `^(\d+)/(\d+)$` and
`^(\d+)/(\d+) \((.*)\)$` (ASCII digits). -/
def parseChoice (s : String) : Option (Nat × Nat × Option String) :=
  let cs := s.toList
  let a := cs.takeWhile Char.isDigit
  match cs.dropWhile Char.isDigit with
  | '/' :: rest =>
    let b := rest.takeWhile Char.isDigit
    match digitsVal a, digitsVal b, rest.dropWhile Char.isDigit with
    | some i, some n, [] => some (i, n, none)
    | some i, some n, ' ' :: '(' :: tail =>
      match tail.reverse with
      | ')' :: body => some (i, n, some (String.mk body.reverse))
      | _ => none
    | _, _, _ => none
  | _ => none

/-- The last position (counted from `i`) of `l` in the list. -/
def lastIndexFrom (l : Lit) : List Lit → Nat → Option Nat
  | [], _ => none
  | x :: xs, i =>
    match lastIndexFrom l xs (i + 1) with
    | some j => some j
    | none => if x == l then some i else none

/-- `self._literal_index.get(value)`: the LAST candidate with that literal. -/
def litIndex (lits : Option (List Lit)) (l : Lit) : Option Nat :=
  match lits with
  | none => none
  | some ls => lastIndexFrom l ls 0

/-- The checks of `candidate_index` after the text was taken apart. -/
def checkChoice (lits : Option (List Lit)) (n i n' : Nat) (lit : Option String) : Option Nat :=
  if i < n && n' == n &&
      (match lit with
       | none => true
       | some t => match lits.bind (·[i]?) with
                   | some l => t == litStr l
                   | none => false)
  then some i else none

/-- `_choice_index` (base.py:966-977) on one dictionary value. -/
def choiceIndex (useInts : Bool) (lits : Option (List Lit)) (n : Nat) : DV → Option Nat
  | .val (.int i) | .lit (.i i) =>
    if !useInts then (if inRange n i then some i.toNat else none)
    else (litIndex lits (.i i)).bind fun j => if j < n then some j else none
  | .val (.flt a b) | .lit (.f a b) => (litIndex lits (.f a b)).bind fun j => if j < n then some j else none
  | .val (.str t) | .lit (.s t) | .str t =>
    match parseChoice t with
    | some (i, n', lit) => checkChoice lits n i n' lit
    | none => (litIndex lits (.s t)).bind fun j => if j < n then some j else none
  | .choice i n' lit => checkChoice lits n i n' (lit.map litStr)
  | _ => none

/-- The decision of one (sub-)choice: under its own id (or name), else position `idx` of the list
under the id (or name) of the multi-choice `parent = (pid, k, idx)` it belongs to. -/
def lookupChoice (d : List (String × DE)) (id : List Tok) (name : Option String)
    (parent : Option (List Tok × Nat × Nat)) : Option (DV × List (String × DE)) :=
  match getDecision d (renderId id) name with
  | (some (.one x), d1) => some (x, d1)
  | (some (.many _), _) => none
  | (none, d1) =>
    match parent with
    | none => none
    | some (pid, k, idx) =>
      match getDecision d1 (renderId pid) name with
      | (some (.many xs), d2) => if xs.length == k then (xs[idx]?).map fun x => (x, d2) else none
      | _ => none

/-- One (sub-)choice of a decision point: look the decision up, turn it into a candidate index,
build the chosen candidate's DNA (`fat`). `parent`: the multi-choice to fall back to. -/
def fromDictChoiceWith (useInts : Bool) (info : Info) (n : Nat)
    (fat : List Tok → Nat → List (String × DE) → Option (DNA × List (String × DE)))
    (id : List Tok) (parent : Option (List Tok × Nat × Nat)) (d : List (String × DE)) :
    Option (DNA × List (String × DE)) :=
  match lookupChoice d id info.name parent with
  | none => none
  | some (.dna c, d) => some (c, d)
  | some (x, d) =>
    match choiceIndex useInts info.lits n x with
    | none => none
    | some idx =>
      match fat (id ++ [.cond idx n]) idx d with
      | none => none
      | some (sub, d') => some (DNA.mk' (.int (idx : Nat)) [sub], d')

def fromDictLoop (f : Nat → List (String × DE) → Option (DNA × List (String × DE))) :
    Nat → Nat → List (String × DE) → Option (List DNA × List (String × DE))
  | _, 0, d => some ([], d)
  | i, k + 1, d =>
    match f i d with
    | none => none
    | some (c, d') => (fromDictLoop f (i + 1) k d').map fun (cs, d'') => (c :: cs, d'')

mutual
  def fromDictP (useInts : Bool) (pre : List Tok) : Point → List (String × DE) →
      Option (DNA × List (String × DE))
    | .choices k cands _ _ info, d =>
      let id := pre ++ locToks info.loc
      (fromDictLoop (fun i d' =>
          fromDictChoiceWith useInts info cands.length (fun pre' i' d'' => fromDictAt useInts cands pre' i' d'')
            (if k == 1 then id else id ++ [.i (i : Nat)])
            (if k == 1 then none else some (id, k, i)) d') 0 k d).map
        fun (cs, d') => (DNA.mk' .none cs, d')
    | .float loN loD hiN hiD info, d =>
      match getDecision d (renderId (pre ++ locToks info.loc)) info.name with
      | (some (.one x), d') =>
        let v := match x with
          | .dna c => c.value
          | .val v => v
          | _ => Val.none
        (match v with
         | .flt n e => if ratLe loN loD n e && ratLe n e hiN hiD then some (.mk (.flt n e) [], d') else none
         | _ => none)
      | _ => none
    | .custom info, d =>
      match getDecision d (renderId (pre ++ locToks info.loc)) info.name with
      | (some (.one x), d') =>
        (match x with
         | .dna (.mk (.str t) _) => some (.mk (.str t) [], d')
         | .val (.str t) => some (.mk (.str t) [], d')
         | _ => none)
      | _ => none
  def fromDictElems (useInts : Bool) (pre : List Tok) : List Point → List (String × DE) →
      Option (List DNA × List (String × DE))
    | [], d => some ([], d)
    | p :: ps, d =>
      match fromDictP useInts pre p d with
      | none => none
      | some (c, d') => (fromDictElems useInts pre ps d').map fun (cs, d'') => (c :: cs, d'')
  /-- `_make_dna(candidates[i])` with the id prefix `pre` of its elements. -/
  def fromDictAt (useInts : Bool) : List (List Point) → List Tok → Nat → List (String × DE) →
      Option (DNA × List (String × DE))
    | [], _, _, _ => none
    | c :: _, pre, 0, d => (fromDictElems useInts pre c d).map fun (cs, d') => (DNA.mk' .none cs, d')
    | _ :: cs, pre, i + 1, d => fromDictAt useInts cs pre i d
end

/-- `DNA.from_dict(dict, spec, use_ints_as_literals)`. -/
def Spec.fromDict (g : Spec) (useInts : Bool) (d : List (String × DE)) : Option DNA :=
  let r : Option (DNA × List (String × DE)) := match g with
    | .space s => (fromDictElems useInts [] s d).map fun (p : List DNA × List (String × DE)) => (DNA.mk' .none p.1, p.2)
    | .point p => fromDictP useInts [] p d
  match r with
  | some (x, _) => if g.bind x then some x else none
  | none => none

/-! ### the Swap mutator on trees -/

def swapList {α : Type} (i j : Nat) (xs : List α) : List α :=
  match xs[i]?, xs[j]? with
  | some a, some b => (xs.set i b).set j a
  | _, _ => xs

mutual
  /-- Exchange children `i` and `j` of the node at `path`. -/
  def swapAt : List Nat → Nat → Nat → DNA → DNA
    | [], i, j, .mk v cs => .mk v (swapList i j cs)
    | p :: ps, i, j, .mk v cs => .mk v (swapAtList p ps i j cs)
  def swapAtList : Nat → List Nat → Nat → Nat → List DNA → List DNA
    | _, _, _, _, [] => []
    | 0, ps, i, j, c :: cs => swapAt ps i j c :: cs
    | p + 1, ps, i, j, c :: cs => c :: swapAtList p ps i j cs
end

/-- The Swap mutator WITHOUT re-binding (behaviour before fix C12-F21): the exchanged children
keep the beliefs of their old positions. Root-level container only (enough for the witness). -/
def swapStale (i j : Nat) : BDNA → BDNA
  | .mk v b cs => .mk v b (swapList i j cs)

end Pg.Geno
