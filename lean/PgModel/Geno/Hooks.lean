/-
  Geno layer (C11): custom decision points with their user hooks as PARAMETERS.

  `CustomDecisionPoint._next_dna(dna)` is `next_dna_fn(dna)` (custom.py): the first DNA of a custom
  point is what the hook returns for `None`, its successor what the hook returns for it; without a
  hook `NotImplementedError`.  `Hooks` carries the two functions, per decision point (identified
  by its `Info`: location and name); `firstPH` / `nextPH` / `Spec.iterH` are `first_dna` /
  `next_dna` / `iter_dna` (with `attach_spec=False`) of a spec whose custom points use them.

  `listHooks tbl`: the hooks used by the harness — the custom point with info `i` enumerates the
  strings `tbl i` in order (`next_dna_fn(None) = DNA(L[0])`, `next_dna_fn(DNA(L[j])) = DNA(L[j+1])`,
  `None` after the last, an exception for any other DNA); no table entry = no hook.
-/
import PgModel.Geno.Enum
namespace Pg.Geno
open DNA

structure Hooks where
  /-- `next_dna_fn(None)` -/
  first : Info → DNA
  /-- `next_dna_fn(dna)`: `none` = raises (no hook, or the hook rejects the DNA), `some none` = the end. -/
  next : Info → DNA → Option (Option DNA)

mutual
  def firstPH (hk : Hooks) : Point → DNA
    | .choices k cands distinct _ _ =>
      mk' .none ((List.range k).map fun i =>
        let c := if distinct then i else 0
        mk' (.int (c : Nat)) [firstAtH hk cands c])
    | .float loN loD _ _ _ => .mk (.flt loN loD) []
    | .custom info => hk.first info
  def firstElemsH (hk : Hooks) : List Point → List DNA
    | [] => []
    | p :: ps => firstPH hk p :: firstElemsH hk ps
  def firstAtH (hk : Hooks) : List (List Point) → Nat → DNA
    | [], _ => DNA.empty
    | c :: _, 0 => mk' .none (firstElemsH hk c)
    | _ :: cs, i + 1 => firstAtH hk cs i
end

mutual
  def nextPH (hk : Hooks) : Point → DNA → Option (Option DNA)
    | .choices k cands distinct sorted _, d =>
      nextChoicesWith cands.length k distinct sorted (firstAtH hk cands) (nextAtH hk cands) d
    | .float .., _ => none
    | .custom info, d => hk.next info d
  def nextElemsH (hk : Hooks) : List Point → List DNA → Option (Bool × List DNA)
    | [], _ => some (true, [])
    | _ :: _, [] => none
    | p :: ps, d :: ds =>
      match nextElemsH hk ps ds with
      | none => none
      | some (false, rest) => some (false, d :: rest)
      | some (true, rest) =>
        match nextPH hk p d with
        | none => none
        | some none => some (true, firstPH hk p :: rest)
        | some (some d') => some (false, d' :: rest)
  def nextAtH (hk : Hooks) : List (List Point) → Nat → DNA → Option (Option DNA)
    | [], _, _ => none
    | c :: _, 0, d => nextSpaceWith (nextElemsH hk c) c.length d
    | _ :: cs, i + 1, d => nextAtH hk cs i d
end

def Spec.firstH (hk : Hooks) : Spec → DNA
  | .space s => mk' .none (firstElemsH hk s)
  | .point p => firstPH hk p

def Spec.nextH (hk : Hooks) : Spec → DNA → Option (Option DNA)
  | .space s, d => nextSpaceWith (nextElemsH hk s) s.length d
  | .point p, d => nextPH hk p d

def iterFromH (hk : Hooks) (g : Spec) : Nat → DNA → Option (List DNA × Bool)
  | 0, _ => some ([], false)
  | fuel + 1, d =>
    match g.nextH hk d with
    | none => none
    | some none => some ([], true)
    | some (some d') => (iterFromH hk g fuel d').map fun (l, e) => (d' :: l, e)

/-- `list(spec.iter_dna())` with fuel. -/
def Spec.iterH (hk : Hooks) (g : Spec) : Nat → Option (List DNA × Bool)
  | 0 => some ([], false)
  | fuel + 1 => (iterFromH hk g fuel (g.firstH hk)).map fun (l, e) => (g.firstH hk :: l, e)

/-- The successor of `x` in `l` (`none` at the end or when absent). -/
def succStr : List String → String → Option String
  | [], _ => none
  | [_], _ => none
  | a :: b :: t, x => if a == x then some b else succStr (b :: t) x

/-- Hooks that enumerate given lists of strings. -/
def listHooks (tbl : Info → Option (List String)) : Hooks where
  first info := .mk (.str (((tbl info).getD []).headD "")) []
  next info d :=
    match tbl info, d with
    | some L, .mk (.str s) [] => if L.contains s then some ((succStr L s).map fun t => .mk (.str t) []) else none
    | _, _ => none

/-- THE CONTRACT of a hook for the custom point `info`: it enumerates the pairwise different strings `L`. -/
def HookContract (hk : Hooks) (info : Info) (L : List String) : Prop :=
  L ≠ [] ∧ L.Nodup ∧ hk.first info = .mk (.str (L.headD "")) [] ∧
  ∀ s ∈ L, hk.next info (.mk (.str s) []) = some ((succStr L s).map fun t => .mk (.str t) [])

end Pg.Geno
