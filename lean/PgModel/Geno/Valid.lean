/-
  Geno layer, part 3: the SPECIFICATION of "the DNAs of a search space", written independently of
  the implementation model (`Enum.lean`) and without the constructor normalisation `mk'`:

  * `valid… : spec → DNA → Bool` — membership by its defining constraints (arity, index range
    `0 ≤ c < n`, distinctness, sortedness, validity of the children in the chosen candidate);
  * `all…   : spec → List DNA`   — the lexicographic enumeration by structural recursion.

  Layout of a DNA (base.py class docstring):
  * a single choice is a node `int c` whose children are the element DNAs of candidate `c`
    (`kidsL`: if the candidate consists of one multi-choice, that multi-choice's sub-choice nodes
    are the children themselves);
  * a multi-choice (`k ≥ 2`) is a `None` node with `k` single-choice nodes;
  * a float / custom point is a leaf `flt` / `str` node;
  * the DNA of a root space with one element is the DNA of that element, otherwise a `None` node
    with one child per element (`rootOf`).
-/
import PgModel.Geno.Spec
namespace Pg.Geno

/-- The children of an `int` node whose chosen candidate has the element DNAs `ds`. -/
def kidsL : List DNA → List DNA
  | [.mk .none subs] => subs
  | ds => ds

/-- The DNA of a root space / of a `k`-choice from its element DNAs / sub-choice nodes. -/
def rootOf : List DNA → DNA
  | [d] => d
  | ds => .mk .none ds

/-- Inverse of `rootOf` for a spec with `n` components. -/
def unroot (n : Nat) (d : DNA) : Option (List DNA) :=
  if n == 1 then some [d]
  else match d with
    | .mk .none ds => some ds
    | _ => none

/-- May `c` be the next chosen candidate after the earlier choices `prior`? -/
def admissible (distinct sorted : Bool) (prior : List Nat) (c : Nat) : Bool :=
  (!distinct || !prior.contains c) && (!sorted || prior.all (· ≤ c))

/-- `F 0 b₀ ++ F 1 b₁ ++ …` — concatenation over a list with its running index. -/
def walkIdx {β γ : Type} (F : Nat → β → List γ) : Nat → List β → List γ
  | _, [] => []
  | i, b :: bs => F i b ++ walkIdx F (i + 1) bs

/-- All sequences of `k` further single-choice nodes after `prior`, in lexicographic order;
`subs[c]` lists the admissible children lists below candidate `c`: for each admissible next
candidate `c` in ascending order, for each children list below it, for each completion. -/
def enumSeq (subs : List (List (List DNA))) (distinct sorted : Bool) :
    List Nat → Nat → List (List DNA)
  | _, 0 => [[]]
  | prior, k + 1 =>
    walkIdx (fun c ksl =>
      if admissible distinct sorted prior c then
        ksl.flatMap fun ks =>
          (enumSeq subs distinct sorted (prior ++ [c]) k).map fun rest =>
            DNA.mk (.int (c : Nat)) ks :: rest
      else []) 0 subs

mutual
  /-- All DNAs of a decision point, ascending. Float and custom points have infinitely many
  (`[]` here; they are excluded by `finite`). -/
  def allP : Point → List DNA
    | .choices k cands distinct sorted _ =>
      (enumSeq (allCands cands) distinct sorted [] k).map rootOf
    | .float .. => []
    | .custom _ => []
  /-- All lists of element DNAs of a space (lexicographic product). -/
  def allElems : List Point → List (List DNA)
    | [] => [[]]
    | p :: ps => (allP p).flatMap fun d => (allElems ps).map (d :: ·)
  /-- Per candidate: all children lists below an `int` node choosing it. -/
  def allCands : List (List Point) → List (List (List DNA))
    | [] => []
    | c :: cs => (allElems c).map kidsL :: allCands cs
end

def allS (s : Space) : List DNA := (allElems s).map rootOf

def Spec.all : Spec → List DNA
  | .space s => allS s
  | .point p => allP p

/-! ### Membership -/

def pairwiseNe : List Int → Bool
  | [] => true
  | a :: rest => rest.all (· != a) && pairwiseNe rest

def pairwiseLe : List Int → Bool
  | [] => true
  | a :: rest => rest.all (a ≤ ·) && pairwiseLe rest

/-- Undo `kidsL` knowing the candidate's shape: a lone multi-choice gets its `None` node back. -/
def unkids (c : Space) (ks : List DNA) : List DNA :=
  match c with
  | [.choices k _ _ _ _] => if k == 1 then ks else [.mk .none ks]
  | _ => ks

/-- A single-choice node: `int c` with `0 ≤ c < n` and children valid for candidate `c`. -/
def validNodeWith (n : Nat) (vk : Nat → List DNA → Bool) : DNA → Bool
  | .mk (.int v) ks => decide (0 ≤ v) && decide (v < (n : Int)) && vk v.toNat ks
  | _ => false

def nodeValues : List DNA → List Int
  | [] => []
  | .mk (.int v) _ :: ds => v :: nodeValues ds
  | _ :: ds => nodeValues ds

mutual
  def validP : Point → DNA → Bool
    | .choices k cands distinct sorted _, d =>
      match unroot k d with
      | none => false
      | some ss =>
        ss.length == k && ss.all (validNodeWith cands.length (validKidsAt cands)) &&
        (!distinct || pairwiseNe (nodeValues ss)) && (!sorted || pairwiseLe (nodeValues ss))
    | .float loN loD hiN hiD _, d =>
      match d with
      | .mk (.flt n e) [] => ratLe loN loD n e && ratLe n e hiN hiD
      | _ => false
    | .custom _, d =>
      match d with
      | .mk (.str _) _ => true
      | _ => false
  def validElems : List Point → List DNA → Bool
    | [], [] => true
    | p :: ps, d :: ds => validP p d && validElems ps ds
    | _, _ => false
  def validKidsAt : List (List Point) → Nat → List DNA → Bool
    | [], _, _ => false
    | c :: _, 0, ks => validElems c (unkids c ks)
    | _ :: cs, i + 1, ks => validKidsAt cs i ks
end

def validS (s : Space) (d : DNA) : Bool :=
  match unroot s.length d with
  | none => false
  | some ds => validElems s ds

def Spec.valid : Spec → DNA → Bool
  | .space s, d => validS s d
  | .point p, d => validP p d

/-- `Valid g d`: `d` satisfies the constraints of `g`. -/
def Valid (g : Spec) (d : DNA) : Prop := g.valid d = true

instance (g : Spec) (d : DNA) : Decidable (Valid g d) := by unfold Valid; infer_instance

end Pg.Geno
