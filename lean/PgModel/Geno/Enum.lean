/-
  Geno layer, part 2: the IMPLEMENTATION MODEL of validation, binding, counting, enumeration and
  random generation. Every function mirrors the Python code cited next to it (what the code does,
  not what it should do). All functions are total and structurally recursive: recursion into
  candidate `i` of a choice walks the candidate list (`…At`), the per-space wrappers (`…With`) are
  non-recursive and take the element-wise function as an argument.

  Result conventions:
  * verdicts (`validate…`, `bind…`) : `true` = returns normally, `false` = raises;
  * `next…` : `none` = raises, `some none` = returns `None`, `some (some d)` = returns `d`;
  * sizes : `none` = `-1` (infinite).

  The model mirrors the tree WITH fixes C11-F20 and C11-F20b applied: negative choice indices are
  rejected by `Choices.validate` and `DNA.use_spec` (like they already are by
  `from_numbers`/`_next_dna`), and `validate` of a multi-element space / a multi-choice requires
  `dna.value is None`. Known and mirrored (F20c): binding a float ignores the node's children.
-/
import PgModel.Geno.Spec
namespace Pg.Geno
open DNA

/-! ### Small list helpers -/

def intValues : List DNA → Option (List Int)
  | [] => some []
  | .mk (.int v) _ :: ds => (intValues ds).map (v :: ·)
  | _ :: _ => none

def isSortedInt : List Int → Bool
  | a :: b :: rest => decide (a ≤ b) && isSortedInt (b :: rest)
  | _ => true

def nodupInt : List Int → Bool
  | [] => true
  | a :: rest => !rest.contains a && nodupInt rest

def insertSorted (a : Nat) : List Nat → List Nat
  | [] => [a]
  | b :: bs => if a ≤ b then a :: b :: bs else b :: insertSorted a bs

/-- Python `sorted` on a list of candidate indices. -/
def sortNat : List Nat → List Nat
  | [] => []
  | a :: as => insertSorted a (sortNat as)

def inRange (n : Nat) (v : Int) : Bool := decide (0 ≤ v) && decide (v < (n : Int))

/-- The `distinct` / `sorted` tests on the values of the sub-choices
(categorical.py:330-339, base.py:801-807). -/
def choiceValuesOk (distinct sorted : Bool) (vs : List Int) : Bool :=
  (!distinct || nodupInt vs) && (!sorted || isSortedInt vs)

/-! ### validate (categorical.py:293-351, space.py:140-156, numerical.py:137-154, custom.py) -/

/-- `Space.validate(dna)` given the element-wise validator of its `n` elements. -/
def validateSpaceWith (velems : List DNA → Bool) (n : Nat) (d : DNA) : Bool :=
  if n == 0 then d.value == .none && d.children.isEmpty
  else if n == 1 then velems [d]
  else d.children.length == n && d.value == .none && velems d.children

/-- One sub-choice of a multi-choice: `int` in range, then
`candidates[v].validate(DNA(None, sub.children))` (categorical.py:340-351). -/
def validateSubWith (n : Nat) (vat : Nat → DNA → Bool) : DNA → Bool
  | .mk (.int v) cs => inRange n v && vat v.toNat (mk' .none cs)
  | _ => false

mutual
  def validateP : Point → DNA → Bool
    | .choices k cands distinct sorted _, dna =>
      if k == 1 then
        match dna with
        | .mk (.int v) cs =>
          inRange cands.length v &&
          (match cands[v.toNat]? with
           | some [] => cs.isEmpty          -- `chosen.is_constant and dna.children`
           | _ => !cs.isEmpty) &&           -- `not chosen.is_constant and not dna.children`
          validateAt cands v.toNat (mk' .none cs)
        | _ => false
      else
        dna.value == .none && dna.children.length == k &&
        (match intValues dna.children with
         | some vs => choiceValuesOk distinct sorted vs
         | none => false) &&
        dna.children.all (validateSubWith cands.length (validateAt cands))
    | .float loN loD hiN hiD _, dna =>
      match dna with
      | .mk (.flt n d) [] => ratLe loN loD n d && ratLe n d hiN hiD
      | _ => false
    | .custom _, dna =>
      match dna.value with
      | .str _ => true
      | _ => false
  /-- Element-wise validation (`elem.validate(dna[i])`), lists of equal length. -/
  def validateElems : List Point → List DNA → Bool
    | [], [] => true
    | p :: ps, d :: ds => validateP p d && validateElems ps ds
    | _, _ => false
  /-- `candidates[i].validate(d)`. -/
  def validateAt : List (List Point) → Nat → DNA → Bool
    | [], _, _ => false
    | c :: _, 0, d => validateSpaceWith (validateElems c) c.length d
    | _ :: cs, i + 1, d => validateAt cs i d
end

def validateS (s : Space) (d : DNA) : Bool := validateSpaceWith (validateElems s) s.length d

def Spec.validate : Spec → DNA → Bool
  | .space s, d => validateS s d
  | .point p, d => validateP p d

/-! ### binding: `DNA.use_spec` (base.py:768-896) as a verdict -/

/-- Float / custom leaf binding (base.py:877-894); children are not looked at. -/
def bindLeaf : Point → DNA → Bool
  | .float loN loD hiN hiD _, .mk (.flt n d) _ => ratLe loN loD n d && ratLe n d hiN hiD
  | .custom _, .mk (.str _) _ => true
  | _, _ => false

/-- A node bound as a single choice over `n` candidates; `bat v cs` binds the children `cs`
against candidate `v` (base.py:826-869). -/
def bindSingleWith (n : Nat) (bat : Nat → List DNA → Bool) : DNA → Bool
  | .mk (.int v) cs => inRange n v && bat v.toNat cs
  | _ => false

/-- `_use_spec_for_child_choices` (base.py:788-807). -/
def bindChildChoicesWith (n k : Nat) (distinct sorted : Bool) (bat : Nat → List DNA → Bool)
    (cs : List DNA) : Bool :=
  cs.length == k && cs.all (bindSingleWith n bat) &&
  (match intValues cs with
   | some vs => choiceValuesOk distinct sorted vs
   | none => false)

mutual
  def bindP : Point → DNA → Bool
    | .choices k cands distinct sorted _, d =>
      if k == 1 then bindSingleWith cands.length (bindAt cands) d
      else d.value == .none &&
        bindChildChoicesWith cands.length k distinct sorted (bindAt cands) d.children
    | p, d => bindLeaf p d
  def bindElems : List Point → List DNA → Bool
    | [], [] => true
    | p :: ps, d :: ds => bindP p d && bindElems ps ds
    | _, _ => false
  /-- The children `cs` of a single-choice node against the chosen candidate space
  (base.py:835-869). -/
  def bindKids : List Point → List DNA → Bool
    | [], cs => cs.isEmpty
    | [.choices k cands distinct sorted _], cs =>
      bindChildChoicesWith cands.length k distinct sorted (bindAt cands) cs
    | [p], cs => (match cs with
                  | [x] => bindLeaf p x
                  | _ => false)
    | p :: q :: rest, c1 :: c2 :: cs => bindP p c1 && (bindP q c2 && bindElems rest cs)
    | _ :: _ :: _, _ => false
  def bindAt : List (List Point) → Nat → List DNA → Bool
    | [], _, _ => false
    | c :: _, 0, cs => bindKids c cs
    | _ :: cs', i + 1, cs => bindAt cs' i cs
end

/-- `dna.use_spec(space)` for a root space (base.py:809-824). -/
def bindS : Space → DNA → Bool
  | [p], d => bindP p d
  | s, d => d.value == .none && bindElems s d.children

def Spec.bind : Spec → DNA → Bool
  | .space s, d => bindS s d
  | .point p, d => bindP p d

/-! ### space_size (categorical.py:365-404, space.py:164-174) -/

def sumNat : List Nat → Nat
  | [] => 0
  | a :: as => a + sumNat as

/-- `_space_size(s, k)` of `Choices.space_size`, case by case. -/
def sizeK (distinct sorted : Bool) : List Nat → Nat → Nat
  | _, 0 => 1
  | s, 1 => sumNat s
  | [], _ + 2 => 0
  | [s0], k + 2 => if distinct then 0 else s0 ^ (k + 2)
  | s0 :: s1 :: rest, k + 2 =>
    if distinct && decide (k + 2 > rest.length + 2) then 0
    else if distinct && sorted then
      s0 * sizeK distinct sorted (s1 :: rest) (k + 1) + sizeK distinct sorted (s1 :: rest) (k + 2)
    else if distinct then
      s0 * (k + 2) * sizeK distinct sorted (s1 :: rest) (k + 1) + sizeK distinct sorted (s1 :: rest) (k + 2)
    else if sorted then
      sumNat ((List.range (k + 3)).map fun i => s0 ^ i * sizeK distinct sorted (s1 :: rest) (k + 2 - i))
    else (sumNat (s0 :: s1 :: rest)) ^ (k + 2)

mutual
  def sizeP : Point → Option Nat
    | .choices k cands distinct sorted _ => (sizesC cands).map fun s => sizeK distinct sorted s k
    | .float .. => none
    | .custom _ => none
  /-- Product over the elements, `-1` as soon as one element is infinite. -/
  def sizeElems : List Point → Option Nat
    | [] => some 1
    | p :: ps =>
      match sizeP p, sizeElems ps with
      | some a, some b => some (a * b)
      | _, _ => none
  def sizesC : List (List Point) → Option (List Nat)
    | [] => some []
    | c :: cs =>
      match sizeElems c, sizesC cs with
      | some a, some b => some (a :: b)
      | _, _ => none
end

def Spec.size : Spec → Option Nat
  | .space s => sizeElems s
  | .point p => sizeP p

/-! ### first_dna / next_dna (categorical.py:406-511, space.py:176-205) -/

/-- `next_value_for_choice(prior, current)` (categorical.py:432-441). -/
def nextValueForChoice (n : Nat) (distinct : Bool) (prior : List Nat) (cur : Nat) : Option Nat :=
  ((List.range n).filter fun x => decide (cur < x) && (!distinct || !prior.contains x)).head?

/-- The loop of `min_remaining_choices` over the ascending list of possible values. -/
def minRemLoop (distinct : Bool) : Nat → List Nat → Option (List Nat)
  | 0, _ => some []
  | _ + 1, [] => none
  | m + 1, p :: ps => (minRemLoop distinct m (if distinct then ps else p :: ps)).map (p :: ·)

/-- `min_remaining_choices(prior)` (categorical.py:443-460). -/
def minRemainingChoices (n k : Nat) (distinct sorted : Bool) (prior : List Nat) : Option (List Nat) :=
  let lo := if sorted then prior.getLast?.getD 0 else 0
  let possible := (List.range n).filter fun x => decide (lo ≤ x) && (!distinct || !prior.contains x)
  minRemLoop distinct (k - prior.length) possible

def natValues : List DNA → Option (List Nat)
  | [] => some []
  | .mk (.int v) _ :: ds => if 0 ≤ v then (natValues ds).map (v.toNat :: ·) else none
  | _ :: _ => none

/-- The right-to-left loop of `Choices._next_dna` (categorical.py:467-511). `revPre` is
`choice_dna_list[:choice_id + 1]` reversed, so its head is the current `choice_dna`. -/
def odoLoop (n k : Nat) (distinct sorted : Bool) (first : Nat → DNA)
    (next : Nat → DNA → Option (Option DNA)) (pv : Val) : List DNA → Option (Option DNA)
  | [] => some none
  | cd :: revPrior =>
    match cd with
    | .mk (.int v) cs =>
      if !inRange n v then none else
      match next v.toNat (mk' .none cs), natValues revPrior.reverse with
      | some sub, some prior =>
        let newCd : Option (Nat × DNA) :=
          match sub with
          | some d' => some (v.toNat, mk' (.int v) [d'])
          | none => (nextValueForChoice n distinct prior v.toNat).map fun v' =>
              (v', mk' (.int (v' : Nat)) [first v'])
        match newCd with
        | some (nv, nd) =>
          match minRemainingChoices n k distinct sorted (prior ++ [nv]) with
          | some rem =>
            some (some (mk' pv (revPrior.reverse ++ [nd] ++
              rem.map fun c => mk' (.int (c : Nat)) [first c])))
          | none => odoLoop n k distinct sorted first next pv revPrior
        | none => odoLoop n k distinct sorted first next pv revPrior
      | _, _ => none
    | _ => none

/-- `Choices._next_dna(dna)` for `dna is not None` (categorical.py:416-511). -/
def nextChoicesWith (n k : Nat) (distinct sorted : Bool) (first : Nat → DNA)
    (next : Nat → DNA → Option (Option DNA)) (d : DNA) : Option (Option DNA) :=
  if k == 1 then odoLoop n k distinct sorted first next .none [d]
  else if d.children.length != k then none
  else odoLoop n k distinct sorted first next d.value d.children.reverse

/-- `Space._next_dna(dna)` for `dna is not None` given the element-wise step, which returns
`(increment_next_element, new_children)`. -/
def nextSpaceWith (ne : List DNA → Option (Bool × List DNA)) (n : Nat) (d : DNA) :
    Option (Option DNA) :=
  match ne (if n == 1 then [d] else d.children) with
  | none => none
  | some (true, _) => some none
  | some (false, cs) => some (some (mk' .none cs))

mutual
  /-- `first_dna(attach_spec=False)`. (A custom decision point has no first DNA of its own —
  user callback; the placeholder below is never compared.) -/
  def firstP : Point → DNA
    | .choices k cands distinct _ _ =>
      mk' .none ((List.range k).map fun i =>
        let c := if distinct then i else 0
        mk' (.int (c : Nat)) [firstAt cands c])
    | .float loN loD _ _ _ => .mk (.flt loN loD) []
    | .custom _ => .mk (.str "") []
  def firstElems : List Point → List DNA
    | [] => []
    | p :: ps => firstP p :: firstElems ps
  def firstAt : List (List Point) → Nat → DNA
    | [], _ => DNA.empty
    | c :: _, 0 => mk' .none (firstElems c)
    | _ :: cs, i + 1 => firstAt cs i
end

def firstS (s : Space) : DNA := mk' .none (firstElems s)

mutual
  def nextP : Point → DNA → Option (Option DNA)
    | .choices k cands distinct sorted _, d =>
      nextChoicesWith cands.length k distinct sorted (firstAt cands) (nextAt cands) d
    | .float .., _ => none       -- NotImplementedError
    | .custom _, _ => none       -- user callback / NotImplementedError
  /-- The loop of `Space._next_dna` (space.py:189-200), right to left. -/
  def nextElems : List Point → List DNA → Option (Bool × List DNA)
    | [], _ => some (true, [])
    | _ :: _, [] => none
    | p :: ps, d :: ds =>
      match nextElems ps ds with
      | none => none
      | some (false, rest) => some (false, d :: rest)
      | some (true, rest) =>
        match nextP p d with
        | none => none
        | some none => some (true, firstP p :: rest)
        | some (some d') => some (false, d' :: rest)
  def nextAt : List (List Point) → Nat → DNA → Option (Option DNA)
    | [], _, _ => none
    | c :: _, 0, d => nextSpaceWith (nextElems c) c.length d
    | _ :: cs, i + 1, d => nextAt cs i d
end

def nextS (s : Space) (d : DNA) : Option (Option DNA) := nextSpaceWith (nextElems s) s.length d

def Spec.first : Spec → DNA
  | .space s => firstS s
  | .point p => firstP p

def Spec.next : Spec → DNA → Option (Option DNA)
  | .space s, d => nextS s d
  | .point p, d => nextP p d

/-- `list(spec.iter_dna())` with fuel: `none` if an exception escapes, the list otherwise. The
second component tells whether the iteration ended by itself (`next_dna` returned `None`). -/
def iterFrom (g : Spec) : Nat → DNA → Option (List DNA × Bool)
  | 0, _ => some ([], false)
  | fuel + 1, d =>
    match g.next d with
    | none => none
    | some none => some ([], true)
    | some (some d') => (iterFrom g fuel d').map fun (l, e) => (d' :: l, e)

def Spec.iter (g : Spec) (fuel : Nat) : Option (List DNA × Bool) :=
  match fuel with
  | 0 => some ([], false)
  | fuel + 1 => (iterFrom g fuel g.first).map fun (l, e) => (g.first :: l, e)

/-! ### pg.geno.Sweeping (sweeping.py): propose = `next_dna(last proposed)`, StopIteration at the end -/

/-- `Sweeping._propose` on the state `last` (`_last_proposed_dna`): `none` = an exception other
than StopIteration; otherwise the proposal (`none` = StopIteration) and the new state. The cursor
is only moved when there is a next DNA. -/
def sweepStep (g : Spec) (last : Option DNA) : Option (Option DNA × Option DNA) :=
  match (match last with
         | none => some (some g.first)
         | some d => g.next d) with
  | none => none
  | some none => some (none, last)
  | some (some d) => some (some d, some d)

def sweepPropose (g : Spec) (last : Option DNA) : Option (Option DNA) := (sweepStep g last).map (·.1)

/-- Up to `fuel` proposals of a fresh Sweeping generator, starting from state `last`. -/
def sweepRun (g : Spec) : Nat → Option DNA → Option (List DNA × Bool)
  | 0, _ => some ([], false)
  | fuel + 1, last =>
    match sweepPropose g last with
    | none => none
    | some none => some ([], true)
    | some (some d) => (sweepRun g fuel (some d)).map fun (l, e) => (d :: l, e)

/-- The state after up to `fuel` proposals, and `n` further proposals from there
(`none` = StopIteration). -/
def sweepStateAfter (g : Spec) : Nat → Option DNA → Option (Option DNA)
  | 0, last => some last
  | fuel + 1, last =>
    match sweepStep g last with
    | none => none
    | some (none, st) => some st
    | some (some _, st) => sweepStateAfter g fuel st

def sweepMore (g : Spec) : Nat → Option DNA → Option (List (Option DNA))
  | 0, _ => some []
  | n + 1, last =>
    match sweepStep g last with
    | none => none
    | some (p, st) => (sweepMore g n st).map (p :: ·)

/-- What the harness observes of a Sweeping generator: the proposals until StopIteration (at most
`fuel` calls), whether it ended, and — if it ended — four further calls. -/
def Spec.sweepInfo (g : Spec) (fuel : Nat) : Option (List DNA × Bool × List (Option DNA)) :=
  match sweepRun g fuel none, sweepStateAfter g fuel none with
  | some (l, true), some st => (sweepMore g 4 st).map fun after => (l, true, after)
  | some (l, false), _ => some (l, false, [])
  | _, _ => none

/-! ### random_dna over a recorded oracle (categorical.py:513-552, space.py:207-226,
numerical.py:125-131) -/

/-- One recorded call of the random generator with its result. -/
inductive Draw where
  | sample (xs : List Nat)        -- `sample(list(range(n)), k)`
  | randint (v : Int)             -- `randint(0, n - 1)`
  | uniform (n : Int) (d : Nat)   -- `uniform(lo, hi)` as an exact ratio
  deriving Repr, Inhabited

def nodupNat : List Nat → Bool
  | [] => true
  | a :: rest => !rest.contains a && nodupNat rest

/-- `[randint(0, n-1) for _ in range(k)]`; `none` if the oracle is exhausted or a draw is not a
`randint` result within range (outside the contract of `random.Random`). -/
def takeRandints (n : Nat) : Nat → List Draw → Option (List Nat × List Draw)
  | 0, o => some ([], o)
  | k + 1, .randint v :: o =>
    if inRange n v then (takeRandints n k o).map fun (vs, o') => (v.toNat :: vs, o') else none
  | _ + 1, _ => none

/-- The choices drawn by `Choices._random_dna` (categorical.py:518-525). -/
def drawChoices (n k : Nat) (distinct sorted : Bool) (o : List Draw) : Option (List Nat × List Draw) :=
  let r :=
    if distinct then
      match o with
      | .sample xs :: o' =>
        if xs.length == k && xs.all (· < n) && nodupNat xs then some (xs, o') else none
      | _ => none
    else takeRandints n k o
  r.map fun (vs, o') => (if sorted then sortNat vs else vs, o')

/-- `[DNA(c, [candidates[c].random_dna(...)]) for c in choices]`, left to right. -/
def randomSeqWith (rat : Nat → List Draw → Option (DNA × List Draw)) :
    List Nat → List Draw → Option (List DNA × List Draw)
  | [], o => some ([], o)
  | c :: cs, o =>
    match rat c o with
    | none => none
    | some (d, o') =>
      (randomSeqWith rat cs o').map fun (ds, o'') => (mk' (.int (c : Nat)) [d] :: ds, o'')

mutual
  def randomP : Point → List Draw → Option (DNA × List Draw)
    | .choices k cands distinct sorted _, o =>
      match drawChoices cands.length k distinct sorted o with
      | none => none
      | some (vs, o') =>
        (randomSeqWith (randomAt cands) vs o').map fun (ds, o'') => (mk' .none ds, o'')
    | .float loN loD hiN hiD _, o =>
      match o with
      | .uniform n d :: o' =>
        if decide (0 < d) && ratLe loN loD n d && ratLe n d hiN hiD then some (.mk (.flt n d) [], o')
        else none
      | _ => none
    | .custom _, _ => none
  def randomElems : List Point → List Draw → Option (List DNA × List Draw)
    | [], o => some ([], o)
    | p :: ps, o =>
      match randomP p o with
      | none => none
      | some (d, o') => (randomElems ps o').map fun (ds, o'') => (d :: ds, o'')
  def randomAt : List (List Point) → Nat → List Draw → Option (DNA × List Draw)
    | [], _, _ => none
    | c :: _, 0, o => (randomElems c o).map fun (ds, o') => (mk' .none ds, o')
    | _ :: cs, i + 1, o => randomAt cs i o
end

/-! ### random_dna with `previous_dna` (categorical.py:527-551, space.py:212-226) -/

/-- Python `value == c` for a node value and a candidate index: `2.0 == 2` holds. -/
def valEqIdx (v : Val) (c : Nat) : Bool :=
  match v with
  | .int i => i == (c : Int)
  | .flt n d => n == (c : Int) * (d : Int)
  | _ => false

/-- The previous DNAs handed to the chosen candidates: `None` where the previous choice differs,
else `DNA(None, children=choice_dna.children, spec=candidates[choice])` (which binds, hence may
raise). `none` = an assertion / binding error. -/
def childPrevs (cands : List (List Point)) (k : Nat) (prev : Option DNA) (vs : List Nat) :
    Option (List (Option DNA)) :=
  match prev with
  | none => some (vs.map fun _ => none)
  | some pd =>
    let cds := if k == 1 then [pd] else pd.children
    if cds.length != k || vs.length != k then none
    else
      (cds.zip vs).mapM fun (cd, c) =>
        if !valEqIdx cd.value c then some none
        else
          let sub := mk' .none cd.children
          match cands[c]? with
          | some sp => if bindS sp sub then some (some sub) else none
          | none => none

def randomSeqPrevWith (rat : Nat → Option DNA → List Draw → Option (DNA × List Draw)) :
    List Nat → List (Option DNA) → List Draw → Option (List DNA × List Draw)
  | [], _, o => some ([], o)
  | c :: cs, pvs, o =>
    match rat c (pvs.head?.getD none) o with
    | none => none
    | some (d, o') =>
      (randomSeqPrevWith rat cs pvs.tail o').map fun (ds, o'') => (mk' (.int (c : Nat)) [d] :: ds, o'')

/-- The previous DNAs of the elements of a space. -/
def elemPrevs (n : Nat) (prev : Option DNA) : Option (List (Option DNA)) :=
  match prev with
  | none => some (List.replicate n none)
  | some pd =>
    if n == 1 then some [some pd]
    else if pd.value != .none || pd.children.length != n then none
    else some (pd.children.map some)

mutual
  def randomPrevP : Point → Option DNA → List Draw → Option (DNA × List Draw)
    | .choices k cands distinct sorted _, prev, o =>
      match drawChoices cands.length k distinct sorted o with
      | none => none
      | some (vs, o') =>
        match childPrevs cands k prev vs with
        | none => none
        | some pvs =>
          (randomSeqPrevWith (randomPrevAt cands) vs pvs o').map fun (ds, o'') => (mk' .none ds, o'')
    | p, _, o => randomP p o
  def randomPrevElems : List Point → List (Option DNA) → List Draw → Option (List DNA × List Draw)
    | [], _, o => some ([], o)
    | p :: ps, pvs, o =>
      match randomPrevP p (pvs.head?.getD none) o with
      | none => none
      | some (d, o') => (randomPrevElems ps pvs.tail o').map fun (ds, o'') => (d :: ds, o'')
  def randomPrevAt : List (List Point) → Nat → Option DNA → List Draw → Option (DNA × List Draw)
    | [], _, _, _ => none
    | c :: _, 0, prev, o =>
      match elemPrevs c.length prev with
      | none => none
      | some pvs => (randomPrevElems c pvs o).map fun (ds, o') => (mk' .none ds, o')
    | _ :: cs, i + 1, prev, o => randomPrevAt cs i prev o
end

def Spec.randomPrev : Spec → Option DNA → List Draw → Option (DNA × List Draw)
  | .space s, prev, o =>
    match elemPrevs s.length prev with
    | none => none
    | some pvs => (randomPrevElems s pvs o).map fun (ds, o') => (mk' .none ds, o')
  | .point p, prev, o => randomPrevP p prev o

def randomS (s : Space) (o : List Draw) : Option (DNA × List Draw) :=
  (randomElems s o).map fun (ds, o') => (mk' .none ds, o')

def Spec.random : Spec → List Draw → Option (DNA × List Draw)
  | .space s, o => randomS s o
  | .point p, o => randomP p o

end Pg.Geno
