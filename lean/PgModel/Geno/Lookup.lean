/-
  Geno layer, part 6 (C12): the look-up structures of a bound DNA and their caches.

  * `Spec.dps`          — `DNASpec.decision_points` (declaration order; categorical.py:134-158)
  * `decisionById`      — `DNA._decision_by_id` = `to_dict('id', 'dna', include_inactive=True, 'both')`
  * `namedDecisions`    — `DNA.named_decisions` (base.py:745-766)
  * `decisionIds`       — `DNA.decision_ids` = keys of `DNASpec._decision_point_by_id` (base.py:117-133)
  * `getItem`           — `dna[name or id]` / `dna[decision point]` (base.py:1512-1523)
  * `Obj`               — a DNA object with its two lazily filled caches, and the events that
                          touch them: `__init__`, `_on_bound` (every rebind), `_sym_clone`.

  Values are the sub-trees the look-up hands out (node identity is compared on the code only).
  `namedDecisions` keys the intermediate dictionary by id where the code keys it by the spec
  object: the two agree when no two decision points render to the same id.
-/
import PgModel.Geno.DictCond
namespace Pg.Geno
open DNA

mutual
  def dpsP (pre : List Tok) : Point → List Dp
    | .choices k cands _ _ info =>
      let id := pre ++ locToks info.loc
      if k == 1 then choiceDp id none none info cands.length :: dpsCands cands cands.length id 0
      else (List.range k).flatMap fun i =>
        choiceDp (id ++ [.i (i : Nat)]) (some id) (some i) info cands.length k ::
          dpsCands cands cands.length (id ++ [.i (i : Nat)]) 0
    | .float _ _ _ _ info => [{ id := pre ++ locToks info.loc, name := info.name, kind := .float }]
    | .custom info => [{ id := pre ++ locToks info.loc, name := info.name, kind := .custom }]
  def dpsElems (pre : List Tok) : List Point → List Dp
    | [] => []
    | p :: ps => dpsP pre p ++ dpsElems pre ps
  def dpsCands : List (List Point) → Nat → List Tok → Nat → List Dp
    | [], _, _, _ => []
    | c :: cs, n, id, off => dpsElems (id ++ [.cond off n]) c ++ dpsCands cs n id (off + 1)
end

/-- `spec.decision_points`. -/
def Spec.dps : Spec → List Dp
  | .point p => dpsP [] p
  | .space s => dpsElems [] s

/-- What a look-up hands out: nothing (`None`, an inactive decision), one sub-tree, or a list. -/
inductive LV where
  | none
  | one (d : DNA)
  | many (ds : List (Option DNA))
  deriving DecidableEq, Repr, Inhabited

def dvDna : DV → Option DNA
  | .dna d => some d
  | _ => Option.none

def lvOfDE : Option DE → LV
  | Option.none => .none
  | some (.one x) => match dvDna x with
    | some d => .one d
    | Option.none => .none
  | some (.many xs) => .many (xs.map dvDna)

/-- `d[k] = v` on an insertion-ordered dictionary. -/
def assocSet {α : Type} (d : List (String × α)) (k : String) (v : α) : List (String × α) :=
  if d.any (·.1 == k) then d.map fun (k', e) => if k' == k then (k', v) else (k', e)
  else d ++ [(k, v)]

def assocGet {α : Type} (d : List (String × α)) (k : String) : Option α := (d.find? (·.1 == k)).map (·.2)

/-- The tail of `to_dict(include_inactive_decisions=True)` (base.py:1192-1212). -/
def withInactive (o : Opts) (dps : List Dp) (dict : List (String × DE)) : List (String × LV) :=
  dps.foldl (fun res dp =>
    if dp.kind == .choice && dp.sub.isSome then
      let res :=
        if o.multi != 0 && dp.sub == some 0 then
          assocSet res (keyOf o dp.name (dp.parentId.getD [])) (lvOfDE (dictGet dict (keyOf o dp.name (dp.parentId.getD []))))
        else res
      if needsSubchoiceKey o dp then assocSet res (keyOf o dp.name dp.id) (lvOfDE (dictGet dict (keyOf o dp.name dp.id)))
      else res
    else assocSet res (keyOf o dp.name dp.id) (lvOfDE (dictGet dict (keyOf o dp.name dp.id)))) []

/-- `dna._decision_by_id`. -/
def decisionById (g : Spec) (b : BDNA) : List (String × LV) :=
  withInactive { keyType := 0, valueType := 1, multi := 2 } g.dps
    (toDict { keyType := 0, valueType := 1, multi := 2 } b)

def lvList : LV → List (Option DNA)
  | .none => [Option.none]
  | .one d => [some d]
  | .many ds => ds

/-- One step of the accumulation loop of `named_decisions`. -/
def namedStep (acc : List (String × LV)) (nm : String) (x : LV) : List (String × LV) :=
  let nv := match (assocGet acc nm).getD .none with
    | .none => x
    | .one d => .many (some d :: lvList x)
    | .many ds => .many (ds ++ lvList x)
  assocSet acc nm nv

/-- `dna.named_decisions`. -/
def namedDecisions (g : Spec) (b : BDNA) : List (String × LV) :=
  let dict := toDict { keyType := 0, valueType := 1, multi := 1 } b
  g.dps.foldl (fun acc dp =>
    match dp.name with
    | Option.none => acc
    | some nm =>
      if dp.kind == .choice && dp.sub.isSome then
        if dp.sub == some 0 then namedStep acc nm (lvOfDE (dictGet dict (renderId (dp.parentId.getD []))))
        else acc
      else namedStep acc nm (lvOfDE (dictGet dict (renderId dp.id)))) []

/-- `dna.decision_ids`: multi-choices under the id of the multi-choice. -/
def decisionIds (g : Spec) : List String :=
  g.dps.foldl (fun acc dp =>
    let k := if dp.kind == .choice && dp.sub.isSome then renderId (dp.parentId.getD []) else renderId dp.id
    if acc.contains k then acc else acc ++ [k]) []

/-- `dna[key]` for a string key; `none` = KeyError. -/
def getItem (byId named : List (String × LV)) (key : String) : Option LV :=
  match assocGet named key with
  | some (.one d) => some (.one d)
  | some (.many ds) => some (.many ds)
  | _ => assocGet byId key

/-- `dna[key]` with fix C12-F400: a name that is known answers its decision, `None` when inactive. -/
def getItemFixed (byId named : List (String × LV)) (key : String) : Option LV :=
  match assocGet named key with
  | some v => some v
  | none => assocGet byId key

/-- `dna[dp]` for a decision point; `none` = KeyError. -/
def getItemDp (byId : List (String × LV)) (dp : Dp) : Option LV := assocGet byId (renderId dp.id)

/-! ### the object and its caches -/

/-- The look-up tables of the tree `d` under the spec `g` (`none`: the tree does not bind). -/
structure Tables where
  byId : List (String × LV)
  named : List (String × LV)
  deriving DecidableEq, Repr

def tablesOf (g : Spec) (d : DNA) : Option Tables :=
  (g.annot d).map fun b => { byId := decisionById g b, named := namedDecisions g b }

/-- A DNA object: its spec, its tree, and the lazily filled `_decision_by_id_cache` /
`_named_decisions` (`none` = `None`, to be computed at the next look-up). -/
structure Obj where
  spec : Spec
  tree : DNA
  byIdCache : Option (Option (List (String × LV))) := none
  namedCache : Option (Option (List (String × LV))) := none

/-- `DNA.__init__` (+ `use_spec`): both caches `None` (base.py:518-519). -/
def Obj.init (g : Spec) (d : DNA) : Obj := { spec := g, tree := d }

/-- `_on_bound` after ANY rebind of value / children / metadata: both caches reset (base.py:527-531). -/
def Obj.onBound (o : Obj) (d : DNA) : Obj := { spec := o.spec, tree := d }

/-- `_sym_clone`: a new object is built through `__init__` (caches `None`), the spec is copied,
`other.rebind(metadata=…)` fires `_on_bound`; NO cache is copied (base.py:1678-1694). -/
def Obj.clone (o : Obj) : Obj := (Obj.init o.spec o.tree).onBound o.tree

/-- The property `_decision_by_id`: compute on first use, keep. -/
def Obj.readById (o : Obj) : Option (List (String × LV)) × Obj :=
  match o.byIdCache with
  | some c => (c, o)
  | none =>
    let c := (tablesOf o.spec o.tree).map (·.byId)
    (c, { o with byIdCache := some c })

/-- The property `named_decisions`. -/
def Obj.readNamed (o : Obj) : Option (List (String × LV)) × Obj :=
  match o.namedCache with
  | some c => (c, o)
  | none =>
    let c := (tablesOf o.spec o.tree).map (·.named)
    (c, { o with namedCache := some c })

/-- A (wrong) clone that hands its caches on to a copy whose tree is then changed — what
`_sym_clone` must NOT do. -/
def Obj.cloneKeepingCaches (o : Obj) (d : DNA) : Obj := { o with tree := d }

/-- The cache discipline: a filled cache holds the tables of the CURRENT tree. -/
def Obj.Coherent (o : Obj) : Prop :=
  (∀ c, o.byIdCache = some c → c = (tablesOf o.spec o.tree).map (·.byId)) ∧
  (∀ c, o.namedCache = some c → c = (tablesOf o.spec o.tree).map (·.named))

end Pg.Geno
