/-
  Geno layer, part 1: DNA values, DNA trees, the constructor normalisation, DNA specs.

  Mirrors pyglove/core/geno/base.py (class DNA: `_parse_value_and_children` 533-595, `__cmp__`
  1554-1598), space.py (Space), categorical.py (Choices), numerical.py (Float), custom.py.

  Shape of the specification types.  In pyglove `Space.elements` are decision points and
  `Choices.candidates` are spaces; the model keeps that two-sortedness in the types:
  a `Space` is a `List Point`, the candidates of a choice are a `List Space`.  A root spec is a
  space or a single decision point (`Spec`).

  Floats are exact rationals `n / d` (`float.as_integer_ratio()`, `d > 0`, lowest terms), so no
  Lean `Float` appears; NaN / inf are outside the model.
-/
namespace Pg.Geno

/-- The value of one DNA node: `None`, an `int`, a `float` (exact ratio), a `str`. -/
inductive Val where
  | none
  | int (i : Int)
  | flt (n : Int) (d : Nat)
  | str (s : String)
  deriving DecidableEq, Repr, Inhabited

/-- A DNA tree as the constructor leaves it (value, children). -/
inductive DNA where
  | mk (value : Val) (children : List DNA)
  deriving Repr, Inhabited

namespace DNA

def value : DNA → Val | .mk v _ => v
def children : DNA → List DNA | .mk _ cs => cs

mutual
  def beq : DNA → DNA → Bool
    | .mk v cs, .mk w ds => v == w && beqList cs ds
  def beqList : List DNA → List DNA → Bool
    | [], [] => true
    | c :: cs, d :: ds => beq c d && beqList cs ds
    | _, _ => false
end

instance : BEq DNA := ⟨beq⟩

mutual
  def decEq : (a b : DNA) → Decidable (a = b)
    | .mk v cs, .mk w ds =>
      if h : v = w then
        match decEqList cs ds with
        | isTrue h2 => isTrue (by rw [h, h2])
        | isFalse h2 => isFalse (by intro e; cases e; exact h2 rfl)
      else isFalse (by intro e; cases e; exact h rfl)
  def decEqList : (a b : List DNA) → Decidable (a = b)
    | [], [] => isTrue rfl
    | [], _ :: _ => isFalse (by intro e; cases e)
    | _ :: _, [] => isFalse (by intro e; cases e)
    | a :: as, b :: bs =>
      match decEq a b, decEqList as bs with
      | isTrue h1, isTrue h2 => isTrue (by rw [h1, h2])
      | isFalse h1, _ => isFalse (by intro e; cases e; exact h1 rfl)
      | _, isFalse h2 => isFalse (by intro e; cases e; exact h2 rfl)
end

instance : DecidableEq DNA := decEq

/-- The empty DNA `DNA(None)`. -/
def empty : DNA := .mk .none []

/-- `DNA(value, children)` for a non-compositional `value` (base.py:580-595): a single
`None`-valued child is replaced by its children; a `None`-valued node with exactly one child
collapses into that child. -/
def mk' (v : Val) (cs : List DNA) : DNA :=
  let cs := match cs with
    | [.mk .none gs] => gs
    | _ => cs
  match v, cs with
  | .none, [c] => c
  | _, _ => .mk v cs

/-- What `DNA(v, [d])` keeps of `d` below an integer-valued node. -/
def kids : DNA → List DNA
  | .mk .none cs => cs
  | d => [d]

end DNA

/-! ### Number comparison (Python `int`/`float` mixed comparison is exact) -/

/-- `a/b < c/d` for positive denominators. -/
def ratLt (a : Int) (b : Nat) (c : Int) (d : Nat) : Bool := a * d < c * b
def ratLe (a : Int) (b : Nat) (c : Int) (d : Nat) : Bool := a * d ≤ c * b

/-- `compare_dna_value` of `DNA.__cmp__` (base.py:1559-1570): `None` first, numbers before
strings, numbers by value, strings by code points. -/
def Val.cmp : Val → Val → Ordering
  | .none, .none => .eq
  | .none, _ => .lt
  | _, .none => .gt
  | .int a, .int b => compare a b
  | .int a, .flt n d => if ratLt a 1 n d then .lt else if ratLt n d a 1 then .gt else .eq
  | .flt n d, .int b => if ratLt n d b 1 then .lt else if ratLt b 1 n d then .gt else .eq
  | .flt n d, .flt m e => if ratLt n d m e then .lt else if ratLt m e n d then .gt else .eq
  | .str a, .str b => compare a b
  | .str _, _ => .gt
  | _, .str _ => .lt

namespace DNA
mutual
  /-- `DNA.__cmp__`; `none` = the `ValueError` for different numbers of children. -/
  def cmp : DNA → DNA → Option Ordering
    | .mk v cs, .mk w ds =>
      match Val.cmp v w with
      | .eq => if cs.length != ds.length then none else cmpList cs ds
      | o => some o
  def cmpList : List DNA → List DNA → Option Ordering
    | c :: cs, d :: ds =>
      match cmp c d with
      | some .eq => cmpList cs ds
      | r => r
    | _, _ => some .eq
end

/-- `a < b` of Python (`__lt__`: `__cmp__ == -1`). -/
def lt (a b : DNA) : Bool := cmp a b == some .lt
end DNA

/-! ### Specifications -/

/-- One key of a `KeyPath` (decision-point locations). -/
inductive Key where
  | s (name : String)
  | i (idx : Int)
  deriving DecidableEq, Repr, Inhabited

/-- A literal value of a candidate (`str`, `int`, `float`). -/
inductive Lit where
  | s (v : String)
  | i (v : Int)
  | f (n : Int) (d : Nat)
  deriving DecidableEq, Repr, Inhabited

/-- The part of a decision point the enumeration does not look at (used by the views, C12). -/
structure Info where
  name : Option String := none
  loc : List Key := []
  lits : Option (List Lit) := none
  deriving Repr, Inhabited

/-- A decision point. `choices k cands distinct sorted`: `k` choices out of the candidate
sub-spaces; `float lo hi` with exact bounds `(n, d)`; a custom decision point. -/
inductive Point where
  | choices (k : Nat) (cands : List (List Point)) (distinct sorted : Bool) (info : Info)
  | float (loN : Int) (loD : Nat) (hiN : Int) (hiD : Nat) (info : Info)
  | custom (info : Info)
  deriving Repr, Inhabited

abbrev Space := List Point

/-- A root specification: `pg.geno.Space` or a bare decision point. -/
inductive Spec where
  | space (s : Space)
  | point (p : Point)
  deriving Repr, Inhabited

mutual
  /-- No float / custom decision point anywhere (the spec has finitely many DNAs). -/
  def Point.finite : Point → Bool
    | .choices _ cands _ _ _ => finiteCands cands
    | .float .. => false
    | .custom _ => false
  def finiteSpace : List Point → Bool
    | [] => true
    | p :: ps => p.finite && finiteSpace ps
  def finiteCands : List (List Point) → Bool
    | [] => true
    | c :: cs => finiteSpace c && finiteCands cs
end

mutual
  /-- What the constructors of `Choices` enforce (categorical.py:36-38, 87-92): at least one
  choice, at least one candidate, enough candidates for distinct choices; bounds of a float in
  order, denominators positive. -/
  def Point.wf : Point → Bool
    | .choices k cands distinct _ _ =>
      decide (1 ≤ k) && !cands.isEmpty && (!distinct || decide (k ≤ cands.length)) && wfCands cands
    | .float loN loD hiN hiD _ => decide (0 < loD) && decide (0 < hiD) && ratLe loN loD hiN hiD
    | .custom _ => true
  def wfSpace : List Point → Bool
    | [] => true
    | p :: ps => p.wf && wfSpace ps
  def wfCands : List (List Point) → Bool
    | [] => true
    | c :: cs => wfSpace c && wfCands cs
end

mutual
  /-- No multi-choice (`num_choices > 1`) anywhere. -/
  def Point.noMulti : Point → Bool
    | .choices k cands _ _ _ => decide (k ≤ 1) && noMultiCands cands
    | _ => true
  def noMultiSpace : List Point → Bool
    | [] => true
    | p :: ps => p.noMulti && noMultiSpace ps
  def noMultiCands : List (List Point) → Bool
    | [] => true
    | c :: cs => noMultiSpace c && noMultiCands cs
end

mutual
  /-- No custom decision point anywhere (their DNA children are user defined). -/
  def Point.noCustom : Point → Bool
    | .choices _ cands _ _ _ => noCustomCands cands
    | .float .. => true
    | .custom _ => false
  def noCustomSpace : List Point → Bool
    | [] => true
    | p :: ps => p.noCustom && noCustomSpace ps
  def noCustomCands : List (List Point) → Bool
    | [] => true
    | c :: cs => noCustomSpace c && noCustomCands cs
end

def Spec.noCustom : Spec → Bool
  | .space s => noCustomSpace s
  | .point p => p.noCustom

def Spec.finite : Spec → Bool
  | .space s => finiteSpace s
  | .point p => p.finite

def Spec.wf : Spec → Bool
  | .space s => wfSpace s
  | .point p => p.wf

def Spec.noMulti : Spec → Bool
  | .space s => noMultiSpace s
  | .point p => p.noMulti

end Pg.Geno
