/-
  Geno layer, part 5 (C12): `to_dict` as the list of its `_put` calls, and the decidable condition
  on the keys under which `from_dict` reads every decision back (`condB`).

  `to_dict` stores the decisions in depth-first order, `from_dict` reads them in the same order:
  by id, else by name (a list found under a NAME is popped), else position `i` of the list under
  the parent multi-choice.  `condB` says, node by node, that the look-up that `from_dict` will
  do finds exactly the value that `to_dict` put:

  * a decision stored under its NAME (`key_type='name_or_id'`): its id is no key;
  * a decision stored under its id: that key holds a single value;
  * a sub-choice stored only in its parent's list (`multi_choice_key='parent'`): neither its id
    nor its name is a key, the parent's list holds exactly the `k` decisions of that multi-choice
    and is not one of the popped lists;
  * the value style can be read (`styleOkB`);
  * with `value_type='dna'` the sub-tree of a choice is not read: it puts nothing under a popped name.
-/
import PgModel.Geno.Views
namespace Pg.Geno
open DNA

deriving instance DecidableEq for DV
deriving instance DecidableEq for DE

/-- The `_put` calls of one node (`_dump_node`, base.py:1155-1187), any options. -/
def nodePuts (o : Opts) : BDNA → List (String × DV)
  | .mk v bound cs =>
    match bound, v with
    | some dp, .int i =>
      if dp.kind == .choice then
        let x := fmtChoice o dp i (BDNA.mk v bound cs).erase
        match dp.sub with
        | some _ =>
          (if o.multi != 0 then [(keyOf o dp.name (dp.parentId.getD []), x)] else []) ++
          (if needsSubchoiceKey o dp then [(keyOf o dp.name dp.id, x)] else [])
        | none => [(keyOf o dp.name dp.id, x)]
      else [(keyOf o dp.name dp.id, if o.valueType == 1 then .dna (BDNA.mk v bound cs).erase else .val v)]
    | some dp, v' =>
      if dp.kind != .choice then
        [(keyOf o dp.name dp.id, if o.valueType == 1 then .dna (BDNA.mk v bound cs).erase else .val v')]
      else []
    | none, _ => []

mutual
  def puts (o : Opts) : BDNA → List (String × DV)
    | .mk v bound cs => nodePuts o (.mk v bound cs) ++ putsList o cs
  def putsList (o : Opts) : List BDNA → List (String × DV)
    | [] => []
    | c :: cs => puts o c ++ putsList o cs
end

/-- The values put under `k`, in order. -/
def collectVals (k : String) (es : List (String × DV)) : List DV :=
  (es.filter (·.1 == k)).map (·.2)

/-- The name a decision is stored under and read by (`key_type='name_or_id'`), if any. -/
def readName (o : Opts) (dp : Dp) : Option String := if o.keyType == 1 then dp.name else none

section
variable (o : Opts) (useInts : Bool) (es : List (String × DV)) (rn : List String)

/-- The popped keys: names that are read, holding several values. -/
def isQB (K : String) : Bool := rn.contains K && decide (2 ≤ (collectVals K es).length)

def hasKey (K : String) : Bool := (es.map (·.1)).contains K

def leafCondB (dp : Dp) : Bool :=
  match readName o dp with
  | some nm => !hasKey es (renderId dp.id) && rn.contains nm
  | none => (collectVals (renderId dp.id) es).length == 1

def choiceCondB (dp : Dp) (x : DV) : Bool :=
  match readName o dp with
  | some nm => !hasKey es (renderId dp.id) && rn.contains nm
  | none =>
    match dp.sub with
    | none => (collectVals (renderId dp.id) es).length == 1
    | some idx =>
      if o.multi == 1 then
        !hasKey es (renderId dp.id) &&
        (match dp.name with
         | some nm => !hasKey es nm
         | none => true) &&
        !isQB es rn (renderId (dp.parentId.getD [])) && decide (2 ≤ dp.arity) &&
        (collectVals (renderId (dp.parentId.getD [])) es).length == dp.arity &&
        (collectVals (renderId (dp.parentId.getD [])) es)[idx]? == some x
      else (collectVals (renderId dp.id) es).length == 1 &&
        (o.multi == 0 || !isQB es rn (renderId (dp.parentId.getD [])))

def litOkB : Lit → Bool
  | .i _ => useInts
  | .s t => (parseChoice t).isNone
  | .f _ _ => true

/-- What each value style needs to be readable: candidate indices are read as indices
(`use_ints_as_literals=False`) in the value style; in the literal style the literals are pairwise
different, integer literals need `use_ints_as_literals=True`, string literals do not look like
`i/n` or `i/n (…)`. -/
def styleOkB (lits : Option (List Lit)) : Bool :=
  match o.valueType with
  | 0 => !useInts
  | 3 => match lits with
         | some ls => decide ls.Nodup && ls.all (litOkB useInts)
         | none => true
  | _ => true

mutual
  def condB : BDNA → Bool
    | .mk v bound cs =>
      match bound, v with
      | some dp, .int i =>
        if dp.kind == .choice then
          choiceCondB o es rn dp (fmtChoice o dp i (BDNA.mk v bound cs).erase) && styleOkB o useInts dp.lits &&
          (if o.valueType == 1 then (putsList o cs).all (fun e => !isQB es rn e.1) else condLB cs)
        else leafCondB o es rn dp && condLB cs
      | some dp, _ => if dp.kind == .choice then condLB cs else leafCondB o es rn dp && condLB cs
      | none, _ => condLB cs
  def condLB : List BDNA → Bool
    | [] => true
    | c :: cs => condB c && condLB cs
end
end

mutual
  /-- The names `from_dict` reads by: those of the bound nodes (`name_or_id` keys); below a choice
  stored as a whole DNA nothing is read. -/
  def readNames (o : Opts) : BDNA → List String
    | .mk v bound cs =>
      match bound, v with
      | some dp, .int _ =>
        (readName o dp).toList ++
          (if dp.kind == .choice && o.valueType == 1 then [] else readNamesL o cs)
      | some dp, _ => (readName o dp).toList ++ readNamesL o cs
      | none, _ => readNamesL o cs
  def readNamesL (o : Opts) : List BDNA → List String
    | [] => []
    | c :: cs => readNames o c ++ readNamesL o cs
end

/-- The condition of `C12_dict_roundtrip` for one option triple. -/
def dictCond (o : Opts) (useInts : Bool) (b : BDNA) : Bool :=
  condB o useInts (puts o b) (readNames o b) b

end Pg.Geno
