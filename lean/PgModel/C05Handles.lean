/-
  C05 — the in-memory file system with OPEN HANDLES as state (io/file_system.py:214-300).

  A `MemoryFile` object is a `StringIO` buffer *with its position*; `MemoryFileSystem.open`
  returns the very object stored in the directory tree, so every handle to a file — open or
  "closed" (`close()` only rewinds to 0) — shares one position with every other handle and with
  the library's own `readfile` / `writefile` / `LineSequence`. `open(…, 'w')` (and `'a'` on a
  missing file) installs a *fresh* object; handles obtained earlier keep the detached old one.
  This file mirrors exactly that (finding F130 is the consequence: an unclosed reader makes the
  next `pg.load` of the same file start at the reader's position).

  `HCfg.perHandle = true` is the behaviour of fixes/C05-F130.patch: every `open` returns a new
  handle with its own position over the shared buffer.
-/
import PgModel.C05Store
namespace Pg.C05

structure Buf where
  content : List Char
  pos : Nat                       -- the shared position (HEAD) — unused when `perHandle`
  deriving Repr, Inhabited

structure Handle where
  buf : Nat
  pos : Nat                       -- own position (only used when `perHandle`)
  append : Bool := false          -- opened with 'a' (matters when `appendAtWrite`)
  deriving Repr, Inhabited

structure HCfg where
  fs : FsCfg
  perHandle : Bool
  /-- An 'a' handle writes at the *current end* of the file (O_APPEND), not at the position it had
  when it was opened (fixes/C05-F374.patch). -/
  appendAtWrite : Bool := false
  deriving Repr

def HCfg.head : HCfg := ⟨FsCfg.patched, false, false⟩
def HCfg.fixed : HCfg := ⟨FsCfg.patched, true, false⟩
def HCfg.fixedAppend : HCfg := ⟨FsCfg.patched, true, true⟩

structure HSt where
  root : Dir                            -- directory structure (file nodes carry no content here)
  ids : List (List Name × Nat)          -- location ↦ buffer id (latest binding first)
  bufs : List Buf
  handles : List Handle
  deriving Inhabited

def HSt.empty : HSt := ⟨[], [], [], []⟩

inductive HMode where
  | r | w | a
  deriving DecidableEq, Repr, Inhabited

def lookupId (k : List Name) : List (List Name × Nat) → Option Nat
  | [] => none
  | (l, i) :: r => if l = k then some i else lookupId k r

def setNth {α : Type} : List α → Nat → α → List α
  | [], _, _ => []
  | _ :: xs, 0, a => a :: xs
  | x :: xs, n + 1, a => x :: setNth xs n a

/-! ### `StringIO` on code points -/

def takeLine : List Char → List Char
  | [] => []
  | c :: cs => if c = '\n' then [c] else c :: takeLine cs

/-- `read(size)` / `read()` / `readline()` from position `pos`: the text and the new position. -/
def sioRead (content : List Char) (pos : Nat) (n : Option Nat) : List Char × Nat :=
  let rest := content.drop pos
  let out := match n with
    | none => rest
    | some k => rest.take k
  (out, pos + out.length)

def sioReadline (content : List Char) (pos : Nat) : List Char × Nat :=
  let out := takeLine (content.drop pos)
  (out, pos + out.length)

/-- `write(s)` at `pos` (a position past the end is padded with NUL characters). -/
def sioWrite (content : List Char) (pos : Nat) (s : List Char) : List Char × Nat :=
  let base := content ++ List.replicate (pos - content.length) '\x00'
  (base.take pos ++ s ++ base.drop (pos + s.length), pos + s.length)

/-! ### Handles -/

def getBuf (s : HSt) (id : Nat) : Buf := s.bufs.getD id ⟨[], 0⟩

/-- Position a handle reads / writes at. -/
def hPos (cfg : HCfg) (s : HSt) (h : Nat) : Nat :=
  match s.handles[h]? with
  | none => 0
  | some hd => if cfg.perHandle then hd.pos else (getBuf s hd.buf).pos

def hSetPos (cfg : HCfg) (s : HSt) (h : Nat) (content : List Char) (pos : Nat) : HSt :=
  match s.handles[h]? with
  | none => s
  | some hd =>
    let b := getBuf s hd.buf
    { s with
      bufs := setNth s.bufs hd.buf ⟨content, if cfg.perHandle then b.pos else pos⟩,
      handles := if cfg.perHandle then setNth s.handles h ⟨hd.buf, pos, hd.append⟩ else s.handles }

def hContent (s : HSt) (h : Nat) : List Char :=
  match s.handles[h]? with
  | none => []
  | some hd => (getBuf s hd.buf).content

/-- `MemoryFileSystem.open(path, mode)`: the new state and the handle. -/
def hOpen (cfg : HCfg) (s : HSt) (p : Path) (mode : HMode) : Except FsErr (HSt × Nat) :=
  match locate (.dir s.root) (key cfg.fs p) with
  | .error e => .error e
  | .ok (some (.dir _)) => .error .isDir
  | .ok cur =>
    let existing : Option Nat := match cur with
      | some (.file _) => lookupId (key cfg.fs p) s.ids
      | _ => none
    -- the handle for an existing file object: the object itself (HEAD) / a new handle at 0
    let reuse : Except FsErr (HSt × Nat) :=
      match existing with
      | none => .error .notFound
      | some id =>
        let b := getBuf s id
        let startPos := if mode = .a then b.content.length else if cfg.perHandle then 0 else b.pos
        let s1 : HSt := { s with handles := s.handles ++ [⟨id, startPos, decide (mode = .a)⟩] }
        let s2 : HSt := if cfg.perHandle then s1
                        else { s1 with bufs := setNth s1.bufs id ⟨b.content, startPos⟩ }
        .ok (s2, s.handles.length)
    if mode = .w || (mode = .a && existing.isNone) then
      let pk := key cfg.fs (parentStr p)
      match locate (.dir s.root) pk with
      | .error e => .error e
      | .ok none => .error .notFound
      | .ok (some (.dir _)) =>
        let id := s.bufs.length
        .ok ({ root := setAt s.root pk (nameStr p) (.file []),
               ids := (pk ++ [nameStr p], id) :: s.ids,
               bufs := s.bufs ++ [⟨[], 0⟩],
               handles := s.handles ++ [⟨id, 0, decide (mode = .a)⟩] }, s.handles.length)
      | .ok (some (.file _)) => reuse
    else reuse

def hRead (cfg : HCfg) (s : HSt) (h : Nat) (n : Option Nat) : HSt × List Char :=
  let (out, pos') := sioRead (hContent s h) (hPos cfg s h) n
  (hSetPos cfg s h (hContent s h) pos', out)

def hReadline (cfg : HCfg) (s : HSt) (h : Nat) : HSt × List Char :=
  let (out, pos') := sioReadline (hContent s h) (hPos cfg s h)
  (hSetPos cfg s h (hContent s h) pos', out)

def hIsAppend (s : HSt) (h : Nat) : Bool :=
  match s.handles[h]? with
  | some hd => hd.append
  | none => false

def hWrite (cfg : HCfg) (s : HSt) (h : Nat) (text : List Char) : HSt :=
  let at_ := if cfg.appendAtWrite && hIsAppend s h then (hContent s h).length else hPos cfg s h
  let (c', pos') := sioWrite (hContent s h) at_ text
  hSetPos cfg s h c' pos'

/-- `MemoryFile.close()`: `seek(0)`. -/
def hClose (cfg : HCfg) (s : HSt) (h : Nat) : HSt := hSetPos cfg s h (hContent s h) 0

/-! ### The library's own file operations, through handles -/

def hMkdirs (cfg : HCfg) (s : HSt) (p : Path) : Except FsErr HSt :=
  match mkdirsApi cfg.fs s.root p with
  | .ok r => .ok { s with root := r }
  | .error e => .error e

/-- `readfile`: `with open(path) as f: return f.read()`. -/
def hReadFile (cfg : HCfg) (s : HSt) (p : Path) : Except FsErr (HSt × List Char) :=
  match hOpen cfg s p .r with
  | .error e => .error e
  | .ok (s1, h) =>
    let (s2, out) := hRead cfg s1 h none
    .ok (hClose cfg s2 h, out)

/-- `writefile(path, content, mode=…)`. -/
def hWriteFile (cfg : HCfg) (s : HSt) (p : Path) (content : List Char) (mode : HMode) : Except FsErr HSt :=
  match hOpen cfg s p mode with
  | .error e => .error e
  | .ok (s1, h) => .ok (hClose cfg (hWrite cfg s1 h content) h)

def hWriteRecs (cfg : HCfg) (s : HSt) (h : Nat) : List (List Char) → HSt
  | [] => s
  | r :: rs => hWriteRecs cfg (hWrite cfg (hWrite cfg s h (rstripNl r)) h ['\n']) h rs

/-- `_iter` of a LineSequence: `readline()` until the empty string (fuel = remaining length + 1). -/
def hReadLinesAux (cfg : HCfg) : Nat → HSt → Nat → List (List Char) → HSt × List (List Char)
  | 0, s, _, acc => (s, acc.reverse)
  | fuel + 1, s, h, acc =>
    let (s1, line) := hReadline cfg s h
    if line.isEmpty then (s1, acc.reverse) else hReadLinesAux cfg fuel s1 h (rstripNl line :: acc)

inductive HOp where
  | save (p : Path) (content : List Char)
  | load (p : Path)
  | write (p : Path) (content : List Char) (m : HMode)
  | mkdirs (p : Path)
  | seqWrite (p : Path) (m : HMode) (recs : List (List Char))
  | seqRead (p : Path)
  | exists_ (p : Path)
  | hopen (p : Path) (m : HMode)
  | hread (h : Nat) (n : Option Nat)
  | hreadline (h : Nat)
  | hwrite (h : Nat) (text : List Char)
  | hclose (h : Nat)
  deriving Repr, Inhabited

inductive HOut where
  | unit
  | content (c : List Char)
  | records (rs : List (List Char))
  | bool (b : Bool)
  | handle (h : Nat)
  | err (e : FsErr)
  deriving DecidableEq, Repr, Inhabited

def hStep (cfg : HCfg) (s : HSt) : HOp → HSt × HOut
  | .save p c =>
    match hMkdirs cfg s (dirname p) with
    | .error e => (s, .err e)
    | .ok s1 => match hWriteFile cfg s1 p c .w with
      | .ok s2 => (s2, .unit)
      | .error e => (s1, .err e)
  | .load p => match hReadFile cfg s p with
    | .ok (s1, c) => (s1, .content c)
    | .error e => (s, .err e)
  | .write p c m => match hWriteFile cfg s p c m with
    | .ok s1 => (s1, .unit)
    | .error e => (s, .err e)
  | .mkdirs p => match hMkdirs cfg s p with
    | .ok s1 => (s1, .unit)
    | .error e => (s, .err e)
  | .seqWrite p m recs =>
    match hMkdirs cfg s (dirname p) with
    | .error e => (s, .err e)
    | .ok s1 => match hOpen cfg s1 p m with
      | .error e => (s1, .err e)
      | .ok (s2, h) => (hClose cfg (hWriteRecs cfg s2 h recs) h, .unit)
  | .seqRead p => match hOpen cfg s p .r with
    | .error e => (s, .err e)
    | .ok (s1, h) =>
      let (s2, recs) := hReadLinesAux cfg ((hContent s1 h).length + 1) s1 h []
      (hClose cfg s2 h, .records recs)
  | .exists_ p => match locate (.dir s.root) (key cfg.fs p) with
    | .ok (some _) => (s, .bool true)
    | .ok none => (s, .bool false)
    | .error e => (s, .err e)
  | .hopen p m => match hOpen cfg s p m with
    | .ok (s1, h) => (s1, .handle h)
    | .error e => (s, .err e)
  | .hread h n => let (s1, out) := hRead cfg s h n; (s1, .content out)
  | .hreadline h => let (s1, out) := hReadline cfg s h; (s1, .content out)
  | .hwrite h t => (hWrite cfg s h t, .unit)
  | .hclose h => (hClose cfg s h, .unit)

def hRun (cfg : HCfg) : HSt → List HOp → HSt × List HOut
  | s, [] => (s, [])
  | s, op :: ops =>
    let (s1, o) := hStep cfg s op
    let (s2, os) := hRun cfg s1 ops
    (s2, o :: os)

end Pg.C05
