/-
  C19 — model of the TAIL of `pg.coding.evaluate` (execution.py, after validation): the split of
  the last statement, exec of the body, eval of the last expression, the detour of a trailing
  assignment through `__result__`, the fall-back result of a non-split program, and the
  `outputs_intermediate` filter — over a small executable statement language (integers / None,
  names, `+`, `print`, (multi-target) assignment, augmented assignment, `pass`) whose plain
  semantics `execAll` is the reference the property names ("what plain execution of the same text
  yields").

  Which statement classes are split off is NOT hand-written: it is `splitKinds` of
  `PgGen/C19Tables.lean`, regenerated from execution.py on every run.
-/
import PgGen.C19Tables
namespace Pg.C19.Tail
open Pg.C19

inductive Val where
  | none
  | int (i : Int)
  deriving DecidableEq, Repr

inductive Err where
  | nameError
  | typeError
  deriving DecidableEq, Repr

inductive Ex where
  | lit (i : Int)
  | noneLit
  | var (x : String)
  | add (a b : Ex)
  | print (e : Ex)          -- `print(e)`: writes the value, yields None
  deriving Repr

/-- The globals dict (insertion-ordered). -/
abbrev Env := List (String × Val)

structure St where
  env : Env
  out : List Val            -- what was printed, oldest first
  deriving DecidableEq, Repr

def lookup (env : Env) (x : String) : Option Val :=
  match env with
  | [] => none
  | (k, v) :: rest => if k = x then some v else lookup rest x

/-- `d[x] = v` of a Python dict: an existing key keeps its position. -/
def setVar (env : Env) (x : String) (v : Val) : Env :=
  match env with
  | [] => [(x, v)]
  | (k, w) :: rest => if k = x then (k, v) :: rest else (k, w) :: setVar rest x v

def erase (x : String) : Env → Env
  | [] => []
  | (k, w) :: rest => if k = x then erase x rest else (k, w) :: erase x rest

def addVal : Val → Val → Except Err Val
  | .int a, .int b => .ok (.int (a + b))
  | _, _ => .error .typeError

def evalE : Ex → St → Except Err (Val × St)
  | .lit i, s => .ok (.int i, s)
  | .noneLit, s => .ok (.none, s)
  | .var x, s => match lookup s.env x with
    | some v => .ok (v, s)
    | none => .error .nameError
  | .add a b, s =>
    match evalE a s with
    | .error e => .error e
    | .ok (va, s1) =>
      match evalE b s1 with
      | .error e => .error e
      | .ok (vb, s2) =>
        match addVal va vb with
        | .error e => .error e
        | .ok v => .ok (v, s2)
  | .print e, s =>
    match evalE e s with
    | .error err => .error err
    | .ok (v, s1) => .ok (.none, { s1 with out := s1.out ++ [v] })

inductive Stmt where
  | assign (targets : List String) (e : Ex)     -- `t1 = t2 = … = e`
  | expr (e : Ex)
  | aug (x : String) (e : Ex)                   -- `x += e`
  | pass
  deriving Repr

def Stmt.kind : Stmt → Kind
  | .assign _ _ => .Assign
  | .expr _ => .Expr
  | .aug _ _ => .AugAssign
  | .pass => .Pass

/-- The `.value` field `evaluate` reads from the statement it split off. -/
def Stmt.value? : Stmt → Option Ex
  | .assign _ e => some e
  | .expr e => some e
  | .aug _ e => some e          -- `ast.AugAssign` has a `.value` too (matters only if the table changes)
  | .pass => none

def assignAll (ts : List String) (v : Val) (env : Env) : Env := ts.foldl (fun e t => setVar e t v) env

/-- Plain execution of one statement. -/
def exec : Stmt → St → Except Err St
  | .assign ts e, s =>
    match evalE e s with
    | .error err => .error err
    | .ok (v, s1) => .ok { s1 with env := assignAll ts v s1.env }
  | .expr e, s =>
    match evalE e s with
    | .error err => .error err
    | .ok (_, s1) => .ok s1
  | .aug x e, s =>
    match lookup s.env x with
    | none => .error .nameError                 -- the target is loaded first
    | some vx =>
      match evalE e s with
      | .error err => .error err
      | .ok (v, s1) =>
        match addVal vx v with
        | .error err => .error err
        | .ok r => .ok { s1 with env := setVar s1.env x r }
  | .pass, s => .ok s

/-- Plain execution of a statement list (the reference). -/
def execAll : List Stmt → St → Except Err St
  | [], s => .ok s
  | st :: rest, s =>
    match exec st s with
    | .error e => .error e
    | .ok s1 => execAll rest s1

def resultKey : String := "__result__"

structure Res where
  result : Val
  env : Env
  out : List Val
  deriving DecidableEq, Repr

def lastValue (env : Env) : Val :=
  match env.getLast? with
  | some p => p.2
  | none => .none

/-- `evaluate(code, global_vars=ctx)` after validation. `none`: the program has no statement.
`split` is the generated list of statement classes that are split off. -/
def evaluateWith (split : List Kind) (prog : List Stmt) (ctx : Env) : Except Err (Option Res) :=
  match prog.getLast? with
  | none => .ok none
  | some last =>
    match (if split.contains last.kind then last.value? else none) with
    | some e =>
      match execAll prog.dropLast ⟨ctx, []⟩ with
      | .error err => .error err
      | .ok s1 =>
        match evalE e s1 with
        | .error err => .error err
        | .ok (v, s2) =>
          let s3 : St := { s2 with env := setVar s2.env resultKey v }
          match (match last with
                 | .assign ts _ => exec (.assign ts (.var resultKey)) s3
                 | _ => .ok s3) with
          | .error err => .error err
          | .ok s4 => .ok (some ⟨(lookup s4.env resultKey).getD .none, s4.env, s4.out⟩)
    | none =>
      match execAll prog ⟨ctx, []⟩ with
      | .error err => .error err
      | .ok s1 => .ok (some ⟨lastValue s1.env, setVar s1.env resultKey (lastValue s1.env), s1.out⟩)

def evaluate : List Stmt → Env → Except Err (Option Res) := evaluateWith splitKinds

/-- The `outputs_intermediate` filter: entries that are new or changed with respect to the
globals the call started from. -/
def outputs (ctx : Env) : Env → Env
  | [] => []
  | (k, v) :: rest => if lookup ctx k = some v then outputs ctx rest else (k, v) :: outputs ctx rest

/-! ### The statement language as `ast` trees: the head (validation) and the tail together -/

def Ex.toNode (l : Nat) : Ex → Node Kind
  | .lit _ => .mk .Constant l []
  | .noneLit => .mk .Constant l []
  | .var _ => .mk .Name l [.mk .Load l []]
  | .add a b => .mk .BinOp l [a.toNode l, .mk .Add l [], b.toNode l]
  | .print e => .mk .Call l [.mk .Name l [.mk .Load l []], e.toNode l]

def Stmt.toNode (l : Nat) : Stmt → Node Kind
  | .assign ts e => .mk .Assign l (ts.map (fun _ => Node.mk Kind.Name l [.mk .Store l []]) ++ [e.toNode l])
  | .expr e => .mk .Expr l [e.toNode l]
  | .aug _ e => .mk .AugAssign l [.mk .Name l [.mk .Store l []], .mk .Add l [], e.toNode l]
  | .pass => .mk .Pass l []

/-- statements numbered from line `l` on (one statement per line, as the harness renders them). -/
def nodesFrom (l : Nat) : List Stmt → List (Node Kind)
  | [] => []
  | st :: rest => st.toNode l :: nodesFrom (l + 1) rest

def moduleOf (prog : List Stmt) : Node Kind := .mk .Module 0 (nodesFrom 1 prog)

def Ex.hasCall : Ex → Bool
  | .add a b => a.hasCall || b.hasCall
  | .print _ => true
  | _ => false

def Stmt.hasCall : Stmt → Bool
  | .assign _ e => e.hasCall
  | .expr e => e.hasCall
  | .aug _ e => e.hasCall
  | .pass => false

def Stmt.assigns : Stmt → Bool
  | .assign _ _ => true
  | .aug _ _ => true
  | _ => false

inductive Full where
  | rejected (line : Nat)                       -- CodeError from parsing; nothing was executed
  | ran (r : Except Err (Option Res))
  deriving Repr

/-- `evaluate(code, global_vars=ctx, permission=explicit)` inside the scope state `slot`. -/
def evaluateFull (explicit : Option PermSet) (slot : Slot) (prog : List Stmt) (ctx : Env) : Full :=
  match evaluateHead gate effectiveRule explicit slot (moduleOf prog) with
  | .rejected l => .rejected l
  | .runs => .ran (evaluate prog ctx)

end Pg.C19.Tail
