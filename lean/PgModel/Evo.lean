/-
  C14 — model of the evolution operators of pyglove/ext/evolution (self-contained, Mathlib-free).

  * `GSpec` / `DNA` / `valid` / `aligned`: a small spec-shaped model of the geno layer, sufficient
    for the operators (flat and nested choices with distinct / sorted flags, float points).
    A `DNA` is *spec shaped* (one `space` node per `Space`, one `choices` node per `Choices`, one
    `sub` entry per subchoice); the collapsing of value-less single-child nodes done by
    `DNA.__init__` (geno/base.py:533-595) is re-introduced where it is observable (which nodes
    exist for the mutators: `countNodes`, `swapCands`).
    Every subchoice entry carries its *belief* (the `subchoice_index` of the spec the real node is
    bound to); `aligned` says that beliefs agree with positions (finding F21, fixed in c8b4917:
    `Swap` used to break it; it now re-binds the two swapped entries, `rebindEntry`).
  * randomness is an explicit oracle stream `List Ev` (recorded from the real `random.Random`):
    every draw checks the kind and the argument size of the recorded call (`Err.desync` otherwise),
    so the *sequence of PRNG calls* made by the code is part of the correspondence.
  * primitives: mutators Uniform / Swap (mutators.py), selectors Random / Sample / Top / Bottom /
    First / Last (selectors.py), recombinators Uniform / Sample (point-wise), KPoint / Segmented
    (segment-wise) (recombinators.py). The permutation crossovers, Average / WeightedAverage,
    Proportional and NSGA2 sorting are not modelled (oracle-only in the harness); `Ev.order` /
    `setOrder` are the hook for `list(set(children))` of the permutation crossovers.
  * the composition algebra (base.py:293-441, 839-1480) is the inductive `OpExpr` with
    `eval : OpExpr → Pop → M Pop`.
-/
namespace Pg.C14

/-! ## Exact rationals (Python floats cross the wire as `num / 2^exp`; the numeric recombinators
compute means, which leave the dyadic numbers) -/

abbrev Q := Rat

def qle (a b : Q) : Bool := decide (a ≤ b)
def qlt (a b : Q) : Bool := decide (a < b)
def qeq (a b : Q) : Bool := decide (a = b)

/-! ## Specs and DNA -/

inductive GSpec where
  | space (elems : List GSpec)
  | choices (k : Nat) (cands : List GSpec) (distinct sorted : Bool)
  | float (lo hi : Q)
  deriving Inhabited

inductive DNA where
  | space (es : List DNA)
  | choices (subs : List DNA)               -- every element is a `sub`
  | sub (belief value : Nat) (d : DNA)      -- subchoice entry: believed index, chosen candidate, its DNA
  | float (v : Q)
  deriving Inhabited

def subVal : DNA → Nat
  | .sub _ v _ => v
  | _ => 0

def subBelief : DNA → Nat
  | .sub b _ _ => b
  | _ => 0

def subDna : DNA → DNA
  | .sub _ _ d => d
  | d => d

def isSub : DNA → Bool
  | .sub _ _ _ => true
  | _ => false

def sortedNat : List Nat → Bool
  | a :: b :: t => decide (a ≤ b) && sortedNat (b :: t)
  | _ => true

def nodupNat : List Nat → Bool
  | [] => true
  | a :: t => !t.contains a && nodupNat t

mutual
  /-- `spec.validate(dna)` / the checks of `DNA.use_spec` (geno/base.py:768-896). -/
  def valid : GSpec → DNA → Bool
    | .space es, .space ds => validElems es ds
    | .choices k cands dist srt, .choices subs =>
        decide (subs.length = k) && validSubs cands subs &&
        (!dist || nodupNat (subs.map subVal)) && (!srt || sortedNat (subs.map subVal))
    | .float lo hi, .float v => qle lo v && qle v hi
    | _, _ => false
  def validElems : List GSpec → List DNA → Bool
    | [], [] => true
    | e :: es, d :: ds => valid e d && validElems es ds
    | _, _ => false
  def validSubs : List GSpec → List DNA → Bool
    | _, [] => true
    | cands, .sub _ v d :: rest =>
        (match cands[v]? with | some c => valid c d | none => false) && validSubs cands rest
    | _, _ :: _ => false
end

mutual
  /-- Every subchoice entry believes it sits where it sits (C12's alignment, restricted to what
  the operators can change). -/
  def aligned : DNA → Bool
    | .space ds => alignedAll ds
    | .choices subs => alignedFrom 0 subs
    | .sub _ _ d => aligned d
    | .float _ => true
  def alignedAll : List DNA → Bool
    | [] => true
    | d :: ds => aligned d && alignedAll ds
  def alignedFrom : Nat → List DNA → Bool
    | _, [] => true
    | i, .sub b _ d :: rest => decide (b = i) && aligned d && alignedFrom (i + 1) rest
    | i, d :: rest => aligned d && alignedFrom (i + 1) rest
end

mutual
  /-- DNA equality as `DNA.__eq__` sees it (values and children; beliefs are not compared). -/
  def dnaEq : DNA → DNA → Bool
    | .space a, .space b => dnaEqAll a b
    | .choices a, .choices b => dnaEqAll a b
    | .sub _ v d, .sub _ w e => decide (v = w) && dnaEq d e
    | .float a, .float b => qeq a b
    | _, _ => false
  def dnaEqAll : List DNA → List DNA → Bool
    | [], [] => true
    | a :: as, b :: bs => dnaEq a b && dnaEqAll as bs
    | _, _ => false
end

/-! ## Oracle stream, state, monad -/

inductive RK where
  | choice | randint | sample | choices | shuffle | random | uniform
  deriving DecidableEq, Repr

inductive Ev where
  | idx (kind : RK) (n i : Nat)                     -- choice / randint over n items → i
  | idxs (kind : RK) (n k : Nat) (is : List Nat)    -- sample / choices / shuffle → index list
  | real (kind : RK) (q : Q)                        -- random() / uniform(lo, hi)
  | order (ds : List DNA)                           -- iteration order of a `set` of DNA
  deriving Inhabited

inductive Err where
  | desync | fuel | unmodelled | index | key | value | runtime | type | zerodiv
  deriving DecidableEq, Repr

structure St where
  oracle : List Ev
  nextUid : Nat

abbrev M := StateT St (Except Err)

def fail {α : Type} (e : Err) : M α := fun _ => .error e

def popEv : M Ev := fun st =>
  match st.oracle with
  | [] => .error .desync
  | e :: rest => .ok (e, { st with oracle := rest })

def freshUid : M Nat := fun st => .ok (st.nextUid, { st with nextUid := st.nextUid + 1 })

def allLt (n : Nat) (l : List Nat) : Bool := l.all (fun i => decide (i < n))

/-- one index in `[0, n)` (`random.choice(seq)` with `len(seq) = n`, `randint(0, n-1)`). -/
def nextIdx (kind : RK) (n : Nat) : M Nat := do
  match (← popEv) with
  | .idx k m i => if k = kind ∧ m = n ∧ i < n then pure i else fail .desync
  | _ => fail .desync

/-- `random.sample(range(n), k)`: k distinct indices. -/
def nextSample (n k : Nat) : M (List Nat) := do
  match (← popEv) with
  | .idxs kd m j is =>
    if kd = .sample ∧ m = n ∧ j = k ∧ is.length = k ∧ allLt n is = true ∧ nodupNat is = true then pure is
    else fail .desync
  | _ => fail .desync

/-- `random.choices(range(n), weights, k=k)`: k indices (with replacement). -/
def nextChoices (n k : Nat) : M (List Nat) := do
  match (← popEv) with
  | .idxs kd m j is =>
    if kd = .choices ∧ m = n ∧ j = k ∧ is.length = k ∧ allLt n is = true then pure is else fail .desync
  | _ => fail .desync

/-- `random.shuffle(x)` with `len(x) = n`: the permutation applied (`new[i] = old[perm[i]]`). -/
def nextShuffle (n : Nat) : M (List Nat) := do
  match (← popEv) with
  | .idxs kd m _ is =>
    if kd = .shuffle ∧ m = n ∧ is.length = n ∧ allLt n is = true ∧ nodupNat is = true then pure is
    else fail .desync
  | _ => fail .desync

/-- `random.random()`: a value in `[0, 1)` (the recorded value is checked). -/
def nextRandom : M Q := do
  match (← popEv) with
  | .real k q => if k = .random ∧ qle 0 q = true ∧ qlt q 1 = true then pure q else fail .desync
  | _ => fail .desync

/-- `random.uniform(lo, hi)`; the recorded value is checked to lie in `[lo, hi]`. -/
def nextUniform (lo hi : Q) : M Q := do
  match (← popEv) with
  | .real k q => if k = .uniform ∧ qle lo q = true ∧ qle q hi = true then pure q else fail .desync
  | _ => fail .desync

def nextOrder : M (List DNA) := do
  match (← popEv) with
  | .order ds => pure ds
  | _ => fail .desync

def forEachM {α β : Type} (f : α → M β) : List α → M (List β)
  | [] => pure []
  | a :: as => do
    let b ← f a
    let bs ← forEachM f as
    pure (b :: bs)

/-! ## `random_dna` (geno/space.py:207, categorical.py:513, numerical.py:125) -/

def mkSubs : Nat → List Nat → List DNA → List DNA
  | i, v :: vs, d :: ds => .sub i v d :: mkSubs (i + 1) vs ds
  | _, _, _ => []

def leNat (a b : Nat) : Bool := decide (a ≤ b)

def sortNats (l : List Nat) : List Nat := l.mergeSort leNat

def randomDna : Nat → GSpec → M DNA
  | 0, _ => fail .fuel
  | f + 1, .space es => do
    let ds ← forEachM (randomDna f) es
    pure (.space ds)
  | _ + 1, .float lo hi => do
    let q ← nextUniform lo hi
    pure (.float q)
  | f + 1, .choices k cands dist srt => do
    let vs ← if dist then nextSample cands.length k
             else forEachM (fun _ => nextIdx .randint cands.length) (List.range k)
    let vs := if srt then sortNats vs else vs
    let ds ← forEachM (fun v => match cands[v]? with
                                | some c => randomDna f c
                                | none => fail .desync) vs
    pure (.choices (mkSubs 0 vs ds))

mutual
  def depth : GSpec → Nat
    | .space es => depthAll es + 1
    | .choices _ cands _ _ => depthAll cands + 1
    | .float _ _ => 1
  def depthAll : List GSpec → Nat
    | [] => 0
    | g :: gs => max (depth g) (depthAll gs)
end

/-! ## Individuals -/

structure Ind where
  uid : Nat
  dna : DNA
  fit : Option Int      -- metadata 'reward' (× 4, sent as an integer); none for fresh children
  deriving Inhabited

abbrev Pop := List Ind
abbrev Op := Pop → M Pop

def mkChild (d : DNA) : M Ind := do
  let u ← freshUid
  pure { uid := u, dna := d, fit := none }

/-! ## Mutator `Uniform` (mutators.py:68-171) -/

/-- what a `where` filter can see of a DNA node: `kind` 0 = float, 1 = single choice, 2 = multi-choice
node (value-less), 3 = subchoice of a multi-choice; the chosen candidate; the subchoice index the node
is bound to. -/
structure NodeInfo where
  kind : Nat
  value : Nat
  index : Nat

/-- a `where` argument: which nodes may be touched (`fun _ => true` when the argument is omitted). -/
abbrev Where := NodeInfo → Bool

def entryInfo (k b v : Nat) : NodeInfo := ⟨if k == 1 then 1 else 3, v, b⟩
def multiInfo : NodeInfo := ⟨2, 0, 0⟩
def floatInfo : NodeInfo := ⟨0, 0, 0⟩

mutual
  /-- number of nodes `_get_relationships` returns for this sub-tree. `coll`: this DNA is the only
  element of a chosen candidate (then a multi-choice has no node of its own). -/
  def countNodes (w : Where) : GSpec → Bool → DNA → Nat
    | .space es, inCand, .space ds => countElems w es (inCand && es.length == 1) ds
    | .choices k cands _ _, coll, .choices subs =>
        (if !(k == 1 || coll) && w multiInfo then 1 else 0) + countSubs w k cands subs
    | .float _ _, _, .float _ => if w floatInfo then 1 else 0
    | _, _, _ => 0
  def countElems (w : Where) : List GSpec → Bool → List DNA → Nat
    | e :: es, c, d :: ds => countNodes w e c d + countElems w es c ds
    | _, _, _ => 0
  def countSubs (w : Where) (k : Nat) : List GSpec → List DNA → Nat
    | cands, .sub b v d :: rest =>
        (if w (entryInfo k b v) then 1 else 0) +
        (match cands[v]? with | some c => countNodes w c true d | none => 0) + countSubs w k cands rest
    | _, _ => 0
end

def realign : Nat → List DNA → List DNA
  | _, [] => []
  | i, .sub _ v d :: rest => .sub i v d :: realign (i + 1) rest
  | i, d :: rest => d :: realign (i + 1) rest

def sortSubs (l : List DNA) : List DNA := l.mergeSort (fun a b => leNat (subVal a) (subVal b))

/-- mutation of the subchoice entry at position `j` of a `Choices` node (mutators.py:83-121). -/
def mutEntry (fuel k : Nat) (cands : List GSpec) (dist srt : Bool) (subs : List DNA) (j : Nat) : M DNA :=
  let finish (l : List DNA) : DNA :=
    if k > 1 && srt then .choices (realign 0 (sortSubs l)) else .choices l
  match subs[j]? with
  | none => fail .desync
  | some e =>
    if k == 1 then
      -- a single choice: `random_dna(child_node.spec, ...)`
      randomDna fuel (.choices k cands dist srt)
    else if dist then do
      let used := subs.map subVal
      let free := (List.range cands.length).filter (fun c => !used.contains c)
      if free.isEmpty then pure (.choices subs)
      else
        let r ← nextIdx .choice free.length
        match free[r]? with
        | none => fail .desync
        | some nv =>
          match cands[nv]? with
          | none => fail .desync
          | some c =>
            let nd ← randomDna fuel c
            pure (finish (subs.set j (.sub (subBelief e) nv nd)))
    else do
      let nv ← nextIdx .randint cands.length
      match cands[nv]? with
      | none => fail .desync
      | some c =>
        let nd ← randomDna fuel c
        pure (finish (subs.set j (.sub (subBelief e) nv nd)))

mutual
  /-- mutate the `i`-th node (pre-order) of the sub-tree. -/
  def mutNode (w : Where) (fuel : Nat) : GSpec → Bool → DNA → Nat → M DNA
    | .space es, inCand, .space ds, i => do
        let ds' ← mutElems w fuel es (inCand && es.length == 1) ds i
        pure (.space ds')
    | .choices k cands dist srt, coll, .choices subs, i =>
        if (!(k == 1 || coll) && w multiInfo) && i == 0 then
          randomDna fuel (.choices k cands dist srt)
        else do
          let i' := if !(k == 1 || coll) && w multiInfo then i - 1 else i
          match (← mutSubs w fuel k cands subs i') with
          | .inl l => pure (.choices l)
          | .inr j => mutEntry fuel k cands dist srt subs j
    | .float lo hi, _, .float _, _ => randomDna fuel (.float lo hi)
    | _, _, _, _ => fail .desync
  def mutElems (w : Where) (fuel : Nat) : List GSpec → Bool → List DNA → Nat → M (List DNA)
    | e :: es, c, d :: ds, i =>
        let n := countNodes w e c d
        if i < n then do
          let d' ← mutNode w fuel e c d i
          pure (d' :: ds)
        else do
          let ds' ← mutElems w fuel es c ds (i - n)
          pure (d :: ds')
    | _, _, _, _ => fail .desync
  /-- `inl l`: a node below one of the entries was mutated; `inr j`: the entry `j` itself is hit. -/
  def mutSubs (w : Where) (fuel k : Nat) : List GSpec → List DNA → Nat → M (List DNA ⊕ Nat)
    | cands, .sub b v d :: rest, i =>
        if w (entryInfo k b v) && i == 0 then pure (.inr 0)
        else
          match cands[v]? with
          | none => fail .desync
          | some c =>
            let n := countNodes w c true d
            if (if w (entryInfo k b v) then i - 1 else i) < n then do
              let d' ← mutNode w fuel c true d (if w (entryInfo k b v) then i - 1 else i)
              pure (.inl (.sub b v d' :: rest))
            else do
              match (← mutSubs w fuel k cands rest ((if w (entryInfo k b v) then i - 1 else i) - n)) with
              | .inl l => pure (.inl (.sub b v d :: l))
              | .inr j => pure (.inr (j + 1))
    | _, _, _ => fail .desync
end

/-- `Uniform.mutate` on one DNA. -/
def mutUniformOne (w : Where) (fuel : Nat) (g : GSpec) (d : DNA) : M DNA := do
  let n := countNodes w g false d
  if n == 0 then fail .runtime           -- RuntimeError('Immutable DNA')
  else
    let i ← nextIdx .choice n
    mutNode w fuel g false d i

/-- `Mutator.mutate_list` (base.py:570-596) with `Uniform.mutate`. -/
def mutUniformW (w : Where) (fuel : Nat) (g : GSpec) : Op := fun pop =>
  forEachM (fun x => do
    let d ← mutUniformOne w fuel g x.dna
    mkChild d) pop

/-- without a `where` argument every node may be touched. -/
def mutUniform (fuel : Nat) (g : GSpec) : Op := mutUniformW (fun _ => true) fuel g

/-! ## Mutator `Swap` (mutators.py:191-224) -/

mutual
  /-- the nodes `_get_candidate_nodes` returns (multi-choice nodes with a node of their own), as
  (sorted flag, number of children), in query order. -/
  def swapCands (w : Where) : GSpec → Bool → DNA → List (Bool × Nat)
    | .space es, inCand, .space ds => swapCandsElems w es (inCand && es.length == 1) ds
    | .choices k cands _ srt, coll, .choices subs =>
        (if !(k == 1 || coll) && w multiInfo then [(srt, subs.length)] else []) ++ swapCandsSubs w cands subs
    | _, _, _ => []
  def swapCandsElems (w : Where) : List GSpec → Bool → List DNA → List (Bool × Nat)
    | e :: es, c, d :: ds => swapCands w e c d ++ swapCandsElems w es c ds
    | _, _, _ => []
  def swapCandsSubs (w : Where) : List GSpec → List DNA → List (Bool × Nat)
    | cands, .sub _ v d :: rest =>
        (match cands[v]? with | some c => swapCands w c true d | none => []) ++ swapCandsSubs w cands rest
    | _, _ => []
end

mutual
  def rebind : DNA → DNA
    | .space ds => .space (rebindAll ds)
    | .choices subs => .choices (rebindFrom 0 subs)
    | .sub b v d => .sub b v (rebind d)
    | .float v => .float v
  def rebindAll : List DNA → List DNA
    | [] => []
    | d :: ds => rebind d :: rebindAll ds
  def rebindFrom : Nat → List DNA → List DNA
    | _, [] => []
    | i, .sub _ v d :: rest => .sub i v (rebind d) :: rebindFrom (i + 1) rest
    | i, d :: rest => rebind d :: rebindFrom (i + 1) rest
end

/-- `child.use_spec(parent_node.spec.subchoice(i))` (mutators.py:212-215): the entry placed at
position `i` is bound to subchoice `i`, recursively. -/
def rebindEntry (i : Nat) : DNA → DNA
  | .sub _ v d => .sub i v (rebind d)
  | d => rebind d

def swapList (l : List DNA) (i j : Nat) : List DNA :=
  match l[i]?, l[j]? with
  | some a, some b => (l.set i (rebindEntry i b)).set j (rebindEntry j a)
  | _, _ => l

mutual
  /-- swap the children `i`, `j` of the `c`-th candidate node. -/
  def swapAt (w : Where) : GSpec → Bool → DNA → Nat → Nat → Nat → DNA
    | .space es, inCand, .space ds, c, i, j => .space (swapAtElems w es (inCand && es.length == 1) ds c i j)
    | .choices k cands dist srt, coll, .choices subs, c, i, j =>
        if (!(k == 1 || coll) && w multiInfo) && c == 0 then
          (if srt then .choices subs else .choices (swapList subs i j))
        else .choices (swapAtSubs w cands subs (if !(k == 1 || coll) && w multiInfo then c - 1 else c) i j)
    | _, _, d, _, _, _ => d
  def swapAtElems (w : Where) : List GSpec → Bool → List DNA → Nat → Nat → Nat → List DNA
    | e :: es, cl, d :: ds, c, i, j =>
        let n := (swapCands w e cl d).length
        if c < n then swapAt w e cl d c i j :: ds else d :: swapAtElems w es cl ds (c - n) i j
    | _, _, ds, _, _, _ => ds
  def swapAtSubs (w : Where) : List GSpec → List DNA → Nat → Nat → Nat → List DNA
    | cands, .sub b v d :: rest, c, i, j =>
        match cands[v]? with
        | none => .sub b v d :: rest
        | some cs =>
          let n := (swapCands w cs true d).length
          if c < n then .sub b v (swapAt w cs true d c i j) :: rest
          else .sub b v d :: swapAtSubs w cands rest (c - n) i j
    | _, ds, _, _, _ => ds
end

def findFirstUnsorted (cs : List (Bool × Nat)) : List Nat → Option (Nat × Nat)
  | [] => none
  | p :: ps =>
    match cs[p]? with
    | some (false, n) => some (p, n)
    | _ => findFirstUnsorted cs ps

def mutSwapOne (w : Where) (g : GSpec) (d : DNA) : M DNA := do
  let cs := swapCands w g false d
  let perm ← nextShuffle cs.length
  match findFirstUnsorted cs perm with
  | none => pure d
  | some (c, n) =>
    let ij ← nextSample n 2
    match ij with
    | [i, j] => pure (swapAt w g false d c i j)
    | _ => fail .desync

def mutSwapW (w : Where) (g : GSpec) : Op := fun pop =>
  forEachM (fun x => do
    let d ← mutSwapOne w g x.dna
    mkChild d) pop

def mutSwap (g : GSpec) : Op := mutSwapW (fun _ => true) g

/-! ## Selectors (selectors.py) -/

/-- the `n` argument of a selector: None, an int, or a float `num / 2^exp` in [0, 1]. -/
inductive NSpec where
  | all
  | count (n : Nat)
  | frac (num exp : Nat)

/-- `compute_num_output` (selectors.py:37-45); `math.ceil(n * len)` is exact for dyadic `n`. -/
def numOutput (n : NSpec) (len : Nat) : Nat :=
  match n with
  | .all => len
  | .count c => c
  | .frac num e => (num * len + 2 ^ e - 1) / 2 ^ e

def pickAll (pop : Pop) (is : List Nat) : M Pop :=
  forEachM (fun i => match pop[i]? with | some x => pure x | none => fail .desync) is

def selRandom (n : NSpec) (replacement : Bool) : Op := fun pop => do
  let k := numOutput n pop.length
  if replacement then
    if k > 0 && pop.isEmpty then fail .index        -- random.choice([]) raises IndexError
    else
      let is ← forEachM (fun _ => nextIdx .choice pop.length) (List.range k)
      pickAll pop is
  else
    let is ← nextSample pop.length (min k pop.length)
    pickAll pop is

/-- `Sample(n, weights)`: `random.choices(inputs, weights=…, k=n)`; which indices can come out is
the PRNG's business (trusted), the model only uses the recorded indices. -/
def selSample (n : NSpec) : Op := fun pop => do
  let k := numOutput n pop.length
  if pop.isEmpty then fail .index      -- `choices([], weights=[], k)` raises IndexError (cum_weights[-1])
  else
    let is ← nextChoices pop.length k
    pickAll pop is

def fitKey (x : Ind) : Int := x.fit.getD 0

def selTop (n : NSpec) : Op := fun pop => do
  if pop.any (fun x => x.fit.isNone) then fail .key        -- get_fitness: KeyError('reward')
  else pure ((pop.mergeSort (fun a b => decide (fitKey a ≥ fitKey b))).take (numOutput n pop.length))

def selBottom (n : NSpec) : Op := fun pop => do
  if pop.any (fun x => x.fit.isNone) then fail .key
  else pure ((pop.mergeSort (fun a b => decide (fitKey a ≤ fitKey b))).take (numOutput n pop.length))

/-- the distinct values of a list (first occurrences). -/
def dedupInt : List Int → List Int
  | [] => []
  | a :: t => a :: (dedupInt t).filter (fun b => b != a)

/-- `sorted(set(keys), reverse=desc)[:n]`: the `n` best distinct keys. -/
def bestKeys (desc : Bool) (n : Nat) (pop : Pop) : List Int :=
  ((dedupInt (pop.map fitKey)).mergeSort
    (fun a b => if desc then decide (a ≥ b) else decide (a ≤ b))).take n

/-- `Top(n, cluster=True)` (selectors.py:199-204): all members of the `n` best key classes, best first,
members of a class in input order. -/
def selTopCluster (n : NSpec) : Op := fun pop =>
  if pop.any (fun x => x.fit.isNone) then fail .key
  else pure ((pop.filter (fun x => (bestKeys true (numOutput n pop.length) pop).contains (fitKey x))).mergeSort
    (fun a b => decide (fitKey a ≥ fitKey b)))

/-- `Bottom(n, cluster=True)` (selectors.py:236-240). -/
def selBottomCluster (n : NSpec) : Op := fun pop =>
  if pop.any (fun x => x.fit.isNone) then fail .key
  else pure ((pop.filter (fun x => (bestKeys false (numOutput n pop.length) pop).contains (fitKey x))).mergeSort
    (fun a b => decide (fitKey a ≤ fitKey b)))

def selFirst (n : NSpec) : Op := fun pop => pure (pop.take (numOutput n pop.length))

def selLast (n : NSpec) : Op := fun pop => pure (pop.drop (pop.length - numOutput n pop.length))

/-! ## Recombinators (recombinators.py). All of them build their children with `DNA.from_dict`,
which ends in `use_spec` (validation + re-binding); the model mirrors that with `checked`. -/

def popAligned (pop : Pop) : Bool := pop.all (fun x => aligned x.dna)

/-- the tail of `DNA.from_dict`: `dna.use_spec(dna_spec)` raises `ValueError` on an invalid tree
and binds every node to the decision point of its position. -/
def checked (g : GSpec) (d : DNA) : M DNA :=
  if valid g d then pure (rebind d) else fail .value

/-! ### Point-wise: Uniform and Sample (recombinators.py:154-423), `where = ALL` -/

def elemAt (j : Nat) : Option DNA → Option DNA
  | some (.space ds) => ds[j]?
  | _ => none

def floatOf : Option DNA → Option Q
  | some (.float v) => some v
  | _ => none

def valuesOf : Option DNA → Option (List Nat)
  | some (.choices subs) => some (subs.map subVal)
  | _ => none

/-- the sub-DNA of parent `p` below subchoice `i`, if the parent chose `v` there. -/
def below (i v : Nat) : Option DNA → Option DNA
  | some (.choices subs) =>
    match subs[i]? with
    | some (.sub _ w d) => if w = v then some d else none
    | _ => none
  | _ => none

/-- index of the `r`-th `some` in the list (for `random.choice([v for v in … if v is not None])`). -/
def nthSome {α : Type} : List (Option α) → Nat → Option α
  | [], _ => none
  | none :: t, r => nthSome t r
  | some a :: t, r => if r = 0 then some a else nthSome t (r - 1)

def countSome {α : Type} (l : List (Option α)) : Nat := (l.filter Option.isSome).length

/-- one scalar decision (single choice or float): `Uniform.merge` / `Sample.merge`. -/
def pickOne {α : Type} (sample : Bool) (vals : List (Option α)) : M α := do
  if countSome vals == 0 then fail .value
  else if sample then
    match (← nextChoices vals.length 1) with
    | [r] => match vals[r]? with
             | some (some a) => pure a
             | _ => fail .desync
    | _ => fail .desync
  else
    let r ← nextIdx .choice (countSome vals)
    match nthSome vals r with
    | some a => pure a
    | none => fail .desync

/-- `_merge_multi_choice._merge_next` (recombinators.py:359-373); `steps` bounds the loop. -/
def mergeNext (k : Nat) (dist srt : Bool) (lists : List (Option (List Nat))) :
    Nat → Nat → Nat → List Nat → M (Option (List Nat))
  | 0, _, _, _ => fail .fuel
  | steps + 1, index, attempts, results =>
    if index == k then pure (some results)
    else if attempts ≥ 8 then pure none
    else do
      match (← nextChoices lists.length 1) with
      | [r] =>
        match lists[r]? with
        | some (some l) =>
          match l[index]? with
          | some decision =>
            if (!dist || !results.contains decision) &&
               (!srt || results.isEmpty || decide (decision ≥ results.getLast?.getD 0)) then
              mergeNext k dist srt lists steps (index + 1) attempts (results ++ [decision])
            else
              mergeNext k dist srt lists steps index (attempts + 1) results
          | none => fail .desync
        | _ => fail .desync
      | _ => fail .desync

def mergeMulti (k : Nat) (dist srt : Bool) (lists : List (Option (List Nat))) : M (List Nat) := do
  if countSome lists == 0 then fail .value
  else
    match (← mergeNext k dist srt lists (k + 10) 0 0 []) with
    | some res => pure res
    | none =>
      match (← nextChoices lists.length 1) with
      | [r] => match lists[r]? with
               | some (some l) => pure l
               | _ => fail .desync
      | _ => fail .desync

def enumFrom' {α : Type} : Nat → List α → List (Nat × α)
  | _, [] => []
  | i, a :: as => (i, a) :: enumFrom' (i + 1) as

/-- `PointWise.recombine` with `where = ALL`: every decision point is merged, so all the parent
dicts end up equal and `set(...)` leaves one child; `ps[p] = none` marks a parent that is inactive
or whose enclosing decision was overruled (`parent_dict[child_dp] = None`). -/
def mergeDna (sample : Bool) : Nat → GSpec → List (Option DNA) → M DNA
  | 0, _, _ => fail .fuel
  | f + 1, .space es, ps => do
    let ds ← forEachM (fun (je : Nat × GSpec) => mergeDna sample f je.2 (ps.map (elemAt je.1))) (enumFrom' 0 es)
    pure (.space ds)
  | _ + 1, .float _ _, ps => do
    let v ← pickOne sample (ps.map floatOf)
    pure (.float v)
  | f + 1, .choices k cands dist srt, ps => do
    let res ← if k == 1 then do
                let v ← pickOne sample (ps.map (fun p => (valuesOf p).bind (·.head?)))
                pure [v]
              else mergeMulti k dist srt (ps.map valuesOf)
    let ds ← forEachM (fun (iv : Nat × Nat) =>
                match cands[iv.2]? with
                | some c => mergeDna sample f c (ps.map (below iv.1 iv.2))
                | none => fail .desync) (enumFrom' 0 res)
    pure (.choices (mkSubs 0 res ds))

def recPointWise (sample : Bool) (fuel : Nat) (g : GSpec) : Op := fun pop => do
  if pop.isEmpty then pure []
  else if !popAligned pop then fail .unmodelled
  else
    let d ← mergeDna sample fuel g (pop.map (fun x => some x.dna))
    let d ← checked g d
    let c ← mkChild d
    pure [c]

/-! ### Segment-wise: KPoint and Segmented (recombinators.py:526-707) -/

/-- the independent units of a root DNA: an unconstrained multi-choice contributes its entries. -/
def unitsOf : List GSpec → List DNA → List DNA
  | .choices k _ dist srt :: es, .choices subs :: ds =>
      (if k > 1 && !dist && !srt then subs else [.choices subs]) ++ unitsOf es ds
  | _ :: es, d :: ds => d :: unitsOf es ds
  | _, _ => []

def ofUnits : List GSpec → List DNA → List DNA
  | .choices k _ dist srt :: es, us =>
      if k > 1 && !dist && !srt then .choices (us.take k) :: ofUnits es (us.drop k)
      else match us with
           | u :: rest => u :: ofUnits es rest
           | [] => []
  | _ :: es, u :: rest => u :: ofUnits es rest
  | _, _ => []

/-- `child[dp] = …` for `dp in points[start:cp]`, segment by segment (later writes win). -/
def assignSegs (len : Nat) : List Nat → Nat → Nat → List (Option Bool) → List (Option Bool)
  | [], _, _, acc => acc
  | cp :: rest, i, start, acc =>
      let acc' := (enumFrom' 0 acc).map (fun (ua : Nat × Option Bool) =>
        if start ≤ ua.1 ∧ ua.1 < cp ∧ ua.1 < len then some (i % 2 == 0) else ua.2)
      assignSegs len rest (i + 1) cp acc'

def zip3With {α β γ δ : Type} (f : α → β → γ → δ) : List α → List β → List γ → List δ
  | a :: as, b :: bs, c :: cs => f a b c :: zip3With f as bs cs
  | _, _, _ => []

def rootElems (g : GSpec) : List GSpec :=
  match g with
  | .space es => es
  | g => [g]

def rootDnas (g : GSpec) (d : DNA) : List DNA :=
  match g, d with
  | .space _, .space ds => ds
  | .space _, d => [d]
  | _, d => [d]

def rootOf (g : GSpec) (ds : List DNA) : DNA :=
  match g with
  | .space _ => .space ds
  | _ => ds.headD (.space [])

def segCross (g : GSpec) (cuts : List Nat) (x y : DNA) : M (DNA × DNA) := do
  let es := rootElems g
  let ux := unitsOf es (rootDnas g x)
  let uy := unitsOf es (rootDnas g y)
  let len := ux.length
  let asg := assignSegs len (cuts ++ [len]) 0 0 (List.replicate len none)
  if asg.any Option.isNone || uy.length != len then fail .value
  else
    let c1 := zip3With (fun a ux uy => if a == some true then ux else uy) asg ux uy
    let c2 := zip3With (fun a ux uy => if a == some true then uy else ux) asg ux uy
    let d1 ← checked g (rootOf g (ofUnits es c1))
    let d2 ← checked g (rootOf g (ofUnits es c2))
    pure (d1, d2)

def numUnits (g : GSpec) (d : DNA) : Nat := (unitsOf (rootElems g) (rootDnas g d)).length

def recSegment (g : GSpec) (cutsOf : Nat → M (List Nat)) : Op := fun pop => do
  match pop with
  | [x, y] =>
    if !popAligned pop then fail .unmodelled
    else
      let cuts ← cutsOf (numUnits g x.dna)
      let (d1, d2) ← segCross g cuts x.dna y.dna
      let c1 ← mkChild d1
      let c2 ← mkChild d2
      pure [c1, c2]
  | _ => fail .value                     -- Recombinator._on_input: NUM_PARENTS = 2

/-- `KPoint.cutting_indices` (recombinators.py:661-674). -/
def kpointCuts (k : Nat) (len : Nat) : M (List Nat) := do
  if len > k + 1 then
    let is ← nextSample (len - 1) k
    pure (sortNats (is.map (· + 1)))
  else pure ((List.range len).drop 1)

def recKPoint (g : GSpec) (k : Nat) : Op := recSegment g (kpointCuts k)

def recSegmented (g : GSpec) (cuts : List Nat) : Op := recSegment g (fun _ => pure cuts)

/-! ## Order of a `set` of DNA: `list(set(children))` (recombinators.py:252, 840) -/

def dedupDna : List DNA → List DNA → List DNA
  | [], acc => acc.reverse
  | d :: ds, acc => if acc.any (dnaEq d) then dedupDna ds acc else dedupDna ds (d :: acc)

/-- the recorded iteration order is used as far as it is a rearrangement of the model's own
deduplicated children; every output is one of the model's children whatever the oracle says. -/
def qnear (a b : Q) : Bool := decide ((a - b) * 1099511627776 ≤ 1 ∧ (b - a) * 1099511627776 ≤ 1)

mutual
  /-- `dnaEq` up to the rounding of float decisions (|a - b| ≤ 2^-40): the recorded children of a
  numeric recombinator carry rounded means, the model's own children the exact ones. -/
  def dnaNear : DNA → DNA → Bool
    | .space a, .space b => dnaNearAll a b
    | .choices a, .choices b => dnaNearAll a b
    | .sub _ v d, .sub _ w e => decide (v = w) && dnaNear d e
    | .float a, .float b => qnear a b
    | _, _ => false
  def dnaNearAll : List DNA → List DNA → Bool
    | [], [] => true
    | a :: as, b :: bs => dnaNear a b && dnaNearAll as bs
    | _, _ => false
end

def orderBy (mine : List DNA) (rec : List DNA) : List DNA :=
  let fromRec := rec.filterMap (fun r => mine.find? (dnaNear r))
  fromRec ++ mine.filter (fun m => !rec.any (dnaNear m))

def setOrder (children : List DNA) : M (List DNA) := do
  let mine := dedupDna children []
  if mine.length ≤ 1 then pure mine
  else
    let rec ← nextOrder
    if rec.length == mine.length && mine.all (fun m => rec.any (dnaNear m)) then
      pure (dedupDna (orderBy mine rec) [])
    else fail .desync

/-! ## The composition algebra (base.py:839-1480) -/

/-- `Slice`: an int index (Python semantics, negative allowed) or `start:stop:step` with
non-negative bounds and positive step. -/
inductive SliceSpec where
  | index (i : Int)
  | range (start : Option Nat) (stop : Option Nat) (step : Nat)

def everyNth {α : Type} (step : Nat) : List α → Nat → List α
  | [], _ => []
  | a :: as, 0 => a :: everyNth step as (step - 1)
  | _ :: as, n + 1 => everyNth step as n

/-- Python's index normalisation: negative indices count from the end. -/
def pyIndex (i : Int) (len : Nat) : Option Nat :=
  let j : Int := if i < 0 then i + len else i
  if j < 0 then none else some j.toNat

def applySlice (s : SliceSpec) (l : Pop) : M Pop :=
  match s with
  | .index i =>
    match (pyIndex i l.length).bind (fun n => l[n]?) with
    | some x => pure [x]
    | none => fail .index
  | .range start stop step =>
    let a := min (start.getD 0) l.length
    let b := min (stop.getD l.length) l.length
    pure (everyNth step ((l.take b).drop a) 0)

def hasUid (u : Nat) (l : Pop) : Bool := l.any (fun x => x.uid == u)
def countUid (u : Nat) (l : Pop) : Nat := (l.filter (fun x => x.uid == u)).length

def dedupUid : Pop → Pop → Pop
  | [], acc => acc.reverse
  | x :: xs, acc => if hasUid x.uid acc then dedupUid xs acc else dedupUid xs (x :: acc)

def popEq : Pop → Pop → Bool
  | [], [] => true
  | a :: as, b :: bs => (a.uid == b.uid || dnaEq a.dna b.dna) && popEq as bs
  | _, _ => false

def iterM (f : Pop → M Pop) : Nat → Pop → M Pop
  | 0, p => pure p
  | k + 1, p => do
    let q ← f p
    iterM f k q

def repeatM (f : Pop → M Pop) (p : Pop) : Nat → M Pop
  | 0 => pure []
  | k + 1 => do
    let x ← f p
    let rest ← repeatM f p k
    pure (x ++ rest)

/-- `UntilChange.call` with `max_attempts = n + 1` (base.py:878-889). -/
def untilM (f : Pop → M Pop) (p : Pop) : Nat → M Pop
  | 0 => f p
  | n + 1 => do
    let out ← f p
    if !popEq out p then pure out else untilM f p n

inductive OpExpr where
  | leaf (op : Op)
  | identity
  | seq (a b : OpExpr)
  | concat (a b : OpExpr)
  | union (a b : OpExpr)
  | inter (a b : OpExpr)
  | diff (a b : OpExpr)
  | symdiff (a b : OpExpr)
  | inversion (a : OpExpr)
  | slice (a : OpExpr) (s : SliceSpec)
  | repeat_ (a : OpExpr) (k : Nat)
  | power (a : OpExpr) (k : Nat)
  | choice (ops : List OpExpr) (probs : List Q) (limit : Option Nat)
  | cond (pred : Pop → Bool) (t f : OpExpr)
  | untilChange (a : OpExpr) (attempts : Nat)

mutual
  def eval : OpExpr → Pop → M Pop
    | .leaf op, p => op p
    | .identity, p => pure p
    | .seq a b, p => do
        let q ← eval a p
        eval b q
    | .concat a b, p => do
        let x ← eval a p
        let y ← eval b p
        pure (x ++ y)
    | .union a b, p => do
        let x ← eval a p
        let y ← eval b p
        pure (dedupUid (x ++ y) [])
    | .inter a b, p => do
        let y ← eval b p
        let x ← eval a p
        pure (x.filter (fun d => countUid d.uid y == 1))
    | .diff a b, p => do
        let y ← eval b p
        let x ← eval a p
        pure (x.filter (fun d => !hasUid d.uid y))
    | .symdiff a b, p => do
        let x ← eval a p
        let y ← eval b p
        pure ((x ++ y).filter (fun d => hasUid d.uid x != hasUid d.uid y))
    | .inversion a, p => do
        let y ← eval a p
        pure (p.filter (fun d => !hasUid d.uid y))
    | .slice a s, p => do
        let x ← eval a p
        applySlice s x
    | .repeat_ a k, p => repeatM (eval a) p k
    | .power a k, p => iterM (eval a) k p
    | .choice ops probs limit, p => evalChoice ops probs limit 0 p
    | .cond pred t f, p => if pred p then eval t p else eval f p
    | .untilChange a n, p => untilM (eval a) p n
  /-- `Choice.call` (base.py:934-946). -/
  def evalChoice : List OpExpr → List Q → Option Nat → Nat → Pop → M Pop
    | op :: ops, pr :: probs, limit, done, p => do
        let r ← nextRandom
        if qlt r pr then do
          let q ← eval op p
          if limit == some (done + 1) then pure q
          else evalChoice ops probs limit (done + 1) q
        else evalChoice ops probs limit done p
    | _, _, _, _, p => pure p
end

mutual
  def leaves : OpExpr → List Op
    | .leaf op => [op]
    | .identity => []
    | .seq a b | .concat a b | .union a b | .inter a b | .diff a b | .symdiff a b => leaves a ++ leaves b
    | .inversion a | .slice a _ | .repeat_ a _ | .power a _ | .untilChange a _ => leaves a
    | .choice ops _ _ => leavesAll ops
    | .cond _ t f => leaves t ++ leaves f
  def leavesAll : List OpExpr → List Op
    | [] => []
    | e :: es => leaves e ++ leavesAll es
end

end Pg.C14
