/-
  C20 — model of pyglove's HTML emission.

  (1) `escape`      = `Html.escape(str)` = `html.escape(s, quote=True)`  (views/html/base.py:351-382)
  (2) `element`     = `Html.element(tag, inner_html, options=, css_classes=, styles=, **properties)`
                      (views/html/base.py:297-348)
  (3) `parseHtml`   = a STRICT tokenizer / tree builder for the subset the library emits: elements
                      with double-quoted attribute values or bare options, text, nothing else. Any
                      stray `<`, unknown construct, unbalanced or mis-nested tag gives `none`.
  (4) `renderTree`  = `HtmlTreeView.render` (views/html/tree_view.py) reduced to its skeleton:
                      details / summary / div / span / table nesting and the places where names,
                      keys, titles, leaf reprs, tooltips and css classes are put, with ONE BOOLEAN
                      PER EMISSION SITE (`Sites`, filled in from the source by T-ESC) saying whether
                      the user string passes through `Html.escape` there.

  Strings are `List Char`. No Mathlib, no `import Lean`.
-/
namespace Pg.C20

abbrev Str := List Char

/- `c!"abc"` = the list of the characters a, b, c (expanded at elaboration time; no `String` in the model). -/
open Lean in
macro:max "c!" s:str : term => do
  let cs := s.getString.toList
  let elems : Array (TSyntax `term) := (cs.map fun c => (Syntax.mkCharLit c : TSyntax `term)).toArray
  `(([$elems,*] : List Char))

/-! ### (1) escape / unescape -/

/-- `html.escape`: `&` first, then `<`, `>`, and (only with `quote=True`) `"` and `'`. Because the
replacement texts of the later steps contain none of the earlier characters except `&`, which is
replaced first, the sequential `str.replace` chain equals this character-wise substitution. -/
def escapeChar (quote : Bool) (c : Char) : Str :=
  if c = '&' then c!"&amp;"
  else if c = '<' then c!"&lt;"
  else if c = '>' then c!"&gt;"
  else if c = '"' then (if quote then c!"&quot;" else [c])
  else if c = '\'' then (if quote then c!"&#x27;" else [c])
  else [c]

def escapeQ (quote : Bool) : Str → Str
  | [] => []
  | c :: s => escapeChar quote c ++ escapeQ quote s

/-- `Html.escape(s)` for a `str` (quote=True is the default of `html.escape`). -/
def escape (s : Str) : Str := escapeQ true s

/-- Decoding of exactly the five references `escape` produces (everything else is left alone). -/
def unescape : Str → Str
  | [] => []
  | '&' :: 'a' :: 'm' :: 'p' :: ';' :: r => '&' :: unescape r
  | '&' :: 'l' :: 't' :: ';' :: r => '<' :: unescape r
  | '&' :: 'g' :: 't' :: ';' :: r => '>' :: unescape r
  | '&' :: 'q' :: 'u' :: 'o' :: 't' :: ';' :: r => '"' :: unescape r
  | '&' :: '#' :: 'x' :: '2' :: '7' :: ';' :: r => '\'' :: unescape r
  | c :: r => c :: unescape r

/-- The five character references, without the leading `&`. -/
def refTails : List Str :=
  [c!"amp;", c!"lt;", c!"gt;", c!"quot;",
   c!"#x27;"]

def isPrefix : Str → Str → Bool
  | [], _ => true
  | _ :: _, [] => false
  | a :: as, b :: bs => a == b && isPrefix as bs

/-- Every `&` of the string starts one of the five references. -/
def ampOk : Str → Bool
  | [] => true
  | c :: r => (if c == '&' then refTails.any (fun t => isPrefix t r) else true) && ampOk r

/-! ### (2) elements -/

structure Attr where
  name : Str
  value : Option Str
  deriving DecidableEq, Repr

inductive HNode where
  | text (s : Str)
  | elem (tag : Str) (attrs : List Attr) (children : List HNode)
  deriving Repr

def attrStr : Attr → Str
  | ⟨n, none⟩ => ' ' :: n
  | ⟨n, some v⟩ => ' ' :: n ++ '=' :: '"' :: v ++ ['"']

def attrsStr : List Attr → Str
  | [] => []
  | a :: as => attrStr a ++ attrsStr as

def openTag (tag : Str) (attrs : List Attr) : Str := '<' :: tag ++ attrsStr attrs ++ ['>']
def closeTag (tag : Str) : Str := '<' :: '/' :: tag ++ ['>']

def concatStrs : List Str → Str
  | [] => []
  | s :: ss => s ++ concatStrs ss

/-- `dict.fromkeys(items)`: first occurrences, in order. -/
def dedup : List Str → List Str
  | [] => []
  | s :: ss => s :: (dedup ss).filter (fun t => t != s)

def joinSp : List Str → Str
  | [] => []
  | [s] => s
  | s :: ss => s ++ ' ' :: joinSp ss

/-- `k.replace('_', '-')`. -/
def dashed (s : Str) : Str := s.map (fun c => if c == '_' then '-' else c)

/-- `Html.style_str(dict)`: `k:v;` for every non-None value. -/
def styleStr : List (Str × Option Str) → Str
  | [] => []
  | (_, none) :: r => styleStr r
  | (k, some v) :: r => dashed k ++ ':' :: v ++ ';' :: styleStr r

def propAttrs : List (Str × Option Str) → List Attr
  | [] => []
  | (_, none) :: r => propAttrs r
  | (k, some v) :: r => ⟨dashed k, some v⟩ :: propAttrs r

def optAttr (name : Str) (v : Str) : List Attr := if v.isEmpty then [] else [⟨name, some v⟩]

/-- The attribute list `Html.element` writes: options (bare words), `class`, `style`, then the
keyword properties. `options` / `cssClasses` are the flattened non-None items (`Html.concate`
de-duplicates them and joins with a blank; an empty result suppresses the attribute). -/
def elementAttrs (options cssClasses : List Str) (styles props : List (Str × Option Str)) : List Attr :=
  (let o := joinSp (dedup options); if o.isEmpty then [] else [⟨o, none⟩])
  ++ optAttr c!"class" (joinSp (dedup cssClasses))
  ++ optAttr c!"style" (styleStr styles)
  ++ propAttrs props

/-- `Html.element(...)` with already-rendered children. -/
def element (tag : Str) (options cssClasses : List Str) (styles props : List (Str × Option Str))
    (children : List Str) : Str :=
  openTag tag (elementAttrs options cssClasses styles props) ++ concatStrs children ++ closeTag tag

mutual
  def printNode : HNode → Str
    | .text s => s
    | .elem tag attrs cs => openTag tag attrs ++ printNodes cs ++ closeTag tag
  def printNodes : List HNode → Str
    | [] => []
    | n :: ns => printNode n ++ printNodes ns
end

/-! ### (3) strict parser -/

inductive Tok where
  | text (s : Str)
  | open (tag : Str) (attrs : List Attr)
  | close (tag : Str)
  deriving Repr

def isNameChar (c : Char) : Bool :=
  ('a' ≤ c && c ≤ 'z') || ('A' ≤ c && c ≤ 'Z') || ('0' ≤ c && c ≤ '9') || c == '-'

def isAlpha (c : Char) : Bool := ('a' ≤ c && c ≤ 'z') || ('A' ≤ c && c ≤ 'Z')

/-- Tag and attribute names: a letter followed by letters, digits, `-`. -/
def validName : Str → Bool
  | [] => false
  | c :: r => isAlpha c && r.all isNameChar

/-- Longest prefix satisfying `p`, and the rest. -/
def spanP (p : Char → Bool) : Str → Str × Str
  | [] => ([], [])
  | c :: r => if p c then let (a, b) := spanP p r; (c :: a, b) else ([], c :: r)

/-- Characters allowed inside a double-quoted attribute value. -/
def isValueChar (c : Char) : Bool := c != '"' && c != '<'

/-- One attribute, from an input that starts with a blank: ` name` or ` name="value"`. -/
def scanAttr : Str → Option (Attr × Str)
  | [] => none
  | b :: r =>
    if b ≠ ' ' then none else
    let n := (spanP isNameChar r).1
    let r1 := (spanP isNameChar r).2
    if !validName n then none else
    match r1 with
    | [] => some (⟨n, none⟩, r1)
    | e :: r2 =>
      if e ≠ '=' then some (⟨n, none⟩, r1) else
      match r2 with
      | [] => none
      | q :: r3 =>
        if q ≠ '"' then none else
        let v := (spanP isValueChar r3).1
        match (spanP isValueChar r3).2 with
        | [] => none
        | q' :: r5 => if q' ≠ '"' then none else some (⟨n, some v⟩, r5)

/-- Attributes up to and including the closing `>`; nothing else is allowed inside a tag. -/
def lexAttrs : Nat → Str → Option (List Attr × Str)
  | 0, _ => none
  | _ + 1, [] => none
  | f + 1, c :: r =>
    if c = '>' then some ([], r) else
    match scanAttr (c :: r) with
    | none => none
    | some (a, r') => (lexAttrs f r').map (fun (as, rr) => (a :: as, rr))

/-- One token from a non-empty input. Text is a maximal run of characters other than `<`; a `<`
must start `</name>` or `<name attrs>`. -/
def scanTok : Str → Option (Tok × Str)
  | [] => none
  | c :: r =>
    if c ≠ '<' then
      some (.text (spanP (fun c => c != '<') (c :: r)).1, (spanP (fun c => c != '<') (c :: r)).2)
    else
      match r with
      | [] => none
      | d :: r' =>
        if d = '/' then
          let n := (spanP isNameChar r').1
          if !validName n then none else
          match (spanP isNameChar r').2 with
          | [] => none
          | g :: r2 => if g ≠ '>' then none else some (.close n, r2)
        else
          let n := (spanP isNameChar (d :: r')).1
          let r1 := (spanP isNameChar (d :: r')).2
          if !validName n then none else
          (lexAttrs (r1.length + 1) r1).map (fun (as, r2) => (.open n as, r2))

/-- The tokenizer; `fuel` bounds the number of tokens (`lex` passes the input length + 1). -/
def lexF : Nat → Str → Option (List Tok)
  | 0, _ => none
  | _ + 1, [] => some []
  | f + 1, c :: r =>
    match scanTok (c :: r) with
    | none => none
    | some (t, r1) => (lexF f r1).map (fun ts => t :: ts)

def lex (s : Str) : Option (List Tok) := lexF (s.length + 1) s

/-- Tree builder over a stack of open elements; a closing tag must name the innermost open
element; at the end nothing may be open. -/
def build : List Tok → List (Str × List Attr × List HNode) → List HNode → Option (List HNode)
  | [], [], acc => some acc.reverse
  | [], _ :: _, _ => none
  | .text s :: ts, stk, acc => build ts stk (.text s :: acc)
  | .open tag attrs :: ts, stk, acc => build ts ((tag, attrs, acc) :: stk) []
  | .close _ :: _, [], _ => none
  | .close tag :: ts, (tag', attrs, acc') :: stk, acc =>
    if tag = tag' then build ts stk (.elem tag attrs acc.reverse :: acc') else none

def parseHtml (s : Str) : Option (List HNode) := (lex s).bind (fun ts => build ts [] [])

mutual
  /-- Tags of all elements of a document. -/
  def tagsOf : HNode → List Str
    | .text _ => []
    | .elem t _ cs => t :: tagsOfAll cs
  def tagsOfAll : List HNode → List Str
    | [] => []
    | n :: ns => tagsOf n ++ tagsOfAll ns
end

mutual
  /-- All attribute names of a document. -/
  def attrNamesOf : HNode → List Str
    | .text _ => []
    | .elem _ as cs => as.map (·.name) ++ attrNamesOfAll cs
  def attrNamesOfAll : List HNode → List Str
    | [] => []
    | n :: ns => attrNamesOf n ++ attrNamesOfAll ns
end

mutual
  /-- The text nodes of a document (still escaped), in document order. -/
  def textsOf : HNode → List Str
    | .text s => [s]
    | .elem _ _ cs => textsOfAll cs
  def textsOfAll : List HNode → List Str
    | [] => []
    | n :: ns => textsOf n ++ textsOfAll ns
end

/-! ### specification vocabulary -/

/-- The element names the tree view emits. -/
def libraryTags : List Str :=
  [c!"details", c!"summary", c!"div", c!"span", c!"table", c!"tr", c!"td"]

/-- The attribute names the tree view emits. -/
def libraryAttrs : List Str := [c!"open", c!"class", c!"style"]

/-! ### (4) the tree view skeleton -/

/-- One Boolean per emission site of user-derived text in tree_view.py: does the string pass
through `Html.escape` before it is written? (Generated by T-ESC: `PgGen/C20Sites.lean`.) -/
structure Sites where
  summaryName : Bool      -- `name` in div.summary-name                 (tree_view.py `summary`)
  objectKey : Bool        -- `str(root_path.key)` in span.object-key    (`object_key`)
  simpleValue : Bool      -- `value_repr` in span.simple-value          (`simple_value`)
  tooltipContent : Bool   -- `utils.format(value…)` in span.tooltip     (`tooltip`)
  deriving DecidableEq, Repr

def Sites.allEscaped (s : Sites) : Bool :=
  s.summaryName && s.objectKey && s.simpleValue && s.tooltipContent

def emit (escaped : Bool) (s : Str) : Str := if escaped then escape s else s

inductive Key where
  | s (k : Str)
  | i (n : Int)
  deriving DecidableEq, Repr

def digitsAux : Nat → Nat → Str → Str
  | 0, _, acc => acc
  | f + 1, n, acc =>
    let acc' := Char.ofNat (48 + n % 10) :: acc
    if n < 10 then acc' else digitsAux f (n / 10) acc'

/-- Decimal digits of a natural number (`str(n)`). -/
def strOfNat (n : Nat) : Str := digitsAux (n + 1) n []

/-- `str(key)`. -/
def Key.text : Key → Str
  | .s k => k
  | .i n => if n < 0 then '-' :: strOfNat n.natAbs else strOfNat n.natAbs

/-- The `name` handed to `summary`: `f'[{name}]' if isinstance(name, int) else name`. -/
def Key.summaryName : Key → Str
  | .s k => k
  | .i n => '[' :: (Key.i n).text ++ [']']

/-- `type(key).__name__`. -/
def Key.typeName : Key → Str
  | .s _ => c!"str"
  | .i _ => c!"int"

inductive LeafKind where
  | str | int | float | bool | none
  /-- an instance of an int / float subclass (enum.IntEnum member, a quantity type, …): still a
  "simple" value for the view; class name and `camel_to_snake` of it are inputs -/
  | num (className cssName : Str)
  /-- any other non-container object: rendered through `utils.format` like a leaf, but not "simple" -/
  | other (className cssName : Str)
  deriving DecidableEq, Repr

inductive NodeKind where
  | dict | list | tuple | symDict | symList
  | obj (className cssName : Str)      -- a pg.Object subclass: `Foo`, `camel_to_snake('Foo', '-')`
  deriving DecidableEq, Repr

/-- A value as the tree view sees it. Every node carries its own key (ignored at the root) and the
strings that `utils.format` produces for it: `ptip` for its key path (key tooltip), `tip` for the
value (summary tooltip); a leaf carries `repr` (what `value_repr` shows for short strings and all
non-strings) and, for strings, `raw` (shown instead when `len(value) >= max_summary_len_for_str`).
These strings are *inputs* of the model: arbitrary, possibly hostile. -/
inductive Tree where
  | leaf (key : Key) (ptip : Str) (kind : LeafKind) (repr raw tip : Str)
  | node (key : Key) (ptip : Str) (kind : NodeKind) (tip : Str) (children : List Tree)
  deriving Repr

def Tree.key : Tree → Key
  | .leaf k .. => k
  | .node k .. => k

def Tree.ptip : Tree → Str
  | .leaf _ p .. => p
  | .node _ p .. => p

def Tree.tip : Tree → Str
  | .leaf _ _ _ _ _ t => t
  | .node _ _ _ t _ => t

def Tree.isLeaf : Tree → Bool
  | .leaf .. => true
  | .node .. => false

/-- `isinstance(value, (bool, int, float, str, type(None)))`. -/
def Tree.isSimple : Tree → Bool
  | .leaf _ _ (.other ..) .. => false
  | .leaf .. => true
  | .node .. => false

def Tree.isStr : Tree → Bool
  | .leaf _ _ .str .. => true
  | _ => false

inductive KeyStyle where
  | summary | label
  deriving DecidableEq, Repr

/-- A node filter (`Callable[[KeyPath, value, parent], bool]`) as data: what the harness can
describe and both sides can evaluate from the path alone. -/
inductive Pred where
  | all
  | paths (ps : List (List Key))
  | depth (n : Nat)
  | neg (p : Pred)
  | or (p q : Pred)
  deriving Repr

def Pred.eval : Pred → List Key → Bool
  | .all, _ => true
  | .paths ps, path => ps.contains path
  | .depth n, path => path.length == n
  | .neg p, path => !p.eval path
  | .or p q, path => p.eval path || q.eval path

/-- The rendering arguments that are inherited by child nodes (`inherited_kwargs`). -/
structure Ctx where
  enableSummary : Option Bool := none
  enableSummaryForStr : Bool := true
  maxSummaryLenForStr : Int := 80
  enableSummaryTooltip : Bool := true
  enableKeyTooltip : Bool := true
  keyStyle : KeyStyle := .summary
  collapseLevel : Option Int := some 1
  uncollapse : List (List Key) := []
  keyColor : Option (Option Str × Option Str) := none   -- (color, background-color) of label keys
  highlight : List (List Key) := []      -- node filter `highlight`, as the set of paths it accepts
  lowlight : List (List Key) := []
  includeP : Option Pred := none        -- callable `include_keys` (inherited by every level)
  excludeP : Option Pred := none        -- callable `exclude_keys`
  keyStyleP : Option Pred := none       -- callable `key_style`: 'label' where the filter accepts
  uncollapseP : Option Pred := none     -- callable `uncollapse`
  hideP : Option Pred := none           -- custom `render_value_fn` that returns None where it accepts
  deriving Repr

/-- Arguments that act on the root only: option-level markup, written as given (NOT escaped:
`title` is markup by contract, css classes and colours are attribute text chosen by the caller). -/
structure Top where
  title : Option Str := none
  cssClasses : List Str := []
  summaryColor : Option (Option Str × Option Str) := none
  deriving Repr

/-- Arguments of `pg.to_html_str(value, **opts)`; `name`, `includeKeys`, `excludeKeys` act on the
root only (non-callable include/exclude lists are not inherited). -/
structure Opts extends Ctx where
  name : Option Key := none
  includeKeys : Option (List Key) := none
  excludeKeys : Option (List Key) := none
  top : Top := {}
  deriving Repr

def LeafKind.cssName : LeafKind → Str
  | .str => c!"str" | .int => c!"int" | .float => c!"float"
  | .bool => c!"bool" | .none => c!"none-type"
  | .num _ css => css | .other _ css => css

def dots : Str := c!"(...)"

/-- `make_title(value)`. -/
def LeafKind.title : LeafKind → Str
  | .str => c!"str" | .int => c!"int" | .float => c!"float"
  | .bool => c!"bool" | .none => c!"NoneType" ++ dots
  | .num n _ => n | .other n _ => n ++ dots

def NodeKind.cssName : NodeKind → Str
  | .dict | .symDict => c!"dict"
  | .list | .symList => c!"list"
  | .tuple => c!"tuple"
  | .obj _ css => css

def NodeKind.title : NodeKind → Str
  | .dict => c!"dict" ++ dots
  | .symDict => c!"Dict" ++ dots
  | .list => c!"list" ++ dots
  | .symList => c!"List" ++ dots
  | .tuple => c!"tuple" ++ dots
  | .obj n _ => n ++ dots

/-- `isinstance(parent, (tuple, list))` (a `pg.List` is a `list`). -/
def NodeKind.isSeq : NodeKind → Bool
  | .list | .tuple | .symList => true
  | _ => false

def Tree.cssName : Tree → Str
  | .leaf _ _ k .. => k.cssName
  | .node _ _ k .. => k.cssName

def Tree.title : Tree → Str
  | .leaf _ _ k .. => k.title
  | .node _ _ k .. => k.title

/-- `needs_summary` (tree_view.py:482-520); `named` = a name or a title was given. -/
def needsSummary (c : Ctx) (named : Bool) (t : Tree) : Bool :=
  match c.enableSummary with
  | some b => b
  | none =>
    if !c.enableSummaryForStr && t.isStr then false
    else match t with
      | .leaf _ _ .str _ raw _ => named || decide ((raw.length : Int) > c.maxSummaryLenForStr)
      | .leaf _ _ (.other ..) .. => true
      | .leaf .. => named
      | .node .. => true

def isPrefixKeys : List Key → List Key → Bool
  | [], _ => true
  | _ :: _, [] => false
  | a :: as, b :: bs => decide (a = b) && isPrefixKeys as bs

/-- `root_path in KeyPathSet.from_value(uncollapse, include_intermediate=True)`. -/
def inUncollapse (path : List Key) (u : List (List Key)) : Bool := u.any (isPrefixKeys path)

/-- `should_collapse` (tree_view.py:445-480), for a non-callable `uncollapse`. -/
def shouldCollapse (c : Ctx) (named : Bool) (path : List Key) (t : Tree) : Bool :=
  match c.collapseLevel with
  | none => false
  | some l =>
    if l > 0 then false
    else match c.uncollapseP with
      | some q => !q.eval path
      | none =>
        if inUncollapse path c.uncollapse then false
        else if named && t.isSimple then false
        else true

/-- Is the child at `path` displayed (callable include / exclude filters)? -/
def childShown (c : Ctx) (path : List Key) : Bool :=
  (match c.includeP with | some q => q.eval path | none => true)
  && !(match c.excludeP with | some q => q.eval path | none => false)

/-- Is the key of the child at `path` rendered as a label (table row) rather than in its summary? -/
def childLabel (c : Ctx) (seq : Bool) (path : List Key) : Bool :=
  seq || (match c.keyStyleP with | some q => q.eval path | none => c.keyStyle == .label)

/-- Does the custom child renderer return nothing for the child at `path`? -/
def childHidden (c : Ctx) (path : List Key) : Bool :=
  match c.hideP with | some q => q.eval path | none => false

/-- Does any child pass `f`? (`has_child` / `if label_keys:`) -/
def anyChild (f : List Key → Bool) (path : List Key) : List Tree → Bool
  | [] => false
  | t :: ts => f (path ++ [t.key]) || anyChild f path ts

/-- `styles=dict(color=c[0], background_color=c[1])` after `get_color`. -/
def colorStyles (c : Option (Option Str × Option Str)) : List (Str × Option Str) :=
  match c with
  | none => [(c!"color", none), (c!"background_color", none)]
  | some (a, b) => [(c!"color", a), (c!"background_color", b)]

/-- `HtmlTreeView.tooltip` (content=None): the formatted text, escaped, in span.tooltip. -/
def tooltipEl (st : Sites) (css : List Str) (text : Str) : Str :=
  element c!"span" [] (c!"tooltip" :: css) [] []
    [emit st.tooltipContent text]

/-- `title or make_title(value)`. -/
def titleText (top : Top) (t : Tree) : Str :=
  match top.title with
  | some s => if s.isEmpty then t.title else s
  | none => t.title

/-- `HtmlTreeView.summary` once `needs_summary` said yes. `name`: the display name, if any. -/
def summaryEl (st : Sites) (c : Ctx) (top : Top) (name : Option Str) (t : Tree) : Str :=
  element c!"summary" [] [] [] []
    [ (match name with
       | some n =>
         element c!"div" [] (c!"summary-name" :: top.cssClasses) (colorStyles top.summaryColor) []
           [emit st.summaryName n, if c.enableKeyTooltip then tooltipEl st top.cssClasses t.ptip else []]
       | none => []),
      element c!"div" [] (c!"summary-title" :: top.cssClasses) [] [] [titleText top t],
      if c.enableSummaryTooltip then tooltipEl st top.cssClasses t.tip else [] ]

/-- `HtmlTreeView.object_key`: the label-style key cell. -/
def objectKeyEl (st : Sites) (c : Ctx) (t : Tree) : Str :=
  element c!"span" [] [c!"object-key", t.key.typeName] (colorStyles c.keyColor) []
    [emit st.objectKey t.key.text]
  ++ (if c.enableKeyTooltip then tooltipEl st [] t.ptip else [])

/-- What `value_repr` returns for a leaf. -/
def leafText (c : Ctx) : Tree → Str
  | .leaf _ _ .str repr raw _ => if (raw.length : Int) < c.maxSummaryLenForStr then repr else raw
  | .leaf _ _ _ repr _ _ => repr
  | .node .. => []

def simpleValueEl (st : Sites) (c : Ctx) (css : List Str) (t : Tree) : Str :=
  element c!"span" [] (c!"simple-value" :: t.cssName :: css) [] []
    [emit st.simpleValue (leafText c t)]

def childCtx (c : Ctx) : Ctx := { c with collapseLevel := c.collapseLevel.map (· - 1) }

def tdOpen : Str := c!"<td>"
def tdClose : Str := c!"</td>"

def emptySpan : Str := element c!"span" [] [c!"empty-container"] [] [] []

/-- Does the root get a summary? (`name` or `title` given counts as named.) -/
def hasSummary (c : Ctx) (top : Top) (name : Option Str) (t : Tree) : Bool :=
  needsSummary c (name.isSome || top.title.isSome) t

/-- css classes go to the content only when there is no summary (`_render`). -/
def contentCss (c : Ctx) (top : Top) (name : Option Str) (t : Tree) : List Str :=
  if hasSummary c top name t then [] else top.cssClasses

/-- The `<details>` wrapper of `_render`. -/
def detailsEl (st : Sites) (c : Ctx) (top : Top) (name : Option Str) (path : List Key) (t : Tree)
    (content : Str) : Str :=
  if hasSummary c top name t then
    element c!"details"
      [if shouldCollapse c name.isSome path t then [] else c!"open"]
      (c!"pyglove" :: t.cssName :: top.cssClasses) [] [] [summaryEl st c top name t, content]
  else content

/-- The `div.complex-value` wrapper of `complex_value`. -/
def complexEl (kind : NodeKind) (css : List Str) (body : Str) : Str :=
  element c!"div" [] (c!"complex-value" :: kind.cssName :: css) [] [] [body]

def rowEl (keyCell valueCell : Str) : Str :=
  element c!"tr" [] [] [] [] [tdOpen, keyCell, tdClose, tdOpen, valueCell, tdClose]

/-- The css classes of the highlight / lowlight wrapper for the child at `path` (empty: no wrapper). -/
def hlClasses (c : Ctx) (path : List Key) : List Str :=
  (if c.highlight.contains path then [c!"highlight"] else [])
  ++ (if c.lowlight.contains path then [c!"lowlight"] else [])

/-- `render_child_value`: ONE `div` around the child when `highlight` and/or `lowlight` accept it. -/
def wrapHL (c : Ctx) (path : List Key) (html : Str) : Str :=
  if (hlClasses c path).isEmpty then html
  else element c!"div" [] (hlClasses c path) [] [] [html]

/-- Is anything written for the value of the child at `path`? Nothing, when the custom renderer
returns None and no highlight / lowlight wrapper applies (a wrapper is written even around nothing). -/
def childVisible (c : Ctx) (path : List Key) : Bool :=
  !childHidden c path || !(hlClasses c path).isEmpty

/-- `has_child` of `complex_value`: a summary-style child was processed, or a label-style row was
actually written. -/
def hasChild (c : Ctx) (seq : Bool) (path : List Key) (children : List Tree) : Bool :=
  anyChild (fun q => childShown c q && !childLabel c seq q) path children
  || anyChild (fun q => childShown c q && childLabel c seq q && childVisible c q) path children

/-- What `render_child_value` writes for the child at `path`, given the child's own rendering: the
highlight / lowlight wrapper around it, or around nothing when the custom renderer returned None. -/
def childValue (c : Ctx) (path : List Key) (rendered : Str) : Str :=
  wrapHL c path (if childHidden c path then [] else rendered)

mutual
  /-- `HtmlTreeView.render` (`_render`, tree_view.py:196-443; debug off): optional `<details>`
  with summary around the content, which is `simple_value` for a leaf and `complex_value`
  (tree_view.py:982-1232) for a container: first the displayed children with summary-style keys,
  then ONE table with a row per displayed child with a label-style key (always for sequences)
  whose value cell is not None, then the empty-container marker if nothing was written. -/
  def render (st : Sites) (c : Ctx) (top : Top) (name : Option Str) (path : List Key) : Tree → Str
    | .leaf k p kind repr raw tip =>
      detailsEl st c top name path (.leaf k p kind repr raw tip)
        (simpleValueEl st c (contentCss c top name (.leaf k p kind repr raw tip))
          (.leaf k p kind repr raw tip))
    | .node k p kind tip children =>
      detailsEl st c top name path (.node k p kind tip children)
        (complexEl kind (contentCss c top name (.node k p kind tip children))
          (summaryChildren st c kind.isSeq path children
           ++ (if anyChild (fun q => childShown c q && childLabel c kind.isSeq q) path children then
                 c!"<table>" ++ rows st c kind.isSeq path children ++ c!"</table>"
               else [])
           ++ (if hasChild c kind.isSeq path children then [] else emptySpan)))

  /-- the displayed children whose key is summary-style, in order -/
  def summaryChildren (st : Sites) (c : Ctx) (seq : Bool) (path : List Key) : List Tree → Str
    | [] => []
    | t :: ts =>
      (if childShown c (path ++ [t.key]) && !childLabel c seq (path ++ [t.key]) then
         childValue c (path ++ [t.key])
           (render st (childCtx c) {} (some t.key.summaryName) (path ++ [t.key]) t)
       else [])
      ++ summaryChildren st c seq path ts

  /-- the displayed children whose key is label-style and whose value cell is not None, as rows -/
  def rows (st : Sites) (c : Ctx) (seq : Bool) (path : List Key) : List Tree → Str
    | [] => []
    | t :: ts =>
      (if childShown c (path ++ [t.key]) && childLabel c seq (path ++ [t.key])
            && childVisible c (path ++ [t.key]) then
         rowEl (objectKeyEl st (childCtx c) t)
           (childValue c (path ++ [t.key]) (render st (childCtx c) {} none (path ++ [t.key]) t))
       else [])
      ++ rows st c seq path ts
end

/-- The immediate children of the root that are displayed: `include_keys` (in the order given,
repetitions kept, unknown keys dropped), then `exclude_keys`. -/
def selectChildren (inc exc : Option (List Key)) (children : List Tree) : List Tree :=
  let a := match inc with
    | none => children
    | some ks => ks.filterMap (fun k => children.find? (fun t => decide (t.key = k)))
  match exc with
  | none => a
  | some ks => a.filter (fun t => !ks.contains t.key)

/-- The tree that is actually rendered (root-level key filter applied). -/
def displayed (o : Opts) : Tree → Tree
  | .node k p kind tip children => .node k p kind tip (selectChildren o.includeKeys o.excludeKeys children)
  | t => t

/-- `pg.to_html_str(value, content_only=True, **opts)`. -/
def renderTree (st : Sites) (o : Opts) (v : Tree) : Str :=
  render st o.toCtx o.top (o.name.map Key.summaryName) [] (displayed o v)

/-! ### (5) the controls (views/html/controls/{label,tooltip,progress_bar,tab}.py)

Element ids (`HtmlControl.element_id`: the given id, or `control-<address>` for interactive
controls), the formatted progress texts and `camel_to_snake(name)` are inputs of the model. -/

/-- One Boolean per emission site of user-derived text in the controls (from T-ESC). -/
structure CSites where
  labelText : Bool          -- `Label.text` (str) in span.label / a.label
  tooltipContent : Bool     -- `Tooltip.content` (str) in span.tooltip
  subProgressClass : Bool   -- `camel_to_snake(SubProgress.name)` in the class attribute
  deriving DecidableEq, Repr

def CSites.allEscaped (s : CSites) : Bool := s.labelText && s.tooltipContent && s.subProgressClass

/-- `Tooltip._to_html` for a str content. -/
def tooltipCtl (cs : CSites) (content : Str) (id : Option Str) (css : List Str)
    (styles : List (Str × Option Str)) : Str :=
  element c!"span" [] (c!"tooltip" :: css) styles [(c!"id", id)] [emit cs.tooltipContent content]

structure LabelM where
  text : Str
  tooltip : Option Str := none      -- a str tooltip (converted to a Tooltip control)
  link : Option Str := none
  target : Option Str := none
  id : Option Str := none
  tipId : Option Str := none
  css : List Str := []
  styles : List (Str × Option Str) := []
  deriving Repr

/-- `Label._to_html` for a str text. -/
def labelCtl (cs : CSites) (l : LabelM) : Str :=
  let textElem :=
    element (if l.link.isSome then c!"a" else c!"span") [] (c!"label" :: l.css) l.styles
      [(c!"id", l.id), (c!"href", l.link), (c!"target", l.target)] [emit cs.labelText l.text]
  match l.tooltip with
  | none => textElem
  | some t =>
    element c!"div" [] [c!"label-container"] [] [] [textElem, tooltipCtl cs t l.tipId [] []]

structure SubM where
  cssName : Str              -- camel_to_snake(name, '-')
  width : Option Str         -- f'{value / total:.0%}' or None
  id : Option Str
  css : List Str := []
  deriving Repr

/-- `SubProgress._to_html`. -/
def subProgressCtl (cs : CSites) (sp : SubM) : Str :=
  element c!"div" [] (c!"sub-progress" :: emit cs.subProgressClass sp.cssName :: sp.css)
    [(c!"width", sp.width)] [(c!"id", sp.id)] []

def concatMap {α : Type} (f : α → Str) : List α → Str
  | [] => []
  | x :: xs => f x ++ concatMap f xs

/-- `ProgressBar._to_html`: the shade with the sub-progress bars, then the progress label. -/
def progressBarCtl (cs : CSites) (subs : List SubM) (label : LabelM) : Str :=
  element c!"div" [] [c!"progress-bar"] [] []
    [element c!"div" [] [c!"shade"] [] [] [concatMap (subProgressCtl cs) subs], labelCtl cs label]

structure TabM where
  label : LabelM
  content : Str            -- the tab's Html content, already rendered markup
  css : List Str := []
  id : Option Str          -- element_id(str(i))
  deriving Repr

def tabButtons (cs : CSites) (ctlId : Str) (selected : Nat) : Nat → List TabM → Str
  | _, [] => []
  | i, t :: ts =>
    element c!"button" []
      (c!"tab-button" :: ((if i == selected then [c!"selected"] else []) ++ t.css)) []
      [(c!"onclick", some (c!"openTab(event, '" ++ ctlId ++ c!"', '" ++ t.id.getD c!"None" ++ c!"')"))]
      [labelCtl cs t.label]
    ++ tabButtons cs ctlId selected (i + 1) ts

def tabContents (selected : Nat) : Nat → List TabM → Str
  | _, [] => []
  | i, t :: ts =>
    element c!"div" []
      (c!"tab-content" :: ((if i == selected then [c!"selected"] else []) ++ t.css)) []
      [(c!"id", t.id)] [t.content]
    ++ tabContents selected (i + 1) ts

/-- `TabControl._to_html`. -/
def tabCtl (cs : CSites) (ctlId : Str) (bgId cgId : Option Str) (left : Bool) (selected : Nat)
    (css : List Str) (styles : List (Str × Option Str)) (tabs : List TabM) : Str :=
  let pos := if left then c!"left" else c!"top"
  element c!"table" [] [c!"tab-control"] styles []
    [ c!"<tr><td>",
      element c!"div" [] (c!"tab-button-group" :: pos :: css) [] [(c!"id", bgId)]
        [tabButtons cs ctlId selected 0 tabs],
      (if left then c!"</td><td>" else c!"</td></tr><tr><td>"),
      element c!"div" [] (c!"tab-content-group" :: pos :: css) [] [(c!"id", cgId)]
        [tabContents selected 0 tabs],
      c!"</td></tr>" ]

/-! ### (6) text inside JavaScript string literals (`Html.escape(s, javascript_str=True)`)

Interactive controls update an already rendered page by running scripts such as
`elem.textContent = "<text>";` (views/html/controls/base.py `_update_text`, `_update_inner_html`,
`_insert_adjacent_html`, `_add_css_rules`). -/

def chCR : Char := Char.ofNat 13
def chLF : Char := Char.ofNat 10
def chTAB : Char := Char.ofNat 9

/-- `Html.escape(s, javascript_str=True)` (views/html/base.py:365-373): backslash FIRST, then `"`,
CR, LF, TAB. These five characters are all the code covers; every other character (also `'`,
`<`, `/`, NUL, U+2028, U+2029) is written as it is. -/
def jsEscapeChar (c : Char) : Str :=
  if c = '\\' then ['\\', '\\']
  else if c = '"' then ['\\', '"']
  else if c = chCR then ['\\', 'r']
  else if c = chLF then ['\\', 'n']
  else if c = chTAB then ['\\', 't']
  else [c]

def jsEscape : Str → Str
  | [] => []
  | c :: s => jsEscapeChar c ++ jsEscape s

/-- The character a single-character escape `\c` denotes in a JavaScript string literal
(ECMAScript SingleEscapeCharacter / NonEscapeCharacter). `none`: `\x`, `\u`, a digit other than
`0`, or a line terminator after the backslash — sequences this strict reader does not accept. -/
def jsUnescapeChar (c : Char) : Option Char :=
  if c = 'n' then some chLF
  else if c = 'r' then some chCR
  else if c = 't' then some chTAB
  else if c = 'b' then some (Char.ofNat 8)
  else if c = 'f' then some (Char.ofNat 12)
  else if c = 'v' then some (Char.ofNat 11)
  else if c = '0' then some (Char.ofNat 0)
  else if c = 'x' || c = 'u' || ('1' ≤ c && c ≤ '9') || c = chLF || c = chCR
          || c = Char.ofNat 0x2028 || c = Char.ofNat 0x2029 then none
  else some c

/-- A JavaScript double-quoted string-literal reader (ES2019: U+2028 / U+2029 may occur raw),
started just after the opening quote: returns the denoted string and the input after the closing
quote; `none` if the literal is not terminated on its line or uses an unsupported escape. -/
def jsRead : Str → Option (Str × Str)
  | [] => none
  | c :: r =>
    if c = '"' then some ([], r)
    else if c = chLF || c = chCR then none
    else if c = '\\' then
      match r with
      | [] => none
      | d :: r' =>
        match jsUnescapeChar d with
        | none => none
        | some x => (jsRead r').map (fun (v, rest) => (x :: v, rest))
    else (jsRead r).map (fun (v, rest) => (c :: v, rest))

/-- The text the update scripts put between the quotes of `elem.<prop> = "…";` /
`insertAdjacentHTML("pos", "…")`: escaped or not, per site (T-ESC `jsSiteTable`). -/
def jsEmit (escaped : Bool) (text : Str) : Str := if escaped then jsEscape text else text

/-- `elem.<prop> = "<text>";` from just after the opening quote. -/
def jsAssignTail (escaped : Bool) (text : Str) : Str := jsEmit escaped text ++ c!"\";"

/-- A table-driven escape (what T-ESC extracts from the source): first matching entry wins. -/
def jsLookup : List (Char × Str) → Char → Str
  | [], c => [c]
  | (a, r) :: t, c => if c = a then r else jsLookup t c

def jsEscapeWith (table : List (Char × Str)) : Str → Str
  | [] => []
  | c :: s => jsLookup table c ++ jsEscapeWith table s

/-! ### what the property expects to find in the output -/

mutual
  /-- The texts of all leaves of the rendered tree (what `value_repr` shows for each); children
  hidden by callable include / exclude filters or by a custom child renderer are not part of it. -/
  def leafTextsOf (c : Ctx) (path : List Key) : Tree → List Str
    | .leaf k p kind repr raw tip => [leafText c (.leaf k p kind repr raw tip)]
    | .node _ _ _ _ children => leafTextsOfAll c path children
  def leafTextsOfAll (c : Ctx) (path : List Key) : List Tree → List Str
    | [] => []
    | t :: ts =>
      (if childShown c (path ++ [t.key]) && !childHidden c (path ++ [t.key]) then
         leafTextsOf (childCtx c) (path ++ [t.key]) t
       else [])
      ++ leafTextsOfAll c path ts
end

mutual
  /-- The key texts of all displayed descendants: `str(key)` for label-style keys, the summary name
  (`key` or `[index]`) for summary-style keys. With `onlyShown` the summary-style keys of children
  that get no summary are left out (finding F49). -/
  def keyTextsOf (onlyShown : Bool) (c : Ctx) (path : List Key) : Tree → List Str
    | .leaf .. => []
    | .node _ _ kind _ children => keyTextsOfAll onlyShown c kind.isSeq path children
  def keyTextsOfAll (onlyShown : Bool) (c : Ctx) (seq : Bool) (path : List Key) : List Tree → List Str
    | [] => []
    | t :: ts =>
      (if childShown c (path ++ [t.key]) && !childHidden c (path ++ [t.key]) then
         (if childLabel c seq (path ++ [t.key]) then [t.key.text]
          else if !onlyShown || needsSummary (childCtx c) true t then [t.key.summaryName] else [])
         ++ keyTextsOf onlyShown (childCtx c) (path ++ [t.key]) t
       else [])
      ++ keyTextsOfAll onlyShown c seq path ts
end

end Pg.C20
