/-
  C15 — DNA generators as state machines: `setup`, `propose`, `feedback`, `recover`.

  Mirrors (line anchors are to /repo at the pinned commit plus fixes/C15-*.patch):
    pyglove/core/geno/dna_generator.py   DNAGenerator.setup/propose/feedback/recover/_replay (70-185)
    pyglove/core/geno/sweeping.py        Sweeping._setup/_propose/_replay (24-40)
    pyglove/core/geno/random.py          Random._setup/_propose/_replay (33-50)
    pyglove/core/geno/deduping.py        Deduping._setup/_propose/_feedback/recover/_replay/_add_dna_to_cache
    pyglove/ext/evolution/base.py        Evolution._setup/_propose/_evolve/_feedback/recover (657-840)

  Abstractions (parameters of the model, `Env`): DNA values are natural numbers (the index of the
  point in the enumeration of the space); the search space is the explicit list of its points in
  `next_dna` order; randomness is an oracle `draw seed pos` (the pos-th DNA a fresh PRNG seeded with
  `seed` draws on this space); hash functions, the reproduction operation and the population update
  of `Evolution` are abstract functions.

  `Quirks` switches between the behaviour of the pinned tree and of the tree with the C15 fixes; the
  value for the *current* source is extracted by translate/t_c15.py into PgGen/C15Quirks.lean.
-/
namespace Pg.C15

inductive Err where
  | stop | value | type | assertion | key | mismatch
  deriving DecidableEq, Repr, Inhabited

/-- A DNA together with the metadata the generators write on it (`DNA.set_metadata`). -/
structure Item where
  dna : Nat
  key : Option Nat := none        -- 'dedup_key'            (Deduping._propose)
  reward : Option Int := none     -- 'reward'               (Deduping auto reward; Evolution fitness)
  pid : Option Nat := none        -- 'proposal_id'          (Evolution)
  gid : Option Nat := none        -- 'generation_id'        (Evolution)
  initial : Option Bool := none   -- 'initial_population'   (Evolution)
  fbseq : Option Nat := none      -- 'feedback_sequence_number' (Evolution._feedback)
  deriving DecidableEq, Repr, Inhabited

/-- What the backend hands to `recover`: proposals in order, each with the reward if it arrived. -/
abbrev Hist := List (Item × Option Int)

/-- `Deduping._cache`: dict hash → list of rewards (insertion ordered). -/
abbrev Cache := List (Nat × List (Option Int))

structure Quirks where
  /-- pinned: `Deduping` has no `recover`; `_replay` forwards to `generator._replay` and caches the
  history's reward (`None` included). -/
  dedupForwardsReplay : Bool
  /-- pinned: `Evolution.recover` replays the feedbacks in proposal order. -/
  evoProposalOrder : Bool
  /-- pinned: `Evolution.recover` raises `num_generations` to the generation id of *initial* DNAs too. -/
  evoInitGenBump : Bool
  /-- before fixes/C15-F165: `Evolution.recover` decides "the initial population is complete" from the
  fed-back initial DNAs of the *current* `recover()` call instead of the total number of feedbacks. -/
  evoInitDonePerCall : Bool
  deriving DecidableEq, Repr

def Quirks.pinned : Quirks := ⟨true, true, true, true⟩
def Quirks.patched : Quirks := ⟨false, false, false, false⟩

inductive Algo where
  | sweeping
  | random (seed : Nat) (seeded : Bool)
  | deduping (inner : Algo) (hashId : Nat) (maxDup maxAtt : Nat) (auto : Bool)
  | evolution (init : Algo) (initSize : Option Nat)
  deriving Repr, Inhabited

inductive St where
  | sweeping (np nf : Nat) (last : Option Nat)
  | random (np nf pos : Nat)
  | deduping (np nf : Nat) (inner : St) (cache : Cache)
  | evolution (np nf : Nat) (init : St) (initialized : Bool) (numGen : Nat) (pop pending : List Item)
  deriving Repr, Inhabited, DecidableEq

structure Env where
  space : List Nat
  draw : Nat → Nat → Nat
  hash : Nat → Nat → Nat
  repro : List Item → Nat → Nat → List Nat      -- population, num_generations, step ↦ children
  update : List Item → Nat → List Item          -- population, step ↦ population
  q : Quirks

/-- `needs_feedback` (dna_generator.py:86-88; deduping.py `needs_feedback`). -/
def needsFeedback : Algo → Bool
  | .sweeping => false
  | .random _ _ => false
  | .deduping inner _ _ _ _ => needsFeedback inner
  | .evolution _ _ => true

/-- `setup` (dna_generator.py:70-75 and the `_setup` overrides). -/
def setup : Algo → St
  | .sweeping => .sweeping 0 0 none
  | .random _ _ => .random 0 0 0
  | .deduping inner _ _ _ _ => .deduping 0 0 (setup inner) []
  | .evolution init _ => .evolution 0 0 (setup init) false 0 [] []

def St.np : St → Nat
  | .sweeping np _ _ | .random np _ _ | .deduping np _ _ _ | .evolution np _ _ _ _ _ _ => np

def St.nf : St → Nat
  | .sweeping _ nf _ | .random _ nf _ | .deduping _ nf _ _ | .evolution _ nf _ _ _ _ _ => nf

/-- `+= 1` on the counters (`recover` loop, dna_generator.py:160-164). -/
def St.bump (dp df : Nat) : St → St
  | .sweeping np nf l => .sweeping (np + dp) (nf + df) l
  | .random np nf p => .random (np + dp) (nf + df) p
  | .deduping np nf i c => .deduping (np + dp) (nf + df) i c
  | .evolution np nf i b g p q => .evolution (np + dp) (nf + df) i b g p q

/-- `dna_spec.next_dna(last)` on the explicit enumeration. -/
def afterFirst (d : Nat) : List Nat → Option Nat
  | [] => none
  | x :: xs => if x = d then xs.head? else afterFirst d xs

def nextAfter (space : List Nat) : Option Nat → Option Nat
  | none => space.head?
  | some d => afterFirst d space

def cacheGet (c : Cache) (k : Nat) : List (Option Int) :=
  match c with
  | [] => []
  | (k', rs) :: rest => if k' = k then rs else cacheGet rest k

/-- `_add_dna_to_cache` (deduping.py): append to the key's list, creating it at the end of the dict. -/
def cacheAdd (c : Cache) (k : Nat) (r : Option Int) : Cache :=
  match c with
  | [] => [(k, [r])]
  | (k', rs) :: rest => if k' = k then (k', rs ++ [r]) :: rest else (k', rs) :: cacheAdd rest k r

/-- The harness' `auto_reward_fn = lambda rs: float(sum(rs))`; `None` in the list is a TypeError. -/
def sumRewards : List (Option Int) → Except Err Int
  | [] => .ok 0
  | none :: _ => .error .type
  | some r :: rest => match sumRewards rest with
    | .ok s => .ok (r + s)
    | .error e => .error e

abbrev PRes := Except Err Item × St

/-- The attempt loop of `Deduping._propose`; `pi` is the inner generator's public `propose`. -/
def dedupLoop (pi : St → PRes) (hash : Nat → Nat) (cache : Cache) (maxDup : Nat) (auto : Bool) :
    Nat → St → PRes
  | 0, s => (.error .stop, s)
  | fuel + 1, s =>
    match pi s with
    | (.error e, s') => (.error e, s')
    | (.ok it, s') =>
      let k := hash it.dna
      let hist := cacheGet cache k
      let it := { it with key := some k }
      if hist.length < maxDup then (.ok it, s')
      else if auto then
        match sumRewards hist with
        | .ok r => (.ok { it with reward := some r }, s')
        | .error e => (.error e, s')
      else dedupLoop pi hash cache maxDup auto fuel s'

/-- Metadata written by `Evolution._evolve` on the children (base.py:739-750). -/
def mkChildren (step g : Nat) : Nat → List Nat → List Item
  | _, [] => []
  | i, d :: ds => { dna := d, pid := some (step + 1 + i), gid := some (g + 1), initial := some false }
                  :: mkChildren step g (i + 1) ds

/-- `pending.extend(self._evolve()); return pending.popleft()` on an empty queue (base.py:705, 722-754). -/
def evolveStep (env : Env) (np nf : Nat) (si : St) (g : Nat) (pop : List Item) : PRes :=
  match mkChildren np g 0 (env.repro pop g np) with
  | [] => (.error .value, .evolution np nf si true g pop [])
  | c :: cs => (.ok c, .evolution (np + 1) nf si true (g + 1) pop cs)

/-- Public `propose` = `_propose` + `num_proposals += 1` (dna_generator.py:104-108). -/
def propose (env : Env) : Algo → St → PRes
  | .sweeping, .sweeping np nf last =>
    match nextAfter env.space last with
    | none => (.error .stop, .sweeping np nf last)
    | some d => (.ok { dna := d }, .sweeping (np + 1) nf (some d))
  | .random seed _, .random np nf pos =>
    (.ok { dna := env.draw seed pos }, .random (np + 1) nf (pos + 1))
  | .deduping inner hid maxDup maxAtt auto, .deduping np nf si cache =>
    let nfb := needsFeedback inner
    match dedupLoop (propose env inner) (env.hash hid) cache maxDup (auto && nfb) maxAtt si with
    | (.error e, si') => (.error e, .deduping np nf si' cache)
    | (.ok it, si') =>
      let cache' := if nfb then cache else cacheAdd cache (it.key.getD 0) none
      (.ok it, .deduping (np + 1) nf si' cache')
  | .evolution init _, .evolution np nf si ini g pop pend =>
    match pend with
    | it :: rest => (.ok it, .evolution (np + 1) nf si ini g pop rest)
    | [] =>
      if ini then evolveStep env np nf si g pop
      else
        match propose env init si with
        | (.ok d, si') =>
          (.ok { d with pid := some (np + 1), gid := some (g + 1), initial := some true },
           .evolution (np + 1) nf si' ini g pop [])
        | (.error .stop, si') => evolveStep env np nf si' 1 pop
        | (.error e, si') => (.error e, .evolution np nf si' ini g pop [])
  | _, s => (.error .mismatch, s)

/-- Public `feedback` (dna_generator.py:114-132) = `_feedback` if `needs_feedback`, then
`num_feedbacks += 1`. Returns the DNA as mutated by `set_metadata`. -/
def feedback (env : Env) : Algo → St → Item → Int → Except Err (Item × St)
  | .sweeping, .sweeping np nf l, it, _ => .ok (it, .sweeping np (nf + 1) l)
  | .random _ _, .random np nf p, it, _ => .ok (it, .random np (nf + 1) p)
  | .deduping inner _ _ _ _, .deduping np nf si cache, it, r =>
    if needsFeedback inner then
      match feedback env inner si it r with
      | .error e => .error e
      | .ok (it', si') =>
        match it'.key with
        | none => .error .assertion
        | some k => .ok (it', .deduping np (nf + 1) si' (cacheAdd cache k (some r)))
    else .ok (it, .deduping np (nf + 1) si cache)
  | .evolution init initSize, .evolution np nf si ini g pop pend, it, r =>
    let it1 := { it with fbseq := some (nf + 1), reward := some r }
    match it1.initial with
    | none => .error .key
    | some isInit =>
      let fwd : Except Err (Item × St) := if isInit then feedback env init si it1 r else .ok (it1, si)
      match fwd with
      | .error e => .error e
      | .ok (it2, si') =>
        let flip := !ini && (match initSize with | some n => decide (n ≤ nf + 1) | none => false)
        let ini' := ini || flip
        let g' := if flip then 1 else g
        .ok (it2, .evolution np (nf + 1) si' ini' g' (env.update (pop ++ [it2]) nf) pend)
  | _, _, _, _ => .error .mismatch

/-- Stable sort key of the fixed `Evolution.recover`: `(seq is None, seq or 0)`. -/
def fbKey (e : Item × Option Int) : Nat × Nat :=
  match e.1.fbseq with
  | none => (1, 0)
  | some s => (0, s)

def keyLe (a b : Nat × Nat) : Bool := a.1 < b.1 || (a.1 = b.1 && a.2 ≤ b.2)

def keyLt (a b : Nat × Nat) : Bool := a.1 < b.1 || (a.1 = b.1 && a.2 < b.2)

/-- insertion that keeps `x` BEFORE the entries with an equal key: `sortByFeedback` inserts the entries
from the right, so entries with equal keys keep their original order (Python's `sorted` is stable). -/
def insertSorted (x : Item × Option Int) : Hist → Hist
  | [] => [x]
  | y :: ys => if keyLt (fbKey y) (fbKey x) then y :: insertSorted x ys else x :: y :: ys

/-- `sorted(history, key=feedback_order)` (stable). -/
def sortByFeedback : Hist → Hist
  | [] => []
  | x :: xs => insertSorted x (sortByFeedback xs)

/-- One iteration of the loop of `Evolution.recover` (base.py:800-825). -/
def evoRecoverStep (env : Env) (a : Algo) (s : St) (e : Item × Option Int) : Except Err St :=
  let (it, r) := e
  -- self._num_proposals += 1
  let s1 := s.bump 1 0
  let afterReward : Except Err St :=
    match r with
    | none => .ok s1
    | some r =>
      match it.fbseq with
      | none => (feedback env a s1 it r).map (·.2)
      | some _ =>
        if it.reward = some r then
          match s1 with
          | .evolution np nf si ini g pop pend =>
            .ok (.evolution np (nf + 1) si ini g (env.update (pop ++ [it]) nf) pend)
          | _ => .error .mismatch
        else .error .assertion
  match afterReward with
  | .error e => .error e
  | .ok s2 =>
    match it.gid, it.initial, s2 with
    | some gid, some isInit, .evolution np nf si ini g pop pend =>
      if (env.q.evoInitGenBump || !isInit) && g < gid then .ok (.evolution np nf si ini gid pop pend)
      else .ok s2
    | none, _, _ => .error .key
    | _, none, _ => if env.q.evoInitGenBump && r.isNone then
        -- pinned: `is_initial_population` is only evaluated for DNAs with a reward
        match it.gid, s2 with
        | some gid, .evolution np nf si ini g pop pend =>
          if g < gid then .ok (.evolution np nf si ini gid pop pend) else .ok s2
        | _, _ => .error .key
      else .error .key
    | _, _, _ => .error .mismatch

def foldE {α β : Type} (f : β → α → Except Err β) : β → List α → Except Err β
  | b, [] => .ok b
  | b, x :: xs => match f b x with
    | .error e => .error e
    | .ok b' => foldE f b' xs

def isInitFed (e : Item × Option Int) : Bool := e.2.isSome && e.1.initial = some true

/-- `_replay` (dna_generator.py:166-185 default; sweeping.py:37-40; random.py:44-50; deduping.py). -/
def replay (env : Env) : Algo → St → Item → Option Int → Except Err St
  | .sweeping, .sweeping np nf _, it, _ => .ok (.sweeping np nf (some it.dna))
  | .random _ seeded, .random np nf pos, _, _ => .ok (.random np nf (if seeded then pos + 1 else pos))
  | .deduping inner _ _ _ _, .deduping np nf si cache, it, r =>
    if env.q.dedupForwardsReplay then
      match replay env inner si it r with
      | .error e => .error e
      | .ok si' =>
        match it.key with
        | none => .error .assertion
        | some k => .ok (.deduping np nf si' (cacheAdd cache k r))
    else if !needsFeedback inner then
      match it.key with
      | none => .error .assertion
      | some k => .ok (.deduping np nf si (cacheAdd cache k none))
    else
      match r with
      | none => .ok (.deduping np nf si cache)
      | some r =>
        match it.key with
        | none => .error .assertion
        | some k => .ok (.deduping np nf si (cacheAdd cache k (some r)))
  | .evolution init initSize, s, it, r =>
    -- default `_replay`: `if reward is not None: self._feedback(dna, reward)` — the *private*
    -- `_feedback`: `num_feedbacks` is not incremented.
    match r with
    | none => .ok s
    | some r =>
      match feedback env (.evolution init initSize) s it r with
      | .error e => .error e
      | .ok (_, s') => .ok (match s' with
          | .evolution np nf si ini g pop pend => .evolution np (nf - 1) si ini g pop pend
          | x => x)
  | _, _, _, _ => .error .mismatch

/-- The loop of `DNAGenerator.recover` (dna_generator.py:160-164). -/
def baseRecover (env : Env) (a : Algo) : St → Hist → Except Err St :=
  foldE (fun s e => match replay env a s e.1 e.2 with
    | .error err => .error err
    | .ok s' => .ok (s'.bump 1 (if e.2.isSome then 1 else 0)))

/-- `recover`: the base loop, `Deduping.recover` (fix: inner `recover`, then the base loop),
`Evolution.recover`. -/
def recover (env : Env) : Algo → St → Hist → Except Err St
  | .sweeping, s, h => baseRecover env .sweeping s h
  | .random seed sd, s, h => baseRecover env (.random seed sd) s h
  | .deduping inner hid md ma au, s, h =>
    if env.q.dedupForwardsReplay then baseRecover env (.deduping inner hid md ma au) s h
    else
      match s with
      | .deduping np nf si cache =>
        match recover env inner si h with
        | .error e => .error e
        | .ok si' => baseRecover env (.deduping inner hid md ma au) (.deduping np nf si' cache) h
      | _ => .error .mismatch
  | .evolution init initSize, s, h =>
    let order := if env.q.evoProposalOrder then h else sortByFeedback h
    match foldE (evoRecoverStep env (.evolution init initSize)) s order with
    | .error e => .error e
    | .ok s' =>
      match s' with
      | .evolution np nf si ini g pop pend =>
        let initPop := h.filter isInitFed
        let done := match initSize with
          | some n => if env.q.evoInitDonePerCall then decide (n ≤ initPop.length) else decide (n ≤ nf)
          | none => false
        let ini' := ini || done
        let g' := if done && !env.q.evoInitGenBump && g = 0 then 1 else g
        match recover env init si initPop with
        | .error e => .error e
        | .ok si' => .ok (.evolution np nf si' ini' g' pop pend)
      | _ => .error .mismatch

/-- Several consecutive `recover()` calls on one instance ("previous study + current study",
dna_generator.py:151-153): the history reaches the generator in chunks. -/
def recoverChunks (env : Env) (a : Algo) (s : St) : List Hist → Except Err St
  | [] => .ok s
  | h :: hs => match recover env a s h with
    | .error e => .error e
    | .ok s' => recoverChunks env a s' hs

/-! ### Runs -/

inductive Event where
  | propose
  | feedback (i : Nat) (r : Int)
  deriving Repr, DecidableEq, Inhabited

/-- The live side: generator state plus what the backend has persisted so far. -/
structure Live where
  st : St
  hist : Hist
  deriving Repr

def setAt {α : Type} : List α → Nat → α → List α
  | [], _, _ => []
  | _ :: xs, 0, y => y :: xs
  | x :: xs, n + 1, y => x :: setAt xs n y

/-- One event on the live instance (the harness' `run_live`): a failing `propose` leaves no trace in
the history; feedback for an unknown or already fed-back proposal is skipped; a proposal carrying an
automatic reward (Deduping `auto_reward_fn`) is fed back with that reward, as `pg.sample` does. -/
def step (env : Env) (a : Algo) (l : Live) : Event → Live
  | .propose =>
    match propose env a l.st with
    | (.ok it, s') => ⟨s', l.hist ++ [(it, none)]⟩
    | (.error _, s') => ⟨s', l.hist⟩
  | .feedback i r =>
    match l.hist[i]? with
    | some (it, none) =>
      let r' := it.reward.getD r
      match feedback env a l.st it r' with
      | .ok (it', s') => ⟨s', setAt l.hist i (it', some r')⟩
      | .error _ => l
    | _ => l

def runLive (env : Env) (a : Algo) (run : List Event) : Live :=
  run.foldl (step env a) ⟨setup a, []⟩

/-- The next `m` public proposals (results only) and the state afterwards. -/
def proposeN (env : Env) (a : Algo) : Nat → St → List (Except Err Item) × St
  | 0, s => ([], s)
  | m + 1, s =>
    let (r, s') := propose env a s
    let (rs, s'') := proposeN env a m s'
    (r :: rs, s'')

end Pg.C15
