/-
  The public operation surface of pg.Dict / pg.List / pg.Object on the forest of PgModel/Sym.
  Every operation is a guard prefix followed by a composition of a few primitives
  (`rawSetList`, `rawSetDict`, `rawDelList`, `dropAll`, `permute`, `notify`), each of which is
  "evaluate the offered value, apply a local transformer to the item list of one node, add the
  detached value to the roots".
-/
import PgModel.Sym
namespace Pg.Sym

/-- Position used by builtin `list.insert(index, …)`. -/
def pyInsertPos (idx : Int) (len : Nat) : Nat :=
  if idx < 0 then (if idx + len < 0 then 0 else (idx + len).toNat) else min idx.toNat len

def isObjKind : Kind → Bool
  | .obj _ => true
  | _ => false

/-- `old_value is value` for leaves: CPython's singletons (None, MISSING_VALUE) and small ints
are one object each; strings built at run time and fresh objects never are. -/
def sameAtom (ve : VE) (old : Tree) : Bool :=
  match ve, old with
  | .atom .none, .leaf .none => true
  | .atom .missing, .leaf .missing => true
  | .atom (.int i), .leaf (.int j) => i == j && decide (-5 ≤ i) && decide (i ≤ 256)
  | _, _ => false

/-- `old_value is value` for an offered value and the current occupant of the slot. -/
def sameValue (ve : VE) (old : Option Tree) : Bool :=
  match ve, old.bind Tree.id? with
  | .ref id, some oid => id == oid
  | _, _ => (old.map (sameAtom ve)).getD false

/-- fixes/C01-F03: a negative index is normalised before it is used as a path key. -/
def listNormIndex (cfg : Cfg) (key : Int) (len : Int) (ins : Bool) : Int :=
  if cfg.reindexOnMutate && key < 0 then
    (if ins then (if key + len < 0 then 0 else key + len) else if key ≥ -len then key + len else key)
  else key

/-- the `consumed` mark is local to one dict write. -/
def Forest.clearConsumed (f : Forest) : Forest := { f with consumed := false }

def childNodes (its : Items) : List Tree := (its.map (·.2)).filter Tree.isNode

def addRoots (f : Forest) (ts : List Tree) : Forest := ts.foldl Forest.addRoot f

/-- replace the item at `pos` (list.py:425-428): formalize, store, detach the old value (parent
only). On the patched tree the index is a position here; unpatched, a negative index stays in
the child's path (F03). -/
def listReplace (cfg : Cfg) (f : Forest) (m : Meta) (index : Int) (pos : Nat) (old : Tree) (ve : VE) : Option Forest :=
  let r := evalVE cfg f none (some m.id) false m.part (m.path ++ [Key.i index]) ve
  -- (`none`: the written container itself went into the offered value — a cycle, no after-state)
  if (r.1.find? m.id).isNone then none else
  some ((r.1.mapAt m.id (storeKey (Key.i pos) (if cfg.reindexOnMutate then Key.i pos else Key.i index) r.2)).addRoot
    (old.setParent none))

/-- insert (list.py:422-424; patched: the shifted siblings are re-indexed). -/
def ownElement (its : Items) : VE → Option Tree
  | .ref id => (its.find? (fun kv => kv.2.id? == some id)).map (·.2)
  | _ => none

def listInsert (cfg : Cfg) (f : Forest) (m : Meta) (its : Items) (index : Int) (len : Nat) (ve : VE) : Option Forest :=
  -- fixes/C01-F79: a value that already is an element of this list is copied first
  let r := match (if cfg.insertCopiesOwn then ownElement its ve else none) with
    | some own =>
      let c := own.clone cfg false f.nextId (some m.id) (m.path ++ [Key.i index])
      ({ f with nextId := c.2 }, c.1)
    | none => evalVE cfg f none (some m.id) false m.part (m.path ++ [Key.i index]) ve
  if (r.1.find? m.id).isNone then none else
  some (r.1.mapAt m.id (fun m' xs =>
    let ys := insertAt (pyInsertPos index len) r.2 xs
    if cfg.reindexOnMutate then reindex m' ys else ys))

def listAppend (cfg : Cfg) (f : Forest) (m : Meta) (index : Int) (ve : VE) : Option Forest :=
  let r := evalVE cfg f none (some m.id) false m.part (m.path ++ [Key.i index]) ve
  if (r.1.find? m.id).isNone then none else
  some (r.1.mapAt m.id (fun m' xs => xs ++ [(Key.i index, r.2.setPath (m'.path ++ [Key.i index]))]))

/-- does the element spec `pg.typing.Object(C0)` of a typed list accept the offered value?
(the glue offers typed lists instances of C0 — new or existing — and, as the rejected value, ints) -/
def acceptsTyped (f : Forest) : VE → Bool
  | .node (.obj 0) _ _ _ _ => true
  | .ref id => (f.metaOf? id).any (fun m => m.kind == .obj 0)
  | _ => false

def okOrCycle : Option Forest → Except Err (Forest × Bool)
  | some g => .ok (g, true)
  | none => .error .cycle

/-- `List._set_item_without_permission_check` (list.py:397-434).
`ins`: the value is wrapped in `Insertion`. Returns the new forest and whether a FieldUpdate was
produced. -/
def rawSetList (cfg : Cfg) (f : Forest) (m : Meta) (its : Items) (key : Int) (ins : Bool) (ve : VE) :
    Except Err (Forest × Bool) :=
  -- only a pg.List has this method (the callers that do not dispatch on the kind are list methods)
  if m.kind ≠ .list then .error .assertion else
  let len : Int := its.length
  let index0 := listNormIndex cfg key len ins
  if index0 ≥ len && ve.isMissing && !ins then .ok (f, false) else
  let index : Int := if index0 ≥ len then len else index0
  if index < len && !ins then
    if index < -len then .error .index else
    let pos : Nat := (if index < 0 then index + len else index).toNat
    match getKey its (Key.i pos) with
    | none => .error .index
    | some old =>
      if sameValue ve (some old) then .ok (f, false) else
      -- the new value is validated before anything is stored or detached
      if m.typed && !acceptsTyped f ve then .error .type else
      okOrCycle (listReplace cfg f m index pos old ve)
  else if m.typed && !acceptsTyped f ve then .error .type
  else if index < len then okOrCycle (listInsert cfg f m its index its.length ve)
  else okOrCycle (listAppend cfg f m index ve)

def dictBadKey (m : Meta) (key : Key) : Bool :=
  match m.kind with
  | .obj cls => !(clsFields cls).contains key
  | _ => false

/-- the old value as `Dict._detach` leaves it: parent None, path root (dict.py:557-560). -/
def dictDetached (its : Items) (key : Key) : Option Tree :=
  match getKey its key with
  | some (.node om oits) => some (((Tree.node om oits).setParent none).setPath [])
  | _ => none

/-- `del` through MISSING_VALUE (dict.py:562-567). -/
def dictErase (f : Forest) (m : Meta) (its : Items) (key : Key) : Forest :=
  addRoots (f.mapAt m.id (fun _ xs => eraseKey key xs)) (dictDetached its key).toList

/-- formalize and store (dict.py:570-573). The old value has been detached before; it still
occupies its slot until the new value is stored, and it becomes a root of its own unless the new
value took it in. -/
def dictStoreCore (cfg : Cfg) (f : Forest) (m : Meta) (its : Items) (key : Key) (ve : VE) : Option Forest :=
  let d := dictDetached its key
  let r := evalVE cfg f (d.bind Tree.id?) (some m.id) (isObjKind m.kind) m.part (m.path ++ [key]) ve
  let nv := adoptPartial (isObjKind m.kind) m.part r.2
  let f3 := (r.1.mapAt m.id (storeKey key key nv)).clearConsumed
  -- (`none`: the written container itself went into the offered value — a cycle, no after-state)
  if (r.1.find? m.id).isNone then none else
  some (if r.1.consumed then f3 else addRoots f3 d.toList)

def dictStore (cfg : Cfg) (f : Forest) (m : Meta) (its : Items) (key : Key) (ve : VE) : Option Forest :=
  dictStoreCore cfg f.clearConsumed m its key ve

/-- `Dict._set_item_without_permission_check` (dict.py:533-583), also the attribute container of
an object (object.py:896-900). -/
def rawSetDict (cfg : Cfg) (f : Forest) (m : Meta) (its : Items) (key : Key) (ve : VE) :
    Except Err (Forest × Bool) :=
  if sameValue ve (getKey its key) then .ok (f, false) else
  -- MISSING_VALUE is a singleton: deleting an absent key is `old_value is value`
  if ve.isMissing && !hasKey its key then .ok (f, false) else
  if dictBadKey m key then .error .key else
  if ve.isMissing && !isObjKind m.kind then
    (if hasKey its key then .ok (dictErase f m its key, true) else .ok (f, false))
  else
    -- an object field is reset to its default
    okOrCycle (dictStore cfg f m its key (if ve.isMissing then VE.atom .none else ve))

/-- dispatch on the kind of the container `t`. -/
def rawSet (cfg : Cfg) (f : Forest) (t : Nat) (key : Key) (ins : Bool) (ve : VE) : Except Err (Forest × Bool) :=
  match f.find? t with
  | some (.node m its) =>
    match m.kind, key with
    | .list, .i idx => rawSetList cfg f m its idx ins ve
    | .list, .s _ => .error .key            -- list.py:400: a non-integer key on a list raises KeyError (acbfa50; an assert before)
    | _, k => rawSetDict cfg f m its k ve
  | _ => .error .key

/-- believed-parent chain of a node (itself first). -/
def chainFrom (f : Forest) : Nat → Nat → List Nat
  | 0, _ => []
  | fuel + 1, id =>
    match f.metaOf? id with
    | none => []
    | some m => id :: (match m.parent with
                       | none => []
                       | some p => chainFrom f fuel p)

def onChangeAt (f : Forest) (id : Nat) : Forest :=
  f.mapAt id (fun m its => if m.kind = .list then listOnChange m its else its)

/-- `_notify_field_updates` (base.py:1223-1261): `_on_change` of every believed ancestor of
every update target. Only `List._on_change` touches the tree. -/
def notify (f : Forest) (targets : List Nat) : Forest :=
  ((targets.flatMap (chainFrom f (f.ids.length + 1))).eraseDups).foldl onChangeAt f

/-- how a container detaches a value that leaves it: a list resets the parent only
(list.py:426-428), a dict resets parent and path (dict.py:557-560). -/
def detachFrom (kind : Kind) (t : Tree) : Tree :=
  match kind with
  | .list => t.setParent none
  | _ => (t.setParent none).setPath []

/-- builtin `clear()` of the payload. Unpatched, the removed children keep their beliefs
(F78); patched, they are detached. Either way they become roots of their own. -/
def dropAll (cfg : Cfg) (f : Forest) (t : Nat) (m : Meta) (its : Items) : Forest :=
  addRoots (f.mapAt t (fun _ _ => []))
    ((childNodes its).map (fun c => if cfg.detachOnRemove then detachFrom m.kind c else c))

def insertByRank {α : Type} (x : Int × α) : List (Int × α) → List (Int × α)
  | [] => [x]
  | y :: ys => if x.1 ≤ y.1 then x :: y :: ys else y :: insertByRank x ys

/-- stable sort by rank. -/
def sortByRank {α : Type} : List (Int × α) → List (Int × α)
  | [] => []
  | x :: xs => insertByRank x (sortByRank xs)

/-- CPython `list.sort(key=…, reverse=…)`: reverse, stable sort, reverse. -/
def pySort (ranks : List Int) (rev : Bool) (its : Items) : Items :=
  let tagged := (ranks.zip its)
  let tagged := if rev then tagged.reverse else tagged
  let sorted := sortByRank tagged
  let sorted := if rev then sorted.reverse else sorted
  sorted.map (·.2)

/-- `new_value is old_value` for the items of a list before and after a reordering: nodes and
plain objects by identity; None, MISSING, small ints and the harness' (cached) strings are one
object per value. -/
def sameObj : Tree → Tree → Bool
  | .leaf a, .leaf b => a == b
  | .node m _, .node m' _ => m.id == m'.id
  | _, _ => false

/-- does `_notify_moved_items` find a position whose item changed? -/
def anyMoved (old new : Items) : Bool :=
  (old.zip new).any (fun p => !sameObj p.1.2 p.2.2)

def permute (cfg : Cfg) (f : Forest) (t : Nat) (g : Items → Items) : Forest :=
  f.mapAt t (fun m xs => let ys := renumber (g xs); if cfg.reindexOnReorder then reindex m ys else ys)

/-- `clear()` of a list or dict (6daab50): the removed values are detached and, when the
container was not empty and notification is on, the removal is notified. -/
def clearAndNotify (cfg : Cfg) (f : Forest) (notifyOn : Bool) (t : Nat) (m : Meta) (its : Items) : Forest :=
  let f' := dropAll cfg f t m its
  if cfg.notifyBulk && notifyOn && !its.isEmpty then notify f' [t] else f'

/-- `sort` / `reverse` (6daab50): re-index, then notify the positions whose item changed. -/
def permuteAndNotify (cfg : Cfg) (f : Forest) (notifyOn : Bool) (t : Nat) (its : Items) (g : Items → Items) : Forest :=
  let f' := permute cfg f t g
  if cfg.notifyBulk && notifyOn && anyMoved its (g its) then notify f' [t] else f'

/-- `List.__delitem__` body after the guards (list.py:598-607). -/
def rawDelList (cfg : Cfg) (f : Forest) (m : Meta) (its : Items) (pos : Nat) : Forest :=
  let old := (getKey its (Key.i pos)).getD (.leaf .none)
  (f.mapAt m.id (fun m' xs => let ys := removeAt pos xs; if cfg.reindexOnMutate then reindex m' ys else ys)).addRoot
    (if cfg.detachOnRemove then detachFrom .list old else old)

/-- `slice(a, b, c).indices(len)` (CPython `PySlice_AdjustIndices`); `none`: step 0 (ValueError). -/
def sliceIndices (a b c : Option Int) (len : Nat) : Option (Int × Int × Int) :=
  let step := c.getD 1
  if step = 0 then none else
  let n : Int := len
  let adj (x : Option Int) (dflt : Int) : Int :=
    match x with
    | none => dflt
    | some v =>
      let v := if v < 0 then v + n else v
      if v < 0 then (if step < 0 then -1 else 0)
      else if v ≥ n then (if step < 0 then n - 1 else n) else v
  some (adj a (if step < 0 then n - 1 else 0), adj b (if step < 0 then -1 else n), step)

/-- `len(range(start, stop, step))`. -/
def rangeLen (start stop step : Int) : Nat :=
  if step > 0 then (if start < stop then ((stop - start - 1) / step + 1).toNat else 0)
  else (if stop < start then ((start - stop - 1) / (-step) + 1).toNat else 0)

/-- `del l[a:b:c]` after the guards (list.py `__delitem__`): the addressed positions are removed
(largest first, so nothing shifts meanwhile), every removed value is detached, then the list is
re-indexed once. -/
def rawDelMany (cfg : Cfg) (f : Forest) (m : Meta) (its : Items) (positions : List Nat) : Forest :=
  let keys := positions.map (fun (n : Nat) => Key.i (Int.ofNat n))
  let removed := (its.filter (fun kv => keys.contains kv.1)).map (·.2)
  addRoots
    (f.mapAt m.id (fun m' xs =>
      let ys := renumber (xs.filter (fun kv => !keys.contains kv.1))
      if cfg.reindexOnMutate then reindex m' ys else ys))
    ((removed.filter Tree.isNode).map (fun c => if cfg.detachOnRemove then detachFrom .list c else c))

/-! ### Operations -/

inductive Op where
  | new (v : VE)
  | clone (t : Nat) (deep : Bool)
  | setItem (t : Nat) (k : Key) (v : VE)            -- `x[k] = v`, `x.k = v` (dict, list, object)
  | delItem (t : Nat) (k : Key)                     -- `del x[k]` (dict, list)
  | lAppend (t : Nat) (v : VE)
  | lInsert (t : Nat) (idx : Int) (v : VE)
  | lExtend (t : Nat) (vs : List VE)                -- also `+=`
  | lPop (t : Nat) (idx : Int)
  | lRemove (t : Nat) (a : Atom)
  | lClear (t : Nat)
  | lSort (t : Nat) (ranks : List Int) (rev : Bool)
  | lReverse (t : Nat)
  | lIMul (t : Nat) (n : Int)
  | lSetSlice (t : Nat) (a b c : Option Int) (vs : List VE)   -- `l[a:b:c] = vs`
  | lDelSlice (t : Nat) (a b c : Option Int)                   -- `del l[a:b:c]`
  | setSeal (t : Nat) (flag : Bool)                              -- `x.seal(flag)`
  | dPop (t : Nat) (k : Key)
  | dPopItem (t : Nat)
  | dClear (t : Nat)
  | dSetDefault (t : Nat) (k : Key) (v : VE)
  | dUpdate (t : Nat) (kvs : List (Key × VE))       -- also `|=`
  | rebind (t : Nat) (pairs : List (List Key × Bool × VE)) (skip : Option Bool)
  deriving Repr, Inhabited

inductive Outcome where
  | ok | err (e : Err) | diverges | skip
  deriving DecidableEq, Repr, Inhabited

structure Res where
  forest : Forest
  out : Outcome
  deriving Inhabited

def finish (f : Forest) (notifyOn : Bool) (r : Except Err (Forest × Bool)) (targets : List Nat) : Res :=
  match r with
  | .error e => ⟨f, .err e⟩
  | .ok (f', upd) => ⟨if notifyOn && upd then notify f' targets else f', .ok⟩

-- follow actual keys from a node (`KeyPath.query`, value_location.py:334-387).
/-- `list.__getitem__` accepts a negative index. -/
def normKey (kind : Kind) (len : Nat) (k : Key) : Key :=
  match kind, k with
  | .list, .i idx => if idx < 0 then Key.i (idx + len) else k
  | _, _ => k

mutual
  def Tree.query : Tree → List Key → Option Tree
    | t, [] => some t
    | .leaf _, _ :: _ => none
    | .node m its, k :: ks => queryItems its (normKey m.kind its.length k) ks
  def queryItems : Items → Key → List Key → Option Tree
    | [], _, _ => none
    | (k', c) :: r, k, ks => if k' = k then c.query ks else queryItems r k ks
end

/-- `KeyPath._query` indexes into a *string* leaf with an integer key (value_location.py:362-368):
a key below `-len` raises IndexError instead of KeyError. The harness' strings have 2 characters. -/
def strWalk : Nat → List Key → Bool
  | _, [] => false
  | len, .i n :: ks => if n < -(len : Int) then true else if n < (len : Int) then strWalk 1 ks else false
  | _, .s _ :: _ => false

mutual
  def Tree.queryIdxErr : Tree → List Key → Bool
    | _, [] => false
    | .leaf (.str _), k :: ks => strWalk 2 (k :: ks)
    | .leaf (.tup ids), (.i n) :: _ => decide (n < -(ids.length : Int))
    | .leaf _, _ :: _ => false
    | .node m its, k :: ks => queryItemsIdxErr its (normKey m.kind its.length k) ks
  def queryItemsIdxErr : Items → Key → List Key → Bool
    | [], _, _ => false
    | (k', c) :: r, k, ks => if k' = k then c.queryIdxErr ks else queryItemsIdxErr r k ks
end

/-- extend: one `rawSet(len(self), v)` per value; stops at the first error (none can occur
for spec-less lists, kept for uniformity). -/
def extendLoop (cfg : Cfg) (t : Nat) : Forest → List VE → Bool → Except Err (Forest × Bool)
  | f, [], upd => .ok (f, upd)
  | f, v :: vs, upd =>
    match f.find? t with
    | some (.node m its) =>
      match rawSetList cfg f m its its.length false v with
      | .error e => .error e
      | .ok (f', u) => extendLoop cfg t f' vs (upd || u)
    | _ => .error .key

/-- one pair of a rebind: `_set_item_of_current_tree` (base.py:1198-1221). -/
def rebindOne (cfg : Cfg) (f : Forest) (t : Nat) (path : List Key) (ins : Bool) (v : VE) :
    Except Err (Forest × Option Nat) :=
  match path.getLast?, f.find? t with
  | none, _ => .error .key
  | _, none => .error .key
  | some key, some self =>
    match self.query path.dropLast with
    | some (.node pm _) =>
      if pm.sealed then .error .perm else
      match rawSet cfg f pm.id key (ins && pm.kind = .list) v with
      | .error e => .error e
      | .ok (f', upd) => .ok (f', if upd then some pm.id else none)
    | _ => if self.queryIdxErr path.dropLast then .error .index else .error .key

/-- the loop of `_sym_rebind`; on an error the pairs applied so far stay applied and nothing is
notified (the exception propagates out of `sym_rebind`). -/
def rebindLoop (cfg : Cfg) (t : Nat) : Forest → List (List Key × Bool × VE) → List Nat → Forest × List Nat × Option Err
  | f, [], acc => (f, acc, none)
  | f, (p, ins, v) :: rest, acc =>
    match rebindOne cfg f t p ins v with
    | .error e => (f, acc, some e)
    | .ok (f', u) => rebindLoop cfg t f' rest (match u with | some i => acc ++ [i] | none => acc)

def keyLe : Key → Key → Bool
  | .i a, .i b => a ≤ b
  | _, _ => true

def insertPair (x : List Key × Bool × VE) : List (List Key × Bool × VE) → List (List Key × Bool × VE)
  | [] => [x]
  | y :: ys =>
    -- descending by first key
    if keyLe (y.1.headD (.i 0)) (x.1.headD (.i 0)) then x :: y :: ys else y :: insertPair x ys

/-- `List._sym_rebind` applies the pairs in descending path order (list.py:353-357). The glue
only sends single-key integer paths to list targets. -/
def sortPairsDesc : List (List Key × Bool × VE) → List (List Key × Bool × VE)
  | [] => []
  | x :: xs => insertPair x (sortPairsDesc xs)

def preCheck (self : Tree) : List (List Key × Bool × VE) → Option Err
  | [] => none
  | (path, _, _) :: rest =>
    match self.query path.dropLast with
    | some (.node pm _) => if pm.sealed then some .perm else preCheck self rest
    | _ => if self.queryIdxErr path.dropLast then some .index else preCheck self rest

def doRebind (cfg : Cfg) (f : Forest) (notifyOn : Bool) (t : Nat) (m : Meta)
    (pairs : List (List Key × Bool × VE)) (skip : Option Bool) (raiseOnNoChange : Bool) : Res :=
  if pairs.isEmpty && raiseOnNoChange then ⟨f, .err .value⟩ else
  if isObjKind m.kind && m.sealed then ⟨f, .err .perm⟩ else
  -- `_ensure_rebind_targets_writable` (base.py): a batch is refused as a whole when the parent
  -- node of any path is sealed (paths whose parent does not exist are left to the loop)
  match (f.find? t).bind (fun self => preCheck self pairs) with
  | some e => ⟨f, .err e⟩
  | none =>
  let pairs := if m.kind = .list then sortPairsDesc pairs else pairs
  match rebindLoop cfg t f pairs [] with
  | (f', _, some e) => ⟨f', .err e⟩
  | (f', targets, none) =>
    let skipN := skip.getD (!notifyOn)
    ⟨if skipN then f' else notify f' targets, .ok⟩

def delItemList (cfg : Cfg) (f : Forest) (notifyOn : Bool) (m : Meta) (its : Items) (idx : Int) (accOverride : Bool) : Res :=
  let len : Int := its.length
  if m.kind ≠ .list then ⟨f, .skip⟩ else       -- `pop` / `remove` / integer `del` are list methods
  if m.sealed then ⟨f, .err .perm⟩ else
  if !m.accW && !accOverride then ⟨f, .err .perm⟩ else
  if idx < -len || idx ≥ len then ⟨f, .err .index⟩ else
  let pos := (if idx < 0 then idx + len else idx).toNat
  let f' := rawDelList cfg f m its pos
  ⟨if notifyOn then notify f' [m.id] else f', .ok⟩

def delItemDict (cfg : Cfg) (f : Forest) (notifyOn : Bool) (m : Meta) (its : Items) (k : Key) (accOverride : Bool) : Res :=
  if m.sealed then ⟨f, .err .perm⟩ else
  if !m.accW && !accOverride then ⟨f, .err .perm⟩ else
  if !hasKey its k then ⟨f, .err .key⟩ else
  finish f notifyOn (rawSetDict cfg f m its k (.atom .missing)) [m.id]

def setItem (cfg : Cfg) (f : Forest) (notifyOn : Bool) (m : Meta) (its : Items) (k : Key) (v : VE) : Res :=
  if m.sealed then ⟨f, .err .perm⟩ else
  if !m.accW then ⟨f, .err .perm⟩ else
  match m.kind, k with
  | .list, .i idx =>
    let len : Int := its.length
    if idx < -len || idx ≥ len then ⟨f, .err .index⟩ else
    finish f notifyOn (rawSetList cfg f m its idx false v) [m.id]
  | .list, .s _ => ⟨f, .err .type⟩
  | _, _ => finish f notifyOn (rawSetDict cfg f m its k v) [m.id]

def atomEq : Tree → Atom → Bool
  | .leaf a, b => a == b
  | _, _ => false

/-- first pass of a slice assignment: `[self._formalized_value(i, v) for i, v in enumerate(value)]`
(list.py:543). The formalized values are live objects not yet stored anywhere; the model parks
them as temporary roots. -/
def sliceInPlace (f : Forest) (m : Meta) (i : Int) : VE → Bool
  | .ref id => (match f.metaOf? id with
      | some cm => !f.isRoot id && cm.parent == some m.id && cm.path == m.path ++ [Key.i i]
      | none => false)
  | _ => false

/-- the index the i-th value of a slice assignment is formalized for: its rank in the value
list (list.py:553, `enumerate(value)`), or — F225 fixed — the position it will be stored at. -/
def sliceIx (cfg : Cfg) (start step : Int) (i : Nat) : Int :=
  if cfg.sliceAtTarget then start + i * step else i

def slicePrepare (cfg : Cfg) (m : Meta) (ix : Nat → Int) : Forest → Nat → List VE → Forest × List VE
  | f, _, [] => (f, [])
  | f, i, v :: vs =>
    -- a child that already sits at (self, ix i) is returned as it is by `_relocate_if_symbolic`
    if sliceInPlace f m (ix i) v then
      let rest := slicePrepare cfg m ix f (i + 1) vs
      (rest.1, v :: rest.2)
    else
    let r := evalVE cfg f none (some m.id) false m.part (m.path ++ [Key.i (ix i)]) v
    match r.2 with
    | .leaf a =>
      let rest := slicePrepare cfg m ix r.1 (i + 1) vs
      (rest.1, VE.atom a :: rest.2)
    | .node nm nits =>
      let rest := slicePrepare cfg m ix { r.1 with roots := r.1.roots ++ [.node nm nits] } (i + 1) vs
      (rest.1, VE.ref nm.id :: rest.2)

def sliceLoop (cfg : Cfg) (t : Nat) (start step : Int) : Forest → Nat → List (Bool × VE) → Bool → Except Err (Forest × Bool)
  | f, _, [], upd => .ok (f, upd)
  | f, i, (ins, v) :: vs, upd =>
    match f.find? t with
    | some (.node m its) =>
      match rawSetList cfg f m its (start + i * step) ins v with
      | .error e => .error e
      | .ok (f', u) => sliceLoop cfg t start step f' (i + 1) vs (upd || u)
    | _ => .error .key

/-- One public call. `notifyOn` is `flags.is_change_notification_enabled()`. -/
def step (cfg : Cfg) (f : Forest) (notifyOn : Bool) : Op → Res
  | .new v =>
    match v with
    | .node .. =>
      let r := evalVE cfg f none none false false [] v
      ⟨r.1.addRoot r.2, .ok⟩
    | _ => ⟨f, .skip⟩
  | .clone t deep =>
    match f.find? t with
    | some tr =>
      let c := tr.clone cfg deep f.nextId none []
      ⟨{ f with roots := f.roots ++ [c.1], nextId := c.2 }, .ok⟩
    | none => ⟨f, .skip⟩
  | .setItem t k v =>
    match f.find? t with
    | some (.node m its) => setItem cfg f notifyOn m its k v
    | _ => ⟨f, .skip⟩
  | .delItem t k =>
    match f.find? t with
    | some (.node m its) =>
      match m.kind, k with
      | .list, .i idx => delItemList cfg f notifyOn m its idx false
      | .list, .s _ => ⟨f, .err .type⟩
      | .dict, _ => delItemDict cfg f notifyOn m its k false
      | .obj _, _ => ⟨f, .skip⟩
    | _ => ⟨f, .skip⟩
  | .lAppend t v =>
    match f.find? t with
    | some (.node m its) =>
      if m.sealed then ⟨f, .err .perm⟩ else
      finish f notifyOn (rawSetList cfg f m its its.length false v) [m.id]
    | _ => ⟨f, .skip⟩
  | .lInsert t idx v =>
    match f.find? t with
    | some (.node m its) =>
      if m.sealed then ⟨f, .err .perm⟩ else
      finish f notifyOn (rawSetList cfg f m its idx true v) [m.id]
    | _ => ⟨f, .skip⟩
  | .lExtend t vs =>
    match f.find? t with
    | some (.node m _) =>
      if m.sealed then ⟨f, .err .perm⟩ else
      finish f notifyOn (extendLoop cfg t f vs false) [m.id]
    | _ => ⟨f, .skip⟩
  | .lPop t idx =>
    match f.find? t with
    | some (.node m its) =>
      let len : Int := its.length
      if idx < -len || idx ≥ len then ⟨f, .err .index⟩ else
      delItemList cfg f notifyOn m its ((idx + len) % len) true
    | _ => ⟨f, .skip⟩
  | .lRemove t a =>
    match f.find? t with
    | some (.node m its) =>
      match its.findIdx? (fun kv => atomEq kv.2 a) with
      | some i => delItemList cfg f notifyOn m its i false
      | none => ⟨f, .err .value⟩
    | _ => ⟨f, .skip⟩
  | .lClear t =>
    match f.find? t with
    | some (.node m its) =>
      if m.sealed then ⟨f, .err .perm⟩ else ⟨clearAndNotify cfg f notifyOn t m its, .ok⟩
    | _ => ⟨f, .skip⟩
  | .lSort t ranks rev =>
    match f.find? t with
    | some (.node m its) =>
      if m.sealed then ⟨f, .err .perm⟩ else ⟨permuteAndNotify cfg f notifyOn t its (pySort ranks rev), .ok⟩
    | _ => ⟨f, .skip⟩
  | .lReverse t =>
    match f.find? t with
    | some (.node m its) =>
      if m.sealed then ⟨f, .err .perm⟩ else ⟨permuteAndNotify cfg f notifyOn t its List.reverse, .ok⟩
    | _ => ⟨f, .skip⟩
  | .lIMul t n =>
    match f.find? t with
    | some (.node m its) =>
      if n ≤ 0 then
        (if m.sealed then ⟨f, .err .perm⟩ else ⟨clearAndNotify cfg f notifyOn t m its, .ok⟩)
      else
        if m.sealed then ⟨f, .err .perm⟩ else
        let one : List VE := its.map (fun kv => match kv.2 with
          | .leaf a => VE.atom a
          | .node cm _ => VE.ref cm.id)
        let vs := (List.replicate (n.toNat - 1) one).flatten
        finish f notifyOn (extendLoop cfg t f vs false) [m.id]
    | _ => ⟨f, .skip⟩
  | .lSetSlice t a b c vs =>
    match f.find? t with
    | some (.node m its) =>
      if m.sealed then ⟨f, .err .perm⟩ else
      if !m.accW then ⟨f, .err .perm⟩ else
      match sliceIndices a b c its.length with
      | none => ⟨f, .err .value⟩
      | some (start, stop, stp) =>
        -- F225 fixed: the size of an extended slice is checked before anything is formalized
        if cfg.sliceAtTarget = true ∧ stp ≠ 1 ∧ rangeLen start stop stp ≠ vs.length then ⟨f, .err .value⟩ else
        let p := slicePrepare cfg m (sliceIx cfg start stp) f 0 vs
        let size : Nat := rangeLen start stop stp
        let n := p.2.length
        let run (start stp : Int) (repl : List (Bool × VE)) : Res :=
          match sliceLoop cfg t start stp p.1 0 repl false with
          | .error e => ⟨p.1, .err e⟩
          | .ok (f', upd) => ⟨if notifyOn && upd then notify f' [m.id] else f', .ok⟩
        if stp = 1 then
          run start 1
            (if size < n then (p.2.zipIdx.map (fun vi => (decide (size ≤ vi.2), vi.1)))
             else p.2.map (fun v => (false, v)) ++ List.replicate (size - n) (false, VE.atom .missing))
        else if size ≠ n then ⟨p.1, .err .value⟩     -- raised after the values were formalized
        else if stp < 0 then
          run (start + ((size : Int) - 1) * stp) (-stp) (p.2.reverse.map (fun v => (false, v)))
        else run start stp (p.2.map (fun v => (false, v)))
    | _ => ⟨f, .skip⟩
  | .lDelSlice t a b c =>
    match f.find? t with
    | some (.node m its) =>
      if m.sealed then ⟨f, .err .perm⟩ else
      if !m.accW then ⟨f, .err .perm⟩ else
      match sliceIndices a b c its.length with
      | none => ⟨f, .err .value⟩
      | some (start, stop, stp) =>
        let size := rangeLen start stop stp
        if size = 0 then ⟨f, .ok⟩ else
        let f' := rawDelMany cfg f m its ((List.range size).map (fun (i : Nat) => (start + (Int.ofNat i) * stp).toNat))
        ⟨if notifyOn then notify f' [m.id] else f', .ok⟩
    | _ => ⟨f, .skip⟩
  | .setSeal t flag =>
    match f.find? t with
    | some (.node _ _) => ⟨{ f with roots := f.roots.map (Tree.mapSubtree t (Tree.seal flag)) }, .ok⟩
    | _ => ⟨f, .skip⟩
  | .dPop t k =>
    match f.find? t with
    | some (.node m its) =>
      if m.kind = .dict then
        (if hasKey its k then delItemDict cfg f notifyOn m its k true else ⟨f, .err .key⟩)
      else ⟨f, .skip⟩
    | _ => ⟨f, .skip⟩
  | .dPopItem t =>
    match f.find? t with
    | some (.node m its) =>
      if m.kind = .list then ⟨f, .skip⟩ else      -- a pg.List has no `popitem`
      if m.sealed then ⟨f, .err .perm⟩ else
      match its.getLast? with
      | none => ⟨f, .err .key⟩
      | some (k, c) =>
        let f' := (f.mapAt t (fun _ xs => eraseKey k xs)).addRoot
          (if cfg.detachOnRemove then detachFrom .dict c else c)
        -- 6daab50: popitem delivers a change notification
        ⟨if cfg.notifyBulk && notifyOn then notify f' [t] else f', .ok⟩
    | _ => ⟨f, .skip⟩
  | .dClear t =>
    match f.find? t with
    | some (.node m its) =>
      if m.sealed then ⟨f, .err .perm⟩ else ⟨clearAndNotify cfg f notifyOn t m its, .ok⟩
    | _ => ⟨f, .skip⟩
  | .dSetDefault t k v =>
    match f.find? t with
    | some (.node m its) =>
      if hasKey its k then ⟨f, .ok⟩ else setItem cfg f notifyOn m its k v
    | _ => ⟨f, .skip⟩
  | .dUpdate t kvs =>
    match f.find? t with
    | some (.node m _) => doRebind cfg f notifyOn t m (kvs.map (fun kv => ([kv.1], false, kv.2))) (some true) false
    | _ => ⟨f, .skip⟩
  | .rebind t pairs skip =>
    match f.find? t with
    | some (.node m _) => doRebind cfg f notifyOn t m pairs skip true
    | _ => ⟨f, .skip⟩

/-! ### Root order (presentation only): surviving old roots in their order, then the new roots
ordered by the position their node had before the step (brand-new results last). -/

def insertByIdx (key : Tree → Nat) (x : Tree) : List Tree → List Tree
  | [] => [x]
  | y :: ys => if key x ≤ key y then x :: y :: ys else y :: insertByIdx key x ys

def sortByIdx (key : Tree → Nat) : List Tree → List Tree
  | [] => []
  | x :: xs => insertByIdx key x (sortByIdx key xs)

def isCreation : Op → Bool
  | .new _ | .clone _ _ => true
  | _ => false

/-- `keepFresh`: the call returns a new object to the caller (`new`, `clone`). Otherwise a root
whose node was created during the call is an object nobody holds (a copy that was stored and
replaced again, an unused formalized value of a slice assignment): garbage. -/
def normalizeRoots (before : Forest) (after : Forest) (keepFresh : Bool) : Forest :=
  let oldRootIds := before.roots.filterMap Tree.id?
  let pre := before.ids
  let isOld (r : Tree) : Bool := match r.id? with
    | some i => oldRootIds.contains i
    | none => false
  let fresh (r : Tree) : Bool := match r.id? with
    | some i => before.nextId ≤ i
    | none => false
  -- position before the step of the first pre-existing node inside `r`
  let firstOld (r : Tree) : Nat := (r.ids.map (fun i => pre.idxOf i)).foldl min pre.length
  let key (r : Tree) : Nat := if fresh r then pre.length + 1 + firstOld r else match r.id? with
    | some i => pre.idxOf i
    | none => pre.length
  -- a fresh root that holds a pre-existing node is still reachable (through `sym_parent`)
  let held (r : Tree) : Bool := r.ids.any (fun i => decide (i < before.nextId))
  let surviving := oldRootIds.filterMap (fun i => after.roots.find? (fun r => r.id? == some i))
  let others := after.roots.filter (fun r => !isOld r && (keepFresh || !fresh r || held r))
  { after with roots := surviving ++ sortByIdx key others, pool := [], consumed := false }

def stepN (cfg : Cfg) (f : Forest) (notifyOn : Bool) (op : Op) : Res :=
  let r := step cfg f notifyOn op
  { r with forest := normalizeRoots f r.forest (isCreation op) }

end Pg.Sym
