/-
  Wire format of the value-spec model (shared by the C04 and C03 drivers).
  Values : ["M"] ["N"] ["b",bool] ["i",int] ["f",m,e] ["s",str] ["l",[..]] ["t",[..]]
           ["d",[[key,val],..]] ["o",cls,uid,partial]
  Flags  : [noneable, default, frozen]
  Specs  : ["any",F] ["bool",F] ["int",lo,hi,F] ["float",[m,e]|null,[m,e]|null,F] ["str",rx|null,F]
           ["enum",[vals],F] ["list",elem,min,max|null,F] ["tuple",[elems],min,max|null,F]
           ["dict",null|[[key,spec],..],F] ["obj",cls,F] ["union",[cands],F] ["callable",F]
  Keys   : ["c",name] | ["k",rx|null]
-/
import PgModel.Json
import PgModel.Typing
namespace Pg.Typing
open Pg

partial def valOfJ : J → Option Val
  | .arr [.str "M"] => some .missing
  | .arr [.str "N"] => some .none
  | .arr [.str "b", .bool b] => some (.bool b)
  | .arr [.str "i", .int i] => some (.int i)
  | .arr [.str "f", .int m, .int e] => some (.float ⟨m, e.toNat⟩)
  | .arr [.str "s", .str s] => some (.str s)
  | .arr [.str "l", .arr xs] => (xs.mapM valOfJ).map .list
  | .arr [.str "t", .arr xs] => (xs.mapM valOfJ).map .tuple
  | .arr [.str "d", .arr kvs] =>
    (kvs.mapM fun (kv : J) => match kv with
      | J.arr [J.str k, v] => (valOfJ v).map (fun v' => (k, v'))
      | _ => none).map .dict
  | .arr [.str "o", .int c, .int u, .bool p] => some (.obj c.toNat u.toNat p)
  | _ => none

partial def valToJ : Val → J
  | .missing => .arr [.str "M"]
  | .none => .arr [.str "N"]
  | .bool b => .arr [.str "b", .bool b]
  | .int i => .arr [.str "i", .int i]
  | .float n => .arr [.str "f", .int n.m, .int n.e]
  | .str s => .arr [.str "s", .str s]
  | .list xs => .arr [.str "l", .arr (xs.map valToJ)]
  | .tuple xs => .arr [.str "t", .arr (xs.map valToJ)]
  | .dict kvs => .arr [.str "d", .arr (kvs.map fun (k, v) => .arr [.str k, valToJ v])]
  | .obj c u p => .arr [.str "o", .int c, .int u, .bool p]

def flagsOfJ : J → Option Flags
  | .arr [.bool n, d, .bool fz] => (valOfJ d).map fun d' => ⟨n, d', fz⟩
  | _ => none

def flagsToJ (f : Flags) : J := .arr [.bool f.noneable, valToJ f.default, .bool f.frozen]

def optIntOfJ : J → Option (Option Int)
  | .null => some none
  | .int i => some (some i)
  | _ => none

def optNatOfJ : J → Option (Option Nat)
  | .null => some none
  | .int i => if i ≥ 0 then some (some i.toNat) else none
  | _ => none

def optNumOfJ : J → Option (Option Num)
  | .null => some none
  | .arr [.int m, .int e] => some (some ⟨m, e.toNat⟩)
  | _ => none

def keyOfJ : J → Option KeySpec
  | .arr [.str "c", .str k] => some (.const k)
  | .arr [.str "k", .null] => some (.strKey none)
  | .arr [.str "k", .int r] => some (.strKey (some r.toNat))
  | _ => none

def keyToJ : KeySpec → J
  | .const k => .arr [.str "c", .str k]
  | .strKey none => .arr [.str "k", .null]
  | .strKey (some r) => .arr [.str "k", .int r]

partial def specOfJ : J → Option Spec
  | .arr [.str "any", f] => (flagsOfJ f).map .any
  | .arr [.str "bool", f] => (flagsOfJ f).map .bool
  | .arr [.str "int", lo, hi, f] => do
    pure (.int (← optIntOfJ lo) (← optIntOfJ hi) (← flagsOfJ f))
  | .arr [.str "float", lo, hi, f] => do
    pure (.float (← optNumOfJ lo) (← optNumOfJ hi) (← flagsOfJ f))
  | .arr [.str "str", .null, f] => (flagsOfJ f).map (.str none)
  | .arr [.str "str", .int r, f] => (flagsOfJ f).map (.str (some r.toNat))
  | .arr [.str "enum", .arr vs, f] => do
    pure (.enum (← vs.mapM valOfJ) (← flagsOfJ f))
  | .arr [.str "list", e, .int mn, mx, f] => do
    pure (.list (← specOfJ e) mn.toNat (← optNatOfJ mx) (← flagsOfJ f))
  | .arr [.str "tuple", .arr es, .int mn, mx, f] => do
    pure (.tuple (← es.mapM specOfJ) mn.toNat (← optNatOfJ mx) (← flagsOfJ f))
  | .arr [.str "dict", .null, f] => (flagsOfJ f).map (.dict none)
  | .arr [.str "dict", .arr fs, f] => do
    let fields ← fs.mapM fun (x : J) => match x with
      | J.arr [k, s] => do pure (Field.mk (← keyOfJ k) (← specOfJ s))
      | _ => none
    pure (.dict (some fields) (← flagsOfJ f))
  | .arr [.str "obj", .int c, f] => (flagsOfJ f).map (.obj c.toNat)
  | .arr [.str "union", .arr cs, f] => do
    pure (.union (← cs.mapM specOfJ) (← flagsOfJ f))
  | .arr [.str "callable", f] => do
    pure (.callable (← flagsOfJ f))
  | _ => none

def optIntToJ : Option Int → J
  | none => .null
  | some i => .int i

def optNatToJ : Option Nat → J
  | none => .null
  | some i => .int i

def optNumToJ : Option Num → J
  | none => .null
  | some n => .arr [.int n.m, .int n.e]

partial def specToJ : Spec → J
  | .any f => .arr [.str "any", flagsToJ f]
  | .bool f => .arr [.str "bool", flagsToJ f]
  | .int lo hi f => .arr [.str "int", optIntToJ lo, optIntToJ hi, flagsToJ f]
  | .float lo hi f => .arr [.str "float", optNumToJ lo, optNumToJ hi, flagsToJ f]
  | .str r f => .arr [.str "str", optNatToJ r, flagsToJ f]
  | .enum vs f => .arr [.str "enum", .arr (vs.map valToJ), flagsToJ f]
  | .list e mn mx f => .arr [.str "list", specToJ e, .int mn, optNatToJ mx, flagsToJ f]
  | .tuple es mn mx f => .arr [.str "tuple", .arr (es.map specToJ), .int mn, optNatToJ mx, flagsToJ f]
  | .dict none f => .arr [.str "dict", .null, flagsToJ f]
  | .dict (some fs) f =>
    .arr [.str "dict", .arr (fs.map fun fld => .arr [keyToJ fld.key, specToJ fld.value]), flagsToJ f]
  | .obj c f => .arr [.str "obj", .int c, flagsToJ f]
  | .union cs f => .arr [.str "union", .arr (cs.map specToJ), flagsToJ f]
  | .callable f => .arr [.str "callable", flagsToJ f]

/-- `{"sub": [[a,b],..], "rx": [[id, string, bool],..]}` -/
def envOfJ (j : J) : Env :=
  let subs : List (Nat × Nat) := ((j.getArr? "sub").getD []).filterMap fun (x : J) => match x with
    | J.arr [J.int a, J.int b] => some (a.toNat, b.toNat)
    | _ => none
  let rxs : List (Nat × String × Bool) := ((j.getArr? "rx").getD []).filterMap fun (x : J) => match x with
    | J.arr [J.int r, J.str s, J.bool b] => some (r.toNat, s, b)
    | _ => none
  { sub := fun a b => subs.any (fun p => p.1 == a && p.2 == b)
    rx := fun r s => rxs.any (fun t => t.1 == r && t.2.1 == s && t.2.2) }

def errName : Err → String
  | .type => "TypeError"
  | .value => "ValueError"
  | .key => "KeyError"

def resToJ {α : Type} (f : α → J) : R α → J
  | .ok a => .arr [.str "ok", f a]
  | .error e => .arr [.str "err", .str (errName e)]

end Pg.Typing
