/-
  C05 — JSON of `pg.DNA` (geno/base.py `sym_jsonify` 1379-1446, `from_json` 1448-1484).

  Compact form (the default): `{'_type': DNA, 'format': 'compact', 'value': to_json(<nested>)}` plus
  `'metadata'` (root node only, if non-empty) and `'_cloneable_metadata_keys'` (if non-empty).
  `<nested>` is `Geno.toCompact` and the loader's `DNA.parse` is `Geno.parse` (the C12 model);
  the nested value itself goes through the ordinary plain-value codec (`toJson` / `fromJson`:
  tuples become `['__tuple__', …]`, lists lists).

  Floats: the DNA model keeps exact ratios, the codec opaque tokens; the token of a ratio is a
  parameter (`ftok` / `fparse`, part of the trusted float text layer).
-/
import PgModel.C05Codec
import PgModel.Geno.Views
namespace Pg.C05
open Pg.Geno (Nest)

/-- A DNA with metadata: metadata of the root, and whether some *child* node carries metadata
(which the compact form drops — finding F200). -/
structure MDNA where
  dna : Geno.DNA
  md : List (Key × Tree)               -- root `metadata` (a `pg.Dict`)
  cloneable : List Str                 -- `_cloneable_metadata_keys`
  childMeta : Bool                     -- some descendant has non-empty metadata
  deriving Inhabited

structure FloatText where
  ftok : Int → Nat → Str
  fparse : Str → Option (Int × Nat)

def dnaKey : Str := "pyglove.core.geno.base.DNA".toList

def valAtom (ft : FloatText) : Geno.Val → Atom
  | .none => .none
  | .int i => .int i
  | .flt n d => .float (ft.ftok n d)
  | .str s => .str s.toList

mutual
  def nestTree (ft : FloatText) : Nest → Tree
    | .v x => .leaf (valAtom ft x)
    | .list xs => .list (nestTreeL ft xs)
    | .tuple xs => .tuple (nestTreeL ft xs)
  def nestTreeL (ft : FloatText) : List Nest → List Tree
    | [] => []
    | x :: xs => nestTree ft x :: nestTreeL ft xs
end

mutual
  /-- What `DNA.__init__` sees of a loaded plain value (`pg.List` is a list). `none`: a shape the
  constructor rejects (dict, object, bool, MISSING). -/
  def treeNest (ft : FloatText) : Tree → Option Nest
    | .leaf .none => some (.v .none)
    | .leaf (.int i) => some (.v (.int i))
    | .leaf (.float t) => (ft.fparse t).map fun p => .v (.flt p.1 p.2)
    | .leaf (.str s) => some (.v (.str (String.ofList s)))
    | .leaf _ => none
    | .list xs => (treeNestL ft xs).map .list
    | .tuple xs => (treeNestL ft xs).map .tuple
    | _ => none
  def treeNestL (ft : FloatText) : List Tree → Option (List Nest)
    | [] => some []
    | x :: xs =>
      match treeNest ft x, treeNestL ft xs with
      | some n, some ns => some (n :: ns)
      | _, _ => none
end

mutual
  /-- The `value` of the compact form, exactly as `sym_jsonify(compact=True, type_info=False)`
  recurses (geno/base.py:1407-1424): a node without children is its bare value at *every* depth
  (`Geno.toCompact` does this for the root only; the two differ when an empty DNA is a child). -/
  def compact : Geno.DNA → Nest
    | .mk v [] => .v v
    | .mk v (c :: cs) => Geno.nestNode v (compact c :: compactL cs)
  def compactL : List Geno.DNA → List Nest
    | [] => []
    | c :: cs => compact c :: compactL cs
end

mutual
  /-- No child is the empty DNA `DNA(None)`. -/
  def noEmptyChild : Geno.DNA → Bool
    | .mk _ cs => noEmptyChildL cs
  def noEmptyChildL : List Geno.DNA → Bool
    | [] => true
    | .mk .none [] :: _ => false
    | c :: cs => noEmptyChild c && noEmptyChildL cs
end

def fmtKey : Str := "format".toList
def valueKey : Str := "value".toList
def metaKey : Str := "metadata".toList
def cloneKey : Str := "_cloneable_metadata_keys".toList
def compactStr : Str := "compact".toList

/-- `pg.to_json(dna)` (compact form). -/
def dnaToJson (ft : FloatText) (env : ClassEnv) (m : MDNA) : JV :=
  .obj ([(.s typeKey, .str dnaKey), (.s fmtKey, .str compactStr),
         (.s valueKey, toJson env (nestTree ft (compact m.dna)))] ++
        (if m.md.isEmpty then [] else [(.s metaKey, toJson env (.dict m.md))]) ++
        (if m.cloneable.isEmpty then [] else [(.s cloneKey, .arr (m.cloneable.map JV.str))]))

def strsOfJ : List JV → Option (List Str)
  | [] => some []
  | .str s :: r => (strsOfJ r).map (s :: ·)
  | _ :: _ => none

/-- `DNA.from_json(json_value)` for the compact form. -/
def dnaFromJson (ft : FloatText) (env : ClassEnv) : JV → Except Err MDNA
  | .obj kvs =>
    if (match jlookup (.s fmtKey) kvs with
        | some (.str f) => f == compactStr
        | _ => false) then
      match fromJson env false ((jlookup (.s valueKey) kvs).getD .null) with
      | .error e => .error e
      | .ok t =>
        match (treeNest ft t).bind Geno.parse with
        | none => .error .value                       -- DNA.__init__: "… must be …" ValueError
        | some d =>
          let cl : Option (List Str) := match jlookup (.s cloneKey) kvs with
            | none => some []
            | some (.arr xs) => strsOfJ xs
            | some _ => none
          match cl with
          | none => .error .type
          | some cloneable =>
            match jlookup (.s metaKey) kvs with
            | none => .ok ⟨d, [], cloneable, false⟩
            | some mj =>
              match fromJson env false mj with
              | .error e => .error e
              | .ok (.dict kv) => .ok ⟨d, kv, cloneable, false⟩
              | .ok _ => .error .type                 -- rebind(metadata=<not a dict>)
    else .error .other                                -- non-compact form: the generic object path
  | _ => .error .type

end Pg.C05
