/-
  C15 — NSGA2's selection inside the model: the population update of `pg.evolution.nsga2`
  (pyglove/ext/evolution/nsga2.py) as a pure function over integer fitness tuples.

    population_update =
      (GlobalStateGetter('elites', []) + Identity()
       >> Lambda(nondominated_sort()).for_each(crowding_distance_sort()).flatten()
       >> First(population_size).as_global_state('elites').set_global_state('elite_cursor', 0)
      ).if_true(lambda x: len(x) >= population_size)

  `as_global_state` is `Pipeline([op, GlobalStateSetter(key)])` and `GlobalStateSetter` returns `[]`, so a
  triggered update EMPTIES the population and stores the selection in `global_state.elites`.  The generator
  state machine of PgModel/Gen.lean has one list-valued component that `population_update` transforms; for
  NSGA2 that component is the pair (elites, unprocessed population) encoded as
      elites ++ [separator] ++ population        (no separator: `elites` was never set)
  so that the generic theorems (`C15_recover_evolution`: this component is recovered exactly, for ANY update
  function) cover `global_state.elites` and `population` together.  `elite_cursor` is reproduction-side
  state and is not part of the model (finding F167).

  Crowding distances are exact rationals (numerator, positive denominator); the harness draws objective
  values from {0,1,2}, for which the implementation's float arithmetic is exact as well.
-/
import PgModel.Gen
namespace Pg.C15.Nsga2

/-- structural facts of nsga2.py, extracted by translate/t_c15.py -/
structure Facts where
  initFactor : Nat            -- population_init size = population_size * initFactor
  boundaryOverwrites : Bool   -- `distances[...] = objective_num` (assignment) for the two boundary points
  descending : Bool           -- final sort `reverse=True`
  deriving Repr, DecidableEq

/-- the two objectives of the harness' reward `r`: `(r % 3, (r // 3) % 3)` -/
def objs (r : Int) : List Int := [r % 3, (r / 3) % 3]

/-- `dominates(ind1, ind2)` (nsga2.py:165-178) -/
def dominatesAux : List Int → List Int → Bool → Bool
  | a :: as, b :: bs, acc => if a < b then false else dominatesAux as bs (acc || decide (a > b))
  | _, _, acc => acc

def dominates (a b : List Int) : Bool := dominatesAux a b false

def getD0 (l : List Nat) (i : Nat) : Nat := l.getD i 0

def setNth (l : List Nat) (i v : Nat) : List Nat :=
  match l, i with
  | [], _ => []
  | _ :: xs, 0 => v :: xs
  | x :: xs, n + 1 => x :: setNth xs n v

/-- release the children of one parent: `indegree[child] -= 1; if 0: queue.append(child)` -/
def release (children : List Nat) (indeg : List Nat) (queue : List Nat) : List Nat × List Nat :=
  children.foldl (fun (st : List Nat × List Nat) c =>
    let d := getD0 st.1 c - 1
    (setNth st.1 c d, if d = 0 then st.2 ++ [c] else st.2)) (indeg, queue)

/-- one frontier: pop the first `l` queue entries in order -/
def layer (dep : List (List Nat)) : Nat → List Nat × List Nat → List Nat → List Nat × (List Nat × List Nat)
  | 0, st, acc => (acc, st)
  | l + 1, (indeg, queue), acc =>
    match queue with
    | [] => (acc, (indeg, queue))
    | parent :: rest =>
      let st' := release (dep.getD parent []) indeg rest
      layer dep l st' (acc ++ [parent])

def layers (dep : List (List Nat)) : Nat → List Nat × List Nat → List (List Nat)
  | 0, _ => []
  | fuel + 1, (indeg, queue) =>
    if queue.isEmpty then [] else
    let (frontier, st') := layer dep queue.length (indeg, queue) []
    frontier :: layers dep fuel st'

/-- `nondominated_sort` (nsga2.py:83-121) on the fitness list; returns frontiers of indices -/
def ndSort (fits : List (List Int)) : List (List Nat) :=
  let n := fits.length
  let idx := List.range n
  let fit (i : Nat) := fits.getD i []
  let dep := idx.map fun i => idx.filter fun j => dominates (fit i) (fit j)
  let indeg := idx.map fun i =>
    (idx.filter fun j => !dominates (fit i) (fit j) && dominates (fit j) (fit i)).length
  let queue := idx.filter fun i => getD0 indeg i = 0
  layers dep (n + 1) (indeg, queue)

/-! exact rationals -/
structure Q where
  num : Int
  den : Nat      -- > 0
  deriving Repr

def Q.add (a b : Q) : Q := ⟨a.num * b.den + b.num * a.den, a.den * b.den⟩
def Q.lt (a b : Q) : Bool := a.num * b.den < b.num * a.den

/-- stable ascending insertion by an integer key (used with `foldr`) -/
def insertAsc (key : Nat → Int) (x : Nat) : List Nat → List Nat
  | [] => [x]
  | y :: ys => if key y < key x then y :: insertAsc key x ys else x :: y :: ys

def sortAsc (key : Nat → Int) (l : List Nat) : List Nat := l.foldr (insertAsc key) []

/-- stable descending insertion by a rational key -/
def insertDesc (key : Nat → Q) (x : Nat) : List Nat → List Nat
  | [] => [x]
  | y :: ys => if (key x).lt (key y) then y :: insertDesc key x ys else x :: y :: ys

def insertAscQ (key : Nat → Q) (x : Nat) : List Nat → List Nat
  | [] => [x]
  | y :: ys => if (key y).lt (key x) then y :: insertAscQ key x ys else x :: y :: ys

def setQ (l : List Q) (i : Nat) (v : Q) : List Q :=
  match l, i with
  | [], _ => []
  | _ :: xs, 0 => v :: xs
  | x :: xs, n + 1 => x :: setQ xs n v

/-- `crowding_distance_sort` (nsga2.py:124-162): `frontier` is a list of fitness tuples, the result the
permutation of positions -/
def crowdOrder (facts : Facts) (fits : List (List Int)) : List Nat :=
  let m := fits.length
  if m ≤ 1 then List.range m else
  let k := (fits.headD []).length
  let val (i : Nat) (p : Nat) : Int := (fits.getD p []).getD i 0
  let pass (dist : List Q) (i : Nat) : List Q :=
    let order := sortAsc (val i) (List.range m)
    let maxV := val i (order.getD (m - 1) 0)
    let minV := val i (order.getD 0 0)
    (List.range m).foldl (fun dist j =>
      let p := order.getD j 0
      if j = 0 ∨ j = m - 1 then
        (if facts.boundaryOverwrites then setQ dist p ⟨k, 1⟩ else setQ dist p ((dist.getD p ⟨0, 1⟩).add ⟨k, 1⟩))
      else if maxV > minV then
        setQ dist p ((dist.getD p ⟨0, 1⟩).add
          ⟨val i (order.getD (j + 1) 0) - val i (order.getD (j - 1) 0), (maxV - minV).toNat⟩)
      else dist) dist
  let dist := (List.range k).foldl pass (List.replicate m ⟨0, 1⟩)
  let key (p : Nat) : Q := dist.getD p ⟨0, 1⟩
  if facts.descending then (List.range m).foldr (insertDesc key) []
  else (List.range m).foldr (insertAscQ key) []

/-- frontiers, each sorted by crowding distance, flattened: a permutation of the input positions -/
def nsgaOrder (facts : Facts) (fits : List (List Int)) : List Nat :=
  (ndSort fits).flatMap fun frontier =>
    (crowdOrder facts (frontier.map fun i => fits.getD i [])).map fun p => frontier.getD p 0

/-! ### the update on the encoded component -/

def sepDna : Nat := 1000000
def sep : Item := { dna := sepDna }
def isSep (it : Item) : Bool := it.dna == sepDna

/-- (elites if set, unprocessed population) -/
def decode (enc : List Item) : Option (List Item) × List Item :=
  if enc.any isSep then (some (enc.takeWhile (fun it => !isSep it)), (enc.dropWhile (fun it => !isSep it)).drop 1)
  else (none, enc)

def encode (elites : Option (List Item)) (pop : List Item) : List Item :=
  match elites with
  | none => pop
  | some e => e ++ [sep] ++ pop

def fitOf (it : Item) : List Int := objs (it.reward.getD 0)

/-- `population_update` of `nsga2(population_size = n)` -/
def update (facts : Facts) (n : Nat) (enc : List Item) (_step : Nat) : List Item :=
  let (elites, pop) := decode enc
  if n ≤ pop.length then
    let input := elites.getD [] ++ pop
    let order := nsgaOrder facts (input.map fitOf)
    let sorted := order.map fun i => input.getD i default
    encode (some (sorted.take n)) []
  else enc

end Pg.C15.Nsga2
