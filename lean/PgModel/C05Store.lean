/-
  C05 — stores: the in-memory file system (io/file_system.py:214-380, API functions 420-470)
  and the line / record sequences (io/sequence.py:170-330), as state machines
  `step : FsCfg → St → Op → St × Out`.

  `FsCfg` selects between the behaviour of the pinned tree (`FsCfg.pinned`: `_internal_path`
  strips the *characters* of the prefix, `'w'` re-uses the old buffer without truncation,
  `'a'` neither creates nor seeks) and of the tree with fixes/C05-F13.patch applied
  (`FsCfg.patched`). The committed check runs the driver with `FsCfg.patched`.

  Paths and contents are `List Char`. Files are always closed between API calls
  (`with … as f`), and `MemoryFile.close` rewinds to 0, so a file is just its content.
-/
namespace Pg.C05

abbrev Name := List Char
abbrev Path := List Char

structure FsCfg where
  lstripPrefix : Bool     -- `resolve_path(path).lstrip(self._prefix)`
  truncateOnW : Bool      -- `'w'` starts from an empty buffer
  appendAtEnd : Bool      -- `'a'` creates the file and seeks to its end
  deriving DecidableEq, Repr

def FsCfg.pinned : FsCfg := ⟨true, false, false⟩
def FsCfg.patched : FsCfg := ⟨false, true, true⟩

inductive FsErr where
  | notFound | isDir | notDir | typeErr | value
  deriving DecidableEq, Repr, Inhabited

inductive Node where
  | file (c : List Char)
  | dir (es : List (Name × Node))
  deriving Repr, Inhabited

abbrev Dir := List (Name × Node)

/-! ### Path strings -/

/-- `s.split('/')`. -/
def splitSlash : List Char → List (List Char)
  | [] => [[]]
  | c :: cs =>
    if c = '/' then [] :: splitSlash cs
    else match splitSlash cs with
      | [] => [[c]]
      | w :: ws => (c :: w) :: ws

def memPrefix : List Char := "/mem/".toList
def memRoot : List Char := "/mem".toList

def isPrefixChar (c : Char) : Bool := c = '/' || c = 'm' || c = 'e'

/-- `_internal_path` without the leading '/', which `_locate` skips anyway. -/
def internalPath (cfg : FsCfg) (p : Path) : List Char :=
  if cfg.lstripPrefix then p.dropWhile isPrefixChar
  else if p = memRoot || memPrefix.isPrefixOf p then p.drop 4
  else p

/-- The components `_locate` / `mkdirs` walk: `internal.split('/')` minus empty parts. -/
def key (cfg : FsCfg) (p : Path) : List Name :=
  (splitSlash (internalPath cfg p)).filter (fun w => !w.isEmpty)

/-- Index of the last '/' (`str.rfind`), if any. -/
def rfindSlash (p : Path) : Option Nat :=
  let rec go : List Char → Nat → Option Nat → Option Nat
    | [], _, best => best
    | c :: cs, i, best => go cs (i + 1) (if c = '/' then some i else best)
  go p 0 none

/-- `path[:rpos]`, `path[rpos+1:]` of `_parent_and_name`. -/
def parentStr (p : Path) : Path := match rfindSlash p with | some i => p.take i | none => []
def nameStr (p : Path) : Name := match rfindSlash p with | some i => p.drop (i + 1) | none => p

def rstripSlash (p : List Char) : List Char := (p.reverse.dropWhile (· = '/')).reverse

/-- `posixpath.dirname`. -/
def dirname (p : Path) : Path :=
  match rfindSlash p with
  | none => []
  | some i =>
    let head := p.take (i + 1)
    if head.all (· = '/') then head else rstripSlash head

/-! ### The directory tree -/

def dget : Dir → Name → Option Node
  | [], _ => none
  | (y, n) :: es, x => if y = x then some n else dget es x

/-- `d[x] = n` on an insertion-ordered dict. -/
def dset : Dir → Name → Node → Dir
  | [], x, n => [(x, n)]
  | (y, m) :: es, x, n => if y = x then (y, n) :: es else (y, m) :: dset es x n

/-- `_locate` (file_system.py:255-263): `none` = `None`; walking *through* a file raises
TypeError (`x not in current` on a MemoryFile). -/
def locate : Node → List Name → Except FsErr (Option Node)
  | n, [] => .ok (some n)
  | .file _, _ :: _ => .error .typeErr
  | .dir es, x :: k =>
    match dget es x with
    | none => .ok none
    | some n => locate n k

/-- `mkdirs(path, exist_ok=True)` (file_system.py:318-337) on the component list. -/
def mkdirsAt : Dir → List Name → Except FsErr Dir
  | es, [] => .ok es
  | es, x :: k =>
    match dget es x with
    | none =>
      match mkdirsAt [] k with
      | .ok sub => .ok (dset es x (.dir sub))
      | .error e => .error e
    | some (.dir sub) =>
      match mkdirsAt sub k with
      | .ok sub' => .ok (dset es x (.dir sub'))
      | .error e => .error e
    | some (.file _) => .error .notDir

/-- `parent_dir[name] = node` where `parent_dir = _locate(parentKey)` is a directory. -/
def setAt : Dir → List Name → Name → Node → Dir
  | es, [], x, n => dset es x n
  | es, y :: k, x, n =>
    match dget es y with
    | some (.dir sub) => dset es y (.dir (setAt sub k x n))
    | _ => es

/-- In-place change of the content of the file object found at `k`. -/
def updFile : Dir → List Name → List Char → Dir
  | es, [], _ => es
  | es, [x], c =>
    match dget es x with
    | some (.file _) => dset es x (.file c)
    | _ => es
  | es, y :: x :: k, c =>
    match dget es y with
    | some (.dir sub) => dset es y (.dir (updFile sub (x :: k) c))
    | _ => es

/-- `StringIO.write` at position 0 over old content `old` (no truncation). -/
def overwrite (new old : List Char) : List Char := new ++ old.drop new.length

inductive Mode where
  | w | a
  deriving DecidableEq, Repr, Inhabited

/-- `MemoryFileSystem.open(path, mode)` + `write(content)` + `close()` (= `writefile`). -/
def writeFile (cfg : FsCfg) (root : Dir) (p : Path) (content : List Char) (mode : Mode) :
    Except FsErr Dir :=
  match locate (.dir root) (key cfg p) with
  | .error e => .error e
  | .ok (some (.dir _)) => .error .isDir
  | .ok cur =>
    let old : Option (List Char) := match cur with
      | some (.file c) => some c
      | _ => none
    -- pinned: `'w' in mode and file is None`; patched: `'w' in mode or ('a' in mode and file is None)`
    let fresh : Bool :=
      (mode = .w && (cfg.truncateOnW || old.isNone)) || (mode = .a && cfg.appendAtEnd && old.isNone)
    -- writing through the file object found at `key p` (position 0, or the end for a patched 'a')
    let existing : Except FsErr Dir :=
      match old with
      | none => .error .notFound
      | some c =>
        let c' := if mode = .a && cfg.appendAtEnd then c ++ content else overwrite content c
        .ok (updFile root (key cfg p) c')
    if fresh then
      -- `_parent_and_name`, then `parent_dir[name] = MemoryFile(...)` if the parent is a dict
      match locate (.dir root) (key cfg (parentStr p)) with
      | .error e => .error e
      | .ok none => .error .notFound
      | .ok (some (.dir _)) => .ok (setAt root (key cfg (parentStr p)) (nameStr p) (.file content))
      | .ok (some (.file _)) => existing      -- e.g. '/mem/a/b/' where '/mem/a/b' is a file
    else existing

/-- `readfile(path)`. -/
def readFile (cfg : FsCfg) (root : Dir) (p : Path) : Except FsErr (List Char) :=
  match locate (.dir root) (key cfg p) with
  | .error e => .error e
  | .ok none => .error .notFound
  | .ok (some (.dir _)) => .error .isDir
  | .ok (some (.file c)) => .ok c

/-- `pg_io.mkdirs(path)`: dispatched by `_fs.get(path)` — only paths under '/mem/' reach the
memory file system (anything else goes to the OS, outside the model). -/
def mkdirsApi (cfg : FsCfg) (root : Dir) (p : Path) : Except FsErr Dir :=
  if memPrefix.isPrefixOf p then mkdirsAt root (key cfg p) else .ok root

/-- `default_save_handler` (base.py:2405-2424): mkdirs(dirname) then writefile. -/
def saveFile (cfg : FsCfg) (root : Dir) (p : Path) (content : List Char) : Except FsErr Dir :=
  match mkdirsApi cfg root (dirname p) with
  | .error e => .error e
  | .ok root' => writeFile cfg root' p content .w

/-! ### Line sequences (sequence.py:252-296) -/

def rstripNl (r : List Char) : List Char := (r.reverse.dropWhile (· = '\n')).reverse

/-- What `LineSequence._add` writes for the records of one open/close session. -/
def linesOf : List (List Char) → List Char
  | [] => []
  | r :: rs => rstripNl r ++ '\n' :: linesOf rs

/-- `_iter`: `readline()` until the empty string, each line `rstrip('\n')`-ed. -/
def readLines : List Char → List (List Char)
  | [] => []
  | c :: cs =>
    if c = '\n' then [] :: readLines cs
    else match readLines cs with
      | [] => [[c]]
      | l :: ls => (c :: l) :: ls

/-- `open_sequence(path, mode)`; `add(r)` for every record; `close()`. -/
def seqWrite (cfg : FsCfg) (root : Dir) (p : Path) (mode : Mode) (recs : List (List Char)) :
    Except FsErr Dir :=
  match mkdirsApi cfg root (dirname p) with
  | .error e => .error e
  | .ok root' => writeFile cfg root' p (linesOf recs) mode

def seqRead (cfg : FsCfg) (root : Dir) (p : Path) : Except FsErr (List (List Char)) :=
  match readFile cfg root p with
  | .error e => .error e
  | .ok c => .ok (readLines c)

/-! ### The state machine -/

inductive Op where
  | save (p : Path) (content : List Char)          -- pg.save(v, p) with content = to_json_str(v)
  | load (p : Path)                                -- pg.load(p) up to from_json_str
  | write (p : Path) (content : List Char) (m : Mode)   -- pg_io.writefile
  | mkdirs (p : Path)
  | seqWrite (p : Path) (m : Mode) (recs : List (List Char))
  | seqRead (p : Path)
  | exists_ (p : Path)
  | listdir (p : Path)
  deriving Repr, Inhabited

inductive Out where
  | unit
  | content (c : List Char)
  | records (rs : List (List Char))
  | bool (b : Bool)
  | names (ns : List Name)
  | err (e : FsErr)
  deriving DecidableEq, Repr, Inhabited

def step (cfg : FsCfg) (s : Dir) : Op → Dir × Out
  | .save p c => match saveFile cfg s p c with
    | .ok s' => (s', .unit)
    | .error e =>
      -- mkdirs may already have happened when the write fails
      match mkdirsApi cfg s (dirname p) with
      | .ok s' => (s', .err e)
      | .error _ => (s, .err e)
  | .load p => match readFile cfg s p with
    | .ok c => (s, .content c)
    | .error e => (s, .err e)
  | .write p c m => match writeFile cfg s p c m with
    | .ok s' => (s', .unit)
    | .error e => (s, .err e)
  | .mkdirs p => match mkdirsApi cfg s p with
    | .ok s' => (s', .unit)
    | .error e => (s, .err e)
  | .seqWrite p m recs => match seqWrite cfg s p m recs with
    | .ok s' => (s', .unit)
    | .error e =>
      match mkdirsApi cfg s (dirname p) with
      | .ok s' => (s', .err e)
      | .error _ => (s, .err e)
  | .seqRead p => match seqRead cfg s p with
    | .ok rs => (s, .records rs)
    | .error e => (s, .err e)
  | .exists_ p => match locate (.dir s) (key cfg p) with
    | .ok (some _) => (s, .bool true)
    | .ok none => (s, .bool false)
    | .error e => (s, .err e)
  | .listdir p => match locate (.dir s) (key cfg p) with
    | .ok (some (.dir es)) => (s, .names (es.map (·.1)))
    | .ok _ => (s, .err .notFound)
    | .error e => (s, .err e)

def run (cfg : FsCfg) : Dir → List Op → Dir × List Out
  | s, [] => (s, [])
  | s, op :: ops =>
    let (s1, o) := step cfg s op
    let (s2, os) := run cfg s1 ops
    (s2, o :: os)

end Pg.C05

namespace Pg.C05

/-! ### Several in-memory mounts (`add_file_system(prefix, MemoryFileSystem(prefix))`): one tree each -/

/-- An operation addressed to mount A (`false`) or mount B (`true`), with the path already made
relative to the mount (each `MemoryFileSystem` strips its own prefix). -/
abbrev MOp := Bool × Op

def mstep (cfg : FsCfg) (s : Dir × Dir) (m : MOp) : (Dir × Dir) × Out :=
  if m.1 then
    let r := step cfg s.2 m.2
    ((s.1, r.1), r.2)
  else
    let r := step cfg s.1 m.2
    ((r.1, s.2), r.2)

def mrun (cfg : FsCfg) : Dir × Dir → List MOp → (Dir × Dir) × List (Bool × Out)
  | s, [] => (s, [])
  | s, m :: ms =>
    let r := mstep cfg s m
    let rest := mrun cfg r.1 ms
    (rest.1, (m.1, r.2) :: rest.2)

/-- The operations / outputs that belong to one mount. -/
def opsOf (b : Bool) (ms : List MOp) : List Op := (ms.filter (fun m => m.1 == b)).map (·.2)
def outsOf (b : Bool) (os : List (Bool × Out)) : List Out := (os.filter (fun o => o.1 == b)).map (·.2)

end Pg.C05
