/-
  C14 — numeric recombinators `Average` / `WeightedAverage` (recombinators.py:426-518), `where = ALL`,
  over exact rationals: every float decision of a parent is replaced by the (weighted) mean of the
  decisions of the parents for which that very decision point is active; all other decisions are
  copied; the children go through `from_dict` and a `set`.
-/
import PgModel.EvoPerm
namespace Pg.C14

def qsum : List Q → Q
  | [] => 0
  | a :: t => a + qsum t

/-- the (value, weight) pairs of the parents for which the point is active. -/
def activePairs : List (Option Q) → List Q → List (Q × Q)
  | some v :: vs, w :: ws => (v, w) :: activePairs vs ws
  | none :: vs, _ :: ws => activePairs vs ws
  | _, _ => []

/-- `WeightedAverage.merge`: `sum(w * d) / sum(w)` over the active parents (`Average`: all `w = 1`,
i.e. `sum(d) / len(d)`); `none`: no active parent or zero total weight (ZeroDivisionError). -/
def meanOf (vals : List (Option Q)) (ws : List Q) : Option Q :=
  let pairs := activePairs vals ws
  let den := qsum (pairs.map (·.2))
  if den = 0 then none else some (qsum (pairs.map (fun p => p.2 * p.1)) / den)

mutual
  /-- one child: parent `self` with every float replaced by the mean over `ps` (all parents,
  restricted along the way to those that made the same enclosing choices). -/
  def avgDna (ws : List Q) : GSpec → List (Option DNA) → DNA → Option DNA
    | .space es, ps, .space ds => (avgElems ws es ps 0 ds).map .space
    | .float _ _, ps, .float _ => (meanOf (ps.map floatOf) ws).map .float
    | .choices _ cands _ _, ps, .choices subs => (avgSubs ws cands ps 0 subs).map .choices
    | _, _, d => some d
  def avgElems (ws : List Q) : List GSpec → List (Option DNA) → Nat → List DNA → Option (List DNA)
    | e :: es, ps, j, d :: ds =>
        match avgDna ws e (ps.map (elemAt j)) d, avgElems ws es ps (j + 1) ds with
        | some d', some r => some (d' :: r)
        | _, _ => none
    | _, _, _, ds => some ds
  def avgSubs (ws : List Q) : List GSpec → List (Option DNA) → Nat → List DNA → Option (List DNA)
    | cands, ps, i, .sub b v d :: rest =>
        match (match cands[v]? with
               | some c => avgDna ws c (ps.map (below i v)) d
               | none => some d), avgSubs ws cands ps (i + 1) rest with
        | some d', some r => some (.sub b v d' :: r)
        | _, _ => none
    | _, _, _, ds => some ds
end

def allSome {α : Type} : List (Option α) → Option (List α)
  | [] => some []
  | some a :: t => (allSome t).map (a :: ·)
  | none :: _ => none

/-- the weights the harness uses for `WeightedAverage` (`1 + i % 3` for parent `i`). -/
def harnessWeights (n : Nat) : List Q := (List.range n).map (fun i => ((1 + i % 3 : Nat) : Q))

def recNumeric (weights : Option (Nat → List Q)) (g : GSpec) : Op := fun pop =>
  if pop.isEmpty then pure []
  else if !popAligned pop then fail .unmodelled
  else
    let ws := match weights with
      | some f => f pop.length
      | none => pop.map (fun _ => (1 : Q))
    let ps := pop.map (fun x => some x.dna)
    match allSome (pop.map (fun x => avgDna ws g ps x.dna)) with
    | none => fail .unmodelled
    | some raw => finishChildren g raw

end Pg.C14
