/-
  C05 — JSON of pg.typing value specs, fields, key specs and schemas.

  Anchors: typing/value_specs.py `to_json` of Bool 492, Str 548, Number 754, Enum 1022, List 1244,
  Tuple 1583, Dict 1816, Object 2019, Callable 2342, Type 2554, Union 2866, Any 3037 — all through
  `JSONConvertible.to_json_dict(fields, exclude_default=True)` (json_conversion.py:306-325: a key
  is dropped iff its value equals the omission sentinel); class_schema.py `Field.to_json`,
  `Schema.to_json`, key_specs.py `ConstStrKey/StrKey/ListKey/TupleKey.to_json`.
  Loading: `JSONConvertible.from_json` (192-208): the children are decoded first, then
  `cls(**kwargs)`; a class value is `{'_type': 'type', 'name': …}`.

  The state of a spec is what its public properties show (as in the C04 model): flags
  (noneable, default, frozen), bounds, regex pattern, element / candidate specs, schema.
  Defaults and enum values are plain C05 trees; float bounds are opaque tokens.
  `Dict.explicitDefault` is the one hidden bit `to_json` looks at (`_use_generated_default`): a
  generated default is not written and is regenerated on load (state: `default = none`).
-/
import PgModel.C05Codec
namespace Pg.C05

structure VFlags where
  noneable : Bool
  default : Option Tree            -- `none` = MISSING_VALUE; `some (.leaf .none)` = None
  frozen : Bool
  deriving Inhabited

inductive VKey where
  | const (text : Str)
  | strKey (regex : Option Str)
  | listKey (min : Int) (max : Option Int)
  | tupleKey (index : Option Int)
  deriving Inhabited

mutual
  inductive VS where
    | any (f : VFlags)
    | bool (f : VFlags)
    | int (lo hi : Option Int) (f : VFlags)
    | float (lo hi : Option Str) (f : VFlags)
    | str (regex : Option Str) (f : VFlags)
    | enum (vals : List Tree) (f : VFlags)
    | list (elem : VS) (min : Int) (max : Option Int) (f : VFlags)
    | tupleFixed (elems : List VS) (f : VFlags)
    | tupleVar (elem : VS) (min : Int) (max : Option Int) (f : VFlags)
    | dict (schema : Option VSchema) (explicitDefault : Bool) (f : VFlags)
    | obj (cls : Str) (f : VFlags)
    | type (cls : Str) (dflt : Option Str) (noneable frozen : Bool)
    | union (cands : List VS) (f : VFlags)
    | callable (args : List VS) (returns : Option VS) (f : VFlags)
  inductive VField where
    | mk (key : VKey) (value : VS) (description : Option Str) (metadata : Option Tree)
  inductive VSchema where
    | mk (fields : List VField) (name : Option Str) (allowNonConst : Bool) (metadata : Option Tree)
end

instance : Inhabited VS := ⟨.any default⟩

/-! ### Serialisation keys -/

def tyAny : Str := "pyglove.typing.Any".toList
def tyBool : Str := "pyglove.typing.Bool".toList
def tyInt : Str := "pyglove.typing.Int".toList
def tyFloat : Str := "pyglove.typing.Float".toList
def tyStr : Str := "pyglove.typing.Str".toList
def tyEnum : Str := "pyglove.typing.Enum".toList
def tyList : Str := "pyglove.typing.List".toList
def tyTuple : Str := "pyglove.typing.Tuple".toList
def tyDict : Str := "pyglove.typing.Dict".toList
def tyObject : Str := "pyglove.typing.Object".toList
def tyType : Str := "pyglove.typing.Type".toList
def tyUnion : Str := "pyglove.typing.Union".toList
def tyCallable : Str := "pyglove.typing.Callable".toList
def tyField : Str := "pyglove.typing.Field".toList
def tySchema : Str := "pyglove.typing.Schema".toList
def tyConstKey : Str := "pyglove.typing.ConstStrKey".toList
def tyStrKey : Str := "pyglove.typing.StrKey".toList
def tyListKey : Str := "pyglove.typing.ListKey".toList
def tyTupleKey : Str := "pyglove.typing.TupleKey".toList
def tyClass : Str := "type".toList

def kDefault : Str := "default".toList
def kNoneable : Str := "is_noneable".toList
def kFrozen : Str := "frozen".toList
def kMin : Str := "min_value".toList
def kMax : Str := "max_value".toList
def kRegex : Str := "regex".toList
def kValues : Str := "values".toList
def kElem : Str := "element_value".toList
def kElems : Str := "element_values".toList
def kMinSize : Str := "min_size".toList
def kMaxSize : Str := "max_size".toList
def kSchema : Str := "schema".toList
def kT : Str := "t".toList
def kCands : Str := "candidates".toList
def kArgs : Str := "args".toList
def kReturns : Str := "returns".toList
def kName : Str := "name".toList
def kFields : Str := "fields".toList
def kAllowNonConst : Str := "allow_nonconst_keys".toList
def kMetadata : Str := "metadata".toList
def kDescription : Str := "description".toList
def kKeySpec : Str := "key_spec".toList
def kValueSpec : Str := "value_spec".toList
def kText : Str := "text".toList
def kIndex : Str := "index".toList

/-! ### to_json -/

/-- An entry that is dropped when absent (`exclude_default=True`). -/
def oE (k : Str) : Option JV → List (Key × JV)
  | some j => [(.s k, j)]
  | none => []

/-- A boolean flag with omission sentinel `False`. -/
def fE (k : Str) (b : Bool) : List (Key × JV) := if b then [(.s k, .bool true)] else []

def classJ (name : Str) : JV := .obj [(.s typeKey, .str tyClass), (.s kName, .str name)]

def keyToJson : VKey → JV
  | .const t => .obj [(.s typeKey, .str tyConstKey), (.s kText, .str t)]
  | .strKey r => .obj ((.s typeKey, .str tyStrKey) :: oE kRegex (r.map JV.str))
  | .listKey mn mx => .obj ((.s typeKey, .str tyListKey) :: (.s kMin, .int mn) :: oE kMax (mx.map JV.int))
  | .tupleKey i => .obj ((.s typeKey, .str tyTupleKey) :: oE kIndex (i.map JV.int))

def dE (env : ClassEnv) (f : VFlags) : List (Key × JV) := oE kDefault (f.default.map (toJson env))

mutual
  def vsToJson (env : ClassEnv) : VS → JV
    | .any f => .obj ((.s typeKey, .str tyAny) :: (dE env f ++ fE kFrozen f.frozen))
    | .bool f => .obj ((.s typeKey, .str tyBool) :: (dE env f ++ fE kNoneable f.noneable ++ fE kFrozen f.frozen))
    | .int lo hi f =>
      .obj ((.s typeKey, .str tyInt) :: (dE env f ++ oE kMin (lo.map JV.int) ++ oE kMax (hi.map JV.int) ++
            fE kNoneable f.noneable ++ fE kFrozen f.frozen))
    | .float lo hi f =>
      .obj ((.s typeKey, .str tyFloat) :: (dE env f ++ oE kMin (lo.map JV.float) ++ oE kMax (hi.map JV.float) ++
            fE kNoneable f.noneable ++ fE kFrozen f.frozen))
    | .str r f =>
      .obj ((.s typeKey, .str tyStr) :: (dE env f ++ oE kRegex (r.map JV.str) ++
            fE kNoneable f.noneable ++ fE kFrozen f.frozen))
    | .enum vals f =>
      .obj ((.s typeKey, .str tyEnum) :: (dE env f ++ [(.s kValues, .arr (toJsonL env vals))] ++ fE kFrozen f.frozen))
    | .list e mn mx f =>
      .obj ((.s typeKey, .str tyList) :: ((.s kElem, vsToJson env e) :: (dE env f ++ [(.s kMinSize, .int mn)] ++
            oE kMaxSize (mx.map JV.int) ++ fE kNoneable f.noneable ++ fE kFrozen f.frozen)))
    | .tupleFixed es f =>
      .obj ((.s typeKey, .str tyTuple) :: ((.s kElems, .arr (vsToJsonL env es)) :: (dE env f ++
            fE kNoneable f.noneable ++ fE kFrozen f.frozen)))
    | .tupleVar e mn mx f =>
      .obj ((.s typeKey, .str tyTuple) :: ((.s kElems, vsToJson env e) :: (dE env f ++ [(.s kMinSize, .int mn)] ++
            oE kMaxSize (mx.map JV.int) ++ fE kNoneable f.noneable ++ fE kFrozen f.frozen)))
    | .dict none ex f =>
      .obj ((.s typeKey, .str tyDict) :: (fE kNoneable f.noneable ++ fE kFrozen f.frozen ++
            (if ex then dE env f else [])))
    | .dict (some sc) ex f =>
      .obj ((.s typeKey, .str tyDict) :: ((.s kSchema, schemaToJson env sc) :: (fE kNoneable f.noneable ++
            fE kFrozen f.frozen ++ (if ex then dE env f else []))))
    | .obj c f =>
      .obj ((.s typeKey, .str tyObject) :: ((.s kT, classJ c) :: (dE env f ++ fE kNoneable f.noneable ++
            fE kFrozen f.frozen)))
    | .type c d n fz =>
      .obj ((.s typeKey, .str tyType) :: ((.s kT, classJ c) :: (oE kDefault (d.map classJ) ++ fE kNoneable n ++
            fE kFrozen fz)))
    | .union cs f =>
      .obj ((.s typeKey, .str tyUnion) :: ((.s kCands, .arr (vsToJsonL env cs)) :: (dE env f ++
            fE kNoneable f.noneable ++ fE kFrozen f.frozen)))
    | .callable args none f =>
      .obj ((.s typeKey, .str tyCallable) :: (oE kArgs (if args.isEmpty then none else some (.arr (vsToJsonL env args))) ++
            dE env f ++ fE kNoneable f.noneable ++ fE kFrozen f.frozen))
    | .callable args (some r) f =>
      .obj ((.s typeKey, .str tyCallable) :: (oE kArgs (if args.isEmpty then none else some (.arr (vsToJsonL env args))) ++
            ((.s kReturns, vsToJson env r) :: (dE env f ++ fE kNoneable f.noneable ++ fE kFrozen f.frozen))))
  def vsToJsonL (env : ClassEnv) : List VS → List JV
    | [] => []
    | s :: ss => vsToJson env s :: vsToJsonL env ss
  def fieldToJson (env : ClassEnv) : VField → JV
    | .mk k v d md =>
      .obj ((.s typeKey, .str tyField) :: ((.s kKeySpec, keyToJson k) :: ((.s kValueSpec, vsToJson env v) ::
            (oE kDescription (d.map JV.str) ++ oE kMetadata (md.map (toJson env))))))
  def fieldsToJson (env : ClassEnv) : List VField → List JV
    | [] => []
    | f :: fs => fieldToJson env f :: fieldsToJson env fs
  def schemaToJson (env : ClassEnv) : VSchema → JV
    | .mk fs name anc md =>
      .obj ((.s typeKey, .str tySchema) :: ((.s kFields, .arr (fieldsToJson env fs)) ::
            (oE kName (name.map JV.str) ++ fE kAllowNonConst anc ++ oE kMetadata (md.map (toJson env)))))
end

/-! ### from_json: children first, then `cls(**kwargs)` -/

/-- What the children of a spec JSON decode to. -/
inductive U where
  | leaf (a : Atom)
  | arr (xs : List U)
  | dict (kvs : List (Key × U))
  | spec (s : VS)
  | field (f : VField)
  | key (k : VKey)
  | schema (s : VSchema)
  | cls (name : Str)
  deriving Inhabited

def uIsMarker : U → Bool
  | .leaf (.str s) => s == tupleMarker
  | _ => false

mutual
  /-- The plain value a decoded child stands for (`__tuple__` lists are tuples). -/
  def uPlain : U → Option Tree
    | .leaf a => some (.leaf a)
    | .arr [] => some (.list [])
    | .arr (x :: xs) =>
      if uIsMarker x then
        match xs with
        | [] => none
        | _ => (uPlainL xs).map Tree.tuple
      else (uPlainL (x :: xs)).map Tree.list
    | .dict kvs => (uPlainKV kvs).map Tree.dict
    | _ => none
  def uPlainL : List U → Option (List Tree)
    | [] => some []
    | x :: xs =>
      match uPlain x, uPlainL xs with
      | some t, some ts => some (t :: ts)
      | _, _ => none
  def uPlainKV : List (Key × U) → Option (List (Key × Tree))
    | [] => some []
    | (k, x) :: xs =>
      match uPlain x, uPlainKV xs with
      | some t, some ts => some ((k, t) :: ts)
      | _, _ => none
end

def isNoneLeaf : Tree → Bool
  | .leaf .none => true
  | _ => false

def ulookup (k : Str) : List (Key × U) → Option U
  | [] => none
  | (l, v) :: r => if l = .s k then some v else ulookup k r

abbrev R := Except Err

def gPlain (kw : List (Key × U)) (k : Str) : R (Option Tree) :=
  match ulookup k kw with
  | none => .ok none
  | some u => match uPlain u with
    | some t => .ok (some t)
    | none => .error .type

def gBool (kw : List (Key × U)) (k : Str) : R Bool :=
  match ulookup k kw with
  | none => .ok false
  | some (.leaf (.bool b)) => .ok b
  | some _ => .error .type

def gOptInt (kw : List (Key × U)) (k : Str) : R (Option Int) :=
  match ulookup k kw with
  | none => .ok none
  | some (.leaf (.int i)) => .ok (some i)
  | some _ => .error .type

def gOptFloat (kw : List (Key × U)) (k : Str) : R (Option Str) :=
  match ulookup k kw with
  | none => .ok none
  | some (.leaf (.float t)) => .ok (some t)
  | some _ => .error .type

def gOptStr (kw : List (Key × U)) (k : Str) : R (Option Str) :=
  match ulookup k kw with
  | none => .ok none
  | some (.leaf (.str s)) => .ok (some s)
  | some _ => .error .type

def gSpec (kw : List (Key × U)) (k : Str) : R VS :=
  match ulookup k kw with
  | some (.spec s) => .ok s
  | some _ => .error .type
  | none => .error .type                 -- missing required positional argument

def gOptSpec (kw : List (Key × U)) (k : Str) : R (Option VS) :=
  match ulookup k kw with
  | none => .ok none
  | some (.spec s) => .ok (some s)
  | some _ => .error .type

def uSpecs : List U → Option (List VS)
  | [] => some []
  | .spec s :: r => (uSpecs r).map (s :: ·)
  | _ :: _ => none

def uFields : List U → Option (List VField)
  | [] => some []
  | .field f :: r => (uFields r).map (f :: ·)
  | _ :: _ => none

def gCls (kw : List (Key × U)) (k : Str) : R Str :=
  match ulookup k kw with
  | some (.cls n) => .ok n
  | _ => .error .type

def gFlags (kw : List (Key × U)) : R VFlags :=
  match gPlain kw kDefault, gBool kw kNoneable, gBool kw kFrozen with
  | .ok d, .ok n, .ok fz => .ok ⟨n, d, fz⟩
  | .error e, _, _ => .error e
  | _, .error e, _ => .error e
  | _, _, .error e => .error e

def keysIn (allowed : List Str) (kw : List (Key × U)) : Bool :=
  kw.all fun p => match p.1 with
    | .s k => allowed.contains k
    | .i _ => false

def buildClass (kw : List (Key × U)) : R U :=
  match ulookup kName kw with
  | some (.leaf (.str n)) => .ok (.cls n)
  | _ => .error .key

def buildAny (kw : List (Key × U)) : R U :=
  if !keysIn [kDefault, kFrozen] kw then .error .type else
  -- `Any.__init__` passes `is_noneable=True` (value_specs.py:2990)
  (gFlags kw).map fun f => .spec (.any ⟨true, f.default, f.frozen⟩)

def buildBool (kw : List (Key × U)) : R U :=
  if !keysIn [kDefault, kNoneable, kFrozen] kw then .error .type else
  (gFlags kw).map fun f => .spec (.bool f)

def buildInt (kw : List (Key × U)) : R U :=
  if !keysIn [kDefault, kMin, kMax, kNoneable, kFrozen] kw then .error .type else
  match gFlags kw, gOptInt kw kMin, gOptInt kw kMax with
  | .ok f, .ok lo, .ok hi => .ok (.spec (.int lo hi f))
  | .error e, _, _ => .error e
  | _, .error e, _ => .error e
  | _, _, .error e => .error e

def buildFloat (kw : List (Key × U)) : R U :=
  if !keysIn [kDefault, kMin, kMax, kNoneable, kFrozen] kw then .error .type else
  match gFlags kw, gOptFloat kw kMin, gOptFloat kw kMax with
  | .ok f, .ok lo, .ok hi => .ok (.spec (.float lo hi f))
  | .error e, _, _ => .error e
  | _, .error e, _ => .error e
  | _, _, .error e => .error e

def buildStr (kw : List (Key × U)) : R U :=
  if !keysIn [kDefault, kRegex, kNoneable, kFrozen] kw then .error .type else
  match gFlags kw, gOptStr kw kRegex with
  | .ok f, .ok r => .ok (.spec (.str r f))
  | .error e, _ => .error e
  | _, .error e => .error e

def buildEnum (kw : List (Key × U)) : R U :=
  if !keysIn [kDefault, kValues, kFrozen] kw then .error .type else
  match gFlags kw, ulookup kValues kw with
  | .ok f, some (.arr us) =>
    match uPlainL us with
    | some vals =>
      -- `is_noneable = any(v is None for v in values)` (value_specs.py:925)
      .ok (.spec (.enum vals ⟨vals.any isNoneLeaf, f.default, f.frozen⟩))
    | none => .error .type
  | .ok _, _ => .error .value               -- "Values for Enum should be a non-empty list"
  | .error e, _ => .error e

def buildList (kw : List (Key × U)) : R U :=
  if !keysIn [kElem, kDefault, kMinSize, kMaxSize, kNoneable, kFrozen] kw then .error .type else
  match gSpec kw kElem, gFlags kw, gOptInt kw kMinSize, gOptInt kw kMaxSize with
  | .ok e, .ok f, .ok mn, .ok mx => .ok (.spec (.list e (mn.getD 0) mx f))
  | .error e, _, _, _ => .error e
  | _, .error e, _, _ => .error e
  | _, _, .error e, _ => .error e
  | _, _, _, .error e => .error e

def buildTuple (kw : List (Key × U)) : R U :=
  if !keysIn [kElems, kDefault, kMinSize, kMaxSize, kNoneable, kFrozen] kw then .error .type else
  match gFlags kw, gOptInt kw kMinSize, gOptInt kw kMaxSize with
  | .ok f, .ok mn, .ok mx =>
    match ulookup kElems kw with
    | some (.spec e) => .ok (.spec (.tupleVar e (mn.getD 0) mx f))
    | some (.arr us) =>
      match uSpecs us with
      | some [] => .error .value            -- "Argument 'element_values' must be a non-empty list"
      | some es => .ok (.spec (.tupleFixed es f))
      | none => .error .type
    | _ => .error .type
  | .error e, _, _ => .error e
  | _, .error e, _ => .error e
  | _, _, .error e => .error e

def buildDict (kw : List (Key × U)) : R U :=
  if !keysIn [kSchema, kNoneable, kFrozen, kDefault] kw then .error .type else
  match gFlags kw with
  | .error e => .error e
  | .ok f =>
    match ulookup kSchema kw with
    | none => .ok (.spec (.dict none f.default.isSome f))
    | some (.schema sc) => .ok (.spec (.dict (some sc) f.default.isSome f))
    | some _ => .error .type

def buildObject (kw : List (Key × U)) : R U :=
  if !keysIn [kT, kDefault, kNoneable, kFrozen] kw then .error .type else
  match gCls kw kT, gFlags kw with
  | .ok c, .ok f => .ok (.spec (.obj c f))
  | .error e, _ => .error e
  | _, .error e => .error e

def buildType (kw : List (Key × U)) : R U :=
  if !keysIn [kT, kDefault, kNoneable, kFrozen] kw then .error .type else
  match gCls kw kT, gBool kw kNoneable, gBool kw kFrozen with
  | .ok c, .ok n, .ok fz =>
    match ulookup kDefault kw with
    | none => .ok (.spec (.type c none n fz))
    | some (.cls d) => .ok (.spec (.type c (some d) n fz))
    | some _ => .error .type
  | .error e, _, _ => .error e
  | _, .error e, _ => .error e
  | _, _, .error e => .error e

def buildUnion (kw : List (Key × U)) : R U :=
  if !keysIn [kCands, kDefault, kNoneable, kFrozen] kw then .error .type else
  match gFlags kw, ulookup kCands kw with
  | .ok f, some (.arr us) =>
    match uSpecs us with
    | some cs => .ok (.spec (.union cs f))
    | none => .error .type
  | .ok _, _ => .error .type
  | .error e, _ => .error e

def buildCallable (kw : List (Key × U)) : R U :=
  if !keysIn [kArgs, kReturns, kDefault, kNoneable, kFrozen] kw then .error .type else
  match gFlags kw, gOptSpec kw kReturns with
  | .ok f, .ok r =>
    match ulookup kArgs kw with
    | none => .ok (.spec (.callable [] r f))
    | some (.arr us) =>
      match uSpecs us with
      | some args => .ok (.spec (.callable args r f))
      | none => .error .type
    | some _ => .error .type
  | .error e, _ => .error e
  | _, .error e => .error e

def buildConstKey (kw : List (Key × U)) : R U :=
  match ulookup kText kw with
  | some (.leaf (.str t)) => .ok (.key (.const t))
  | _ => .error .type

def buildStrKey (kw : List (Key × U)) : R U :=
  (gOptStr kw kRegex).map fun r => .key (.strKey r)

def buildListKey (kw : List (Key × U)) : R U :=
  match gOptInt kw kMin, gOptInt kw kMax with
  | .ok (some mn), .ok mx => .ok (.key (.listKey mn mx))
  | .ok none, _ => .error .type
  | .error e, _ => .error e
  | _, .error e => .error e

def buildTupleKey (kw : List (Key × U)) : R U :=
  (gOptInt kw kIndex).map fun i => .key (.tupleKey i)

def buildField (kw : List (Key × U)) : R U :=
  if !keysIn [kKeySpec, kValueSpec, kDescription, kMetadata] kw then .error .type else
  match ulookup kKeySpec kw, gSpec kw kValueSpec, gOptStr kw kDescription, gPlain kw kMetadata with
  | some (.key k), .ok v, .ok d, .ok md => .ok (.field (.mk k v d md))
  | _, .error e, _, _ => .error e
  | _, _, .error e, _ => .error e
  | _, _, _, .error e => .error e
  | _, _, _, _ => .error .type

def buildSchema (kw : List (Key × U)) : R U :=
  if !keysIn [kFields, kName, kAllowNonConst, kMetadata] kw then .error .type else
  match ulookup kFields kw, gOptStr kw kName, gBool kw kAllowNonConst, gPlain kw kMetadata with
  | some (.arr us), .ok name, .ok anc, .ok md =>
    match uFields us with
    | some fs => .ok (.schema (.mk fs name anc md))
    | none => .error .type
  | _, .error e, _, _ => .error e
  | _, _, .error e, _ => .error e
  | _, _, _, .error e => .error e
  | _, _, _, _ => .error .type

/-- `cls(**kwargs)` for the class named by `_type`. -/
def buildU (ty : Str) (kw : List (Key × U)) : R U :=
  if ty = tyClass then buildClass kw
  else if ty = tyAny then buildAny kw
  else if ty = tyBool then buildBool kw
  else if ty = tyInt then buildInt kw
  else if ty = tyFloat then buildFloat kw
  else if ty = tyStr then buildStr kw
  else if ty = tyEnum then buildEnum kw
  else if ty = tyList then buildList kw
  else if ty = tyTuple then buildTuple kw
  else if ty = tyDict then buildDict kw
  else if ty = tyObject then buildObject kw
  else if ty = tyType then buildType kw
  else if ty = tyUnion then buildUnion kw
  else if ty = tyCallable then buildCallable kw
  else if ty = tyConstKey then buildConstKey kw
  else if ty = tyStrKey then buildStrKey kw
  else if ty = tyListKey then buildListKey kw
  else if ty = tyTupleKey then buildTupleKey kw
  else if ty = tyField then buildField kw
  else if ty = tySchema then buildSchema kw
  else .error .type                      -- not a pg.typing class: outside this decoder

/-- An array: `['__tuple__']` alone is rejected when decoded (ValueError), otherwise element-wise. -/
def finishArr : R (List U) → R U
  | .ok [u] => if uIsMarker u then .error .value else .ok (.arr [u])
  | .ok us => .ok (.arr us)
  | .error e => .error e

/-- An object, once its children are decoded: a dict, or `cls(**kwargs)` for the class in `_type`. -/
def finishObj (kvs : List (Key × JV)) (r : R (List (Key × U))) : R U :=
  match jlookup (.s typeKey) kvs with
  | none =>
    match r with
    | .ok us => .ok (.dict us)
    | .error e => .error e
  | some (.str ty) =>
    match r with
    | .ok us => buildU ty (us.filter (fun p => p.1 != .s typeKey))
    | .error e => .error e
  | some _ => .error .type

mutual
  def decodeU : JV → R U
    | .null => .ok (.leaf .none)
    | .bool b => .ok (.leaf (.bool b))
    | .int i => .ok (.leaf (.int i))
    | .float t => .ok (.leaf (.float t))
    | .str s => .ok (.leaf (.str s))
    | .arr xs => finishArr (decodeUL xs)
    | .obj kvs => finishObj kvs (decodeUKV kvs)
  def decodeUL : List JV → R (List U)
    | [] => .ok []
    | x :: xs =>
      match decodeU x with
      | .error e => .error e
      | .ok u => match decodeUL xs with
        | .error e => .error e
        | .ok us => .ok (u :: us)
  def decodeUKV : List (Key × JV) → R (List (Key × U))
    | [] => .ok []
    | (k, x) :: xs =>
      match decodeU x with
      | .error e => .error e
      | .ok u => match decodeUKV xs with
        | .error e => .error e
        | .ok us => .ok ((k, u) :: us)
end

/-- `pg.from_json(j)` where `j` is the JSON of a value spec. -/
def specFromJson (j : JV) : R VS :=
  match decodeU j with
  | .ok (.spec s) => .ok s
  | .ok _ => .error .type
  | .error e => .error e

end Pg.C05
