/-
  C07 — model of the module-level `pg.clone` dispatcher (symbolic/base.py `clone`) together with the
  child loop of `Dict._sym_clone` / `List._sym_clone` / `Object._sym_clone`, for values that hold
  symbolic containers *inside non-symbolic shells* (tuples, plain lists and plain dicts inside a
  tuple): the part of a clone the forest model of PgModel/Sym.lean does not see (there a tuple only
  holds opaque leaves).

      if isinstance(x, Symbolic): return x.sym_clone(deep, memo, override)
      elif isinstance(x, list):   return [clone(v, deep, memo) for v in x]
      elif isinstance(x, tuple):  return tuple([clone(v, deep, memo) for v in x])
      elif isinstance(x, dict):   return {k: clone(v, deep, memo) for k, v in x.items()}
      else:                       return copy.deepcopy(x, memo) if deep else copy.copy(x)

  and, in `_sym_clone`:   if deep or isinstance(v, Symbolic): v = clone(v, deep, memo)

  Every mutable object carries an identity; a clone allocates fresh identities from a counter.
  Values are trees (no aliasing inside one value; `memo` is therefore not modelled).
-/
namespace Pg.C07.Val

inductive V where
  | imm (n : Int)                        -- int / str / None …: copy and deepcopy return the object itself
  | opq (id : Nat)                       -- a mutable non-symbolic object
  | sym (id : Nat) (cs : List V)         -- a symbolic container (Dict / List / Object) and its children
  | tup (cs : List V)                    -- a tuple: no identity of its own
  | plist (id : Nat) (cs : List V)       -- a plain Python list
  | pdict (id : Nat) (cs : List V)       -- a plain Python dict (values in key order)
  deriving Repr

def V.isSym : V → Bool
  | .sym _ _ => true
  | _ => false

mutual
  /-- `base.clone(x, deep)`. Returns the copy and the next unused identity. -/
  def cloneV (deep : Bool) (next : Nat) : V → V × Nat
    | .imm n => (.imm n, next)
    | .opq _ => (.opq next, next + 1)
    | .sym _ cs => let r := symChildren deep (next + 1) cs; (.sym next r.1, r.2)
    | .tup cs => let r := cloneAll deep next cs; (.tup r.1, r.2)
    | .plist _ cs => let r := cloneAll deep (next + 1) cs; (.plist next r.1, r.2)
    | .pdict _ cs => let r := cloneAll deep (next + 1) cs; (.pdict next r.1, r.2)
  /-- the comprehension `clone(v, deep, memo) for v in x`. -/
  def cloneAll (deep : Bool) (next : Nat) : List V → List V × Nat
    | [] => ([], next)
    | c :: cs =>
      let r := cloneV deep next c
      let rs := cloneAll deep r.2 cs
      (r.1 :: rs.1, rs.2)
  /-- the child loop of `_sym_clone`: only a deep clone (or a symbolic child) is copied, anything
  else is stored in the new container by reference. -/
  def symChildren (deep : Bool) (next : Nat) : List V → List V × Nat
    | [] => ([], next)
    | c :: cs =>
      let r := if deep || c.isSym then cloneV deep next c else (c, next)
      let rs := symChildren deep r.2 cs
      (r.1 :: rs.1, rs.2)
end

mutual
  /-- identities of all mutable objects of a value (pre-order). -/
  def ids : V → List Nat
    | .imm _ => []
    | .opq i => [i]
    | .sym i cs => i :: idsAll cs
    | .tup cs => idsAll cs
    | .plist i cs => i :: idsAll cs
    | .pdict i cs => i :: idsAll cs
  def idsAll : List V → List Nat
    | [] => []
    | c :: cs => ids c ++ idsAll cs
end

mutual
  /-- what `pg.eq` / the dump can see: the value with every identity erased. -/
  def shape : V → V
    | .imm n => .imm n
    | .opq _ => .opq 0
    | .sym _ cs => .sym 0 (shapeAll cs)
    | .tup cs => .tup (shapeAll cs)
    | .plist _ cs => .plist 0 (shapeAll cs)
    | .pdict _ cs => .pdict 0 (shapeAll cs)
  def shapeAll : List V → List V
    | [] => []
    | c :: cs => shape c :: shapeAll cs
end

/-- identities shared between two values. -/
def shared (a b : V) : List Nat := (ids a).filter (fun i => (ids b).contains i)

end Pg.C07.Val
