/-
  C14 — the driver level: `Evolution._propose` / `_evolve` / `_feedback` (ext/evolution/base.py:699-789)
  with `population_init = (pg.geno.Random(seed), n)`: the bookkeeping of population, pending proposals,
  counters and per-individual metadata around the reproduction / population-update pipelines.
-/
import PgModel.Evo
namespace Pg.C14

/-- the metadata `Evolution` writes on a DNA. -/
structure Meta where
  proposalId : Nat
  generation : Nat
  initial : Bool
  fsn : Option Nat          -- feedback sequence number: set once the individual has been evaluated
  deriving Inhabited

structure EvoCfg where
  g : GSpec
  fuel : Nat
  reproduction : Nat → OpExpr            -- the pipeline as resolved at `step` (schedules)
  update : Option (Nat → OpExpr)
  initSize : Nat

structure EvoSt where
  pop : Pop := []                       -- `self._population`
  pending : List Ind := []              -- `self._pending_proposals`
  metas : List (Nat × Meta) := []        -- metadata by object identity
  numProposals : Nat := 0
  numFeedbacks : Nat := 0
  numGenerations : Nat := 0
  initialized : Bool := false

def metaOf (es : EvoSt) (u : Nat) : Option Meta := (es.metas.find? (fun p => p.1 == u)).map (·.2)

def setMeta (es : EvoSt) (u : Nat) (m : Meta) : EvoSt :=
  { es with metas := (u, m) :: es.metas.filter (fun p => p.1 != u) }

def evaluated (es : EvoSt) (u : Nat) : Bool := ((metaOf es u).bind (·.fsn)).isSome

/-- the metadata written on a proposal that comes out of `_evolve`. -/
def childMeta (gen step i : Nat) : Meta :=
  { proposalId := step + 1 + i, generation := gen + 1, initial := false, fsn := none }

/-- the loop of `_evolve` over the children: an evaluated individual (it has a feedback sequence
number), and an object that already occurred earlier among the children (`seen`), is cloned — a new
object without the non-cloneable metadata —, then proposal id, generation and
`initial_population = False` are written. -/
def stampChildren (gen step : Nat) : Nat → List Nat → List Ind → EvoSt → M (List Ind × EvoSt)
  | _, _, [], es => pure ([], es)
  | i, seen, c :: cs, es =>
    (if evaluated es c.uid || seen.contains c.uid then mkChild c.dna else pure c) >>= fun c' =>
    stampChildren gen step (i + 1) (c'.uid :: seen) cs (setMeta es c'.uid (childMeta gen step i)) >>= fun r =>
    pure (c' :: r.1, r.2)

def evolve (cfg : EvoCfg) (es : EvoSt) : M (List Ind × EvoSt) :=
  eval (cfg.reproduction es.numProposals) es.pop >>= fun children =>
  if children.isEmpty then fail .value            -- 'There is no child reproduced'
  else
    stampChildren es.numGenerations es.numProposals 0 [] children es >>= fun r =>
    pure (r.1, { r.2 with numGenerations := r.2.numGenerations + 1 })

/-- the refill of `_pending_proposals` when it is empty. -/
def refill (cfg : EvoCfg) (es : EvoSt) : M EvoSt :=
  if es.pending.isEmpty then
    if es.initialized then
      evolve cfg es >>= fun r => pure { r.2 with pending := r.2.pending ++ r.1 }
    else
      randomDna cfg.fuel cfg.g >>= fun d =>
      mkChild d >>= fun c =>
      pure { setMeta es c.uid { proposalId := es.numProposals + 1, generation := es.numGenerations + 1,
                                initial := true, fsn := none }
             with pending := es.pending ++ [c] }
  else pure es

/-- `propose()`: `_propose` and the proposal counter. -/
def propose (cfg : EvoCfg) (es : EvoSt) : M (Ind × EvoSt) :=
  refill cfg es >>= fun es =>
  match es.pending with
  | [] => fail .index
  | x :: rest => pure (x, { es with pending := rest, numProposals := es.numProposals + 1 })

/-- `_feedback` up to the population update: the object itself gets its sequence number and reward and
joins the population; the initialisation test uses the counter before its increment. -/
def absorb (cfg : EvoCfg) (es : EvoSt) (x : Ind) (reward : Int) : EvoSt :=
  let m := (metaOf es x.uid).getD default
  -- `not self._population_initialized and self.num_feedbacks >= self._init_population_size - 1`
  let done := !es.initialized && decide (es.numFeedbacks + 1 ≥ cfg.initSize)
  { setMeta es x.uid { m with fsn := some (es.numFeedbacks + 1) } with
    pop := es.pop ++ [{ x with fit := some reward }]
    initialized := es.initialized || done
    numGenerations := if done then 1 else es.numGenerations }

/-- `feedback(dna, reward)`. -/
def feedback (cfg : EvoCfg) (es : EvoSt) (x : Ind) (reward : Int) : M EvoSt :=
  let es := absorb cfg es x reward
  (match cfg.update with
   | some u => eval (u es.numFeedbacks) es.pop
   | none => pure es.pop) >>= fun pop =>
  pure { es with pop := pop, numFeedbacks := es.numFeedbacks + 1 }

/-- alternating propose / feedback rounds; the trace of proposals with their metadata. -/
def runRounds (cfg : EvoCfg) : List Int → EvoSt → M (List (Ind × Meta) × EvoSt)
  | [], es => pure ([], es)
  | r :: rs, es =>
    propose cfg es >>= fun p =>
    feedback cfg p.2 p.1 r >>= fun es1 =>
    runRounds cfg rs es1 >>= fun t =>
    pure ((p.1, (metaOf p.2 p.1.uid).getD default) :: t.1, t.2)

end Pg.C14
