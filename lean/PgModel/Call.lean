/-
  C18 — argument binding of symbolized callables (pg.functor / pg.symbolize) versus the
  language's own binding rule.  Mathlib-free, executable (driver: Driver/C18.lean).

  SPEC   `pyBind`        the binding rule of the Python language reference (§ "Calls"), in the
                         order CPython evaluates it (keywords, surplus positionals, defaults,
                         missing); validated against the interpreter by the harness.
  IMPL   `functorInit`   pyglove/core/symbolic/functor.py  Functor.__init__            (152-238)
         `functorCall`   Functor.__call__ / _parse_call_time_overrides                 (348-500)
         `classInit`     pyglove/core/symbolic/object.py Object.__init__ (648-725) reached through
                         class_wrapper.py _sym_init (132-142) and _call_init (191-205)
         `symInitArgs`   Object.sym_init_args (the `_sym_attributes` dict after Schema.apply)
  Values are opaque scalars (`Int`; codes ≤ 0 stand for falsy Python values: 0, None, '', False, []);
  MISSING_VALUE is not a value (documented precondition).
  Every value spec is `Any()` (no auto_typing conversion is modelled), so `apply` is the identity
  except for the List spec of the `*args` field, which rejects a scalar.
-/
namespace Pg.C18

/-- Parameter / keyword names; the driver interns the strings of a request. -/
abbrev Name := Nat
abbrev V := Int
/-- A Python `dict` with (interned) string keys in insertion order. -/
abbrev KW := List (Name × V)

/-- The two value codes that stand for Python lists (`[]` and `[2, 3]`); every other code is a
non-iterable scalar. Only consulted where the code iterates a value smuggled in under the name of
the `*args` parameter. -/
def listOfCode (v : V) : Option (List V) :=
  if v = -4 then some [] else if v = -5 then some [2, 3] else none

/-! ### Python dict primitives -/

def kget : KW → Name → Option V
  | [], _ => none
  | (k', v) :: r, k => if k' = k then some v else kget r k

def khas (m : KW) (k : Name) : Bool := (kget m k).isSome

/-- `m[k] = v` : replace in place, or append. -/
def kset : KW → Name → V → KW
  | [], k, v => [(k, v)]
  | (k', v') :: r, k, v => if k' = k then (k, v) :: r else (k', v') :: kset r k v

/-- `del m[k]` / `m.pop(k, None)`. -/
def kdel (m : KW) (k : Name) : KW := m.filter (fun p => p.1 != k)

def keys (m : KW) : List Name := m.map (·.1)

/-- Later values replace earlier ones; new names are appended. -/
def mergeKw : KW → KW → KW
  | m, [] => m
  | m, (k, v) :: r => mergeKw (kset m k v) r

/-! ### Signatures and calls -/

structure Param where
  name : Name
  dflt : Option V
  deriving Repr, DecidableEq

structure Sig where
  pos : List Param            -- positional-or-keyword parameters
  varargs : Option Name       -- *args
  kwonly : List Param         -- keyword-only parameters
  varkw : Option Name         -- **kwargs
  deriving Repr, DecidableEq

structure Call where
  args : List V
  kwargs : KW
  deriving Repr, DecidableEq

def Call.empty : Call := ⟨[], []⟩

def Sig.posNames (s : Sig) : List Name := s.pos.map (·.name)
def Sig.kwNames (s : Sig) : List Name := s.kwonly.map (·.name)
/-- `signature.named_args` (callable_signature.py:187). -/
def Sig.params (s : Sig) : List Param := s.pos ++ s.kwonly
def Sig.names (s : Sig) : List Name := s.posNames ++ s.kwNames

/-- What the compiler guarantees about a `def`: distinct parameter names, and no parameter
without default after one with default among the positional ones. -/
def defaultsSuffix : List Param → Bool
  | [] => true
  | p :: ps => (p.dflt.isNone || ps.all (·.dflt.isSome)) && defaultsSuffix ps

def Sig.allNames (s : Sig) : List Name :=
  s.names ++ s.varargs.toList ++ s.varkw.toList

def Sig.wf (s : Sig) : Bool := decide s.allNames.Nodup && defaultsSuffix s.pos

/-- What the compiler / call protocol guarantees about a call: no keyword twice. -/
def Call.wf (c : Call) : Bool := decide (keys c.kwargs).Nodup

/-- The result of binding: every parameter has a value (what `locals()` shows on entry). -/
structure Assignment where
  named : KW                        -- pos ++ kwonly parameters, declaration order
  varargs : Option (List V)         -- the `*args` tuple, if declared
  varkw : Option KW                 -- the `**kwargs` dict (insertion order), if declared
  deriving Repr, DecidableEq

inductive BindErr where
  | tooManyPositional | multipleValues | unexpectedKeyword | missingRequired | posOnlyAsKeyword
  deriving Repr, DecidableEq

/-- Exception classes that cross the protocol. Every binding error of the language is a
`TypeError`. -/
inductive PyErr where
  | typeError
  deriving Repr, DecidableEq

def BindErr.toPy : BindErr → PyErr
  | _ => .typeError

/-! ### SPEC: the language's binding rule -/

/-- Phase 1 result: the supplied arguments distributed over parameter names. -/
structure Named where
  named : KW        -- parameter name ↦ supplied value (positional ones first)
  va : List V       -- surplus positionals
  extra : KW        -- surplus keywords
  deriving Repr, DecidableEq

/-- Keywords in call order: a parameter name that already has a value → multiple values; an
unknown name goes to `**kwargs` if declared, else unexpected keyword. -/
def bindKw (s : Sig) : KW → Named → Except BindErr Named
  | [], n => .ok n
  | (k, v) :: r, n =>
    if s.names.contains k then
      if khas n.named k then .error .multipleValues
      else bindKw s r { n with named := n.named ++ [(k, v)] }
    else if s.varkw.isSome then
      if khas n.extra k then .error .multipleValues
      else bindKw s r { n with extra := n.extra ++ [(k, v)] }
    else .error .unexpectedKeyword

def nameArgs (s : Sig) (c : Call) : Except BindErr Named :=
  match bindKw s c.kwargs ⟨s.posNames.zip c.args, c.args.drop s.pos.length, []⟩ with
  | .error e => .error e
  | .ok n => if !n.va.isEmpty && s.varargs.isNone then .error .tooManyPositional else .ok n

/-- Phase 2: parameters without a supplied value take their default; none → missing. -/
def fill (m : KW) : List Param → Except BindErr KW
  | [] => .ok []
  | p :: ps =>
    match (kget m p.name).orElse (fun _ => p.dflt) with
    | none => .error .missingRequired
    | some v =>
      match fill m ps with
      | .error e => .error e
      | .ok r => .ok ((p.name, v) :: r)

def complete (s : Sig) (n : Named) : Except BindErr Assignment :=
  match fill n.named s.pos with
  | .error e => .error e
  | .ok a =>
    match fill n.named s.kwonly with
    | .error e => .error e
    | .ok b => .ok ⟨a ++ b, s.varargs.map (fun _ => n.va), s.varkw.map (fun _ => n.extra)⟩

def pyBind (s : Sig) (c : Call) : Except BindErr Assignment :=
  match nameArgs s c with
  | .error e => .error e
  | .ok n => complete s n

/-! ### SPEC with positional-only parameters (`def f(a, b, /, c)`): the first `npo` positional
parameters cannot be named by a keyword; such a keyword goes to `**kwargs` if declared, else the
call is refused. -/

def kwAble (npo : Nat) (s : Sig) : List Name := s.posNames.drop npo ++ s.kwNames

def bindKwPO (npo : Nat) (s : Sig) (all : KW) : KW → Named → Except BindErr Named
  | [], n => .ok n
  | (k, v) :: r, n =>
    if (kwAble npo s).contains k then
      if khas n.named k then .error .multipleValues
      else bindKwPO npo s all r { n with named := n.named ++ [(k, v)] }
    else if s.varkw.isSome then
      if khas n.extra k then .error .multipleValues
      else bindKwPO npo s all r { n with extra := n.extra ++ [(k, v)] }
    else if all.any (fun p => (s.posNames.take npo).contains p.1) then .error .posOnlyAsKeyword
    else .error .unexpectedKeyword

def nameArgsPO (npo : Nat) (s : Sig) (c : Call) : Except BindErr Named :=
  match bindKwPO npo s c.kwargs c.kwargs ⟨s.posNames.zip c.args, c.args.drop s.pos.length, []⟩ with
  | .error e => .error e
  | .ok n => if !n.va.isEmpty && s.varargs.isNone then .error .tooManyPositional else .ok n

def pyBindPO (npo : Nat) (s : Sig) (c : Call) : Except BindErr Assignment :=
  match nameArgsPO npo s c with
  | .error e => .error e
  | .ok n => complete s n

def pyCallPO (npo : Nat) (s : Sig) (c : Call) : Except PyErr Assignment :=
  match pyBindPO npo s c with
  | .error e => .error e.toPy
  | .ok a => .ok a

/-- Outcome as seen through the protocol / by the property: assignment or exception class. -/
def pyCall (s : Sig) (c : Call) : Except PyErr Assignment :=
  match pyBind s c with
  | .error e => .error e.toPy
  | .ok a => .ok a

/-! ### IMPL: Functor.__init__ -/

/-- The `*args` symbolic field as the call-time code sees it. -/
inductive VaSlot where
  | none                       -- not specified
  | list (xs : List V)         -- a list (prebound surplus positionals)
  | scalar (v : V)             -- a non-list value smuggled in under the name of `*args`
  deriving Repr, DecidableEq

structure Functor where
  sig : Sig
  bound : KW                    -- `bound_kwargs` minus the varargs entry (insertion order)
  va : Option (List V)          -- `bound_kwargs[varargs.name]` if set
  defaultArgs : List Name
  nonDefaultArgs : List Name
  overrideArgs : Bool
  ignoreExtraArgs : Bool
  deriving Repr

/-- functor.py:201-208. -/
def initKw (s : Sig) (vaBound : Bool) : KW → KW → Except PyErr KW
  | [], b => .ok b
  | (k, v) :: r, b =>
    if khas b k || (vaBound && s.varargs == some k) then .error .typeError
    else initKw s vaBound r (b ++ [(k, v)])

/-- functor.py:210-224. -/
def defaultArgsOf (s : Sig) (bound : KW) (va : Option (List V)) : List Name :=
  (s.params.filterMap fun p =>
      match p.dflt with
      | none => none
      | some d =>
        match kget bound p.name with
        | none => some p.name
        | some v => if v = d then some p.name else none)
  ++ (match s.varargs, va with
      | some vn, none => [vn]
      | _, _ => [])

def nonDefaultArgsOf (s : Sig) (bound : KW) (va : Option (List V)) : List Name :=
  ((keys bound).filter fun k =>
      match s.params.find? (fun p => p.name == k) with
      | some p => (match p.dflt, kget bound k with
                   | some d, some v => v != d
                   | _, _ => true)
      | none => true)
  ++ (match s.varargs, va with
      | some vn, some _ => [vn]
      | _, _ => [])

def functorInit (s : Sig) (c : Call) (overrideArgs ignoreExtraArgs : Bool) : Except PyErr Functor :=
  let npos := s.pos.length
  -- 181-191: surplus positionals need *args
  if c.args.length > npos && s.varargs.isNone then .error .typeError else
  let va : Option (List V) := if c.args.length > npos then some (c.args.drop npos) else none
  -- 193-199 (zip truncates to the declared positionals)
  let bound0 := s.posNames.zip c.args
  match initKw s va.isSome c.kwargs bound0 with
  | .error e => .error e
  | .ok bound =>
    -- 226 → object.py:649-655: keys not matched by the schema
    if s.varkw.isNone && bound.any (fun p => !(s.names.contains p.1) && s.varargs != some p.1) then
      .error .typeError
    -- 226 → Dict(value_spec=…): the List spec of the *args field rejects a scalar
    else if bound.any (fun p => s.varargs == some p.1) then .error .typeError
    else .ok { sig := s, bound := bound, va := va,
               defaultArgs := defaultArgsOf s bound va,
               nonDefaultArgs := nonDefaultArgsOf s bound va,
               overrideArgs := overrideArgs, ignoreExtraArgs := ignoreExtraArgs }

def Functor.specified (F : Functor) : List Name :=
  keys F.bound ++ (match F.sig.varargs, F.va with
                   | some vn, some _ => [vn]
                   | _, _ => [])

/-! ### IMPL: Functor.__call__ -/

structure CallState where
  kw : KW              -- `keyword_args` without the varargs entry
  slot : VaSlot        -- `keyword_args.get(varargs.name)`
  deriving Repr

/-- functor.py:437-451. -/
def posLoop (specified : List Name) (override : Bool) : List (Name × V) → KW → Except PyErr KW
  | [], kw => .ok kw
  | (n, v) :: r, kw =>
    if specified.contains n && !override then .error .typeError
    else posLoop specified override r (kset kw n v)

/-- functor.py:453-470. `positional` = names given positionally in this call; consulted only by
the patched code (fix F29). -/
def kwLoop (fix29 : Bool) (s : Sig) (specified positional : List Name) (override ignore : Bool) :
    KW → CallState → Except PyErr CallState
  | [], st => .ok st
  | (k, v) :: r, st =>
    if fix29 && positional.contains k then .error .typeError
    else if specified.contains k && !override then .error .typeError
    else if s.names.contains k then
      kwLoop fix29 s specified positional override ignore r { st with kw := kset st.kw k v }
    else if s.varkw.isSome then
      -- get_value_spec falls back to the **kwargs spec; the name of *args is not a named arg
      if s.varargs == some k then
        kwLoop fix29 s specified positional override ignore r { st with slot := .scalar v }
      else
        kwLoop fix29 s specified positional override ignore r { st with kw := kset st.kw k v }
    else if !ignore then .error .typeError
    else kwLoop fix29 s specified positional override ignore r st

/-- functor.py:474-483: positional parameters come from `keyword_args`, else the default;
returns the list, the names still missing and `keyword_args` after the deletions. -/
def listArgs : List Param → KW → List V × List Name × KW
  | [], kw => ([], [], kw)
  | p :: ps, kw =>
    match kget kw p.name with
    | some v =>
      let (l, m, kw') := listArgs ps (kdel kw p.name)
      (v :: l, m, kw')
    | none =>
      match p.dflt with
      | some d =>
        let (l, m, kw') := listArgs ps kw
        (d :: l, m, kw')
      | none =>
        let (l, m, kw') := listArgs ps kw
        (l, p.name :: m, kw')

/-- `_parse_call_time_overrides`: the `(list_args, keyword_args)` handed to the wrapped function. -/
def parseOverrides (fix29 : Bool) (F : Functor) (c : Call) (override? ignore? : Option Bool) :
    Except PyErr Call :=
  let s := F.sig
  let override := override?.getD F.overrideArgs
  let ignore := ignore?.getD F.ignoreExtraArgs
  let npos := s.pos.length
  -- 405-414
  if c.args.length > npos && s.varargs.isNone && !ignore then .error .typeError else
  -- 416-419
  let slot0 : VaSlot := match s.varargs, F.va with
    | some _, some xs => .list xs
    | _, _ => .none
  -- 423-433
  let callVa : List V := if s.varargs.isSome then c.args.drop npos else []
  let positional := s.posNames.zip c.args
  match posLoop F.specified override positional F.bound with
  | .error e => .error e
  | .ok kw1 =>
    match kwLoop fix29 s F.specified (keys positional) override ignore c.kwargs ⟨kw1, slot0⟩ with
    | .error e => .error e
    | .ok st =>
      let (l, missing, kw2) := listArgs s.pos st.kw
      -- 485-493
      if !missing.isEmpty then .error .typeError else
      -- 495-499: `varargs = varargs or prebound_varargs; if varargs: list_args.extend(varargs)`
      if s.varargs.isSome then
        if !callVa.isEmpty then .ok ⟨l ++ callVa, kw2⟩
        else match st.slot with
          | .none => .ok ⟨l, kw2⟩
          | .list xs => .ok ⟨l ++ xs, kw2⟩
          | .scalar v =>
            match listOfCode v with
            | some xs => .ok ⟨l ++ xs, kw2⟩                       -- a list value: extend(list)
            | none => if v ≤ 0 then .ok ⟨l, kw2⟩ else .error .typeError   -- falsy: skipped; else extend(<int>)
      else .ok ⟨l, kw2⟩

/-- `Functor.__call__` for a functor made from a function: `_call` forwards to the function,
whose own binding is the language's (`pyBind`). -/
def functorCall (fix29 : Bool) (F : Functor) (c : Call) (override? ignore? : Option Bool) :
    Except PyErr Assignment :=
  match parseOverrides fix29 F c override? ignore? with
  | .error e => .error e
  | .ok c' => pyCall F.sig c'

/-! ### IMPL: direct construction of a symbolized class -/

/-- object.py:683-689. -/
def objKw (vaSet : Bool) (s : Sig) : KW → KW → Except PyErr KW
  | [], f => .ok f
  | (k, v) :: r, f =>
    if khas f k || (vaSet && s.varargs == some k) then .error .typeError
    else objKw vaSet s r (f ++ [(k, v)])

structure SymObject where
  sig : Sig
  fields : KW               -- `field_args` minus the varargs entry
  va : Option (List V)
  deriving Repr

/-- `Object.__init__(*args, **kwargs)` with `allow_partial=False` (object.py:648-725). -/
def objectInit (s : Sig) (c : Call) : Except PyErr SymObject :=
  let npos := s.pos.length
  -- 649-655
  if s.varkw.isNone && c.kwargs.any (fun p => !(s.names.contains p.1) && s.varargs != some p.1) then
    .error .typeError
  -- 660-662
  else if !c.args.isEmpty && s.pos.isEmpty && s.kwonly.isEmpty && s.varargs.isNone && s.varkw.isNone then
    .error .typeError
  -- 671-677
  else if s.varargs.isNone && c.args.length > npos then .error .typeError
  else
    -- 663-670
    let va : Option (List V) := if !c.args.isEmpty && s.varargs.isSome then some (c.args.drop npos) else none
    let fields0 := s.posNames.zip c.args
    match objKw va.isSome s c.kwargs fields0 with
    | .error e => .error e
    | .ok fields =>
      -- 692-704
      if s.params.any (fun p => p.dflt.isNone && !khas fields p.name) then .error .typeError
      -- Dict(value_spec): scalar under the *args field
      else if fields.any (fun p => s.varargs == some p.1) then .error .typeError
      else .ok ⟨s, fields, va⟩

/-- Parameters with their value in `fields`, else their default (the `_sym_attributes` dict has
the defaults filled in by `Schema.apply`). -/
def withDefaults (fields : KW) (ps : List Param) : KW :=
  ps.filterMap fun p => ((kget fields p.name).orElse fun _ => p.dflt).map fun v => (p.name, v)

/-- class_wrapper.py `_call_init` (with fixes/C18-F61.patch: the positional parameters are always
passed by position): the call made to the user's `__init__`. -/
def callInitCall (o : SymObject) : Call :=
  let s := o.sig
  ⟨(withDefaults o.fields s.pos).map (·.2) ++ o.va.getD [],
   withDefaults o.fields s.kwonly ++ o.fields.filter fun p => !(s.names.contains p.1)⟩

/-- `obj.rebind(**updates)` on a class wrapper: the symbolic fields are updated, then `_on_bound`
resets the instance and re-runs the user's `__init__` (class_wrapper.py `_on_bound`, `_call_init`). -/
def objectRebind (o : SymObject) (upd : KW) : SymObject := { o with fields := mergeKw o.fields upd }

/-- What the user's `__init__` sees when the wrapper (re-)initialises it. -/
def initOutcome (o : SymObject) : Except PyErr Assignment := pyCall o.sig (callInitCall o)

/-- `Cls(*args, **kwargs)` for `Cls = pg.symbolize(UserClass)`: what the user's `__init__` sees. -/
def classInit (s : Sig) (c : Call) : Except PyErr Assignment :=
  match objectInit s c with
  | .error e => .error e
  | .ok o => pyCall s (callInitCall o)

/-! ### Reported arguments -/

inductive Reported where
  | missing                 -- MISSING_VALUE
  | value (v : V)
  | list (xs : List V)
  deriving Repr, DecidableEq

/-- The shape of `sym_init_args`: the schema's fields in order (positional, *args, keyword-only)
with defaults applied, then the extra keys in insertion order. -/
def reportOne (get : Name → Option V) (p : Param) : Name × Reported :=
  (p.name, match (get p.name).orElse (fun _ => p.dflt) with
           | some v => .value v
           | none => .missing)

def reportWith (s : Sig) (get : Name → Option V) (va : List V) (extra : KW) : List (Name × Reported) :=
  s.pos.map (reportOne get)
  ++ (match s.varargs with
      | some vn => [(vn, .list va)]
      | none => [])
  ++ s.kwonly.map (reportOne get)
  ++ extra.map fun p => (p.1, .value p.2)

/-- `sym_init_args` as computed from the symbolic attributes. -/
def reportArgs (s : Sig) (fields : KW) (va : Option (List V)) : List (Name × Reported) :=
  reportWith s (kget fields) (va.getD []) (fields.filter fun p => !(s.names.contains p.1))

def symInitArgs (F : Functor) : List (Name × Reported) := reportArgs F.sig F.bound F.va

/-! ### Late binding on the functor object: rebind / setattr / del before the call -/

def setAdd (l : List Name) (k : Name) : List Name := if l.contains k then l else l ++ [k]
def setDiscard (l : List Name) (k : Name) : List Name := l.filter (· != k)

/-- functor.py `_on_change`, the default / non-default bookkeeping for one updated key:
`isDefault` = `update.field.default_value == update.new_value`, `hasDefault` = the field has one. -/
def Functor.noteChange (F : Functor) (k : Name) (isDefault hasDefault : Bool) : Functor :=
  if isDefault then
    { F with defaultArgs := if hasDefault then setAdd F.defaultArgs k else F.defaultArgs,
             nonDefaultArgs := setDiscard F.nonDefaultArgs k }
  else
    { F with defaultArgs := setDiscard F.defaultArgs k, nonDefaultArgs := setAdd F.nonDefaultArgs k }

/-- `f.rebind(k=v)` / `f.k = v` for a named parameter or (with `**kwargs`) a wildcard keyword:
the symbolic attribute is written and `_on_change` records the key as specified. -/
def Functor.setArg (F : Functor) (k : Name) (v : V) : Functor :=
  let dflt := (F.sig.params.find? (fun p => p.name == k)).bind (·.dflt)
  -- writing the value the attribute already has (bound or default) is not a change: no `_on_change`
  if (kget F.bound k).orElse (fun _ => dflt) == some v then F
  else ({ F with bound := kset F.bound k v }).noteChange k (dflt == some v) dflt.isSome

def Functor.rebind (F : Functor) : KW → Functor
  | [] => F
  | (k, v) :: r => (F.setArg k v).rebind r

/-- `f.rebind(args=[…])` / `f.args = […]`: the variadic positional list is (re)bound late. -/
def Functor.setVarargs (F : Functor) (xs : List V) : Functor :=
  match F.sig.varargs with
  | none => F
  | some vn =>
    -- assigning a list is always a change (a new symbolic list object), also an equal one
    ({ F with va := some xs }).noteChange vn xs.isEmpty true

/-- `del f.k` (functor.py `__delattr__`) for a named parameter or a wildcard keyword: back to the
default (or unbound); the key is no longer specified. -/
def Functor.delArg (F : Functor) (k : Name) : Functor :=
  let hasD := ((F.sig.params.find? (fun p => p.name == k)).bind (·.dflt)).isSome
  { F with bound := kdel F.bound k,
           defaultArgs := if hasD then setAdd F.defaultArgs k else setDiscard F.defaultArgs k,
           nonDefaultArgs := setDiscard F.nonDefaultArgs k }

/-- One late-binding operation. -/
inductive LateOp where
  | rebind (upd : KW)
  | setVarargs (xs : List V)
  | del (k : Name)
  deriving Repr

def Functor.late (F : Functor) : LateOp → Functor
  | .rebind upd => F.rebind upd
  | .setVarargs xs => F.setVarargs xs
  | .del k => F.delArg k

/-! ### Clone and JSON round trip of a functor -/

/-- `Functor._sym_clone` (functor.py:249-259): the symbolic attributes are copied and the bound-arg
sets and flags are carried over — the identity on the modelled state. -/
def Functor.clone (F : Functor) : Functor := F

/-- `pg.from_json(F.to_json())`: `to_json` emits every symbolic attribute that is not MISSING
(defaults included, the `*args` list under its name, extras last); `from_json` calls
`cls(**those)` (object.py:595), i.e. `Functor.__init__` with keywords only and default flags. -/
def Functor.jsonRoundTrip (F : Functor) : Functor :=
  let s := F.sig
  let bound' := withDefaults F.bound s.pos ++ withDefaults F.bound s.kwonly
                ++ F.bound.filter (fun p => !(s.names.contains p.1))
  let va' : Option (List V) := s.varargs.map (fun _ => F.va.getD [])
  { sig := s, bound := bound', va := va',
    -- functor.py:223: `varargs` (the positional surplus) is None for a keyword-only construction
    defaultArgs := defaultArgsOf s bound' none,
    nonDefaultArgs := nonDefaultArgsOf s bound' va',
    overrideArgs := false, ignoreExtraArgs := false }

/-! ### Effective arguments of a two-stage call -/

/-- Naming of the call-time arguments: like `nameArgs`, except that with `ignore_extra_args`
surplus positionals and unknown keywords are dropped (documented option of the functor). -/
def dropExtras (s : Sig) (c : Call) : Call :=
  ⟨if s.varargs.isNone then c.args.take s.pos.length else c.args,
   if s.varkw.isNone then c.kwargs.filter (fun p => s.names.contains p.1) else c.kwargs⟩

def mergeNamed (n1 n2 : Named) : Named :=
  ⟨mergeKw n1.named n2.named, if n2.va.isEmpty then n1.va else n2.va, mergeKw n1.extra n2.extra⟩

/-- A direct call that supplies exactly the arguments of `n`: everything by keyword; if there
are surplus positionals the positional parameters have to be passed positionally. -/
def toCall (s : Sig) (n : Named) : Call :=
  if n.va.isEmpty then ⟨[], n.named ++ n.extra⟩
  else if s.pos.all (fun p => ((kget n.named p.name).orElse fun _ => p.dflt).isSome) then
    -- an unbound positional parameter takes its default explicitly (nothing else can precede `*args`)
    ⟨(s.pos.filterMap fun p => (kget n.named p.name).orElse fun _ => p.dflt) ++ n.va,
     n.named.filter (fun p => !(s.posNames.contains p.1)) ++ n.extra⟩
  else
    -- a required positional parameter is unbound: no direct call can supply the surplus
    -- positionals; the keyword form reports the missing argument
    ⟨[], n.named ++ n.extra⟩

/-- `toCall` for a signature whose first `npo` positional parameters are positional-only: those
are passed by position also when there are no surplus positionals. -/
def toCallPO (npo : Nat) (s : Sig) (n : Named) : Call :=
  if n.va.isEmpty then
    let ps := s.pos.take npo
    -- the positional-only parameters up to the last supplied one go by position; an unsupplied one
    -- in between takes its default explicitly
    let k := ps.length - (ps.reverse.takeWhile fun p => (kget n.named p.name).isNone).length
    let pre := ps.take k
    if pre.all (fun p => ((kget n.named p.name).orElse fun _ => p.dflt).isSome) then
      ⟨pre.filterMap (fun p => (kget n.named p.name).orElse fun _ => p.dflt),
       n.named.filter (fun p => !((pre.map (·.name)).contains p.1)) ++ n.extra⟩
    else ⟨[], n.named ++ n.extra⟩
  else toCall s n

/-- Do the two argument sets overlap? (Then the functor demands `override_args`.) -/
def conflicts (n1 n2 : Named) : Bool :=
  n2.named.any (fun p => khas n1.named p.1) || n2.extra.any (fun p => khas n1.extra p.1)

def vaConflict (n1 n2 : Named) : Bool := !n1.va.isEmpty && !n2.va.isEmpty

/-- The effective direct call of `F(*a₁, **k₁)(*a₂, **k₂)`, when both argument sets can be named. -/
def effective (s : Sig) (c1 c2 : Call) (ignore : Bool) : Except BindErr Call :=
  match nameArgs s c1 with
  | .error e => .error e
  | .ok n1 =>
    match nameArgs s (if ignore then dropExtras s c2 else c2) with
    | .error e => .error e
    | .ok n2 => .ok (toCall s (mergeNamed n1 n2))

end Pg.C18

namespace Pg.C18
/-- The late-binding operations on the level of the supplied arguments (the spec side). -/
def Named.setArg (s : Sig) (n : Named) (k : Name) (v : V) : Named :=
  if s.names.contains k then
    let dflt := (s.params.find? (fun p => p.name == k)).bind (·.dflt)
    -- writing the value a parameter already has (supplied or default) changes nothing
    if (kget n.named k).orElse (fun _ => dflt) == some v then n
    else { n with named := kset n.named k v }
  else { n with extra := kset n.extra k v }

def Named.rebind (s : Sig) (n : Named) : KW → Named
  | [] => n
  | (k, v) :: r => (Named.setArg s n k v).rebind s r

def Named.late (s : Sig) (n : Named) : LateOp → Named
  | .rebind upd => n.rebind s upd
  | .setVarargs xs => { n with va := xs }
  | .del k => ⟨kdel n.named k, n.va, kdel n.extra k⟩

/-- `effectivePO` for a functor that was re-bound between construction and call. -/
def effectiveLate (npo : Nat) (s : Sig) (c1 : Call) (lates : List LateOp) (c2 : Call) (ignore : Bool) :
    Except BindErr (Call × Bool × Bool) :=
  match nameArgs s c1 with
  | .error e => .error e
  | .ok n1 =>
    let n1' := lates.foldl (Named.late s) n1
    match nameArgs s (if ignore then dropExtras s c2 else c2) with
    | .error e => .error e
    | .ok n2 => .ok (toCallPO npo s (mergeNamed n1' n2), conflicts n1' n2, vaConflict n1' n2)

def effectivePO (npo : Nat) (s : Sig) (c1 c2 : Call) (ignore : Bool) : Except BindErr Call :=
  match nameArgs s c1 with
  | .error e => .error e
  | .ok n1 =>
    match nameArgs s (if ignore then dropExtras s c2 else c2) with
    | .error e => .error e
    | .ok n2 => .ok (toCallPO npo s (mergeNamed n1 n2))
end Pg.C18

namespace Pg.C18

/-! ### Call-time member overrides of class-based functors: per object, per thread

While `A(x=3)` executes, `A._call` reads `self.x` through `Functor._sym_inferred`, which consults
the overrides of THIS invocation first (functor.py: `self._tls`, one `threading.local` per functor
object) and the bound attributes otherwise. The store below lists the active invocations
(innermost first); an entry belongs to one functor object and one thread. -/

structure Activation where
  obj : Nat
  thread : Nat
  overrides : KW
  deriving Repr, DecidableEq

abbrev OvStore := List Activation

/-- `_apply_call_time_overrides_to_members`: entering an invocation. -/
def OvStore.enter (st : OvStore) (o t : Nat) (kw : KW) : OvStore := ⟨o, t, kw⟩ :: st

/-- Leaving it (the `finally` branch restores the previous entry of that object). -/
def OvStore.exit (st : OvStore) : OvStore := st.tail

/-- `obj.<k>` read by thread `t`: the innermost active invocation of `obj` in `t`, else the bound
attribute. -/
def resolve (attrs : Nat → KW) (st : OvStore) (o t : Nat) (k : Name) : Option V :=
  match st.find? (fun a => a.obj == o && a.thread == t) with
  | some a =>
    match kget a.overrides k with
    | some v => some v
    | none => kget (attrs o) k
  | none => kget (attrs o) k

/-- `with self._apply_call_time_overrides_to_members(**kwargs): self._call()` — the context manager
restores the store in a `finally` branch, i.e. also when `_call` raises. Returns the store after
the invocation and the outcome of the body. -/
def withOverrides {ε α : Type} (st : OvStore) (o t : Nat) (kw : KW) (body : OvStore → Except ε α) :
    OvStore × Except ε α :=
  ((st.enter o t kw).exit, body (st.enter o t kw))

/-- The seeded regression: no `finally` — the restore is skipped when the body raises. -/
def withOverridesNoFinally {ε α : Type} (st : OvStore) (o t : Nat) (kw : KW) (body : OvStore → Except ε α) :
    OvStore × Except ε α :=
  match body (st.enter o t kw) with
  | .ok a => ((st.enter o t kw).exit, .ok a)
  | .error e => (st.enter o t kw, .error e)

/-- The seeded regression: ONE `threading.local` shared by all functor objects — the innermost
active invocation of the thread wins, whatever object it belongs to. -/
def resolveSharedTLS (attrs : Nat → KW) (st : OvStore) (o t : Nat) (k : Name) : Option V :=
  match st.find? (fun a => a.thread == t) with
  | some a =>
    match kget a.overrides k with
    | some v => some v
    | none => kget (attrs o) k
  | none => kget (attrs o) k

end Pg.C18
