/-
  C10 — model of `KeyPathSet` (value_location.py:577-813): the trie of nested `dict`s the code
  uses, with the end marker stored *as the dict key* `'$'` (value `True`), exactly as the code
  does — so a path containing the string key `'$'` collides with the marker (finding F19).

  A Python `dict` is an association list in insertion order (assignment to an existing key keeps
  its position, a new key is appended).
-/
import PgModel.KeyPath
namespace Pg.C10

/-- A trie node is a `dict` (`node`) or the value `True` stored under `'$'` (`mark`). -/
inductive Trie where
  | mark
  | node (kids : List (Key × Trie))
  deriving Repr, Inhabited

abbrev Kids := List (Key × Trie)

/-- The end-marker key `'$'`. -/
def dollar : Key := .s ['$']


/-! ### User keys vs. the end marker (fix C10-F19)

The code stores the user key `'$'` as a private object (`_EscapedEndMarker`) so that it cannot be
taken for the end marker `'$'`. The trie layout is not observable; the model represents that
object by an injective renaming of keys that avoids `'$'`: a string of n ≥ 1 dollar signs is stored
as n + 1 dollar signs, every other key as itself (`escKey` is a bijection from all keys onto the
keys other than `'$'`). Every public operation escapes the keys of its path argument; iteration
un-escapes. -/

def allDollars (s : List Char) : Bool := !s.isEmpty && s.all (fun c => c = '$')

def escKey : Key → Key
  | .s s => if allDollars s then .s ('$' :: s) else .s s
  | .i z => .i z

def unescKey : Key → Key
  | .s [] => .s []
  | .s (c :: s) => if c = '$' ∧ allDollars s then .s s else .s (c :: s)
  | .i z => .i z

def escP (p : Path) : Path := p.map escKey
def unescP (p : Path) : Path := p.map unescKey

namespace Trie

def empty : Trie := .node []

/-- Python truthiness of a trie value (`not parent_node[key]`): `True` and non-empty dicts. -/
def truthy : Trie → Bool
  | .mark => true
  | .node kids => !kids.isEmpty

/-- `add` (591-612). Returns the new trie and `updated`. -/
def add (ii : Bool) : Trie → Path → Except Err (Trie × Bool)
  | .mark, [] => .error .assertion                  -- `assert isinstance(root, dict)`
  | .mark, _ :: _ => .error .type                   -- `key not in True`
  | .node kids, [] =>
    if Assoc.hasKey kids dollar then .ok (.node kids, false)
    else .ok (.node (Assoc.set kids dollar .mark), true)
  | .node kids, k :: ks =>
    match Assoc.lookup kids k with
    | some child =>
      match add ii child ks with
      | .ok (child', u) => .ok (.node (Assoc.set kids k child'), u)
      | .error e => .error e
    | none =>
      let kids1 := Assoc.set kids k empty
      let kids2 := if ii then Assoc.set kids1 dollar .mark else kids1
      match Assoc.lookup kids2 k with
      | some child =>
        match add ii child ks with
        | .ok (child', u) => .ok (.node (Assoc.set kids2 k child'), u || ii)
        | .error e => .error e
      | none => .error .key                         -- unreachable

/-- `remove` (614-633). -/
def remove : Trie → Path → Except Err (Trie × Bool)
  | .mark, _ => .error .type
  | .node kids, [] =>
    if Assoc.hasKey kids dollar then .ok (.node (Assoc.erase kids dollar), true)
    else .ok (.node kids, false)
  | .node kids, k :: ks =>
    match Assoc.lookup kids k with
    | none => .ok (.node kids, false)
    | some .mark => .error .assertion               -- `assert isinstance(value, dict)`
    | some child =>
      match remove child ks with
      | .ok (child', true) =>
        if child'.truthy then .ok (.node (Assoc.set kids k child'), true)
        else .ok (.node (Assoc.erase kids k), true)
      | .ok (_, false) => .ok (.node kids, false)
      | .error e => .error e

/-- `__contains__` (635-643). -/
def contains : Trie → Path → Except Err Bool
  | .mark, _ => .error .type
  | .node kids, [] => .ok (Assoc.hasKey kids dollar)
  | .node kids, k :: ks =>
    match Assoc.lookup kids k with
    | none => .ok false
    | some child => contains child ks

/-- `has_prefix` (668-676). -/
def hasPrefix : Trie → Path → Except Err Bool
  | _, [] => .ok true
  | .mark, _ :: _ => .error .type
  | .node kids, k :: ks =>
    match Assoc.lookup kids k with
    | none => .ok false
    | some child => hasPrefix child ks

mutual
  /-- `__iter__` (649-660), in dict order. -/
  def paths : Trie → Path → List Path
    | .mark, _ => []
    | .node kids, pre => pathsKids kids pre
  def pathsKids : Kids → Path → List Path
    | [], _ => []
    | (k, v) :: rest, pre =>
      (if k = dollar then [pre] else paths v (pre ++ [k])) ++ pathsKids rest pre
end

/-- `list(self)`. -/
def toList (t : Trie) : List Path := paths t []

/-- `__bool__`. -/
def nonEmpty (t : Trie) : Bool := t.truthy

mutual
  /-- `dict.__eq__` on tries (order-insensitive): one direction of inclusion. -/
  def sub : Trie → Trie → Bool
    | .mark, .mark => true
    | .node a, .node b => subKids a b
    | _, _ => false
  def subKids : Kids → Kids → Bool
    | [], _ => true
    | (k, v) :: rest, b =>
      (match Assoc.lookup b k with
       | some w => sub v w
       | none => false) && subKids rest b
end

mutual
  def size : Trie → Nat
    | .mark => 1
    | .node kids => sizeKids kids + 1
  def sizeKids : Kids → Nat
    | [] => 0
    | (_, v) :: rest => size v + sizeKids rest
end

/-- `self._trie == other._trie` (662-663); keys of a dict are distinct, so mutual inclusion with
equal lengths at every level — checked here as inclusion both ways. -/
def beq (a b : Trie) : Bool := sub a b && sub b a

/-- `rebase` (681-690). -/
def rebaseAux (t : Trie) : Path → Trie
  | [] => t
  | k :: ks => .node [(k, rebaseAux t ks)]

/-- (fix C10-F37: an empty set stays empty; before the fix `rebase` wrapped the empty dict into
a dead branch `{k: {}}`.) -/
def rebase (t : Trie) (p : Path) : Trie := if t.truthy then rebaseAux t p else t

mutual
  /-- `_remove_same` of `difference_update` (700-713): the new target. -/
  def removeSame : Trie → Trie → Trie
    | .node tk, .node sk => .node (removeSameKids tk sk)
    | t, _ => t
  def removeSameKids : Kids → Kids → Kids
    | [], _ => []
    | (k, v) :: rest, sk =>
      match Assoc.lookup sk k with
      | none => (k, v) :: removeSameKids rest sk
      | some sv =>
        if k = dollar then removeSameKids rest sk
        else
          let v' := removeSame v sv
          if v'.truthy then (k, v') :: removeSameKids rest sk else removeSameKids rest sk
end

mutual
  /-- `_remove_diff` of `intersection_update` (723-736). -/
  def removeDiff : Trie → Trie → Trie
    | .node tk, .node sk => .node (removeDiffKids tk sk)
    | t, _ => t
  def removeDiffKids : Kids → Kids → Kids
    | [], _ => []
    | (k, v) :: rest, sk =>
      match Assoc.lookup sk k with
      | none => removeDiffKids rest sk
      | some sv =>
        if k = dollar then (k, v) :: removeDiffKids rest sk
        else
          let v' := removeDiff v sv
          if v'.truthy then (k, v') :: removeDiffKids rest sk else removeDiffKids rest sk
end

mutual
  /-- `_merge` of `update` (744-752): recursion over the *source*; the accumulator is the
  target's dict. -/
  def merge : Trie → Trie → Trie
    | .node tk, .node sk => .node (mergeKids tk sk)
    | _, s => s
  def mergeKids : Kids → Kids → Kids
    | tk, [] => tk
    | tk, (k, v) :: rest =>
      let tk' :=
        if k = dollar then Assoc.set tk k v
        else match Assoc.lookup tk k with
          | some tv => Assoc.set tk k (merge tv v)
          | none => Assoc.set tk k v
      mergeKids tk' rest
end

def difference (a b : Trie) : Trie := removeSame a b
def intersection (a b : Trie) : Trie := removeDiff a b
def union (a b : Trie) : Trie := merge a b

/-- `subtree` (761-787), read-only view (`none` = the method returns None). With a `'$'` key in
the path (F19) the walk can hit the marker value `True`: `key not in True` raises TypeError. -/
def subtree : Trie → Path → Except Err (Option Trie)
  | t, [] => .ok (some t)
  | .mark, _ :: _ => .error .type
  | .node kids, k :: ks =>
    match Assoc.lookup kids k with
    | none => .ok none
    | some child => subtree child ks

end Trie
end Pg.C10
