/-
  C17 — model of PyGlove's scoped settings.

  A *store* mirrors one `threading.local()` namespace (or, for the process store, the module
  globals / process-wide singletons).  The cells of a store are grouped by the primitive that
  owns them; that different primitives never share a key is a generated obligation over the
  registry (`C17_keys_distinct`), which is what justifies the grouping.

  Primitives (anchors are to /repo/pyglove/core):
    valueScope     utils/thread_local.py `thread_local_value_scope`: remember has/previous, set,
                   `finally` restore-or-delete.
    argScope       utils/thread_local.py `thread_local_arg_scope`: push (top ∪ kwargs), `finally` pop.
    outermostWins  coding/permissions.py `permission`: keep the outer value if there is one;
                   delete on exit only if there was none.
    cascadeMap     utils/contextual.py `contextual_scope`: copy the map, per variable keep the old
                   entry if it cascades, `finally` write the previous map back.
    stack r        push a frame derived from the top by rule `r`, `finally` pop
                   (views/base.py `view_options` = deep merge, coding/execution.py `context` = update,
                   typing/callable_ext.py `preset_args` = preset derivation,
                   detouring/class_detour.py `detour` = transitive mapping,
                   utils/json_conversion.py `load_types_for_deserialization` = update, process-wide).
    enterExit      utils/timing.py `TimeIt.__enter__/__exit__`: remember parent, set self; on exit
                   delete if there was no parent, else set the parent.
    frameScope     symbolic/functor.py `_apply_call_time_overrides_to_members`: remember the
                   previous entry, set, `finally` restore-or-delete.
    dynEval        hyper/base.py `dynamic_evaluate_fn_scope`: per thread a value scope (after
                   asserting that no process-level function is set), otherwise save / set /
                   restore of the process-level variable; the getter prefers the thread cell.

  Totalisation: deleting an absent cell and popping an absent/empty stack are no-ops in the
  model (Python would raise).  `PgProofs/Scope.lean` shows that in `exec` the cell is present at
  that point (`exit_defined`, for arguments in the documented domain), so no theorem is true
  because of the totalisation.
-/
namespace Pg.C17

inductive Atom where
  | none
  | bool (b : Bool)
  | int (i : Int)
  | str (s : String)
  deriving DecidableEq, Repr, Inhabited

/-- Values stored in frames: atoms, one level of nested dict / list (mutable argument values) and
`ContextualOverride(value, cascade, override_attrs)`. -/
inductive Val where
  | atom (a : Atom)
  | dict (kvs : List (String × Atom))
  | list (xs : List Atom)
  | ovr (a : Atom) (cascade overrideAttrs : Bool)
  deriving DecidableEq, Repr, Inhabited

/-- A Python `dict` with string keys (insertion ordered). -/
abbrev Frame := List (String × Val)

namespace Dict
variable {β : Type}

def get? (f : List (String × β)) (k : String) : Option β :=
  (f.find? (fun p => p.1 == k)).map (·.2)

/-- `d[k] = v`: keeps the position of an existing key, appends a new one. -/
def set : List (String × β) → String → β → List (String × β)
  | [], k, v => [(k, v)]
  | p :: f, k, v => if p.1 = k then (k, v) :: f else p :: set f k v

/-- `d.update(g)`. -/
def update (f g : List (String × β)) : List (String × β) :=
  g.foldl (fun acc p => set acc p.1 p.2) f

end Dict

/-! ### Derivation rules of the pushed frame -/

inductive StackRule where
  | update      -- `dict(top); .update(kwargs)`
  | deepMerge   -- `utils.merge([top, kwargs])`
  | preset      -- `_ArgPresets.derive`
  | detour      -- `_DetourContext.enter_scope`
  deriving DecidableEq, Repr

/-- Argument of a manager call. Which fields are used depends on the primitive. -/
structure Arg where
  a : Atom := .none            -- value / permission / timing name / evaluate-fn id
  kw : Frame := []             -- kwargs / variables / mappings / types
  name : String := "global"    -- `preset_name`
  inh : Atom := .bool false    -- `inherit_preset`
  perThread : Bool := true     -- `per_thread`
  deriving Repr, Inhabited

/-- `utils.merge([top, kwargs])` restricted to atoms, lists and one level of nested dicts; a dict is
never merged over a list (the library then patches the list by integer index — outside the model,
and the generator keeps a key to one kind of container). -/
def deepMerge (top kw : Frame) : Frame :=
  kw.foldl (fun acc p =>
    match Dict.get? acc p.1, p.2 with
    | some (.dict old), .dict new => Dict.set acc p.1 (.dict (Dict.update old new))
    | _, v => Dict.set acc p.1 v) top

def atomsOf (kw : Frame) : List (String × Atom) :=
  kw.filterMap (fun p => match p.2 with | .atom a => some (p.1, a) | _ => none)

/-- `_ArgPresets.derive(kwargs, preset_name, inherit_preset)` (callable_ext.py:137-153). -/
def presetDerive (top : Frame) (a : Arg) : Frame :=
  let inhName : Option String :=
    match a.inh with
    | .bool true => some a.name
    | .str s => if s == "" then none else some s
    | _ => none
  let kw := atomsOf a.kw
  let cur := match inhName.bind (Dict.get? top) with
    | some (.dict d) => Dict.update d kw
    | _ => kw
  Dict.set top a.name (.dict cur)

/-- `_DetourContext.enter_scope` (class_detour.py:197-243): a source already mapped keeps its
destination (outer wins); a destination that is itself mapped is followed (transitivity). -/
def detourDerive (top : Frame) (maps : Frame) : Frame :=
  let news := maps.filterMap (fun p =>
    if (Dict.get? top p.1).isSome then none
    else match p.2 with
      | .atom (.str d) => some (p.1, (Dict.get? top d).getD p.2)
      | v => some (p.1, v))
  Dict.update top news

/-- `contextual_scope` (contextual.py:122-133). -/
def cascadeDerive (prev vars : Frame) : Frame :=
  vars.foldl (fun cur p =>
    match Dict.get? cur p.1 with
    | some (.ovr a true oa) => Dict.set cur p.1 (.ovr a true oa)
    | _ => Dict.set cur p.1 p.2) prev

def derive (r : StackRule) (top : Frame) (a : Arg) : Frame :=
  match r with
  | .update => Dict.update top a.kw
  | .deepMerge => deepMerge top a.kw
  | .preset => presetDerive top a
  | .detour => detourDerive top a.kw

/-! ### Stores -/

structure Store where
  val : String → Option Atom            -- value-scope cells (restore-or-delete)
  once : String → Option Atom           -- outermost-wins cells
  tim : String → Option Atom            -- hand-rolled enter/exit cells
  stk : String → Option (List Frame)    -- stacks (head = top)
  cmap : String → Option Frame          -- cascade maps
  ovr : String → Option Frame           -- frame scopes

def Store.empty : Store := ⟨fun _ => none, fun _ => none, fun _ => none, fun _ => none, fun _ => none, fun _ => none⟩

def upd {β : Type} (f : String → β) (k : String) (v : β) : String → β :=
  fun k' => if k' = k then v else f k'

/-- All threads' `threading.local` contents plus the process-wide state. -/
structure World where
  tls : Nat → Store
  proc : Store
  /-- Process-wide side effect of the thread-local `detour` / `apply_wrappers`: the classes whose
  `__new__` has been replaced by `_maybe_detoured_new` (class_detour.py:232-235, recorded in
  `_original_new`; never undone). The *mapping* consulted by the replaced `__new__` is per thread. -/
  patched : String → Bool

def World.empty : World := ⟨fun _ => Store.empty, Store.empty, fun _ => false⟩

inductive Storage where
  | threadLocal
  | processWide
  | perArg        -- thread-local or process-wide depending on an argument (dynamic evaluation)
  deriving DecidableEq, Repr

inductive Kind where
  | valueScope
  | argScope
  | outermostWins
  | cascadeMap
  | stack (r : StackRule)
  | enterExit
  | frameScope
  | dynEval
  deriving DecidableEq, Repr

/-- One scoped-setting manager of the library (an entry of the T-SCOPE registry). -/
structure Mgr where
  name : String
  kind : Kind
  key : String
  initial : Atom          -- initial value handed to the primitive (value scopes)
  getterDefault : Atom    -- default returned by the getter when the cell is absent
  storage : Storage
  deriving DecidableEq, Repr

def World.sel (w : World) (st : Storage) (t : Nat) : Store :=
  match st with
  | .processWide => w.proc
  | _ => w.tls t

def World.put (w : World) (st : Storage) (t : Nat) (s : Store) : World :=
  match st with
  | .processWide => { w with proc := s }
  | _ => { w with tls := upd' w.tls t s }
where upd' (f : Nat → Store) (t : Nat) (s : Store) : Nat → Store := fun t' => if t' = t then s else f t'

/-- Source classes that `enter_scope` maps newly (those the enclosing scopes do not map yet): their
`__new__` gets patched, for every thread. -/
def newSources (top maps : Frame) : List String :=
  (maps.filter (fun p => !(Dict.get? top p.1).isSome)).map (·.1)

def patchOf (m : Mgr) (a : Arg) (s : Store) : List String :=
  match m.kind with
  | .stack .detour => newSources (((s.stk m.key).getD []).headD []) a.kw
  | _ => []

def World.patch (w : World) (cs : List String) : World :=
  { w with patched := fun c => w.patched c || cs.contains c }

/-- Destination of class `c` under a detour mapping. -/
def mappingDest (f : Frame) (c : String) : String :=
  match Dict.get? f c with
  | some (.atom (.str d)) => d
  | _ => c

/-- `c()` in thread `t`: only a patched class runs `_maybe_detoured_new`, which looks the class up
in the calling thread's current mapping (class_detour.py:331-345); everything else is created as is. -/
def construct (m : Mgr) (c : String) (t : Nat) (w : World) : String :=
  if w.patched c then mappingDest ((((w.sel m.storage t).stk m.key).getD []).headD []) c else c

/-- Classes the harness creates objects of in its behavioural probe. -/
def probeClasses : List String := ["A", "B", "C", "D", "N"]

/-- What a manager remembers between enter and exit. -/
inductive Saved where
  | vs (has : Bool) (prev : Atom)       -- value scope: `has_key`, `previous_value`
  | once (outer : Atom)                 -- `outter_perm`
  | ee (parent : Atom)                  -- `self._parent`
  | pop
  | cm (prev : Frame)                   -- `previous_values`
  | fs (prev : Option Frame)            -- `previous`
  | dynG (old : Option Atom)            -- process-level `old_fn`
  deriving Repr

def frameRule : Kind → StackRule
  | .stack r => r
  | _ => .update

/-- Entering on one store. -/
def enterS (m : Mgr) (a : Arg) (s : Store) : Store × Saved :=
  match m.kind with
  | .valueScope | .dynEval =>
    ({ s with val := upd s.val m.key (some a.a) },
     .vs (s.val m.key).isSome ((s.val m.key).getD m.initial))
  | .outermostWins =>
    let outer := (s.once m.key).getD .none
    ({ s with once := upd s.once m.key (some (if outer = .none then a.a else outer)) }, .once outer)
  | .enterExit =>
    ({ s with tim := upd s.tim m.key (some a.a) }, .ee ((s.tim m.key).getD .none))
  | .argScope | .stack _ =>
    let l := (s.stk m.key).getD []
    ({ s with stk := upd s.stk m.key (some (derive (frameRule m.kind) (l.headD []) a :: l)) }, .pop)
  | .cascadeMap =>
    let prev := (s.cmap m.key).getD []
    ({ s with cmap := upd s.cmap m.key (some (cascadeDerive prev a.kw)) }, .cm prev)
  | .frameScope =>
    ({ s with ovr := upd s.ovr m.key (some a.kw) }, .fs (s.ovr m.key))

/-- Leaving on one store (the `finally` part). -/
def exitS (key : String) (sv : Saved) (s : Store) : Store :=
  match sv with
  | .vs has prev => { s with val := upd s.val key (if has then some prev else none) }
  | .once outer => if outer = .none then { s with once := upd s.once key none } else s
  | .ee parent => { s with tim := upd s.tim key (if parent = .none then none else some parent) }
  | .pop => { s with stk := upd s.stk key ((s.stk key).map List.tail) }
  | .cm prev => { s with cmap := upd s.cmap key (some prev) }
  | .fs prev => { s with ovr := upd s.ovr key prev }
  | .dynG old => { s with val := upd s.val key old }

/-- Where the manager called with this argument keeps its cell. -/
def storageOf (m : Mgr) (a : Arg) : Storage :=
  match m.kind with
  | .dynEval => if a.perThread then .threadLocal else .processWide
  | _ => m.storage

/-- `__enter__`. Only dynamic evaluation can refuse to enter (its assertion). -/
def enter (m : Mgr) (a : Arg) (t : Nat) (w : World) : Except String (World × Saved × Storage) :=
  match m.kind with
  | .dynEval =>
    if a.perThread then
      if (w.proc.val m.key).getD .none = .none then
        let r := enterS m a (w.tls t)
        .ok (w.put .threadLocal t r.1, r.2, .threadLocal)
      else .error "AssertionError"
    else
      .ok ({ w with proc := { w.proc with val := upd w.proc.val m.key (some a.a) } },
           .dynG (w.proc.val m.key), .processWide)
  | _ =>
    let s := w.sel m.storage t
    let r := enterS m a s
    .ok ((w.patch (patchOf m a s)).put m.storage t r.1, r.2, m.storage)

/-- `__exit__` (normal or exceptional: every primitive does this in a `finally`). -/
def exit (m : Mgr) (sv : Saved) (st : Storage) (t : Nat) (w : World) : World :=
  w.put st t (exitS m.key sv (w.sel st t))

inductive ObsVal where
  | atom (a : Atom)
  | frame (f : Frame)
  deriving DecidableEq, Repr

/-- The public getter of a manager on one store. -/
def getS (m : Mgr) (s : Store) : ObsVal :=
  match m.kind with
  | .valueScope | .dynEval => .atom ((s.val m.key).getD m.getterDefault)
  | .outermostWins => .atom ((s.once m.key).getD .none)
  | .enterExit => .atom ((s.tim m.key).getD .none)
  | .argScope | .stack _ => .frame (((s.stk m.key).getD []).headD [])
  | .cascadeMap => .frame ((s.cmap m.key).getD [])
  | .frameScope => .frame ((s.ovr m.key).getD [])

def getter (m : Mgr) (t : Nat) (w : World) : ObsVal :=
  match m.kind with
  | .dynEval =>
    .atom (match (w.tls t).val m.key with
      | some v => v
      | none => (w.proc.val m.key).getD .none)
  | _ => getS m (w.sel m.storage t)

/-! ### Programs -/

inductive Prog where
  | skip
  | seq (p q : Prog)
  | scope (m : Mgr) (a : Arg) (p : Prog)
  | raise
  /-- A manager entry (or any library call) that fails with exception `e` before changing anything:
  re-entering an exhausted `@contextmanager` object, an argument the manager rejects, a `__new__`
  that cannot be replaced. -/
  | fail (e : String)
  | try_ (p : Prog)
  | probe (m : Mgr)
  /-- `c()` in the running thread, for a detour-kind manager `m`.  If the thread's current mapping
  sends `c` to a *function*, the function runs `p` (it may raise, create `c` again, open nested
  scopes); otherwise an object is created and `p` is not run. -/
  | call (m : Mgr) (c : String) (p : Prog)
  deriving Repr, Inhabited

inductive Outcome where
  | normal
  | exc (e : String)
  deriving DecidableEq, Repr

structure Obs where
  mgr : String
  v : ObsVal
  deriving DecidableEq, Repr

structure Result where
  world : World
  outcome : Outcome
  obs : List Obs

/-- Names of the detour destinations that are functions (shared with the harness; everything else
is a class). -/
def fnDests : List String := ["fn1", "fn2"]

def isFnDest : Val → Bool
  | .atom (.str d) => fnDests.contains d
  | _ => false

def topFrame (m : Mgr) (t : Nat) (w : World) : Frame :=
  (((w.sel m.storage t).stk m.key).getD []).headD []

/-- The function that `c()` calls in thread `t`, if the thread's mapping sends `c` to a function
(class_detour.py `_maybe_detoured_new`, the `else` branch). -/
def callDest (m : Mgr) (c : String) (t : Nat) (w : World) : Option Val :=
  match (w.sel m.storage t).stk m.key with
  | some (f :: _) =>
    match Dict.get? f c with
    | some d => if isFnDest d then some d else none
    | none => none
  | _ => none

/-- `_global_detour_context.current_mappings[c] = v`: a write into the top frame of the thread's
detour stack (lost if the stack is empty: `current_mappings` then returns a fresh dict). -/
def setTop (m : Mgr) (c : String) (v : Val) (t : Nat) (w : World) : World :=
  match (w.sel m.storage t).stk m.key with
  | some (f :: l) =>
    w.put m.storage t { w.sel m.storage t with
      stk := upd (w.sel m.storage t).stk m.key (some (Dict.set f c v :: l)) }
  | _ => w

def destAtom : Val → Atom
  | .atom a => a
  | _ => .none

/-- Big-step execution of a well-nested program by thread `t`. -/
def exec (t : Nat) : Prog → World → Result
  | .skip, w => ⟨w, .normal, []⟩
  | .seq p q, w =>
    let r1 := exec t p w
    match r1.outcome with
    | .normal =>
      let r2 := exec t q r1.world
      ⟨r2.world, r2.outcome, r1.obs ++ r2.obs⟩
    | .exc e => ⟨r1.world, .exc e, r1.obs⟩
  | .scope m a p, w =>
    match enter m a t w with
    | .error e => ⟨w, .exc e, []⟩
    | .ok (w1, sv, st) =>
      let r := exec t p w1
      ⟨exit m sv st t r.world, r.outcome, r.obs⟩
  | .raise, w => ⟨w, .exc "Error", []⟩
  | .fail e, w => ⟨w, .exc e, []⟩
  | .try_ p, w =>
    let r := exec t p w
    ⟨r.world, .normal, r.obs⟩
  | .probe m, w => ⟨w, .normal, [⟨m.name, getter m t w⟩]⟩
  | .call m c p, w =>
    match callDest m c t w with
    | none => ⟨w, .normal, [⟨"new:" ++ c, .atom (.str (mappingDest (topFrame m t w) c))⟩]⟩
    | some d =>
      -- `try: mappings[cls] = cls; return dest(cls, …)  finally: mappings[cls] = dest`
      let r := exec t p (setTop m c (.atom (.str c)) t w)
      ⟨setTop m c d t r.world, r.outcome, ⟨"call:" ++ c, .atom (destAtom d)⟩ :: r.obs⟩

/-! ### Execution under interference

`execI` is `exec` with an environment acting between the atomic actions of thread `t`: before
every enter, exit and probe the next element of `env` (if any) is applied to the world.  An
interleaving with other threads is an `env` made of those threads' atomic actions. -/

abbrev Env := List (World → World)

def interfere : Env → World → Env × World
  | [], w => ([], w)
  | f :: env, w => (env, f w)

structure ResultI where
  env : Env
  world : World
  outcome : Outcome
  obs : List Obs

def execI (t : Nat) : Prog → Env → World → ResultI
  | .skip, env, w => ⟨env, w, .normal, []⟩
  | .seq p q, env, w =>
    let r1 := execI t p env w
    match r1.outcome with
    | .normal =>
      let r2 := execI t q r1.env r1.world
      ⟨r2.env, r2.world, r2.outcome, r1.obs ++ r2.obs⟩
    | .exc e => ⟨r1.env, r1.world, .exc e, r1.obs⟩
  | .scope m a p, env, w =>
    let (env1, w0) := interfere env w
    match enter m a t w0 with
    | .error e => ⟨env1, w0, .exc e, []⟩
    | .ok (w1, sv, st) =>
      let r := execI t p env1 w1
      let (env2, w2) := interfere r.env r.world
      ⟨env2, exit m sv st t w2, r.outcome, r.obs⟩
  | .raise, env, w => ⟨env, w, .exc "Error", []⟩
  | .fail e, env, w => ⟨env, w, .exc e, []⟩
  | .try_ p, env, w =>
    let r := execI t p env w
    ⟨r.env, r.world, .normal, r.obs⟩
  | .probe m, env, w =>
    let (env1, w0) := interfere env w
    ⟨env1, w0, .normal, [⟨m.name, getter m t w0⟩]⟩
  | .call m c p, env, w =>
    let (env1, w0) := interfere env w
    match callDest m c t w0 with
    | none => ⟨env1, w0, .normal, [⟨"new:" ++ c, .atom (.str (mappingDest (topFrame m t w0) c))⟩]⟩
    | some d =>
      let r := execI t p env1 (setTop m c (.atom (.str c)) t w0)
      let (env2, w2) := interfere r.env r.world
      ⟨env2, setTop m c d t w2, r.outcome, ⟨"call:" ++ c, .atom (destAtom d)⟩ :: r.obs⟩

/-- Does the manager, called with this argument, keep its state in the calling thread only? -/
def isLocal (m : Mgr) (a : Arg) : Bool := storageOf m a != .processWide

/-- All scopes of the program are thread-local ones. -/
def Prog.threadLocal : Prog → Bool
  | .skip | .raise | .fail _ | .probe _ => true
  | .seq p q => p.threadLocal && q.threadLocal
  | .scope m a p => isLocal m a && p.threadLocal
  | .try_ p => p.threadLocal
  | .call _ _ p => p.threadLocal

end Pg.C17
