/-
  C14 — step-driven scalars (pyglove/ext/scalars/base.py: `STEP`, `Constant`, `+ - * // %`) as used for
  the integer parameters of the operators (`x * k`, `x ** k`, selector `n`, `x[i]`). The operators call
  `scalars.scalar_value(param, step)` with the `step` of the current call, and every sub-operation of a
  pipeline receives the same `step`; so a scheduled expression at step `s` behaves like the expression
  in which every schedule is replaced by its value at `s` (`Sched.eval`), which is what the driver does.
-/
namespace Pg.C14

inductive Sched where
  | const (c : Int)
  | step
  | add (a b : Sched)
  | sub (a b : Sched)
  | mul (a b : Sched)
  | floordiv (a b : Sched)      -- `a // b` = `Floor(Division(a, b))`
  | mod (a b : Sched)           -- Python `%`: the sign follows the divisor
  | stepwise (lens : List Nat) (vals : List Sched)   -- `StepWise([(len, value), ...])`, integer lengths

mutual
  /-- value at a step; `none` = ZeroDivisionError. -/
  def Sched.eval : Sched → Nat → Option Int
    | .const c, _ => some c
    | .step, s => some s
    | .add a b, s => do pure ((← a.eval s) + (← b.eval s))
    | .sub a b, s => do pure ((← a.eval s) - (← b.eval s))
    | .mul a b, s => do pure ((← a.eval s) * (← b.eval s))
    | .floordiv a b, s => do
        let y ← b.eval s
        if y = 0 then none else pure (Int.fdiv (← a.eval s) y)
    | .mod a b, s => do
        let y ← b.eval s
        if y = 0 then none else pure (Int.fmod (← a.eval s) y)
    | .stepwise lens vals, s =>
        -- mirrors /repo with fixes/C14-F235.patch: the phase is a function of the step alone; after the
        -- last phase its last value is held
        evalPhases lens vals (min s (lens.sum - 1))
  /-- the phase that contains step `s` (the last phase takes whatever is left), evaluated at the
  phase-local step. -/
  def evalPhases : List Nat → List Sched → Nat → Option Int
    | _, [v], s => v.eval s
    | l :: ls, v :: vs, s => if s < l then v.eval s else evalPhases ls vs (s - l)
    | _, _, _ => none
end

end Pg.C14
