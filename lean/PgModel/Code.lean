/-
  C19 — model of permission-gated code evaluation.

  Mirrors pyglove/core/coding/parsing.py (`_CodeValidator`: a `NodeVisitor` whose
  `generic_visit` is applied to every node, checks the node against each `verify(...)` tuple and
  then visits the children), permissions.py (`permission()` scope: outermost wins) and the head
  of execution.py `evaluate` (effective permission, validate strictly before compile/exec).

  The model is generic in the node-kind type `κ` and in the table `gate : κ → List Perm`; the
  tables for the current source are generated into `PgGen/C19Tables.lean`.
-/
namespace Pg.C19

inductive Perm where
  | assign | condition | loop | call | exception | classDef | funcDef | import_
  deriving DecidableEq, Repr

def Perm.all : List Perm :=
  [.assign, .condition, .loop, .call, .exception, .classDef, .funcDef, .import_]

def Perm.name : Perm → String
  | .assign => "ASSIGN" | .condition => "CONDITION" | .loop => "LOOP" | .call => "CALL"
  | .exception => "EXCEPTION" | .classDef => "CLASS_DEFINITION"
  | .funcDef => "FUNCTION_DEFINITION" | .import_ => "IMPORT"

def Perm.ofName? (s : String) : Option Perm := Perm.all.find? (fun p => p.name == s)

/-- A set of granted permissions (`CodePermission` flag value), as the list of granted flags. -/
abbrev PermSet := List Perm

def granted (ps : PermSet) (p : Perm) : Bool := ps.contains p

/-- Python truthiness of a flag value: the empty flag is falsy. -/
def PermSet.truthy (ps : PermSet) : Bool := Perm.all.any (granted ps)

def PermSet.inter (a b : PermSet) : PermSet := a.filter (granted b)

/-- An AST node: class, line number, children (`ast.iter_child_nodes` order). -/
inductive Node (κ : Type) where
  | mk (kind : κ) (line : Nat) (children : List (Node κ))

namespace Node
variable {κ : Type}

def kind : Node κ → κ | .mk k _ _ => k
def line : Node κ → Nat | .mk _ l _ => l

mutual
  /-- All nodes of a tree in visiting (pre-)order. -/
  def nodes : Node κ → List (Node κ)
    | .mk k l cs => .mk k l cs :: nodesAll cs
  def nodesAll : List (Node κ) → List (Node κ)
    | [] => []
    | c :: cs => nodes c ++ nodesAll cs
end

end Node

section Visitor
variable {κ : Type} (gate : κ → List Perm) (ps : PermSet)

/-- `generic_visit` on one node: every `verify` whose tuple contains the node's class must find
its flag granted. -/
def nodeOk (k : κ) : Bool := (gate k).all (granted ps)

mutual
  /-- `_CodeValidator(code, ps).visit(tree)` does not raise. -/
  def validate : Node κ → Bool
    | .mk k _ cs => nodeOk gate ps k && validateAll cs
  def validateAll : List (Node κ) → Bool
    | [] => true
    | c :: cs => validate c && validateAll cs
end

mutual
  /-- Line number carried by the `SyntaxError` of the first refused node (visiting order). -/
  def firstViolation : Node κ → Option Nat
    | .mk k l cs => if nodeOk gate ps k then firstViolationAll cs else some l
  def firstViolationAll : List (Node κ) → Option Nat
    | [] => none
    | c :: cs => match firstViolation c with
      | some l => some l
      | none => firstViolationAll cs
end

end Visitor

/-! ### Permission scopes (`permissions.permission`) and `evaluate` -/

/-- The thread-local slot `__code_run_permission__`. -/
abbrev Slot := Option PermSet

/-- Entering `with permission(p)`: returns the new slot and what the manager remembers
(`outter_perm`). -/
def scopeEnter (slot : Slot) (p : PermSet) : Slot × Slot :=
  match slot with
  | some outer => (some outer, some outer)     -- `perm = outter_perm`, set again
  | none => (some p, none)

/-- Leaving the block (normally or by exception: the code is in a `finally`). -/
def scopeExit (slot : Slot) (remembered : Slot) : Slot :=
  match remembered with
  | none => none          -- `thread_local_del`
  | some _ => slot

/-- Slot seen inside a nest of scopes entered in the given order (outermost first). -/
def scopeNest (slot : Slot) : List PermSet → Slot
  | [] => slot
  | p :: ps => scopeNest (scopeEnter slot p).1 ps

/-- Run a nest of scopes around a body and return the slot after all exits. -/
def scopeRun (slot : Slot) : List PermSet → Slot
  | [] => slot
  | p :: ps =>
    let (s1, rem) := scopeEnter slot p
    scopeExit (scopeRun s1 ps) rem

/-- How `evaluate` combines its explicit `permission=` argument with the enclosing scope
(extracted from the source by T-GATE). -/
inductive EffRule where
  | explicitOrScope     -- `permission or get_permission()`   (an empty flag is falsy!)
  | explicitElseScope   -- `permission if permission is not None else get_permission()`
  | meetWithScope       -- explicit ∩ scope when both are present
  deriving DecidableEq, Repr

def effective (rule : EffRule) (explicit : Option PermSet) (slot : Slot) : Option PermSet :=
  match rule with
  | .explicitOrScope =>
    match explicit with
    | some e => if e.truthy then some e else slot
    | none => slot
  | .explicitElseScope =>
    match explicit with
    | some e => some e
    | none => slot
  | .meetWithScope =>
    match explicit, slot with
    | none, s => s
    | some e, none => some e
    | some e, some s => some (e.inter s)

inductive Outcome where
  | runs                     -- compile/exec is reached
  | rejected (line : Nat)    -- CodeError raised by parsing, nothing executed
  deriving DecidableEq, Repr

/-- `evaluate` up to the point where execution starts: parse, validate under the effective
permission (none ⇒ no validation at all), and only then run. -/
def evaluateHead {κ : Type} (gate : κ → List Perm) (rule : EffRule)
    (explicit : Option PermSet) (slot : Slot) (prog : Node κ) : Outcome :=
  match effective rule explicit slot with
  | none => .runs
  | some ps =>
    match firstViolation gate ps prog with
    | some l => .rejected l
    | none => .runs

end Pg.C19
