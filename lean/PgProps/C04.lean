/-
  C04 — value-spec algebra is sound (property theorems; model: PgModel/Typing.lean).
-/
import PgModel.Typing
namespace Pg.Typing

theorem C04_placeholder : accepts ⟨fun _ _ => false, fun _ _ => false⟩ (.any ⟨true, .missing, false⟩) (.int 1) = true := by
  decide

end Pg.Typing
