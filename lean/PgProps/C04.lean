/-
  C04 — value-spec algebra is sound (property theorems; model: PgModel/Typing.lean, lemmas:
  PgProofs/Typing.lean).  The model mirrors /repo with fixes/C04-F09.patch applied.

  Shape: every clause of the property is stated at full strength as `def C04_…_Full : Prop`.
  Where the pinned code violates it, `…_counterexample : ¬ …_Full` exhibits the witness of the
  findings entry (evaluated by the kernel with `rfl`; the same witness is replayed on the real code
  on every run), and `…_partial` proves the clause on an explicitly delimited fragment.

  Delimiting predicates (all decidable, defined next to their proofs):
  * `frag` (PgProofs/Typing.lean) — idempotence / default: leaves, lists, tuples, schema-less dict;
    `simpleUnion` + `fragList` (PgProofs/TypingUnion.lean) — unions of such leaves;
  * `fragD` / `defOk` / `wfd` (PgProofs/TypingDictNested.lean) — `C04_idem_dict_nested`: Dicts with a
    schema nested to any depth, on well-formed values;
  * `CompatOk a b` (PgProofs/TypingCompat.lean) — `C04_compat_partial`, mutual induction on `a`;
    `CompatOkUnion cands f b` (PgProofs/TypingUnion.lean) — `C04_compat_partial_union`;
  * `ExtOk child base` (PgProofs/TypingExtend.lean) — `C04_extend_partial`: the extension lands in
    `CompatOk base c'` with `isCompatible base c'`, containment then follows from compatibility.
  * `ExtOkUnion env cands f bcs bf` (PgProofs/TypingExtendUnion.lean) — `C04_extend_partial_union`:
    both unions simple (the complement of the F43 / F125 dispatch condition), candidates in `ExtOk`.
  * `ExtOkDict env fs f bfs` (PgProofs/TypingExtendDict.lean) — `C04_extend_partial_dict`: no added
    keys, shared fields in `ExtOk` and without defaults (the complement of the F42 condition).
  `C04_*_exclusion_*` show, conjunct by conjunct, that the predicates exclude nothing gratuitous.
-/
import PgProofs.Typing
import PgProofs.TypingExtend
import PgProofs.TypingExtendUnion
import PgProofs.TypingExtendDict
import PgProofs.TypingUnion
import PgProofs.TypingDictIdem
import PgProofs.TypingDictNested
namespace Pg.Typing

/-- Environment of the counterexamples: classes 0 ⊃ 1, every regex matches. -/
def env0 : Env := ⟨fun a b => a == b || (a == 1 && b == 0), fun _ _ => true⟩
def F0 : Flags := ⟨false, .missing, false⟩

/-! ## 1. Idempotence: `apply s v = ok v' → apply s v' = ok v'` -/

def C04_idem_Full : Prop :=
  ∀ (env : Env) (s : Spec) (p : Bool) (v v' : Val), apply env s p v = .ok v' → apply env s p v' = .ok v'

/-- Idempotence for every spec of the fragment `frag` (any, bool, int and float ranges, str, enum,
object, schema-less dict, and lists / fixed tuples / variable tuples of these at any depth), for all
flags noneable / default / frozen, both values of `allow_partial`, every class environment and
every value.  Outside the fragment (Dict with schema, Union) idempotence is modelled and checked
by correspondence + oracle only. -/
theorem C04_idem_partial (env : Env) (s : Spec) (hs : frag s = true) (p : Bool) (v v' : Val)
    (h : apply env s p v = .ok v') : apply env s p v' = .ok v' :=
  apply_idem_frag env s hs p v v' h

/-- Idempotence for `Dict` specs WITH a schema: const keys, dynamic `StrKey` fields (regexes opaque),
per-field defaults filled in for missing keys, noneable / default / frozen flags on the Dict and on
its fields, both `allow_partial` modes.  Hypotheses: the schema's keys are distinct (what `Schema`
enforces), the field specs belong to the fragment `frag`, the value is a Python dict (distinct keys).
Proof: `Schema.apply` yields a dict in which every entry is a fixed point of its owning field
(`schemaApply_conforms`, loop invariant of `applyFields`), and such a dict is a fixed point of
`Schema.apply` (`schemaApply_fixed`). -/
theorem C04_idem_dict (env : Env) (fields : List Field) (f : Flags) (p : Bool) (v v' : Val)
    (hd : distinctKeys (fieldKeySpecs fields) = true) (hfr : ∀ fld ∈ fields, frag fld.value = true)
    (hv : keysNodup v) (h : apply env (.dict (some fields) f) p v = .ok v') :
    apply env (.dict (some fields) f) p v' = .ok v' :=
  apply_dict_idem env fields f p v v' hd
    (fun fld hf => C03.idem_of_frag env p fld.value (hfr fld hf))
    (fun fld hf => missingOK_of_frag env p fld.value (hfr fld hf)) hv h

/-- The same for any field specs that are themselves idempotent and `MissingOK` (so the statement
composes with whatever else is proved idempotent, e.g. simple unions). -/
theorem C04_idem_dict_general (env : Env) (fields : List Field) (f : Flags) (p : Bool) (v v' : Val)
    (hd : distinctKeys (fieldKeySpecs fields) = true) (hI : ∀ fld ∈ fields, C03.Idem env p fld.value)
    (hM : ∀ fld ∈ fields, C03.MissingOK env p fld.value) (hv : keysNodup v)
    (h : apply env (.dict (some fields) f) p v = .ok v') :
    apply env (.dict (some fields) f) p v' = .ok v' :=
  apply_dict_idem env fields f p v v' hd hI hM hv h

/-- **Dict idempotence at any nesting depth** (PgProofs/TypingDictNested.lean): `fragD` = the fragment
`frag` plus Dicts with a schema (distinct keys; const and dynamic keys, field defaults, all flags)
whose field specs are in `fragD` again — Dict in Dict in Dict … —, for every spec whose stored
defaults are well-formed values (`defOk`), on every well-formed value: `wfd v` says that every dict
reached through dict members has distinct keys, which every Python dict has.  The result is again
well-formed (that is what carries the statement through the levels: `IdemOn`). -/
theorem C04_idem_dict_nested (env : Env) (s : Spec) (hs : fragD s = true) (hd : defOk s = true)
    (p : Bool) (v v' : Val) (hv : wfd v = true) (h : apply env s p v = .ok v') :
    apply env s p v' = .ok v' ∧ wfd v' = true :=
  (idemOn_fragD env p s hs hd).1 v v' hv h

/-- Non-vacuity: three levels, a dynamic key and a default at the innermost one. -/
def exN : Spec :=
  .dict (some [.mk (.const "a") (.dict (some [.mk (.const "b") (.dict (some [
      .mk (.const "c") (.float none none ⟨false, .float ⟨1, 1⟩, false⟩), .mk (.strKey none) (.int (some 0) none F0)])
      ⟨false, .dict [("c", .float ⟨1, 1⟩)], false⟩)]) ⟨false, .dict [("b", .dict [("c", .float ⟨1, 1⟩)])], false⟩),
    .mk (.const "l") (.list (.int none none F0) 0 none F0)]) F0
example : fragD exN = true ∧ defOk exN = true := by decide
example : apply env0 exN false (.dict [("l", .list [.int 1]), ("a", .dict [("b", .dict [("q", .int 2)])])])
    = .ok (.dict [("l", .list [.int 1]), ("a", .dict [("b", .dict [("q", .int 2), ("c", .float ⟨1, 1⟩)])])]) := by rfl

example : apply env0 (.dict (some [.mk (.const "x") (.int none none ⟨false, .int 1, false⟩),
      .mk (.strKey none) (.float none none F0)]) F0) false (.dict [("q", .int 2)])
    = .ok (.dict [("q", .float ⟨2, 0⟩), ("x", .int 1)]) := by rfl

/-- F47 (replayed on the real code): `Union([Bool().freeze(False), Int().freeze(True)])` maps 1 to
`True` (the Int candidate is frozen at a bool) and then rejects `True` (routed to the Bool
candidate). -/
theorem C04_idem_counterexample : ¬ C04_idem_Full := by
  intro h
  have := h env0 (.union [.bool ⟨false, .bool false, true⟩, .int none none ⟨false, .bool true, true⟩] F0)
    false (.int 1) (.bool true) (by rfl)
  have e : apply env0 (.union [.bool ⟨false, .bool false, true⟩, .int none none ⟨false, .bool true, true⟩] F0)
    false (.bool true) = .error .value := by rfl
  rw [e] at this
  cases this

/-- **Idempotence for simple unions** (PgProofs/TypingUnion.lean): a `Union` (any flags, frozen or
not) whose candidates are non-frozen leaves of pairwise disjoint value types (`simpleUnion`) drawn
from the fragment — the dispatch of `Union._apply` is then a function of the value's type, and the
candidate's result has the type it was routed by. -/
theorem C04_idem_partial_union (env : Env) (cands : List Spec) (f : Flags)
    (hs : simpleUnion cands = true) (hfr : fragList cands = true) (p : Bool) (v v' : Val)
    (h : apply env (.union cands f) p v = .ok v') : apply env (.union cands f) p v' = .ok v' :=
  apply_idem_union env cands f hs hfr p v v' h

/-- The F47 witness lies outside `simpleUnion` (frozen candidates, and `Bool` / `Int` overlap). -/
theorem C04_idem_exclusion_F47 :
    simpleUnion [.bool ⟨false, .bool false, true⟩, .int none none ⟨false, .bool true, true⟩] = false ∧
    candOk (.int none none ⟨false, .bool true, true⟩) = false ∧
    simpleUnion [.str none F0, .int none none F0] = true := by decide

example : apply env0 (.union [.float none none F0, .list (.str none F0) 0 none F0] ⟨true, .missing, false⟩) false (.int 1)
    = .ok (.float ⟨1, 0⟩) := by rfl

/-! ## 2. A spec's own default is acceptable; applying never changes the spec -/

/-- `set_default` (168-182): the stored default is what `apply(…, allow_partial=True)` returned. -/
def setDefault (env : Env) (s : Spec) (d0 : Val) : R Spec :=
  match apply env (s.setFlags { s.flags with default := .missing, frozen := false }) true d0 with
  | .ok d => .ok (s.setFlags { s.flags with default := d, frozen := false })
  | .error e => .error e

/-- `freeze` (184-193). -/
def freeze (s : Spec) : Spec := s.setFlags { s.flags with frozen := true }

theorem frag_setFlags (s : Spec) (g : Flags) : frag (s.setFlags g) = frag s := by
  cases s <;> simp [Spec.setFlags, frag]
  rename_i fields f
  cases fields <;> simp [frag]

theorem apply_setFlags_default (env : Env) (s : Spec) (d : Val) (hnf : s.flags.frozen = false)
    (p : Bool) (v : Val) :
    apply env (s.setFlags { s.flags with default := d }) p v = apply env s p v := by
  cases s <;> simp only [Spec.setFlags, Spec.flags, apply, gate] at hnf ⊢ <;> simp [hnf]
  rename_i fields f
  cases fields <;> simp [apply, gate, hnf]

/-- The default stored by a constructor is accepted by the constructed spec and mapped to itself
(`allow_partial=True`, as `set_default` applies it) — for every spec of the fragment and every
candidate default. -/
theorem C04_default (env : Env) (s s' : Spec) (hs : frag s = true) (d0 : Val)
    (h : setDefault env s d0 = .ok s') :
    apply env s' true s'.flags.default = .ok s'.flags.default := by
  unfold setDefault at h
  cases hd : apply env (s.setFlags { s.flags with default := .missing, frozen := false }) true d0 with
  | error e => simp [hd] at h
  | ok d =>
    simp only [hd] at h
    injection h with h; subst h
    have hfr : frag (s.setFlags { s.flags with default := .missing, frozen := false }) = true := by
      rw [frag_setFlags]; exact hs
    have hi := apply_idem_frag env _ hfr true d0 d hd
    have e1 : (s.setFlags { s.flags with default := d, frozen := false }).flags.default = d := by
      cases s <;> rfl
    rw [e1]
    have e2 : s.setFlags { s.flags with default := d, frozen := false }
        = (s.setFlags { s.flags with default := .missing, frozen := false }).setFlags
            { (s.setFlags { s.flags with default := .missing, frozen := false }).flags with default := d } := by
      cases s <;> rfl
    rw [e2, apply_setFlags_default env _ d (by cases s <;> rfl)]
    exact hi

/-- Default acceptability for simple unions of fragment candidates. -/
theorem C04_default_union (env : Env) (cands : List Spec) (f : Flags) (hs : simpleUnion cands = true)
    (hfr : fragList cands = true) (s' : Spec) (d0 : Val)
    (h : setDefault env (.union cands f) d0 = .ok s') :
    apply env s' true s'.flags.default = .ok s'.flags.default := by
  unfold setDefault at h
  simp only [Spec.setFlags, Spec.flags] at h
  cases hd : apply env (.union cands { f with default := .missing, frozen := false }) true d0 with
  | error e => simp [hd] at h
  | ok d =>
    simp only [hd] at h
    injection h with h; subst h
    have hi := apply_idem_union env cands _ hs hfr true d0 d hd
    have := apply_setFlags_default env (.union cands { f with default := .missing, frozen := false }) d rfl true d
    simp only [Spec.setFlags, Spec.flags] at this ⊢
    rw [this]; exact hi

example : ∃ s', setDefault env0 (.union [.float none none F0, .str none F0] F0) (.int 1) = .ok s' := ⟨_, rfl⟩

/-- … and the same after `freeze()`: a frozen spec accepts its own default. -/
theorem C04_default_frozen (env : Env) (s : Spec) (p : Bool) (hf : s.flags.frozen = true) :
    apply env s p s.flags.default = .ok s.flags.default := by
  cases s <;> simp only [Spec.flags] at hf <;> simp only [apply, gate, Spec.flags, hf, if_true, pyEq_refl] <;> simp
  rename_i fields f
  cases fields <;> simp [apply, gate, hf, pyEq_refl]

/-- "Applying never changes the spec" is immediate in the model: `apply` is a function of an
immutable `Spec` (on the code the harness compares the spec state before / after every apply). -/
theorem C04_apply_pure (env : Env) (s : Spec) (p : Bool) (v : Val) :
    ∃ r, apply env s p v = r ∧ s = s := ⟨_, rfl, rfl⟩

/-! ## 3. Compatibility: `a.is_compatible(b)` ⇒ every value `b` accepts is accepted by `a` -/

def C04_compat_Full : Prop :=
  ∀ (env : Env) (a b : Spec) (v : Val), isCompatible env a b = true → accepts env b v = true →
    accepts env a v = true

/-- F40: `Int()` is compatible with `Int().freeze(2)`, which accepts `2.0` (== before type check). -/
theorem C04_compat_counterexample_F40 : ¬ C04_compat_Full := by
  intro h
  have := h env0 (.int none none F0) (.int none none ⟨false, .int 2, true⟩) (.float ⟨2, 0⟩) (by rfl) (by rfl)
  revert this; decide

/-- F41: `Enum([1, 2])` is compatible with `Enum([1.0, 2.0])` but rejects `1.0`. -/
theorem C04_compat_counterexample_F41 : ¬ C04_compat_Full := by
  intro h
  have := h env0 (.enum [.int 1, .int 2] F0) (.enum [.float ⟨1, 0⟩, .float ⟨2, 0⟩] F0) (.float ⟨1, 0⟩) (by rfl) (by rfl)
  revert this; decide

/-- F42: `Dict([('x', Int())])` is compatible with `Dict([('x', Int(default=1))])`; only the latter
accepts `{}`. -/
theorem C04_compat_counterexample_F42 : ¬ C04_compat_Full := by
  intro h
  have := h env0 (.dict (some [.mk (.const "x") (.int none none F0)]) ⟨false, .dict [("x", .missing)], false⟩)
    (.dict (some [.mk (.const "x") (.int none none ⟨false, .int 1, false⟩)]) ⟨false, .dict [("x", .int 1)], false⟩)
    (.dict []) (by rfl) (by rfl)
  revert this; decide

/-- F43: `Union([Float(), Int(max_value=1)])` is compatible with `Float()`, which accepts the int 2;
the union routes 2 to its Int candidate. -/
theorem C04_compat_counterexample_F43 : ¬ C04_compat_Full := by
  intro h
  have := h env0 (.union [.float none none F0, .int none (some 1) F0] F0) (.float none none F0) (.int 2) (by rfl) (by rfl)
  revert this; decide

/-- F09: `is_compatible` ignores `frozen`: `Int().freeze(1)` declares itself compatible with `Int()`
yet rejects 2 (kept: `pg.boilerplate_class` depends on frozen being ignored). -/
theorem C04_compat_counterexample_F09 : ¬ C04_compat_Full := by
  intro h
  have := h env0 (.int none none ⟨false, .int 1, true⟩) (.int none none F0) (.int 2) (by rfl) (by rfl)
  revert this; decide

/-- F09b: `List._is_compatible` ignores `min_size` (kept: `value_specs_test.py:1121` asserts it). -/
theorem C04_compat_counterexample_F09b : ¬ C04_compat_Full := by
  intro h
  have := h env0 (.list (.int none none F0) 2 none F0) (.list (.int none none F0) 0 none F0) (.list []) (by rfl) (by rfl)
  revert this; decide

/-- F09c (repaired by fixes/C04-F09.patch): a non-noneable union is no longer declared compatible
with a noneable one. -/
theorem C04_compat_F09c_repaired :
    isCompatible env0 (.union [.int none none F0, .str none F0] F0)
      (.union [.int none none F0, .str none F0] ⟨true, .missing, false⟩) = false := by
  rfl

theorem Num.lt_ofInt' (a b : Int) : Num.lt ⟨a, 0⟩ (Num.ofInt b) = decide (a < b) := by
  simp [Num.lt, Num.ofInt]

theorem Num.lt_ofInt'' (a b : Int) : Num.lt (Num.ofInt a) ⟨b, 0⟩ = decide (a < b) := by
  simp [Num.lt, Num.ofInt]

/-- `Number._is_compatible` is sound for integer bounds: a value inside the other's range is inside
the receiver's range. -/
theorem outOfRange_mono_int (lo hi olo ohi : Option Int) (n : Int)
    (hc : numCompat (lo.map Num.ofInt) (hi.map Num.ofInt) (olo.map Num.ofInt) (ohi.map Num.ofInt) = true)
    (hv : outOfRange (olo.map Num.ofInt) (ohi.map Num.ofInt) ⟨n, 0⟩ = false) :
    outOfRange (lo.map Num.ofInt) (hi.map Num.ofInt) ⟨n, 0⟩ = false := by
  unfold numCompat at hc
  unfold outOfRange at hv ⊢
  rw [Bool.and_eq_true] at hc
  rw [Bool.or_eq_false_iff] at hv ⊢
  obtain ⟨h1, h2⟩ := hc
  obtain ⟨v1, v2⟩ := hv
  constructor
  · cases lo with
    | none => rfl
    | some l =>
      cases olo with
      | none => simp at h1
      | some ol =>
        simp only [Option.map_some, Num.lt_ofInt, Num.lt_ofInt', Bool.not_eq_true', decide_eq_false_iff_not] at h1 v1 ⊢
        omega
  · cases hi with
    | none => rfl
    | some h =>
      cases ohi with
      | none => simp at h2
      | some oh =>
        simp only [Option.map_some, Num.lt_ofInt, Num.lt_ofInt'', Bool.not_eq_true', decide_eq_false_iff_not] at h2 v2 ⊢
        omega

/-- Integer range specs (any bounds, any noneable / default flags on either side, both
non-frozen): compatibility is sound for every value.  Excluded: a frozen receiver (`hf'`, F09) and
a frozen other spec (`hb`, F40). -/
theorem C04_compat_partial_int (env : Env) (lo hi olo ohi : Option Int) (f g : Flags)
    (hf' : f.frozen = false) (hb : g.frozen = false) (v : Val)
    (hc : isCompatible env (.int lo hi f) (.int olo ohi g) = true)
    (hv : accepts env (.int olo ohi g) v = true) : accepts env (.int lo hi f) v = true := by
  simp only [isCompatible] at hc
  · simp only [Bool.and_eq_true, Bool.not_eq_true'] at hc
    obtain ⟨hn, hr⟩ := hc
    rw [accepts_int env _ _ _ hb] at hv
    rw [accepts_int env _ _ _ hf']
    cases v with
    | none =>
      simp only at hv ⊢
      cases hfn : f.noneable
      · simp [hfn, hv] at hn
      · rfl
    | int i =>
      simp only [Bool.not_eq_true'] at hv ⊢
      simp [outOfRange_mono_int lo hi olo ohi i hr (by simpa using hv)]
    | bool b =>
      simp only [Bool.not_eq_true'] at hv ⊢
      simp [outOfRange_mono_int lo hi olo ohi _ hr (by simpa using hv)]
    | _ => simp at hv

/-- **Compatibility is sound on `CompatOk`** (PgProofs/TypingCompat.lean), by mutual structural
induction on the receiver: for every class environment with a transitive subclass relation, all
specs `a`, `b` with `CompatOk a b` — `Any`, `Bool`, `Int` / `Float` ranges, `Str`, `Enum`, `List`,
fixed and variable `Tuple`, schema-less `Dict`, `Dict` with a constant-key schema, `Object`, nested
to any depth, any noneable / default flags — and every value.  `CompatOk` is the explicit decidable conjunction of the
exclusions; each conjunct is forced by a finding (theorems `C04_compat_exclusion_*` below). -/
theorem C04_compat_partial (env : Env) (ht : SubTrans env) (a b : Spec) (hok : CompatOk a b = true)
    (hc : isCompatible env a b = true) (v : Val) (hv : accepts env b v = true) :
    accepts env a v = true :=
  compat_sound env ht a b hok hc v hv

/-- `env0` has a transitive subclass relation. -/
theorem env0_trans : SubTrans env0 := by
  intro a b c h1 h2
  simp only [env0, Bool.or_eq_true, Bool.and_eq_true, beq_iff_eq] at *
  omega

/-! Each conjunct of `CompatOk` is needed: at the witness of the finding the pair is compatible,
the other spec accepts the value, the receiver rejects it, and exactly the named conjunct fails. -/

/-- receiver not frozen (F09). -/
theorem C04_compat_exclusion_F09 :
    let a : Spec := .int none none ⟨false, .int 1, true⟩; let b : Spec := .int none none F0
    CompatOk a b = false ∧ CompatOk (a.setFlags F0) b = true ∧ isCompatible env0 a b = true ∧
      accepts env0 b (.int 2) = true ∧ accepts env0 a (.int 2) = false := by decide

/-- other side not frozen (F40). -/
theorem C04_compat_exclusion_F40 :
    let a : Spec := .int none none F0; let b : Spec := .int none none ⟨false, .int 2, true⟩
    CompatOk a b = false ∧ CompatOk a (b.setFlags F0) = true ∧ isCompatible env0 a b = true ∧
      accepts env0 b (.float ⟨2, 0⟩) = true ∧ accepts env0 a (.float ⟨2, 0⟩) = false := by decide

/-- a frozen other side also accepts `MISSING_VALUE` (returns its default), `Any()` does not. -/
theorem C04_compat_exclusion_frozen_missing :
    let a : Spec := .any ⟨true, .missing, false⟩; let b : Spec := .int none none ⟨false, .int 2, true⟩
    CompatOk a b = false ∧ isCompatible env0 a b = true ∧
      accepts env0 b .missing = true ∧ accepts env0 a .missing = false := by decide

/-- `Enum`/`Enum`: same candidate value type (F41). -/
theorem C04_compat_exclusion_F41 :
    let a : Spec := .enum [.int 1, .int 2] F0; let b : Spec := .enum [.float ⟨1, 0⟩, .float ⟨2, 0⟩] F0
    CompatOk a b = false ∧ enumVT [.int 1, .int 2] ≠ enumVT [.float ⟨1, 0⟩, .float ⟨2, 0⟩] ∧
      isCompatible env0 a b = true ∧
      accepts env0 b (.float ⟨1, 0⟩) = true ∧ accepts env0 a (.float ⟨1, 0⟩) = false := by decide

/-- `List`/`List`: the receiver's `min_size` must not be larger (F09b). -/
theorem C04_compat_exclusion_F09b :
    let a : Spec := .list (.int none none F0) 2 none F0; let b : Spec := .list (.int none none F0) 0 none F0
    CompatOk a b = false ∧ CompatOk (.list (.int none none F0) 0 none F0) b = true ∧
      isCompatible env0 a b = true ∧
      accepts env0 b (.list []) = true ∧ accepts env0 a (.list []) = false := by decide

/-- `Str`: a receiver regex the other side does not have (regexes are outside the claim; here with
an environment whose only regex matches nothing). -/
theorem C04_compat_exclusion_regex :
    let env : Env := ⟨fun a b => a == b, fun _ _ => false⟩
    let a : Spec := .str (some 0) F0; let b : Spec := .str none F0
    CompatOk a b = false ∧ CompatOk b b = true ∧ isCompatible env a b = true ∧
      accepts env b (.str "x") = true ∧ accepts env a (.str "x") = false := by decide

/-- An `Any` receiver must be noneable (`Any.__init__` enforces it). -/
theorem C04_compat_exclusion_any :
    let a : Spec := .any F0; let b : Spec := .int none none ⟨true, .missing, false⟩
    CompatOk a b = false ∧ isCompatible env0 a b = true ∧
      accepts env0 b .none = true ∧ accepts env0 a .none = false := by decide

/-- `Dict` with schema: a shared field of the other side must not carry a default (F42). -/
theorem C04_compat_exclusion_F42 :
    let a : Spec := .dict (some [.mk (.const "x") (.int none none F0)]) ⟨false, .dict [("x", .missing)], false⟩
    let b : Spec := .dict (some [.mk (.const "x") (.int none none ⟨false, .int 1, false⟩)]) ⟨false, .dict [("x", .int 1)], false⟩
    let b0 : Spec := .dict (some [.mk (.const "x") (.int (some 0) none F0)]) ⟨false, .dict [("x", .missing)], false⟩
    CompatOk a b = false ∧ CompatOk a b0 = true ∧ isCompatible env0 a b = true ∧
      accepts env0 b (.dict []) = true ∧ accepts env0 a (.dict []) = false := by decide

/-- **Compatibility is sound for `Union` receivers on `CompatOkUnion`** (PgProofs/TypingUnion.lean):
non-frozen candidates that are leaves (no `Any` / `Enum` / nested `Union`) of pairwise disjoint
value types — so that `Union._apply` routes every value to the one candidate that can accept it —
against any non-union `b` that is in `CompatOk` with the candidates of its class. -/
theorem C04_compat_partial_union (env : Env) (ht : SubTrans env) (cands : List Spec) (f : Flags)
    (b : Spec) (hok : CompatOkUnion cands f b = true)
    (hc : isCompatible env (.union cands f) b = true) (v : Val) (hv : accepts env b v = true) :
    accepts env (.union cands f) v = true :=
  compat_sound_union env ht cands f b hok hc v hv

/-- The disjointness conjunct is needed (F43): `Float` and `Int` candidates overlap on ints (the
int→float converter), and with the `Int` candidate removed the pair is inside the class. -/
theorem C04_compat_exclusion_F43 :
    let b : Spec := .float none none F0
    CompatOkUnion [.float none none F0, .int none (some 1) F0] F0 b = false ∧
    simpleUnion [.float none none F0, .int none (some 1) F0] = false ∧
    CompatOkUnion [.float none none F0, .str none F0] F0 b = true ∧
    isCompatible env0 (.union [.float none none F0, .int none (some 1) F0] F0) b = true ∧
    accepts env0 b (.int 2) = true ∧
    accepts env0 (.union [.float none none F0, .int none (some 1) F0] F0) (.int 2) = false := by decide

example : accepts env0 (.union [.float (some ⟨0, 0⟩) none F0, .str none F0] F0) (.int 2) = true :=
  C04_compat_partial_union env0 env0_trans _ _ (.float (some ⟨1, 0⟩) none F0) (by decide) (by decide) _ (by decide)

/-- Environment in which every regular expression matches every string. -/
def envR : Env := ⟨fun a b => a == b, fun _ _ => true⟩

/-- NEW (found while delimiting `CompatOk`; not covered by F09–F47; replayed on the real code):
dynamic keys are dispatched to the *first* matching `StrKey` in declaration order
(class_schema.py `Schema.resolve`), while `Schema.is_compatible` compares the fields key by key.
`Dict([(StrKey('a.*'), Int()), (StrKey('.*b'), Str())])` is compatible with the same schema in the
other order; the latter accepts `{'ab': 'x'}`, the former raises TypeError. -/
theorem C04_compat_counterexample_keyorder : ¬ C04_compat_Full := by
  intro h
  have := h envR
    (.dict (some [.mk (.strKey (some 0)) (.int none none F0), .mk (.strKey (some 1)) (.str none F0)]) ⟨false, .dict [], false⟩)
    (.dict (some [.mk (.strKey (some 1)) (.str none F0), .mk (.strKey (some 0)) (.int none none F0)]) ⟨false, .dict [], false⟩)
    (.dict [("ab", .str "x")]) (by rfl) (by rfl)
  revert this; decide

/-! ## 4. Extension only narrows -/

def C04_extend_Full : Prop :=
  ∀ (env : Env) (child base c' : Spec) (v : Val), extend env child base = .ok c' →
    (accepts env c' v = true → accepts env base v = true) ∧ isCompatible env base c' = true

/-- F44: `Int().freeze(5).extend(Int(max_value=3))` accepts 5, the base rejects it. -/
theorem C04_extend_counterexample_F44 : ¬ C04_extend_Full := by
  intro h
  have := (h env0 (.int none none ⟨false, .int 5, true⟩) (.int none (some 3) F0)
    (.int none (some 3) ⟨false, .int 5, true⟩) (.int 5) (by rfl)).1 (by rfl)
  revert this; decide

/-- F45: `Enum(1, [1, 2]).extend(Int())` succeeds but `Int().is_compatible(result)` is False. -/
theorem C04_extend_counterexample_F45 : ¬ C04_extend_Full := by
  intro h
  have := (h env0 (.enum [.int 1, .int 2] ⟨false, .int 1, false⟩) (.int none none F0)
    (.enum [.int 1, .int 2] ⟨false, .int 1, false⟩) (.int 1) (by rfl)).2
  revert this; decide

/-- F42 through `extend` (replayed on the real code, signature `extend-unsound:dict-field-default-ignored`):
`Dict([('x', Int(default=1))]).extend(Dict([('x', Int())]))` succeeds and accepts `{}` (the child's field
default fills the key), the base rejects `{}` — field defaults are not compared by schema extension.
Any positive extend theorem for Dict children has to exclude differing defaults of shared fields. -/
theorem C04_extend_counterexample_dict_default : ¬ C04_extend_Full := by
  intro h
  have := (h env0
    (.dict (some [.mk (.const "x") (.int none none ⟨false, .int 1, false⟩)]) ⟨false, .dict [("x", .int 1)], false⟩)
    (.dict (some [.mk (.const "x") (.int none none F0)]) ⟨false, .dict [("x", .missing)], false⟩)
    (.dict (some [.mk (.const "x") (.int none none ⟨false, .int 1, false⟩)]) ⟨false, .dict [("x", .int 1)], false⟩)
    (.dict []) (by rfl)).1 (by rfl)
  revert this; decide

/-- F125 (replayed on the real code): `Union([Float(), Str()]).extend(Union([Int(min_value=4), Float(), Str()]))`
succeeds; the extended union accepts the int 1 (converted to 1.0), the base routes 1 to its Int
candidate and rejects it.  Any positive extend theorem for Union children has to exclude bases with a
candidate that takes the value's Python type before the matching one (the F43 dispatch defect). -/
theorem C04_extend_counterexample_F125 : ¬ C04_extend_Full := by
  intro h
  have := (h env0
    (.union [.float none none F0, .str none F0] F0)
    (.union [.int (some 4) none F0, .float none none F0, .str none F0] F0)
    (.union [.float none none F0, .str none F0] F0)
    (.int 1) (by rfl)).1 (by rfl)
  revert this; decide

/-- F46: `Tuple(Int(), max_size=2).extend(Tuple(Int(), min_size=2))` has `min == max == 2` with one
element spec and accepts `(1,)`. -/
theorem C04_extend_counterexample_F46 : ¬ C04_extend_Full := by
  intro h
  have := (h env0 (.tuple [.int none none F0] 0 (some 2) F0) (.tuple [.int none none F0] 2 none F0)
    (.tuple [.int none none F0] 2 (some 2) F0) (.tuple [.int 1]) (by rfl)).1 (by rfl)
  revert this; decide


theorem ExtOk_flags (child base : Spec) (h : ExtOk child base = true) :
    child.flags.frozen = false ∧ base.isUnion = false := by
  cases child <;> simp only [ExtOk, Bool.and_eq_true, Bool.not_eq_true', Bool.false_eq_true] at h <;>
    refine ⟨h.1, ?_⟩ <;> cases base <;> simp_all [Spec.isUnion]

/-- For a non-frozen child the returned spec is the (mutated) child. -/
theorem extend_eq_extendSelf (env : Env) (child base : Spec) (hok : ExtOk child base = true) :
    extend env child base = extendSelf env child base := by
  obtain ⟨hcf, hbu⟩ := ExtOk_flags child base hok
  unfold extend
  cases hpre : extendPre env child base with
  | error e => cases child <;> rw [extendSelf, hpre]
  | ok r =>
    obtain ⟨_, hr⟩ := extendPre_ok env child base r hcf hbu hpre
    split at hr
    · subst hr; rfl
    · rw [hr.1]

/-- **Extension only narrows, on `ExtOk`** (PgProofs/TypingExtend.lean), by mutual structural
induction on the child: if `child.extend(base)` succeeds with result `c'` then every value `c'`
accepts is accepted by `base`, and `base.is_compatible(c')`.  Covered: non-frozen children of class
`Any`, `Bool`, `Int` and `Float` ranges (all bound combinations, exact dyadic floats), `Str`,
`Enum` over `Enum`, `List` (element, `min_size`, `max_size`), fixed / variable `Tuple` in all four
combinations, schema-less `Dict`, `Object` (any transitive class environment), each over a base of
the same class or a noneable `Any`, nested to any depth, any noneable / default flags. -/
theorem C04_extend_partial (env : Env) (ht : SubTrans env) (child base c' : Spec)
    (hok : ExtOk child base = true) (h : extend env child base = .ok c') :
    (∀ v, accepts env c' v = true → accepts env base v = true) ∧ isCompatible env base c' = true := by
  rw [extend_eq_extendSelf env child base hok] at h
  obtain ⟨h1, h2⟩ := extend_ok env child base c' hok h
  exact ⟨fun v hv => compat_sound env ht base c' h2 h1 v hv, h1⟩

/-- The nested form (what `List` / `Tuple` / `Field.extend` keep of an element extension). -/
theorem C04_extendSelf_partial (env : Env) (ht : SubTrans env) (child base c' : Spec)
    (hok : ExtOk child base = true) (h : extendSelf env child base = .ok c') :
    (∀ v, accepts env c' v = true → accepts env base v = true) ∧ isCompatible env base c' = true ∧
      CompatOk base c' = true := by
  obtain ⟨h1, h2⟩ := extend_ok env child base c' hok h
  exact ⟨fun v hv => compat_sound env ht base c' h2 h1 v hv, h1, h2⟩

/-- **Extension only narrows for `Union` children** (PgProofs/TypingExtendUnion.lean): a non-frozen
simple union extending a non-frozen simple union — candidates are non-frozen leaves of pairwise
disjoint value types, on BOTH sides, so that `Union._apply` routes every value to the one candidate
that can accept it (the complement of the F43 / F125 condition: no `Int` next to a `Float`) — whose
candidates are each in `ExtOk` with the base candidate `_base_candidate` picks.  Every value the
extended union accepts is accepted by the base union, and `base.is_compatible(result)`. -/
theorem C04_extend_partial_union (env : Env) (ht : SubTrans env) (cands : List Spec) (f : Flags)
    (bcs : List Spec) (bf : Flags) (c' : Spec) (hok : ExtOkUnion env cands f bcs bf = true)
    (h : extend env (.union cands f) (.union bcs bf) = .ok c') :
    (∀ v, accepts env c' v = true → accepts env (.union bcs bf) v = true) ∧
      isCompatible env (.union bcs bf) c' = true :=
  extend_union_ok env ht cands f bcs bf c' hok h

/-- F292 is repaired (fixes/C04-F292.patch): the candidate that `get_candidate` resolves in a Union base
is subject to the frozen-base guard, as a base given directly is — `Float().extend(Union([Float(0..1)
frozen at 0.5, Str()]))` raises (before the repair it succeeded with a result accepting 0.75). -/
theorem C04_F292_repaired :
    extend env0 (.float none none F0)
      (.union [.float (some ⟨0, 0⟩) (some ⟨1, 0⟩) ⟨false, .float ⟨1, 1⟩, true⟩, .str none F0] F0) = .error .type ∧
    extend env0 (.float none none F0) (.float (some ⟨0, 0⟩) (some ⟨1, 0⟩) ⟨false, .float ⟨1, 1⟩, true⟩) = .error .type :=
  ⟨rfl, rfl⟩

/-- The simplicity of the BASE union is needed (F125): with `Int(min_value=4)` next to `Float()` the
base routes the int 1 to its `Int` candidate; without that candidate the pair is inside the class. -/
theorem C04_extend_exclusion_F125 :
    let cands : List Spec := [.float none none F0, .str none F0]
    let bcs : List Spec := [.int (some 4) none F0, .float none none F0, .str none F0]
    ExtOkUnion env0 cands F0 bcs F0 = false ∧ simpleUnion bcs = false ∧
    ExtOkUnion env0 cands F0 [.float none none F0, .str none F0] F0 = true ∧
    (∃ c', extend env0 (.union cands F0) (.union bcs F0) = .ok c' ∧ accepts env0 c' (.int 1) = true) ∧
    accepts env0 (.union bcs F0) (.int 1) = false := by
  refine ⟨by decide, by decide, by decide, ⟨_, rfl, by decide⟩, by decide⟩

/-- … and of the CHILD union (F43 on the extended side): `Union([Int(), Float(max_value=0)])` over
`Union([Float(max_value=0), Str()])`: the `Int` candidate has no base candidate, `extend` raises. -/
example : ExtOkUnion env0 [.int none none F0, .float none (some ⟨0, 0⟩) F0] F0
    [.float none (some ⟨0, 0⟩) F0, .str none F0] F0 = false := by decide

/-- Non-vacuity: a nested instance inside the class, with the conclusion instantiated. -/
def exUC : List Spec := [.list (.int (some 1) none F0) 0 (some 2) F0, .float (some ⟨1, 0⟩) none F0]
def exUB : List Spec := [.str none F0, .float none (some ⟨9, 0⟩) F0, .list (.int none (some 7) F0) 0 (some 3) F0]
example : ExtOkUnion env0 exUC F0 exUB ⟨true, .none, false⟩ = true := by decide
example : extend env0 (.union exUC F0) (.union exUB ⟨true, .none, false⟩) =
    .ok (.union [.list (.int (some 1) (some 7) F0) 0 (some 2) F0, .float (some ⟨1, 0⟩) (some ⟨9, 0⟩) F0] F0) := by rfl

/-- **Extension only narrows for `Dict` children with a schema** (PgProofs/TypingExtendDict.lean):
a non-frozen `Dict(fs)` extending `Dict(bfs)`, const keys (distinct) on both sides, where the child
declares no key the base lacks, every shared field pair is in `ExtOk` (so: any depth of lists /
tuples / leaves below) and carries no default — the exact complement of the F42 condition: a field
default fills in a key the base requires — and a base field the child does not override is compatible
with itself and has no default.  `Schema.extend` merges base-first; the merged schema accepts only
what the base schema accepts, and `base.is_compatible(result)`. -/
theorem C04_extend_partial_dict (env : Env) (ht : SubTrans env) (fs : List Field) (f : Flags)
    (bfs : List Field) (bf : Flags) (c' : Spec) (hok : ExtOkDict env fs f bfs = true)
    (h : extend env (.dict (some fs) f) (.dict (some bfs) bf) = .ok c') :
    (∀ v, accepts env c' v = true → accepts env (.dict (some bfs) bf) v = true) ∧
      isCompatible env (.dict (some bfs) bf) c' = true := by
  have hcf : f.frozen = false := by
    simp only [ExtOkDict, Bool.and_eq_true, Bool.not_eq_true'] at hok
    exact hok.1.1.1.1.1.1
  have he : extend env (.dict (some fs) f) (.dict (some bfs) bf) =
      extendSelf env (.dict (some fs) f) (.dict (some bfs) bf) := by
    unfold extend
    cases hpre : extendPre env (.dict (some fs) f) (.dict (some bfs) bf) with
    | error e => rw [extendSelf, hpre]
    | ok r =>
      obtain ⟨_, hr⟩ := extendPre_ok env (.dict (some fs) f) _ r hcf rfl hpre
      split at hr
      · subst hr; rfl
      · rw [hr.1]
  rw [he] at h
  obtain ⟨h1, h2⟩ := extend_dict_ok env fs f bfs bf c' hok h
  exact ⟨fun v hv => compat_sound env ht _ c' h2 h1 v hv, h1⟩

/-- A default on a shared child field is excluded (F42 through `extend`): the child's `Int(default=1)`
fills the key the base requires. -/
theorem C04_extend_exclusion_F42 :
    let fs : List Field := [.mk (.const "x") (.int none none ⟨false, .int 1, false⟩)]
    let bfs : List Field := [.mk (.const "x") (.int none none F0)]
    ExtOkDict env0 fs ⟨false, .dict [("x", .int 1)], false⟩ bfs = false ∧
    ExtOkDict env0 [.mk (.const "x") (.int none none F0)] ⟨false, .dict [("x", .missing)], false⟩ bfs = true ∧
    (∃ c', extend env0 (.dict (some fs) ⟨false, .dict [("x", .int 1)], false⟩)
        (.dict (some bfs) ⟨false, .dict [("x", .missing)], false⟩) = .ok c' ∧
      accepts env0 c' (.dict []) = true) ∧
    accepts env0 (.dict (some bfs) ⟨false, .dict [("x", .missing)], false⟩) (.dict []) = false := by
  refine ⟨by decide, by decide, ⟨_, rfl, by decide⟩, by decide⟩

/-- A key the base does not declare is excluded: schema extension adds fields by design, the
extended dict then accepts a key the base rejects (and `base.is_compatible(result)` is False). -/
theorem C04_extend_exclusion_added_field :
    let fs : List Field := [.mk (.const "x") (.int none none F0), .mk (.const "y") (.int none none F0)]
    let bfs : List Field := [.mk (.const "x") (.int none none F0)]
    let d0 : Flags := ⟨false, .dict [("x", .missing)], false⟩
    ExtOkDict env0 fs ⟨false, .dict [("x", .missing), ("y", .missing)], false⟩ bfs = false ∧
    (∃ c', extend env0 (.dict (some fs) ⟨false, .dict [("x", .missing), ("y", .missing)], false⟩)
        (.dict (some bfs) d0) = .ok c' ∧
      accepts env0 c' (.dict [("x", .int 1), ("y", .int 2)]) = true ∧
      isCompatible env0 (.dict (some bfs) d0) c' = false) ∧
    accepts env0 (.dict (some bfs) d0) (.dict [("x", .int 1), ("y", .int 2)]) = false := by
  refine ⟨by decide, ⟨_, rfl, by decide, by decide⟩, by decide⟩

/-- Non-vacuity: nested element specs, a base field the child does not override, different order. -/
def exDC : List Field := [.mk (.const "y") (.list (.int (some 1) none F0) 0 (some 2) F0),
  .mk (.const "x") (.float (some ⟨1, 0⟩) none F0)]
def exDBs : List Field := [.mk (.const "x") (.float none (some ⟨9, 0⟩) F0),
  .mk (.const "y") (.list (.int none (some 7) F0) 0 (some 3) F0), .mk (.const "z") (.str none F0)]
example : ExtOkDict env0 exDC F0 exDBs = true := by decide
example : isOk (extend env0 (.dict (some exDC) F0) (.dict (some exDBs) F0)) = true := by decide

/-! Each conjunct of `ExtOk` is needed. -/

/-- child not frozen (F44). -/
theorem C04_extend_exclusion_F44 :
    let child : Spec := .int none none ⟨false, .int 5, true⟩; let base : Spec := .int none (some 3) F0
    ExtOk child base = false ∧ ExtOk (child.setFlags F0) base = true ∧
      (∃ c', extend env0 child base = .ok c' ∧ accepts env0 c' (.int 5) = true) ∧
      accepts env0 base (.int 5) = false := by
  refine ⟨by decide, by decide, ⟨_, rfl, by decide⟩, by decide⟩

/-- `Enum` only over an `Enum` base (F45). -/
theorem C04_extend_exclusion_F45 :
    let child : Spec := .enum [.int 1, .int 2] ⟨false, .int 1, false⟩; let base : Spec := .int none none F0
    ExtOk child base = false ∧
      (∃ c', extend env0 child base = .ok c' ∧ isCompatible env0 base c' = false) := by
  refine ⟨by decide, ⟨_, rfl, by decide⟩⟩

/-- variable `Tuple` over variable `Tuple`: the merged sizes must not be equal (F46). -/
theorem C04_extend_exclusion_F46 :
    let child : Spec := .tuple [.int none none F0] 0 (some 2) F0
    let base : Spec := .tuple [.int none none F0] 2 none F0
    ExtOk child base = false ∧ ExtOk (.tuple [.int none none F0] 0 (some 3) F0) base = true ∧
      (∃ c', extend env0 child base = .ok c' ∧ accepts env0 c' (.tuple [.int 1]) = true) ∧
      accepts env0 base (.tuple [.int 1]) = false := by
  refine ⟨by decide, by decide, ⟨_, rfl, by decide⟩, by decide⟩

/-- `Str`: two different regexes (outside the claim): the child keeps its own. -/
theorem C04_extend_exclusion_regex :
    let env : Env := ⟨fun a b => a == b, fun r _ => r == 1⟩
    let child : Spec := .str (some 1) F0; let base : Spec := .str (some 0) F0
    ExtOk child base = false ∧
      (∃ c', extend env child base = .ok c' ∧ accepts env c' (.str "x") = true) ∧
      accepts env base (.str "x") = false := by
  refine ⟨by decide, ⟨_, rfl, by decide⟩, by decide⟩

/-! Non-vacuity of the hypotheses. -/
example : frag (.list (.tuple [.int (some 0) (some 3) F0, .str none ⟨true, .none, false⟩] 2 (some 2) F0) 1 none F0) = true := by rfl
example : apply env0 (.list (.float (some ⟨1, 1⟩) none F0) 1 none F0) false (.list [.int 1]) = .ok (.list [.float ⟨1, 0⟩]) := by rfl
example : isCompatible env0 (.int (some 0) none F0) (.int (some 1) (some 5) F0) = true := by rfl
example : accepts env0 (.int (some 1) (some 5) F0) (.int 3) = true := by rfl
example : ∃ s', setDefault env0 (.float none none F0) (.int 1) = .ok s' := ⟨_, rfl⟩
example : extend env0 (.int (some 1) none F0) (.int (some 0) (some 9) F0) = .ok (.int (some 1) (some 9) F0) := by rfl


/-! Non-vacuity of `C04_compat_partial` / `C04_extend_partial`: nested witnesses inside the classes,
with the conclusion instantiated. -/
def exA : Spec := .list (.tuple [.float (some ⟨1, 1⟩) none ⟨true, .missing, false⟩, .obj 0 F0] 2 (some 2) F0) 0 (some 5) F0
def exB : Spec := .list (.tuple [.float (some ⟨3, 2⟩) (some ⟨9, 0⟩) F0, .obj 1 F0] 2 (some 2) F0) 1 (some 3) F0
example : CompatOk exA exB = true ∧ isCompatible env0 exA exB = true := by decide
example : accepts env0 exB (.list [.tuple [.int 2, .obj 1 7 false]]) = true := by decide
example : accepts env0 exA (.list [.tuple [.int 2, .obj 1 7 false]]) = true :=
  C04_compat_partial env0 env0_trans exA exB (by decide) (by decide) _ (by decide)
example : CompatOk (.enum [.int 1, .int 2, .int 3] F0) (.enum [.bool true, .int 2] F0) = true ∧
    isCompatible env0 (.enum [.int 1, .int 2, .int 3] F0) (.enum [.bool true, .int 2] F0) = true := by decide
example : CompatOk (.tuple [.int none none F0] 1 none F0) (.tuple [.int (some 0) none F0, .int (some 5) (some 6) F0] 2 (some 2) F0) = true ∧
    isCompatible env0 (.tuple [.int none none F0] 1 none F0) (.tuple [.int (some 0) none F0, .int (some 5) (some 6) F0] 2 (some 2) F0) = true := by decide

def exDA : Spec := .dict (some [.mk (.const "x") (.int none none ⟨true, .int 0, false⟩), .mk (.const "y") (.list (.str none F0) 0 none F0)]) ⟨false, .missing, false⟩
def exDB : Spec := .dict (some [.mk (.const "y") (.list (.str none F0) 1 (some 2) F0), .mk (.const "x") (.int (some 1) none F0)]) ⟨false, .missing, false⟩
example : CompatOk exDA exDB = true ∧ isCompatible env0 exDA exDB = true := by decide
example : accepts env0 exDB (.dict [("x", .int 3), ("y", .list [.str "a"])]) = true := by decide
example : accepts env0 exDA (.dict [("x", .int 3), ("y", .list [.str "a"])]) = true :=
  C04_compat_partial env0 env0_trans exDA exDB (by decide) (by decide) _ (by decide)

def exChild : Spec := .list (.tuple [.float (some ⟨3, 2⟩) none F0] 0 (some 4) F0) 2 none ⟨false, .list [], false⟩
def exBase : Spec := .list (.tuple [.float (some ⟨1, 1⟩) (some ⟨9, 0⟩) ⟨true, .missing, false⟩] 1 none F0) 1 (some 3) ⟨true, .missing, false⟩
example : ExtOk exChild exBase = true := by decide
example : extend env0 exChild exBase =
    .ok (.list (.tuple [.float (some ⟨3, 2⟩) (some ⟨9, 0⟩) F0] 1 (some 4) F0) 2 (some 3) ⟨false, .list [], false⟩) := by rfl
example : ExtOk (.tuple [.int (some 1) none F0, .int none (some 9) F0] 2 (some 2) F0) (.tuple [.int none none ⟨true, .missing, false⟩] 1 (some 2) F0) = true ∧
    isOk (extend env0 (.tuple [.int (some 1) none F0, .int none (some 9) F0] 2 (some 2) F0) (.tuple [.int none none ⟨true, .missing, false⟩] 1 (some 2) F0)) = true := by decide
example : ExtOk (.enum [.int 1] F0) (.enum [.int 1, .bool false] F0) = true ∧
    isOk (extend env0 (.enum [.int 1] F0) (.enum [.int 1, .bool false] F0)) = true := by decide
example : ExtOk (.obj 1 F0) (.obj 0 ⟨true, .missing, false⟩) = true ∧
    isOk (extend env0 (.obj 1 F0) (.obj 0 ⟨true, .missing, false⟩)) = true := by decide

end Pg.Typing
