/-
  C15 — Search algorithms recover their state from history at every crash point.
-/
import PgGen.C15Quirks
namespace Pg.C15

/-- Generated obligation: the current source has the repaired shape of `Deduping.recover/_replay`
and `Evolution.recover`. -/
theorem C15_quirks_patched : currentQuirks = Quirks.patched := by decide

end Pg.C15
